#!/bin/sh
# Build the framework from files on disk only (offline): Lean library + theorems + model driver,
# the Rust harness (against /repo with the `verif` hooks) and the lace binary for process-mode checks.
set -e
cd "$(dirname "$0")"
export CARGO_NET_OFFLINE=true
[ -e repo-link ] || ln -s "${LACE_REPO:-/repo}" repo-link
(cd lean && lake build Lace lacemodel)
(cd harness && cargo build --offline)
cargo build --offline --manifest-path repo-link/Cargo.toml --target-dir target/repo
