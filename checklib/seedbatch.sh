#!/bin/bash
# usage: LABDIR=<lab made by checklib/lab.sh> checklib/seedbatch.sh "<id> <dir with patch.diff demo.sh notes.md> <props...>" ...   (runs checklib/seedtest.py in the lab, one seed after the other)
cd ${LABDIR:-/tmp/lab}/verif
for spec in "$@"; do
  set -- $spec
  id=$1; dir=$2; shift 2
  echo "=== $id ($*)"
  python3 checklib/seedtest.py $id $dir "$@" 2>&1 | tail -25
done
echo BATCH-DONE
