#!/usr/bin/env python3
"""Regenerates /verif/MANIFEST.json from the CLAIMS table below (keeps it valid at all times)."""
import json, os
ROOT = os.path.dirname(os.path.dirname(os.path.abspath(__file__)))

PROOF = "lean-proof+correspondence"
CLAIMS = {
 "C02": {
  "technique": "Lean 4 proof (model of RunState::execute refines bit-field ISA spec for all words/states) + differential correspondence model vs Rust on all 65,536 words",
  "text": "Theorem execute_eq_isa: the Lean model of RunState::execute equals the bit-field ISA specification for every instruction word, machine state, input stream and feature/output setting (no bounds); frame, unsupported-encoding and no-panic theorems follow. The model is tied to the Rust code on every run by executing all 65,536 instruction words on sampled boundary states in both and comparing registers, PC, CC, every memory word, stdout and consumed input.",
  "note": "Trusted: Lean kernel; axioms propext, Classical.choice, Quot.sound; the hand-written model is validated against the code by differential testing only (all words x sampled states); Rust formatting re-implemented in Lean; REG output modelled in both output modes (normal-mode table: Lace/Basic/Tables.lean); RTI excluded.",
  "ref": "DESIGN.md §4 C02"},
 "C03": {
  "technique": "Lean 4 proof (loader = spec, run loop = reference loop for all fuel, fetch addresses always in user space, no panic) + differential correspondence on generated programs and raw images",
  "text": "Theorems load_spec, run_eq_ref, fetch_in_bounds, run_panic_only_rti hold for every image, input and step count. The model of from_raw/run is tied to the Rust code on every run by executing generated terminating programs and arbitrary word images in both under a step budget and comparing outcome, exit status, final machine (all 65,536 words), stdout, input consumed and the fetch-address trace; the no-out-of-bounds-fetch predicate is also checked directly on the implementation's event log. GETC/IN from an interactive terminal (term::read_byte, unreachable with piped input) are tied by spawning `lace run` with a pseudo-terminal on stdin and typing ASCII and 2/3/4-byte keys (harness id C03T): a key of N UTF-8 bytes must behave as N input bytes.",
  "note": "Trusted: Lean kernel; axioms propext, Classical.choice, Quot.sound; model validated by differential testing; stderr text not modelled; the reference loop and the model loop have the same shape by nature (the value is in fetch_in_bounds, load_spec, no-panic and the trap clauses of C02).",
  "ref": "DESIGN.md §4 C03"},
 "C20": {
  "technique": "Lean 4 proof (one-step simulation of Terminal::handle_key against a reference editor + invariant, induction over all key sequences, all classifiers) + exhaustive/differential correspondence through hooks on the real Terminal",
  "text": "Theorems editor_no_panic, cursor_in_bounds, submit_eq_reference (and commands_eq_split for the `;` splitting) hold for every key sequence of any length, every character classifier and every history of non-blank lines. The model of terminal.rs is tied to the Rust code on every run by driving the real handle_key/read_line/get_next_command through cfg(verif) hooks on all key sequences up to length 4 (5 thorough) over a 15-key alphabet from three histories plus random long sequences, comparing buffer, cursor, history index, current line and submitted text after every key, three-way with the reference editor. In addition (harness id C20T) ~80 sessions per run are typed into a real `lace debug` on a pseudo-terminal as the byte sequences a terminal sends (UTF-8, DEL, CSI sequences for arrows / Ctrl+arrows / Delete, CR), so crossterm's decoding, term::Key::try_from, raw-mode handling, get_next_command, the command parser and the history file are all in the loop; the `@`-marked echo outputs and the final history file must equal the model's and the reference editor's.",
  "note": "Trusted: Lean kernel; axioms propext, Quot.sound; Unicode classification (is_whitespace/is_alphanumeric) is a parameter of the model supplied by Rust at run time; crossterm key decoding and history-file I/O are exercised by the terminal sessions but not modelled; prompt drawing is not checked.",
  "ref": "DESIGN.md §4 C20"},
 "C05": {
  "technique": "Lean 4 proof (assembler model never returns a panic outcome, diagnostics point inside the source, every token consumes input; termination = Lean's totality check) + differential correspondence on grammar-derived, mutated and multi-byte texts",
  "text": "Theorems assemble_no_panic, diag_points_inside, token_progress, assemble_terminates hold for every text (List Char) and both feature settings: every Rust panic site of lexer/parser/AIR (slicing, unreachable!, assert!, u16/i16 overflow) is an explicit outcome of the model and is proved unreachable. The model is tied to the Rust code on every run by assembling ~30k generated texts (grammar-derived programs with token-, byte- and UTF-8-level mutations, size extremes, a corpus of all past witnesses) in both and comparing outcome class, diagnostic kind and span, origin, every word, every statement span and the .break addresses; no-unwind, Report rendering and label-in-source are also checked directly on the implementation.",
  "note": "Trusted: Lean kernel; axioms propext, Classical.choice, Quot.sound; model validated by differential testing; miette rendering exercised, not modelled; memory exhaustion from many `.blkw xFFFF` is out of scope.",
  "ref": "DESIGN.md §4 C05"},
 "C06": {
  "technique": "Lean 4 proof (object-file bytes round-trip, run(obj) = run(src), loader accepts iff loadable, never panics) + process-mode correspondence against the real lace binary",
  "text": "Theorems obj_length, words_of_obj, run_obj_eq_run_src, loader_accepts_iff, loader_never_panics (with C03 load_spec) hold for all word lists, origins and byte strings. The CLI model is tied to the code on every run by spawning the real `lace compile` / `lace run` on generated programs and arbitrary byte files and comparing written bytes, stdout and exit status with the model and the object run with the source run.",
  "note": "Trusted: Lean kernel; axioms propext, Classical.choice, Quot.sound; clap and the OS file system; sources are .orig/.fill programs here (instruction encoding is C01).",
  "ref": "DESIGN.md §4 C06"},
 "C07": {
  "technique": "Lean 4 proof (in the model of main.rs check/compile/run succeed at assembling iff the one assemble() does, for every assembler behaviour incl. emission failure at any statement) + process-mode correspondence of the three commands' exit statuses",
  "text": "Theorems check_ok_imp_compile_ok, compile_err_imp_check_err_and_run_err, check_compile_run_agree, emission_error_fails_check hold for every parse result and every pattern of per-statement emission failures. The model is tied to the code on every run by spawning the real check/compile/run under both feature settings on sources whose only error surfaces at emission (every PC-relative instruction, every statement position, limit-1/limit/limit+1), stack-mnemonic sources and ordinary ones; statuses are compared with the model (driven by the assembler model) and checked directly against the property predicate.",
  "note": "Trusted: Lean kernel; axioms propext, Classical.choice, Quot.sound; clap; `lace watch` is not spawned (it calls the same assemble(); its state reset is C19).",
  "ref": "DESIGN.md §4 C07"},
 "C08": {
  "technique": "Lean 4 proof (compile over a file-system model with destination, temporary sibling and a fault parameter - size limit at any byte count, failing rename - is all-or-nothing for every emission-failure pattern, destination kind and fault) + process-mode fault enumeration against the real lace binary (emission failure at every statement, four destination kinds, RLIMIT_FSIZE write failures at every byte position)",
  "text": "Theorems compile_all_or_nothing_faults, writeAllOrNothing_spec, compile_write_fails_at, compile_all_or_nothing, compile_fail_at, compile_unwritable hold for every assembler outcome, every statement position of an emission failure, every destination kind (absent / existing regular file / /dev/full / uncreatable), every file size limit (a write failing after any number of bytes) and a failing rename; they also show no temporary file is left behind. in_place_truncates states the defect of the previous in-place implementation (fixed in lace 18fb606). Tied to the code on every run by spawning the real `lace compile` with a failure injected at each statement position, with each destination kind and under RLIMIT_FSIZE limits (exhaustive over every byte position of a small object file), comparing exit status, destination bytes and left-over files with the model and directly with the all-or-nothing predicate. Outside the model: a crash between two file operations.",
  "note": "Trusted: Lean kernel; axioms propext, Classical.choice, Quot.sound; the file-system model (create/write_all under a size limit/flush/rename/remove semantics) is an assumption validated only by the spawns; a failing rename is proved about but not injected.",
  "ref": "DESIGN.md §4 C08, §12"},
 "C14": {
  "technique": "Lean 4 proof (integer/command parsers = declarative grammar on all strings, no panic, argument reader = stdin reader, transport independence, `;` = newline) + exhaustive/differential correspondence through cfg(verif) hooks",
  "text": "Theorems parse_integer_eq_grammar, parse_command_eq_grammar, parse_no_panic, reader_lines_valid, read_no_panic, session_no_panic, split_argument_eq_split_stdin, session_eq_lines, transport_independent (+ _semicolon, _argument_only), separators_equivalent, session_eq_script, commandTable_unambiguous, parse_offsets_in_range hold for all strings of any length. The model is tied to the code on every run by parsing ~500k lines (all argument strings up to length 4/5 over a 16-symbol alphabet in 5 templates, boundary literals in every radix, every command name/alias/misspelling in three cases, random multi-byte lines) and every argument/stdin split of 200 scripts through the real parser and readers.",
  "note": "Trusted: Lean kernel; axioms propext, Classical.choice, Quot.sound; str::trim's White_Space set and ASCII case mapping transcribed; the interactive terminal reader is C20. Known finding K1: `sudo` exits the process (deliberate easter egg).",
  "ref": "DESIGN.md §4 C14"},
 "C19": {
  "technique": "Lean 4 proof (assembler model threads the symbol table explicitly; after reset the result is independent of what was assembled before) + sequence correspondence on one thread vs fresh threads",
  "text": "Theorems reset_eq_empty, assemble_after_reset, assemble_deterministic, runSeq_reset_eq_map, watch_recheck_eq_check (and stale_table_matters: without the reset the result DOES depend on history) hold for every symbol table left behind and every source. Purity is structural in a functional model, so the property is carried by the correspondence: sequences of 2-6 sources (valid, failing in the lexer, failing after labels were recorded, sharing label names) assembled on one thread with reset_state() between them vs each on a fresh thread vs the model's runSeq.",
  "note": "Trusted: Lean kernel; axioms propext, Classical.choice, Quot.sound; any hidden state other than the symbol table and feature flags would be visible only to the correspondence, not to the theorem.",
  "ref": "DESIGN.md §4 C19"},
 "C09": {
  "technique": "Lean 4 proof (one-iteration stuttering simulation of the debugged run loop against the plain loop + induction over iterations, all scripts of non-mutating commands) + differential correspondence of whole debugger sessions incl. comparison with the undebugged run",
  "text": "Theorem debug_transparent: for every machine, input, feature setting and every script of non-mutating commands of any length (ended by quit or end of input), a debugged run that ends — normally, with an error exit or in RTI's todo!() — ends exactly as an undebugged run of the same machine: same registers, memory, PC, CC, output, remaining input, exit status. Tied to the code on every run by running ~3k generated sessions on the real debugger and on the model and comparing every observable, plus the plain-vs-debugged verdict on the implementation itself.",
  "note": "Trusted: Lean kernel; axioms propext, Classical.choice, Quot.sound; the hand-written debugger model is validated against the code by differential testing of whole sessions; minimal-mode stderr only; command text parsing is C14; sessions use .orig/.fill sources (real sources: C17).",
  "ref": "DESIGN.md §4 C09"},
 "C10": {
  "technique": "Lean 4 proof (the session executes exactly the plain machine's instruction sequence: paused machine = reference machine advanced by #executed, for all scripts over the stepping alphabet; per-status one-iteration lemmas) + differential correspondence of sessions with the advanced-reference verdict",
  "text": "Theorems paused_machine_on_trajectory (every script over step / step into k / step out / continue / break add/remove / exit, any program, any number of iterations), stepInto_iter, continue_iter, stepOver_iter, stepOver_pauses, stepOut_iter, cmd_step, cmd_stepInto, cmd_refused_at_halt. Big-step statements along the plain machine's trajectory (no breakpoint and no HALT met on the way, program keeps running): stepInto_exact ('step into N' executes exactly N instructions), run_exact, continue_exact, stepOver_exact ('step' on a call executes exactly the instructions up to the first return to the following address and then waits for a command there), stepOut_exact ('step out' executes up to and including the first RET/RETS and then waits). Tied to the code by ~3k sessions per run compared on every observable, with the verdict 'paused machine = undebugged run advanced by #executed' evaluated on the implementation.",
  "note": "Trusted: Lean kernel; axioms propext, Classical.choice, Quot.sound; the hand-written debugger model is validated against the code by differential testing of whole sessions; minimal-mode stderr only; command text parsing is C14; sessions use .orig/.fill sources (real sources: C17).",
  "ref": "DESIGN.md §4 C10"},
 "C11": {
  "technique": "Lean 4 proof (breakpoint list strictly sorted as a loop invariant over all scripts; an armed breakpoint always forces a command read before the loop proceeds; execution re-arms) + differential correspondence of sessions",
  "text": "Theorems bp_sorted_nodup (invariant over any number of iterations under any script), bp_pause_before_exec (any status, any arrival), exec_rearms (incl. one-instruction loops), no_bp_no_pause, runCommand_bps. Tied to the code by ~3k sessions per run with .break placements, run-time add/remove by address/label/PC offset, self-loops and every resuming command, compared on the command/execution interleaving, Reached::Breakpoint lines and the breakpoint list.",
  "note": "Trusted: Lean kernel; axioms propext, Classical.choice, Quot.sound; the hand-written debugger model is validated against the code by differential testing of whole sessions; minimal-mode stderr only; command text parsing is C14; sessions use .orig/.fill sources (real sources: C17).",
  "ref": "DESIGN.md §4 C11"},
 "C12": {
  "technique": "Lean 4 proof (saved initial state is invariant over every iteration and command; reset installs it; the rest of the run equals a fresh plain run) + differential correspondence with full 65,536-word comparison after reset",
  "text": "Theorems initial_never_mutated (any script incl. move/goto/eval/reset, any program incl. self-modifying stores), reset_restores, reset_then_run_eq_fresh_run. The theorem is near-definitional in a functional model; the assurance that the Rust code neither shares nor mutates the saved state comes from the correspondence: histories ending in `reset; exit` must show registers, PC, CC and all 65,536 words equal to the loaded image.",
  "note": "Trusted: Lean kernel; axioms propext, Classical.choice, Quot.sound; the hand-written debugger model is validated against the code by differential testing of whole sessions; minimal-mode stderr only; command text parsing is C14; sessions use .orig/.fill sources (real sources: C17).",
  "ref": "DESIGN.md §4 C12"},
 "C13": {
  "technique": "Lean 4 proof (move changes exactly the named cell; a location is accepted iff its true address computed in Z lies in [orig, 0xFE00); refusals and inspections change nothing) + differential correspondence of probe sessions",
  "text": "Theorems move_reg_frame, move_mem_frame, resolveUser_spec (absolute, label±offset, PC offset; no 16-bit wrap; origins ≥ 0x8000), oob_refused (move/goto/break add/remove), inspect_readonly (print/registers/assembly/break list). Tied to the code by ~3k probe sessions per run with wild locations and values, comparing the full machine, breakpoint list and error lines.",
  "note": "Trusted: Lean kernel; axioms propext, Classical.choice, Quot.sound; the hand-written debugger model is validated against the code by differential testing of whole sessions; minimal-mode stderr only; command text parsing is C14; sessions use .orig/.fill sources (real sources: C17). resolveUser_spec assumes labels of a program that loaded (line ≥ 1, orig+line−1 < 2^16).",
  "ref": "DESIGN.md §4 C13"},
 "C16": {
  "technique": "Lean 4 proof (every non-executing, non-terminating iteration reads a command — for every script and PC; iterations ≤ executed + commands) + differential correspondence with the iteration count from the run-loop tick hook",
  "text": "Theorems no_spin (all scripts incl. mutating commands, all PCs incl. 0xFFFF, outside user space, on HALT), iter_mono, work_bound (a loop still running after n iterations has executed + read at least n). Tied to the code by ~3k sessions per run on programs that jump to 0xFFFF / out of user space / park on HALT with resuming commands issued there, then end of input; the bound iterations ≤ executed + commands + 1 is checked on the implementation with the tick hook.",
  "note": "Trusted: Lean kernel; axioms propext, Classical.choice, Quot.sound; the hand-written debugger model is validated against the code by differential testing of whole sessions; minimal-mode stderr only; command text parsing is C14; sessions use .orig/.fill sources (real sources: C17).",
  "ref": "DESIGN.md §4 C16"},
 "C01": {
  "technique": "Lean 4 proof (every emitted word = bit-field ISA encoding of its resolved statement, for all statements/origins/label positions; AIR-level image theorem; text-level theorem over an explicit layout space) + three-way correspondence implementation vs model vs specification on abstract programs under random layouts",
  "text": "Proved: emit_eq_encode_holds / emit_ok_iff_fits_holds (every statement form, every operand, the PC-relative arithmetic bridge), emitAll_eq_specWords, image_eq_spec / image_word (when assemble returns an image, word i is encode(stmt_i) at orig+i), image_depends_on_labels_only (definition/use order irrelevant), parse_numbered, backpatchAll_*, stmt_tokens_to_spec (one statement's tokens → the specification's words). Text level, proved in full for a concrete layout space: assemble_image_render / layout_irrelevant_render — for every abstract program P and every layout L with Layout.ok (any non-empty mix of SPACE/TAB/LF/FF/CR/`,`/`:` and `;` comments between tokens, any letter case of mnemonics/directives/registers, every literal spelling readLit accepts, every valid label name incl. ones that begin like a hex literal or register, optional `.end` + ignored text), assemble(render L P) = Prog.image P; hence two layouts of one program give the same image (lexer lemmas lexes_*, advanceRealLoop_gap, preprocess_render, parse_tokens_image). Checked, not proved: that the harness' renderer stays inside render's range (the driver re-derives a layout from each accepted text and evaluates render L P = text ∧ L.ok P on every run). Correspondence: abstract programs (exhaustive operand sweeps at 7 origins, keyword look-alike labels, random programs with dense label graphs) rendered under random layouts; the real assembler's image is compared with the model's (from the text) and the specification's (from the abstract program alone).",
  "note": "Trusted: Lean kernel; axioms propext, Classical.choice, Quot.sound; Layout.ok (lean/Lace/Spec/Render.lean) defines which texts count as layouts of a program (I12); programs of ≥ 65,535 words carry the side condition fullOk.",
  "ref": "DESIGN.md §4 C01"},
 "C04": {
  "technique": "Lean 4 proof (literal accepted iff its word fits the field; assemble succeeds iff every resolved statement fits; accepted words are never truncated; duplicate/undefined label and second .orig rejected) + three-way correspondence on boundary operands",
  "text": "Proved: lit_range_iff (signed imm5/offset6/PC offsets, unsigned trap vector/.orig/.fill), expectLit_lit, accept_iff_fits, no_truncation, reject_is_diag, dup_label_rejected, undefined_label_rejected, second_orig_rejected. Text level, proved in full for the layout space of C01 (Layout.ok does not presuppose that operands fit, labels are defined once, a single .orig or ≤ 65,535 words): accept_iff_wf_render (a layout of an abstract program is accepted iff Prog.image is defined), accept_render_image (whatever is accepted is exactly the specified image: no truncation at the text level), reject_render, illFormed_spec (one witness per reject clause). Correspondence: 19 forms × 14 boundary operands × 4 spellings × 2 origins, label distances at ±2^(n−1) and one beyond, label identity variants, .orig/trap sweeps, 12k random programs with wild operands — accept/reject and the image compared three ways.",
  "note": "Trusted: Lean kernel; axioms propext, Classical.choice, Quot.sound; model validated by differential testing; I1 (a literal denotes a 16-bit word) fixes what 'fits' means.",
  "ref": "DESIGN.md §4 C04"},
 "C18": {
  "technique": "Lean 4 proof (flag-off lexer rejects iff a stack-mnemonic token occurs; flag irrelevant for texts without one; opcode 0xD exits 1 with the flag off and executes per ISA with it on; runs that fetch no 0xD word are identical; Features::from_str = spec; -f position irrelevant) + three-part correspondence (assembler pairs, run pairs, real spawns)",
  "text": "22 theorems in Props/C18.lean and C18Asm.lean, all proved: flag_irrelevant_text, flag_off_rejects_iff, flag_irrelevant_vm, flag_off_opD_exit1, flag_on_executes, flag_irrelevant_run (stated on the words fetched as memory is at fetch time, so self-modifying programs are covered), features_from_str_spec, flag_irrelevant_cli, flag_off_cli_rejects, flag_position_irrelevant, … Correspondence per run: 8k assembler outcome pairs (mnemonics as instruction/label/reference, any case, in comments/strings), 3k run pairs with raw 0xD words reached / not reached / stored at run time, ~280 real spawns of check/compile/run with 22 ways of writing the option, checking that the diagnostic names the feature.",
  "note": "Trusted: Lean kernel; axioms propext, Classical.choice, Quot.sound; clap's option parsing is exercised, not modelled.",
  "ref": "DESIGN.md §4 C18"},
 "C15": {
  "technique": "Lean 4 proof (eval of every statement form at every PC = ISA semantics with label operands as absolute addresses; refusals are no-ops; PC changes only for jumps; eval never panics and exits only as the VM would) + three-way correspondence of real debugger sessions on real assembly sources",
  "text": "Theorems eval_eq_isa_abs (every statement the statement parser can return, every PC / machine / world / symbol table / origin: refusal patterns, AsmLine::new(pc−orig), backpatch, emit, execute = the specification execAbs in which a label denotes orig+line−1; uses exhaustive 65,536-case field lemmas for the 9/10/11-bit PC-relative fields and C02's execute_eq_isa), eval_text_eq_spec, eval_ld_label, eval_st_label, eval_pc_only_jumps_holds, refused_noop, eval_refusals_noop, eval_never_ends_session_holds. parseSimple_no_panic_holds (the statement parser never panics on any text; with parseSimple_diag_inside and eval_text_total) closes the text side: every clause of the property is a proved theorem. Tied to the code by ~5.6k sessions per run on real sources with origins 0x0000–0xFDFF, labels out of reach, every instruction form, off-limits forms, GETC/IN with and without input, compared three ways (implementation, model, specification from the generator's label table).",
  "note": "Trusted: Lean kernel; axioms propext, Classical.choice, Quot.sound; hand-written model validated by differential testing; the link value of JSR/JSRR/CALL under eval is left open by the property and recorded as what lace does (current PC); eval's diagnostic text is collapsed to <evalmsg>.",
  "ref": "DESIGN.md §4 C15"},
 "C17": {
  "technique": "Lean 4 proof (statement span starts at the statement's own token; `assembly a` shows the statement that produced word a or nothing; label±offset resolves to orig+line−1+off computed in Z, for origins ≥ 0x8000 too) + three-way correspondence of `assembly`/`print`/`break`/`goto` on every address and label of real sources",
  "text": "Proved: span_starts_at_statement_token, no_statement_no_text, statement_text, label_resolves, label_out_of_range, unknown_label, span_text_eq_statement_partial (if the spans the assembler reports equal the renderer's, the debugger shows the text the renderer wrote). Also proved: span_covers_operands_holds, multiword_share_span_holds, span_inside_source_holds (every statement span of an assembled image lies on character boundaries inside the source, so `assembly a` never hits the slice panic: show_single_line_no_panic). The unconditional text-level round trip (render a program, slice at the span, get the statement's text back) is stated relative to a renderer that reports what it wrote, which is what the generator does on every run. Tied to the code by ~650 programs per run rendered under wild layouts (operand-less instructions after operand-ful ones, several statements per line, multi-word directives, multi-byte characters, origins ≥ 0x8000, user space ending inside the program, .break/.orig interleaved): `assembly a` for every a in [orig−2, orig+n+2] observed byte for byte, `print/assembly/break add/goto` on label±k, compared with the model (spans from the assembler model) and with the generator's own per-statement text and label table.",
  "note": "Trusted: Lean kernel; axioms propext, Classical.choice, Quot.sound; the generator records what it wrote per statement; minimal output mode; ESC characters in statement text are not generated.",
  "ref": "DESIGN.md §4 C17"},
}

def main():
    props = [json.loads(l) for l in open(os.path.join(ROOT, "properties.jsonl"))]
    extra = {}
    p = os.path.join(ROOT, "checklib", "claims_extra.json")
    if os.path.exists(p):
        extra = json.load(open(p))
    claims = dict(CLAIMS)
    claims.update(extra.get("claims", {}))
    na_reasons = extra.get("not_applicable", {})
    checks = []
    for pid in sorted(claims):
        c = claims[pid]
        checks.append({
            "property_id": pid,
            "quick_cmd": f"./check {pid} --quick",
            "thorough_cmd": f"./check {pid} --thorough",
            "evidence_file": f"/verif/evidence/{pid}.json",
            "replay_cmd_template": f"./check {pid} --replay {{path}}",
            "engine": PROOF,
            "technique": c["technique"],
            "level_claimed": {"category": c.get("category", "proof"), "text": c["text"], "design_ref": c["ref"]},
            "level_note": c["note"],
        })
    hooks = json.load(open(os.path.join(ROOT, "checklib", "hooks.json")))
    m = {
        "version": 1,
        "setup_cmd": "./setup.sh",
        "hooks": hooks,
        "engines": [{"name": PROOF, "path": "/verif/check", "serves_properties": sorted(claims),
                     "kind_free_text": "Lean 4 theorems about a hand-written executable model (lean/), tied to /repo on every run by a Rust harness (harness/) whose observations are diffed against the compiled Lean driver's"}],
        "checks": checks,
        "not_applicable": [{"property_id": p["id"],
                            "reason": na_reasons.get(p["id"], "not yet claimed: model, theorems and correspondence for this property are still being built (DESIGN.md §9 order of work)")}
                           for p in props if p["id"] not in claims],
        "notes": "See DESIGN.md and FRAMEWORK.md. KNOWN_FINDINGS.json lists fixed defects and known findings.",
    }
    json.dump(m, open(os.path.join(ROOT, "MANIFEST.json"), "w"), indent=1)

if __name__ == "__main__":
    main()
