#!/usr/bin/env python3
"""Regenerates /verif/MANIFEST.json from the CLAIMS table below (keeps it valid at all times)."""
import json, os
ROOT = os.path.dirname(os.path.dirname(os.path.abspath(__file__)))

PROOF = "lean-proof+correspondence"
CLAIMS = {
 "C02": {
  "technique": "Lean 4 proof (model of RunState::execute refines bit-field ISA spec for all words/states) + differential correspondence model vs Rust on all 65,536 words",
  "text": "Theorem execute_eq_isa: the Lean model of RunState::execute equals the bit-field ISA specification for every instruction word, machine state, input stream and feature/output setting (no bounds); frame, unsupported-encoding and no-panic theorems follow. The model is tied to the Rust code on every run by executing all 65,536 instruction words on sampled boundary states in both and comparing registers, PC, CC, every memory word, stdout and consumed input.",
  "note": "Trusted: Lean kernel; axioms propext, Classical.choice, Quot.sound; the hand-written model is validated against the code by differential testing only (all words x sampled states); Rust formatting re-implemented in Lean; REG output modelled in --minimal mode only; RTI excluded.",
  "ref": "DESIGN.md §4 C02"},
 "C03": {
  "technique": "Lean 4 proof (loader = spec, run loop = reference loop for all fuel, fetch addresses always in user space, no panic) + differential correspondence on generated programs and raw images",
  "text": "Theorems load_spec, run_eq_ref, fetch_in_bounds, run_panic_only_rti hold for every image, input and step count. The model of from_raw/run is tied to the Rust code on every run by executing generated terminating programs and arbitrary word images in both under a step budget and comparing outcome, exit status, final machine (all 65,536 words), stdout, input consumed and the fetch-address trace; the no-out-of-bounds-fetch predicate is also checked directly on the implementation's event log.",
  "note": "Trusted: Lean kernel; axioms propext, Classical.choice, Quot.sound; model validated by differential testing; stderr text and non-minimal REG table not modelled; the reference loop and the model loop have the same shape by nature (the value is in fetch_in_bounds, load_spec, no-panic and the trap clauses of C02).",
  "ref": "DESIGN.md §4 C03"},
 "C20": {
  "technique": "Lean 4 proof (one-step simulation of Terminal::handle_key against a reference editor + invariant, induction over all key sequences, all classifiers) + exhaustive/differential correspondence through hooks on the real Terminal",
  "text": "Theorems editor_no_panic, cursor_in_bounds, submit_eq_reference (and commands_eq_split for the `;` splitting) hold for every key sequence of any length, every character classifier and every history of non-blank lines. The model of terminal.rs is tied to the Rust code on every run by driving the real handle_key/read_line/get_next_command through cfg(verif) hooks on all key sequences up to length 4 (5 thorough) over a 15-key alphabet from three histories plus random long sequences, comparing buffer, cursor, history index, current line and submitted text after every key, three-way with the reference editor.",
  "note": "Trusted: Lean kernel; axioms propext, Quot.sound; Unicode classification (is_whitespace/is_alphanumeric) is a parameter of the model supplied by Rust at run time; crossterm key decoding, prompt drawing and history-file I/O are not modelled.",
  "ref": "DESIGN.md §4 C20"},
}

def main():
    props = [json.loads(l) for l in open(os.path.join(ROOT, "properties.jsonl"))]
    extra = {}
    p = os.path.join(ROOT, "checklib", "claims_extra.json")
    if os.path.exists(p):
        extra = json.load(open(p))
    claims = dict(CLAIMS)
    claims.update(extra.get("claims", {}))
    na_reasons = extra.get("not_applicable", {})
    checks = []
    for pid in sorted(claims):
        c = claims[pid]
        checks.append({
            "property_id": pid,
            "quick_cmd": f"./check {pid} --quick",
            "thorough_cmd": f"./check {pid} --thorough",
            "evidence_file": f"/verif/evidence/{pid}.json",
            "replay_cmd_template": f"./check {pid} --replay {{path}}",
            "engine": PROOF,
            "technique": c["technique"],
            "level_claimed": {"category": c.get("category", "proof"), "text": c["text"], "design_ref": c["ref"]},
            "level_note": c["note"],
        })
    hooks = json.load(open(os.path.join(ROOT, "checklib", "hooks.json")))
    m = {
        "version": 1,
        "setup_cmd": "./setup.sh",
        "hooks": hooks,
        "engines": [{"name": PROOF, "path": "/verif/check", "serves_properties": sorted(claims),
                     "kind_free_text": "Lean 4 theorems about a hand-written executable model (lean/), tied to /repo on every run by a Rust harness (harness/) whose observations are diffed against the compiled Lean driver's"}],
        "checks": checks,
        "not_applicable": [{"property_id": p["id"],
                            "reason": na_reasons.get(p["id"], "not yet claimed: model, theorems and correspondence for this property are still being built (DESIGN.md §9 order of work)")}
                           for p in props if p["id"] not in claims],
        "notes": "See DESIGN.md and FRAMEWORK.md. KNOWN_FINDINGS.json lists fixed defects and known findings.",
    }
    json.dump(m, open(os.path.join(ROOT, "MANIFEST.json"), "w"), indent=1)

if __name__ == "__main__":
    main()
