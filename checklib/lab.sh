#!/bin/sh
# A private copy of /verif (with its build output) and a clone of /repo under $1 (default /tmp/lab),
# so that seeded changes can be confirmed and checked (checklib/seedtest.py) without touching /repo
# or blocking work in /verif. Remove the directory when done.
set -e
LAB="${1:-/tmp/lab}"
mkdir -p "$LAB"
rsync -a --delete --exclude /tmp --exclude /replays --exclude /repo-link --exclude /seeded /verif/ "$LAB/verif/"   # results under $LAB/verif/seeded survive a re-sync; copy them to /verif/seeded when done
if [ -d "$LAB/repo/.git" ]; then
  git -C "$LAB/repo" fetch -q /repo HEAD && git -C "$LAB/repo" checkout -q --detach FETCH_HEAD && git -C "$LAB/repo" checkout -q -- .
else
  git clone -q /repo "$LAB/repo"
fi
ln -sfn "$LAB/repo" "$LAB/verif/repo-link"
echo "lab ready: $LAB (repo at $(git -C "$LAB/repo" rev-parse --short HEAD))"
