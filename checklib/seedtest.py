#!/usr/bin/env python3
"""
Confirm a seeded change (mutant) and run /verif's checks against it.

  seedtest.py <id> <dir with patch.diff demo.sh notes.md> <property> [more properties to run…]

1. In a scratch worktree of /repo (outside /repo and /verif, removed afterwards): demo.sh exits 0
   on the clean tree; the patch applies; `cargo build` and the 72 tests pass; demo.sh exits ≠ 0.
2. Applies the patch to /repo, runs `./check <prop> --quick` for each listed property, records
   which raise VIOLATION, and undoes the patch (`git -C /repo checkout -- .`).
3. Stores patch, demo, notes and meta.json under /verif/seeded/<id>/.
"""
import sys, os, subprocess, json, shutil, time

ROOT = os.path.dirname(os.path.dirname(os.path.abspath(__file__)))
REPO = os.path.realpath(os.environ.get("SEED_REPO", os.path.join(ROOT, "repo-link")))   # a lab copy of /verif has its own clone of /repo


def sh(cmd, cwd=None, timeout=1800):
    p = subprocess.run(cmd, cwd=cwd, stdout=subprocess.PIPE, stderr=subprocess.STDOUT, timeout=timeout,
                       env=dict(os.environ, CARGO_NET_OFFLINE="true"))
    return p.returncode, p.stdout.decode("utf-8", "replace")


def main():
    sid, src, props = sys.argv[1], sys.argv[2], sys.argv[3:]
    patch = os.path.join(src, "patch.diff")
    demo = os.path.join(src, "demo.sh")
    meta = {"id": sid, "breaks_property": props[0], "ran": [], "confirmed": {}}
    wt = f"/tmp/seedwt-{sid}"
    sh(["git", "-C", REPO, "worktree", "remove", "--force", wt])
    rc, out = sh(["git", "-C", REPO, "worktree", "add", "--detach", wt, "HEAD"])
    assert rc == 0, out
    try:
        rc, out = sh(["cargo", "build", "--offline"], cwd=wt)
        rc0, out0 = sh(["bash", demo, wt], timeout=900)
        meta["confirmed"]["demo_passes_on_clean_tree"] = (rc0 == 0)
        rc, out = sh(["git", "apply", patch], cwd=wt)
        meta["confirmed"]["patch_applies"] = (rc == 0)
        rc, out = sh(["cargo", "build", "--offline"], cwd=wt)
        meta["confirmed"]["builds"] = (rc == 0)
        rc, out = sh(["cargo", "test", "--offline"], cwd=wt)
        passed = sum(int(l.split("ok. ")[1].split(" passed")[0]) for l in out.split("\n") if l.startswith("test result: ok."))
        meta["confirmed"]["tests_pass"] = (rc == 0)
        meta["confirmed"]["tests_passed_count"] = passed
        rc1, out1 = sh(["bash", demo, wt], timeout=900)
        meta["confirmed"]["demo_fails_with_patch"] = (rc1 != 0)
        meta["demo_output_with_patch"] = out1[-1500:]
    finally:
        sh(["git", "-C", REPO, "worktree", "remove", "--force", wt])
        shutil.rmtree(wt, ignore_errors=True)
    ok = all(meta["confirmed"].get(k) for k in
             ["demo_passes_on_clean_tree", "patch_applies", "builds", "tests_pass", "demo_fails_with_patch"])
    meta["valid"] = ok
    detected = {}
    if ok:
        rc, out = sh(["git", "-C", REPO, "status", "--short"])
        assert out.strip() == "", REPO + " not clean: " + out
        rc, out = sh(["git", "-C", REPO, "apply", patch])
        assert rc == 0, out
        try:
            for p in props:
                t0 = time.time()
                rc, out = sh([os.path.join(ROOT, "check"), p, "--quick"], cwd=ROOT, timeout=3600)
                lines = [l for l in out.split("\n") if l.startswith("VIOLATION") or l.startswith("KNOWN-FINDING")]
                detected[p] = {"exit": rc, "violation_lines": lines[:4], "wall_s": round(time.time() - t0, 1)}
                meta["ran"].append(f"./check {p} --quick")
        finally:
            sh(["git", "-C", REPO, "checkout", "--", "."])
    meta["detected_by"] = [p for p, d in detected.items() if d["exit"] != 0]
    meta["check_results"] = detected
    notes = os.path.join(src, "notes.md")
    meta["needs_to_manifest"] = open(notes).read()[:3000] if os.path.exists(notes) else ""
    dst = os.path.join(ROOT, "seeded", sid)
    os.makedirs(dst, exist_ok=True)
    for f in ["patch.diff", "demo.sh", "notes.md"]:
        if os.path.exists(os.path.join(src, f)) and os.path.abspath(src) != os.path.abspath(dst):
            shutil.copy(os.path.join(src, f), os.path.join(dst, f))
    json.dump(meta, open(os.path.join(dst, "meta.json"), "w"), indent=1)
    print(json.dumps({k: meta[k] for k in ["id", "valid", "confirmed", "detected_by"]}, indent=1))


if __name__ == "__main__":
    main()
