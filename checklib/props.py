"""
Per-property tables for /verif/check: which theorems must exist and be axiom-clean, how an
implementation observation is compared with the model/spec answer, what counts as a
non-trivial case, and the wording that goes into the evidence.
"""

def split_ms(model):
    """model answer `M <x> ;; S <y>` -> (x, y|None)"""
    if model.startswith("M "):
        body = model[2:]
        if " ;; S " in body:
            m, s = body.split(" ;; S ", 1)
            return m, s
        return body, None
    return model, None


def cmp_default(rq, impl, model):
    m, s = split_ms(model)
    out = []
    if s is not None and m != s:
        out.append({"kind": "impl-vs-model", "request": rq, "impl": impl, "model": m, "spec": s,
                    "note": "driver: model and spec answers differ (proved equal) — driver or proof out of date"})
    if s is not None and impl != s:
        out.append({"kind": "impl-vs-spec", "request": rq, "impl": impl, "model": m, "spec": s})
    elif impl != m:
        out.append({"kind": "impl-vs-model", "request": rq, "impl": impl, "model": m, "spec": s})
    return out


def first_word(rq, impl):
    return impl.split(" ", 1)[0] if impl else "<empty>"


# ---------------------------------------------------------------- C02
def c02_classify(rq, impl):
    f = rq.split(" ")
    return "op%s:%s" % (f[3][0], impl.split(" ", 1)[0])


def c02_nontrivial(rq, impl):
    if not impl.startswith("ok "):
        return True
    f = rq.split(" ")
    g = impl.split(" ")
    before = f[4:14]
    after = g[1:11]
    return before != after or "| - | - " not in impl


PROPS = {
    "C02": {
        "theorems": [],   # filled below
        "compare": cmp_default,
        "classify": c02_classify,
        "nontrivial": c02_nontrivial,
        "group": lambda d: "opcode-" + d["request"].split(" ")[3][0],
        "rule": ("every 16-bit instruction word x machine states built from boundary register values, "
                 "every condition code, PCs across the address space, memory seeded at every location the "
                 "instruction can touch, register coincidences; plus a corpus of past witnesses. "
                 "A case is the full request line (instruction, flags, machine, input); it is non-trivial "
                 "when executing it changes a register, PC, CC, memory or stdout, or stops the machine."),
        "exhaustive_note": "all 65,536 instruction words are enumerated (machine states per word are sampled)",
        "trusted": [
            "Lean re-implementations of Rust integer formatting ({:04x}, {:03b}, {} of i16)",
            "REG trap output is modelled in --minimal mode only",
        ],
        "assumptions": [
            "RTI (todo!() in lace) is modelled as a panic on both sides and is outside the property",
            "the condition codes are set by LEA (lace's documented behaviour), TRAP does not link through R7",
        ],
    },
}

PROPS["C02"]["theorems"] = [
    "Lace.C02.execute_eq_isa",
    "Lace.C02.exec_frame",
    "Lace.C02.exec_frame_regs",
    "Lace.C02.exec_frame_mem",
    "Lace.C02.execute_frame",
    "Lace.C02.unknown_trap_stops",
    "Lace.C02.stack_off_stops",
    "Lace.C02.execute_no_panic",
    "Lace.regfield_lt",
]


# ---------------------------------------------------------------- C14
def _c14_unhex(h):
    if h in ("-", "N"):
        return h
    try:
        return bytes.fromhex(h).decode("utf-8", "replace")
    except ValueError:
        return "?"


def c14_classify(rq, impl):
    f = rq.split(" ")
    if f[0] == "L14":
        w = impl.split(" ")
        return "line:" + (" ".join(w[:2]) if w[0] == "ok" else w[0])
    w = impl.split(" ")
    return "session:" + w[0]


def c14_nontrivial(rq, impl):
    # a line that parses to a command, or a session that yields at least one command
    if rq.startswith("L14"):
        return impl.startswith("ok ") or impl.startswith("exit") or impl == "panic"
    body = impl.split(" :", 1)[1] if " :" in impl else ""
    return any(ev.strip() not in ("", "err") for ev in body.split("|"))


def c14_group(d):
    f = d["request"].split(" ")
    if f[0] == "L14":
        words = _c14_unhex(f[1]).split(" ")
        return "line-" + (words[0].lower()[:12] if words else "")
    return "session"


PROPS["C14"] = {
    "theorems": [
        "Lace.C14.parse_integer_eq_grammar",
        "Lace.C14.parse_command_eq_grammar",
        "Lace.C14.parse_no_panic",
        "Lace.C14.reader_lines_valid",
        "Lace.C14.session_no_panic",
        "Lace.C14.session_eq_script",
        "Lace.C14.split_argument_eq_split_stdin",
        "Lace.C14.read_no_panic",
        "Lace.C14.session_eq_lines",
        "Lace.C14.transport_independent",
        "Lace.C14.transport_independent_semicolon",
        "Lace.C14.transport_independent_argument_only",
        "Lace.C14.separators_equivalent",
        "Lace.C14.swapSeparators_ok",
        "Lace.C14.commandTable_unambiguous",
        "Lace.C14.parse_offsets_in_range",
    ],
    "compare": cmp_default,
    "classify": c14_classify,
    "nontrivial": c14_nontrivial,
    "group": c14_group,
    "rule": ("L14: one trimmed command line -> Command::try_from, rendered with all argument values. "
             "ALL strings of length <= 4 (quick; 5 thorough) over the 16 symbols + - # 0 1 7 9 a f g x o b ^ r _ "
             "as the argument of `move r1`, `goto`, `break add`, `step into`, `print` (exhaustive); "
             "boundary-directed literals (magnitudes around 2^15, 2^16, 2^31, 2^32, 20-digit strings) in every radix "
             "with every sign/prefix/zero placement in 9 argument positions; every command word, alias and "
             "misspelling of name.rs in three letter cases with 0-3 arguments; random longer lines with multi-byte "
             "characters and Unicode white space. R14: ~200 random scripts (2000 thorough), each delivered in every "
             "split between --command argument and stdin, with ';' / newline / mixed separators, with and without a "
             "trailing separator. A case is non-trivial when the line parses to a command (or exits / panics), or the "
             "session yields at least one command."),
    "exhaustive_note": "all strings up to length 4 (quick) / 5 (thorough) over the 16-symbol alphabet are enumerated in 5 argument positions",
    "trusted": [
        "Rust str::trim / char::is_whitespace = the 25 White_Space code points transcribed in Lace/Model/Cmd/Text.lean",
        "str::eq_ignore_ascii_case modelled on code points; std::str::from_utf8 modelled by Lean core's ByteArray.utf8DecodeChar?",
        "usize cursor arithmetic is not overflow-checked in the model (bounded by the buffer length)",
        "the interactive terminal reader (terminal.rs) is not modelled; R14 exercises the piped-stdin reader",
    ],
    "assumptions": [
        "I9: command text is valid UTF-8 (invalid UTF-8 on stdin panics with \"uh oh\"; mirrored by the model, outside the property)",
        "K1: `sudo` exits the process with status 0 from inside the name parser (known finding, not fixed)",
    ],
}
