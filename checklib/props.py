"""
Per-property tables for /verif/check: which theorems must exist and be axiom-clean, how an
implementation observation is compared with the model/spec answer, what counts as a
non-trivial case, and the wording that goes into the evidence.
"""

def split_ms(model):
    """model answer `M <x> ;; S <y>` -> (x, y|None)"""
    if model.startswith("M "):
        body = model[2:]
        if " ;; S " in body:
            m, s = body.split(" ;; S ", 1)
            return m, s
        return body, None
    return model, None


def cmp_default(rq, impl, model):
    m, s = split_ms(model)
    out = []
    if s is not None and m != s:
        out.append({"kind": "impl-vs-model", "request": rq, "impl": impl, "model": m, "spec": s,
                    "note": "driver: model and spec answers differ (proved equal) — driver or proof out of date"})
    if s is not None and impl != s:
        out.append({"kind": "impl-vs-spec", "request": rq, "impl": impl, "model": m, "spec": s})
    elif impl != m:
        out.append({"kind": "impl-vs-model", "request": rq, "impl": impl, "model": m, "spec": s})
    return out


def first_word(rq, impl):
    return impl.split(" ", 1)[0] if impl else "<empty>"


# ---------------------------------------------------------------- C02
def c02_classify(rq, impl):
    f = rq.split(" ")
    return "op%s:%s" % (f[3][0], impl.split(" ", 1)[0])


def c02_nontrivial(rq, impl):
    if not impl.startswith("ok "):
        return True
    f = rq.split(" ")
    g = impl.split(" ")
    before = f[4:14]
    after = g[1:11]
    return before != after or "| - | - " not in impl


PROPS = {
    "C02": {
        "theorems": [],   # filled below
        "compare": cmp_default,
        "classify": c02_classify,
        "nontrivial": c02_nontrivial,
        "group": lambda d: "opcode-" + d["request"].split(" ")[3][0],
        "rule": ("every 16-bit instruction word x machine states built from boundary register values, "
                 "every condition code, PCs across the address space, memory seeded at every location the "
                 "instruction can touch, register coincidences; plus a corpus of past witnesses. "
                 "A case is the full request line (instruction, flags, machine, input); it is non-trivial "
                 "when executing it changes a register, PC, CC, memory or stdout, or stops the machine."),
        "exhaustive_note": "all 65,536 instruction words are enumerated (machine states per word are sampled)",
        "trusted": [
            "Lean re-implementations of Rust integer formatting ({:04x}, {:03b}, {} of i16)",
            "REG trap output is modelled in --minimal mode only",
        ],
        "assumptions": [
            "RTI (todo!() in lace) is modelled as a panic on both sides and is outside the property",
            "the condition codes are set by LEA (lace's documented behaviour), TRAP does not link through R7",
        ],
    },
}

# ---------------------------------------------------------------- assembler (C05 and friends)
def asm_classify(rq, impl):
    f = impl.split(" ")
    if f[0] == "diag" and len(f) > 1:
        return "diag:" + f[1]
    return f[0] if impl else "<empty>"


def asm_nontrivial(rq, impl):
    # every distinct source text is a case of its own; the empty text is the only trivial one
    return not rq.endswith(" -")


def asm_group(d):
    return asm_classify(d["request"], d["impl"]) + "/" + asm_classify(d["request"], d.get("model") or "")


PROPS["C05"] = {
    "theorems": [
        "Lace.C05.assemble_no_panic",
        "Lace.C05.diag_points_inside",
        "Lace.C05.token_progress",
        "Lace.C05.assemble_terminates",
    ],
    "compare": cmp_default,
    "classify": asm_classify,
    "nontrivial": asm_nontrivial,
    "group": asm_group,
    "rule": ("UTF-8 source texts: grammar-derived programs over the whole instruction / trap / directive set under "
             "random layouts and literal spellings; the same with token-level mutations (delete, duplicate, swap, "
             "insert, replace by a token of any kind incl. data directives, .break, .orig, strings), byte-level "
             "mutations, 2/3/4-byte characters at token boundaries and after x/0x/#/rN/\"/., comments abutting "
             "tokens, fragment soups, size extremes (.blkw xFFFF repeated, label distances around 0x8000, more than "
             "65,535 statements) and a corpus of past witnesses. A case is (stack flag, text); compared: outcome "
             "class, diagnostic kind and primary label span, and for accepted texts origin, every emitted word, "
             "every statement span and the .break addresses. Checked directly on the implementation: no unwind, "
             "the report renders with {:?}, every label lies inside the source."),
    "trusted": [
        "Lean re-implementations of Rust's i16/u16::from_str_radix, char::to_digit, is_ascii_whitespace, to_ascii_lowercase",
        "miette's renderer is exercised (must not panic), not modelled",
    ],
    "assumptions": [
        "memory exhaustion is outside the model: the preprocessor expands .blkw/.stringz eagerly (65,535 tokens per `.blkw xFFFF`)",
        "the warning printed for a negative .blkw count is not an observable of the model",
    ],
}

def seq_classify(rq, impl):
    parts = impl.split(" ## ")
    ok = sum(1 for p in parts if p.startswith("ok"))
    return "len%d:%dok%s" % (len(parts), ok, ":FRESH-DIFF" if " !fresh " in impl else "")


PROPS["C19"] = {
    "theorems": [
        "Lace.C19.reset_eq_empty",
        "Lace.C19.assemble_after_reset",
        "Lace.C19.assemble_deterministic",
        "Lace.C19.runSeq_reset_eq_map",
        "Lace.C19.watch_recheck_eq_check",
        "Lace.C19.stale_table_matters",
    ],
    "compare": cmp_default,
    "classify": seq_classify,
    "nontrivial": lambda rq, impl: True,
    "group": lambda d: seq_classify(d["request"], d["impl"]),
    "rule": ("histories of 2-6 sources (valid; failing in the lexer, in the parser after labels were recorded, in "
             "backpatch, in emit; sharing label names; differing origins; the same source repeated) assembled one "
             "after the other on ONE thread, with lace::reset_state() before each (4 of 5 histories) or without "
             "(1 of 5: exercises the model's symbol-table threading). Compared per element: the full assembler "
             "observation of C05 against the model's runSeq; with reset additionally, on the implementation, "
             "against the same source assembled on a fresh thread (a difference is reported as `!fresh`)."),
    "trusted": [
        "the theorem is modest (purity is by construction in a functional model); that lace has no state besides "
        "the symbol table is established by the correspondence check, not by proof",
    ],
    "assumptions": [
        "`lace watch` itself (inotify, screen clearing) is not exercised; its closure is assemble / reset_state / reclaim",
    ],
}

PROPS["C02"]["theorems"] = [
    "Lace.C02.execute_eq_isa",
    "Lace.C02.exec_frame",
    "Lace.C02.exec_frame_regs",
    "Lace.C02.exec_frame_mem",
    "Lace.C02.execute_frame",
    "Lace.C02.unknown_trap_stops",
    "Lace.C02.stack_off_stops",
    "Lace.C02.execute_no_panic",
    "Lace.regfield_lt",
]
