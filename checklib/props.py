"""
Per-property tables for /verif/check: which theorems must exist and be axiom-clean, how an
implementation observation is compared with the model/spec answer, what counts as a
non-trivial case, and the wording that goes into the evidence.
"""

def split_ms(model):
    """model answer `M <x> ;; S <y>` -> (x, y|None)"""
    if model.startswith("M "):
        body = model[2:]
        if " ;; S " in body:
            m, s = body.split(" ;; S ", 1)
            return m, s
        return body, None
    return model, None


def cmp_default(rq, impl, model):
    m, s = split_ms(model)
    out = []
    if s is not None and m != s:
        out.append({"kind": "impl-vs-model", "request": rq, "impl": impl, "model": m, "spec": s,
                    "note": "driver: model and spec answers differ (proved equal) — driver or proof out of date"})
    if s is not None and impl != s:
        out.append({"kind": "impl-vs-spec", "request": rq, "impl": impl, "model": m, "spec": s})
    elif impl != m:
        out.append({"kind": "impl-vs-model", "request": rq, "impl": impl, "model": m, "spec": s})
    return out


def first_word(rq, impl):
    return impl.split(" ", 1)[0] if impl else "<empty>"


# ---------------------------------------------------------------- C02
def c02_classify(rq, impl):
    f = rq.split(" ")
    return "op%s:%s" % (f[3][0], impl.split(" ", 1)[0])


def c02_nontrivial(rq, impl):
    if not impl.startswith("ok "):
        return True
    f = rq.split(" ")
    g = impl.split(" ")
    before = f[4:14]
    after = g[1:11]
    return before != after or "| - | - " not in impl


PROPS = {
    "C02": {
        "theorems": [],   # filled below
        "compare": cmp_default,
        "classify": c02_classify,
        "nontrivial": c02_nontrivial,
        "group": lambda d: "opcode-" + d["request"].split(" ")[3][0],
        "rule": ("every 16-bit instruction word x machine states built from boundary register values, "
                 "every condition code, PCs across the address space, memory seeded at every location the "
                 "instruction can touch, register coincidences; plus a corpus of past witnesses. "
                 "A case is the full request line (instruction, flags, machine, input); it is non-trivial "
                 "when executing it changes a register, PC, CC, memory or stdout, or stops the machine."),
        "exhaustive_note": "all 65,536 instruction words are enumerated (machine states per word are sampled)",
        "trusted": [
            "Lean re-implementations of Rust integer formatting ({:04x}, {:03b}, {} of i16)",
            "REG trap output is modelled in --minimal mode only",
        ],
        "assumptions": [
            "RTI (todo!() in lace) is modelled as a panic on both sides and is outside the property",
            "the condition codes are set by LEA (lace's documented behaviour), TRAP does not link through R7",
        ],
    },
}

# ---------------------------------------------------------------- C03
def c03_classify(rq, impl):
    return impl.split(" ", 1)[0]


def c03_nontrivial(rq, impl):
    # a run that executed at least one instruction or was refused by the loader
    if impl.startswith("load"):
        return True
    try:
        tail = impl.rsplit("|", 1)[1].split()
        return int(tail[0]) > 0
    except Exception:
        return True


def c03_compare(rq, impl, model):
    out = cmp_default(rq, impl, model)
    # direct predicate on the implementation: number of out-of-bounds fetches must be 0
    try:
        if "|" in impl and not impl.startswith("load"):
            oob = int(impl.rsplit(" ", 1)[1])
            if oob != 0:
                out.append({"kind": "impl-vs-spec", "request": rq, "impl": impl, "model": model,
                            "spec": "no instruction fetch outside [orig, 0xFE00)"})
    except Exception:
        pass
    return out


PROPS["C03"] = {
    "theorems": [
        "Lace.C03.load_spec",
        "Lace.C03.run_eq_ref",
        "Lace.C03.fetch_in_bounds",
        "Lace.C03.run_panic_only_rti",
        "Lace.C02.execute_eq_isa",
    ],
    "compare": c03_compare,
    "classify": c03_classify,
    "nontrivial": c03_nontrivial,
    "group": lambda d: d["impl"].split(" ", 1)[0],
    "rule": ("structured programs that terminate by construction (counted loops, nested JSR/RET and CALL/RETS "
             "subroutines, loads/stores/indirection, traps with input, self-modifying stores; endings: HALT, "
             "running off the end, jumps to xFFFF / below the origin / to xFE00 and above, unknown trap, RTI) "
             "and arbitrary word images (origins incl. images ending exactly at / one above the top of memory, "
             "empty file), each under a step budget enforced by the run-loop tick hook; observables: outcome "
             "class and exit status, final registers/PC/CC, every memory word against the loaded image, stdout, "
             "input consumed, number and hash of the fetch addresses, out-of-bounds fetch count. "
             "Non-trivial: executed at least one instruction or was refused by the loader."),
    "trusted": [
        "Lean re-implementations of Rust integer formatting ({:04x}, {:03b}, {} of i16)",
        "REG trap output is modelled in --minimal mode only (generated programs use REG only with --minimal)",
        "stderr messages (exception text, LineTracker newlines) are not modelled",
    ],
    "assumptions": [
        "GETC/IN: non-ASCII byte gives xFFFD; end of input is an emulator error (exit status 1)",
        "in --minimal mode a lone ESC written by OUT/PUTS/PUTSP/IN is dropped",
    ],
}

# ---------------------------------------------------------------- C06
PROPS["C06"] = {
    "theorems": [
        "Lace.C06.obj_length",
        "Lace.C06.words_of_obj",
        "Lace.C06.run_obj_eq_run_src",
        "Lace.C06.loader_accepts_iff",
        "Lace.C06.loader_never_panics",
        "Lace.C03.load_spec",
    ],
    "needs_bin": True,
    "compare": cmp_default,
    "classify": lambda rq, impl: rq.split(" ", 1)[0] + ":" + " ".join(impl.split(" ")[:2 if impl.startswith("fin") else 1]),
    "nontrivial": lambda rq, impl: True,
    "group": lambda d: d["request"].split(" ", 1)[0],
    "rule": ("process mode: generated programs (as .orig/.fill sources, origin present or defaulted) are compiled with the "
             "real `lace compile`; the written bytes are compared with objBytes; the object file and the source are "
             "run with `lace run` (both output modes, with and without -f stack, with input) and stdout + exit "
             "status compared with the model of main.rs::run and with each other; arbitrary byte strings (every "
             "length parity, empty, any first word, images ending at / one below / one above the top of memory) "
             "are offered as .lc3/.obj files. Every case is distinct by construction (fresh random program or bytes)."),
    "trusted": [
        "clap argument parsing and real file-system semantics",
        "the words of generated sources are given as .fill directives here; instruction encoding is C01",
    ],
    "assumptions": ["status lines printed by main.rs (`Assembling/Running/Completed target <file>`) are part of stdout and are modelled"],
}

PROPS["C02"]["theorems"] = [
    "Lace.C02.execute_eq_isa",
    "Lace.C02.exec_frame",
    "Lace.C02.exec_frame_regs",
    "Lace.C02.exec_frame_mem",
    "Lace.C02.execute_frame",
    "Lace.C02.unknown_trap_stops",
    "Lace.C02.stack_off_stops",
    "Lace.C02.execute_no_panic",
    "Lace.regfield_lt",
]


# ---------------------------------------------------------------- C20
def c20_classify(rq, impl):
    f = rq.split(" ")
    nkeys = 0 if len(f) < 3 or f[2] == "-" else f[2].count(",") + 1
    if impl.endswith("| panic"):
        out = "panic"
    else:
        out = "submitted%d" % min(impl.count("! "), 3)
    return "keys%s:%s" % (nkeys if nkeys <= 5 else "6+", out)


def c20_nontrivial(rq, impl):
    # at least one key, and some key changed what the editor shows
    views = impl.split(" | ")[0].split(" ")
    return len(set(views)) > 1 or "!" in impl


def c20_group(d):
    f = d["request"].split(" ")
    keys = [] if len(f) < 3 or f[2] == "-" else f[2].split(",")
    a = d["impl"].split(" ")
    b = (d.get("spec") or d.get("model") or "").split(" ")
    for i, (x, y) in enumerate(zip(a, b)):
        if x != y:
            if i < len(keys):
                k = keys[i]
                return "first-difference-at-key-" + ("Char" if k.startswith("c") else k)
            break
    return "first-difference-after-keys"


PROPS["C20"] = {
    "theorems": [
        "Lace.C20.editor_no_panic",
        "Lace.C20.cursor_in_bounds",
        "Lace.C20.submit_eq_reference",
        "Lace.C20.commands_eq_split",
        "Lace.C20.key_step",
        "Lace.C20.session_inv",
        "Lace.C20.submitted_not_blank",
        "Lace.Editor.handleKey_sim",
        "Lace.Editor.findWordNext_eq",
        "Lace.Editor.findWordBack_eq",
        "Lace.Editor.insertCharIndex_eq",
        "Lace.Editor.removeCharIndex_eq",
    ],
    "compare": cmp_default,
    "classify": c20_classify,
    "nontrivial": c20_nontrivial,
    "group": c20_group,
    "rule": ("every key sequence up to length 4 (thorough: 5) over {a, b, space, +, e-acute (2 bytes), "
             "U+1F600 (4 bytes), Backspace, Delete, Left, Right, Ctrl+Left, Ctrl+Right, Up, Down, Enter} from the "
             "histories [], [\"ab c\"], [\"e-acute x\", \"q\"]; random sequences of up to 60 keys with Unicode "
             "spaces, digits, CJK, combining marks, ASCII control characters and random histories; whole lines "
             "with `;` after multi-byte characters through read_line + get_next_command; plus a corpus of past "
             "witnesses. A case is the request line (history, keys); it is non-trivial when some key changes "
             "what the editor shows or submits a line."),
    "exhaustive_note": "all key sequences up to length 4 (quick) / 5 (thorough) over the 15-key alphabet from three histories are enumerated",
    "trusted": [
        "char::is_whitespace / char::is_alphanumeric are a parameter of model and theorems; the harness sends Rust's own classification of every character of a case",
        "str::trim().is_empty() is modelled as 'every character is_whitespace'",
        "terminal drawing (print_prompt, println), raw mode, crossterm key decoding and the history file are not modelled",
    ],
    "assumptions": [
        "I10: history entries are non-blank (lines the editor itself could have stored)",
        "usize overflow of the cursor (a line of 2^64 characters) is not modelled",
    ],
}


# ---------------------------------------------------------------- C14
def _c14_unhex(h):
    if h in ("-", "N"):
        return h
    try:
        return bytes.fromhex(h).decode("utf-8", "replace")
    except ValueError:
        return "?"


def c14_classify(rq, impl):
    f = rq.split(" ")
    if f[0] == "L14":
        w = impl.split(" ")
        return "line:" + (" ".join(w[:2]) if w[0] == "ok" else w[0])
    w = impl.split(" ")
    return "session:" + w[0]


def c14_nontrivial(rq, impl):
    # a line that parses to a command, or a session that yields at least one command
    if rq.startswith("L14"):
        return impl.startswith("ok ") or impl.startswith("exit") or impl == "panic"
    body = impl.split(" :", 1)[1] if " :" in impl else ""
    return any(ev.strip() not in ("", "err") for ev in body.split("|"))


def c14_group(d):
    f = d["request"].split(" ")
    if f[0] == "L14":
        words = _c14_unhex(f[1]).split(" ")
        return "line-" + (words[0].lower()[:12] if words else "")
    return "session"


PROPS["C14"] = {
    "theorems": [
        "Lace.C14.parse_integer_eq_grammar",
        "Lace.C14.parse_command_eq_grammar",
        "Lace.C14.parse_no_panic",
        "Lace.C14.reader_lines_valid",
        "Lace.C14.session_no_panic",
        "Lace.C14.session_eq_script",
        "Lace.C14.split_argument_eq_split_stdin",
        "Lace.C14.read_no_panic",
        "Lace.C14.session_eq_lines",
        "Lace.C14.transport_independent",
        "Lace.C14.transport_independent_semicolon",
        "Lace.C14.transport_independent_argument_only",
        "Lace.C14.separators_equivalent",
        "Lace.C14.swapSeparators_ok",
        "Lace.C14.commandTable_unambiguous",
        "Lace.C14.parse_offsets_in_range",
    ],
    "compare": cmp_default,
    "classify": c14_classify,
    "nontrivial": c14_nontrivial,
    "group": c14_group,
    "rule": ("L14: one trimmed command line -> Command::try_from, rendered with all argument values. "
             "ALL strings of length <= 4 (quick; 5 thorough) over the 16 symbols + - # 0 1 7 9 a f g x o b ^ r _ "
             "as the argument of `move r1`, `goto`, `break add`, `step into`, `print` (exhaustive); "
             "boundary-directed literals (magnitudes around 2^15, 2^16, 2^31, 2^32, 20-digit strings) in every radix "
             "with every sign/prefix/zero placement in 9 argument positions; every command word, alias and "
             "misspelling of name.rs in three letter cases with 0-3 arguments; random longer lines with multi-byte "
             "characters and Unicode white space. R14: ~200 random scripts (2000 thorough), each delivered in every "
             "split between --command argument and stdin, with ';' / newline / mixed separators, with and without a "
             "trailing separator. A case is non-trivial when the line parses to a command (or exits / panics), or the "
             "session yields at least one command."),
    "exhaustive_note": "all strings up to length 4 (quick) / 5 (thorough) over the 16-symbol alphabet are enumerated in 5 argument positions",
    "trusted": [
        "Rust str::trim / char::is_whitespace = the 25 White_Space code points transcribed in Lace/Model/Cmd/Text.lean",
        "str::eq_ignore_ascii_case modelled on code points; std::str::from_utf8 modelled by Lean core's ByteArray.utf8DecodeChar?",
        "usize cursor arithmetic is not overflow-checked in the model (bounded by the buffer length)",
        "the interactive terminal reader (terminal.rs) is not modelled; R14 exercises the piped-stdin reader",
    ],
    "assumptions": [
        "I9: command text is valid UTF-8 (invalid UTF-8 on stdin panics with \"uh oh\"; mirrored by the model, outside the property)",
        "K1: `sudo` exits the process with status 0 from inside the name parser (known finding, not fixed)",
    ],
}


# ---------------------------------------------------------------- assembler (C05 and friends)
def asm_classify(rq, impl):
    f = impl.split(" ")
    if f[0] == "diag" and len(f) > 1:
        return "diag:" + f[1]
    return f[0] if impl else "<empty>"


def asm_nontrivial(rq, impl):
    # every distinct source text is a case of its own; the empty text is the only trivial one
    return not rq.endswith(" -")


def asm_group(d):
    return asm_classify(d["request"], d["impl"]) + "/" + asm_classify(d["request"], d.get("model") or "")


PROPS["C05"] = {
    "theorems": [
        "Lace.C05.assemble_no_panic",
        "Lace.C05.diag_points_inside",
        "Lace.C05.token_progress",
        "Lace.C05.assemble_terminates",
    ],
    "compare": cmp_default,
    "classify": asm_classify,
    "nontrivial": asm_nontrivial,
    "group": asm_group,
    "rule": ("UTF-8 source texts: grammar-derived programs over the whole instruction / trap / directive set under "
             "random layouts and literal spellings; the same with token-level mutations (delete, duplicate, swap, "
             "insert, replace by a token of any kind incl. data directives, .break, .orig, strings), byte-level "
             "mutations, 2/3/4-byte characters at token boundaries and after x/0x/#/rN/\"/., comments abutting "
             "tokens, fragment soups, size extremes (.blkw xFFFF repeated, label distances around 0x8000, more than "
             "65,535 statements) and a corpus of past witnesses. A case is (stack flag, text); compared: outcome "
             "class, diagnostic kind and primary label span, and for accepted texts origin, every emitted word, "
             "every statement span and the .break addresses. Checked directly on the implementation: no unwind, "
             "the report renders with {:?}, every label lies inside the source."),
    "trusted": [
        "Lean re-implementations of Rust's i16/u16::from_str_radix, char::to_digit, is_ascii_whitespace, to_ascii_lowercase",
        "miette's renderer is exercised (must not panic), not modelled",
    ],
    "assumptions": [
        "memory exhaustion is outside the model: the preprocessor expands .blkw/.stringz eagerly (65,535 tokens per `.blkw xFFFF`)",
        "the warning printed for a negative .blkw count is not an observable of the model",
    ],
}

def seq_classify(rq, impl):
    parts = impl.split(" ## ")
    ok = sum(1 for p in parts if p.startswith("ok"))
    return "len%d:%dok%s" % (len(parts), ok, ":FRESH-DIFF" if " !fresh " in impl else "")


PROPS["C19"] = {
    "theorems": [
        "Lace.C19.reset_eq_empty",
        "Lace.C19.assemble_after_reset",
        "Lace.C19.assemble_deterministic",
        "Lace.C19.runSeq_reset_eq_map",
        "Lace.C19.watch_recheck_eq_check",
        "Lace.C19.stale_table_matters",
    ],
    "compare": cmp_default,
    "classify": seq_classify,
    "nontrivial": lambda rq, impl: True,
    "group": lambda d: seq_classify(d["request"], d["impl"]),
    "rule": ("histories of 2-6 sources (valid; failing in the lexer, in the parser after labels were recorded, in "
             "backpatch, in emit; sharing label names; differing origins; the same source repeated) assembled one "
             "after the other on ONE thread, with lace::reset_state() before each (4 of 5 histories) or without "
             "(1 of 5: exercises the model's symbol-table threading). Compared per element: the full assembler "
             "observation of C05 against the model's runSeq; with reset additionally, on the implementation, "
             "against the same source assembled on a fresh thread (a difference is reported as `!fresh`)."),
    "trusted": [
        "the theorem is modest (purity is by construction in a functional model); that lace has no state besides "
        "the symbol table is established by the correspondence check, not by proof",
    ],
    "assumptions": [
        "`lace watch` itself (inotify, screen clearing) is not exercised; its closure is assemble / reset_state / reclaim",
    ],
}

PROPS["C02"]["theorems"] = [
    "Lace.C02.execute_eq_isa",
    "Lace.C02.exec_frame",
    "Lace.C02.exec_frame_regs",
    "Lace.C02.exec_frame_mem",
    "Lace.C02.execute_frame",
    "Lace.C02.unknown_trap_stops",
    "Lace.C02.stack_off_stops",
    "Lace.C02.execute_no_panic",
    "Lace.regfield_lt",
]


# ---------------------------------------------------------------- C15 / C17 (source-level debugger sessions)
def src_classify(rq, impl):
    return impl.split(" ", 1)[0] if impl else "<empty>"


def src_nontrivial(rq, impl):
    # the session reached the debugger and printed something
    return impl.startswith(("done", "exit")) and not impl.endswith("| -")


PROPS["C15"] = {
    "theorems": [
        "Lace.C15.eval_eq_isa_abs",
        "Lace.C15.eval_text_eq_spec",
        "Lace.C15.eval_ld_label",
        "Lace.C15.eval_st_label",
        "Lace.C15.eval_pc_only_jumps_partial",
        "Lace.C15.refused_noop",
        "Lace.C15.eval_refusals_noop",
        "Lace.C15.eval_never_ends_session_partial",
    ],
    "compare": cmp_default,
    "classify": src_classify,
    "nontrivial": src_nontrivial,
    "group": lambda d: "eval",
    "rule": ("debugger sessions on REAL assembly sources (labels, instructions, directives, random layouts, origins "
             "0x0000..0xFDFF incl. >= 0x8000, programs with a .blkw of several hundred words so that labels are out "
             "of reach): registers set up with `move`, then `goto a; eval <instr>; registers; print <label>` for a in "
             "every statement address (and the sentinel HALT), every instruction form (register / immediate / "
             "base+offset / label operand defined before and after a / JSR JSRR JMP RET / traps with and without "
             "input / stack forms with the flag on), the off-limits ones (BR*, RTI, HALT, unknown vectors) and "
             "malformed text (missing, surplus, wrong-kind operands, two instructions, directive text, out-of-range "
             "immediates, unknown labels, token soup); plus a corpus (D17 at every address, D18). Compared three ways: "
             "implementation vs Lean model (source assembled by the Lean assembler model, eval = eval_inner model) vs "
             "specification (labels from the generator's abstract program, eval = Spec.execAbs): final machine, "
             "memory diff, stdout, executed instructions, breakpoints, every stderr line (an eval diagnostic is "
             "collapsed to <evalmsg>)."),
    "trusted": [
        "the generator's abstract program (label -> word index, origin) as the oracle for label addresses",
        "text -> statement goes through the assembler's statement parser on both the model and the spec side",
    ],
    "assumptions": [
        "literal PC offsets and the link value of JSR/JSRR/CALL are unspecified by the property: mirrored, few generated",
        "eval getc / in at end of input exits 1 exactly as the VM does (I3); treated as in scope of 'as the VM would'",
        "a label operand farther from the PC than the instruction's field reaches is refused with a diagnostic",
    ],
}

PROPS["C17"] = {
    "theorems": [
        "Lace.C17.span_starts_at_statement_token",
        "Lace.C17.span_text_eq_statement_partial",
        "Lace.C17.no_statement_no_text",
        "Lace.C17.statement_text",
        "Lace.C17.label_resolves",
        "Lace.C17.label_out_of_range",
        "Lace.C17.unknown_label",
    ],
    "compare": cmp_default,
    "classify": src_classify,
    "nontrivial": src_nontrivial,
    "group": lambda d: "view",
    "rule": ("programs from an abstract program rendered under a wild layout (operand-less instructions after "
             "operand-ful ones, several statements per line, .stringz/.blkw/.fill, labels with and without colon, "
             "commas / colons / CR / FF and comments between operands, multi-byte characters in comments and strings, "
             "origins incl. >= 0x8000 and user space ending inside the program, .break and .orig interleaved, a "
             "statement token at byte 0 of the file, text after .end): `assembly a` for EVERY a in [orig-2, orig+n+2] "
             "(observed byte for byte between echo markers), and for every label `print l`, `print l+-k`, "
             "`assembly l`, `break add l+-k`, `goto l+-k`, `assembly ^0`, `break add ^0`, a case-variant name, then "
             "`break list`, `registers`. Three-way: implementation vs model (spans from the Lean assembler model, "
             "text sliced from the source) vs the generator's own per-statement text, label table, origin and .break "
             "positions (renderStatement oracle)."),
    "trusted": [
        "the generator records what it wrote per statement (text, word count) while rendering; word counts of "
        ".stringz use an independent unescape",
    ],
    "assumptions": [
        "labels are used as locations only when the command grammar can name them (I14): `b+1`, `o-3`, `x+2` are integers",
        "no comment between a data directive and its operand (the preprocessor does not skip comments there)",
        "ESC characters in statement text are not generated (minimal mode strips ANSI sequences)",
    ],
}
