"""
Per-property tables for /verif/check: which theorems must exist and be axiom-clean, how an
implementation observation is compared with the model/spec answer, what counts as a
non-trivial case, and the wording that goes into the evidence.
"""
import re

def split_ms(model):
    """model answer `M <x> ;; S <y>` -> (x, y|None)"""
    if model.startswith("M "):
        body = model[2:]
        if " ;; S " in body:
            m, s = body.split(" ;; S ", 1)
            return m, s
        return body, None
    return model, None


def cmp_default(rq, impl, model):
    m, s = split_ms(model)
    out = []
    if s is not None and m != s:
        out.append({"kind": "impl-vs-model", "request": rq, "impl": impl, "model": m, "spec": s,
                    "note": "driver: model and spec answers differ (proved equal) — driver or proof out of date"})
    if s is not None and impl != s:
        out.append({"kind": "impl-vs-spec", "request": rq, "impl": impl, "model": m, "spec": s})
    elif impl != m:
        out.append({"kind": "impl-vs-model", "request": rq, "impl": impl, "model": m, "spec": s})
    return out


# ---------------------------------------------------------------- status lines of the command line
# main.rs announces what it does with lines of the shape `{left:>12} {right}` on standard output
# ("  Assembling target f.asm", "     Running emitted binary", "   Completed target f.asm", …).
# Their wording is no property's business: they are removed from BOTH sides (implementation and
# model, which prints them too) before process-mode outputs are compared.
def _is_status_line(line):
    # `{left:>12} {right}`: whatever the words, a status line starts with padding unless its left part
    # is 12 characters or longer; program output is compared with such lines removed on BOTH sides
    # (a program line that starts with a blank is lost to the comparison on both sides alike)
    return line.startswith(b" ") and line.strip() != b""


def strip_status_hex(h):
    if h in ("", "-"):
        return h
    try:
        b = bytes.fromhex(h)
    except ValueError:
        return h
    parts = b.split(b"\n")
    # a program that ends without a line break has main.rs's closing status line glued to its last
    # output (`AB   Completed target f.lc3`): cut that line where the padding of the status part
    # begins (its last run of two or more blanks), provided it names a file
    if len(parts) >= 2 and parts[-1] == b"" and not parts[-2].startswith(b" "):
        m = re.search(rb" {2,}(?=\S)(?!.* {2,}\S)[^\n]*\.(asm|lc3|obj)$", parts[-2])
        if m:
            parts[-2] = parts[-2][:m.start()]
            parts = parts[:-1]      # the line break belonged to the status line
    kept = [ln for i, ln in enumerate(parts) if not (_is_status_line(ln) and i < len(parts) - 1)]
    out = b"\n".join(kept).hex()
    return out if out else "-"


def canon_proc(text):
    """`fin <status> <hex stdout>` and `out=<hex stdout>` fields with the status lines removed."""
    text = re.sub(r"\bfin (\d+) ([0-9a-f]+|-)", lambda m: "fin %s %s" % (m.group(1), strip_status_hex(m.group(2))), text)
    text = re.sub(r"\bout=([0-9a-f]+|-)", lambda m: "out=" + strip_status_hex(m.group(1)), text)
    return text


def cmp_proc(rq, impl, model):
    return cmp_default(rq, canon_proc(impl), canon_proc(model))


def first_word(rq, impl):
    return impl.split(" ", 1)[0] if impl else "<empty>"


# ---------------------------------------------------------------- C02
def c02_classify(rq, impl):
    f = rq.split(" ")
    return "op%s:%s" % (f[3][0], impl.split(" ", 1)[0])


def c02_nontrivial(rq, impl):
    if not impl.startswith("ok "):
        return True
    f = rq.split(" ")
    g = impl.split(" ")
    before = f[4:14]
    after = g[1:11]
    return before != after or "| - | - " not in impl


PROPS = {
    "C02": {
        "theorems": [],   # filled below
        "compare": cmp_default,
        "classify": c02_classify,
        "nontrivial": c02_nontrivial,
        "group": lambda d: "opcode-" + d["request"].split(" ")[3][0],
        "rule": ("every 16-bit instruction word x machine states built from boundary register values, "
                 "every condition code, PCs across the address space, memory seeded at every location the "
                 "instruction can touch, register coincidences; plus a corpus of past witnesses. "
                 "A case is the full request line (instruction, flags, machine, input); it is non-trivial "
                 "when executing it changes a register, PC, CC, memory or stdout, or stops the machine."),
        "exhaustive_note": "all 65,536 instruction words are enumerated (machine states per word are sampled)",
        "trusted": [
            "Lean re-implementations of Rust integer formatting ({:04x}, {:03b}, {} of i16)",
            "the literal pieces of the normal-mode REG table (box drawing, ANSI styles, small-caps names of control characters) are copied from output.rs into Lace/Basic/Tables.lean and shared by specification and model; the columns are specified by the table's own header",
        ],
        "assumptions": [
            "RTI (todo!() in lace) is modelled as a panic on both sides and is outside the property",
            "the condition codes are set by LEA (lace's documented behaviour), TRAP does not link through R7",
        ],
    },
}

# ---------------------------------------------------------------- C03
def c03_classify(rq, impl):
    return impl.split(" ", 1)[0]


def c03_nontrivial(rq, impl):
    # a run that executed at least one instruction or was refused by the loader
    if impl.startswith("load"):
        return True
    try:
        tail = impl.rsplit("|", 1)[1].split()
        return int(tail[0]) > 0
    except Exception:
        return True


def c03_compare(rq, impl, model):
    if rq.startswith("T03") or rq.startswith("K03"):
        # real `lace run` on a pseudo-terminal: standard output carries main.rs's status lines
        impl, model = canon_proc(impl), canon_proc(model)
    out = cmp_default(rq, impl, model)
    # direct predicate on the implementation: number of out-of-bounds fetches must be 0
    try:
        if "|" in impl and not impl.startswith("load"):
            oob = int(impl.rsplit(" ", 1)[1])
            if oob != 0:
                out.append({"kind": "impl-vs-spec", "request": rq, "impl": impl, "model": model,
                            "spec": "no instruction fetch outside [orig, 0xFE00)"})
    except Exception:
        pass
    return out


PROPS["C03"] = {
    "theorems": [
        "Lace.C03.load_spec",
        "Lace.C03.run_eq_ref",
        "Lace.C03.fetch_in_bounds",
        "Lace.C03.run_panic_only_rti",
        "Lace.C02.execute_eq_isa",
        "Lace.C03.terminal_key_consumes_n_reads",
        "Lace.C03.terminal_reads_eq_pipe_reads",
        "Lace.C03.typed_reads_eq_pipe_reads",
        "Lace.C03.counter_bounded",
        "Lace.C03.ignored_event_consumes_nothing",
        "Lace.C03.buffered_read_consumes_no_event",
        "Lace.C03.nul_yields_zero",
        "Lace.C03.enter_yields_newline",
        "Lace.C03.ctrl_c_exits",
        "Lace.C03.terminal_read_no_panic",
        "Lace.C03.readCharLoop_eq_readKey",
        "Lace.C03.delivers_eq",
        "Lace.C03.isCtrlC_iff",
        "Lace.C03.execute_inp_frame",
        "Lace.C03.terminal_run_eq_pipe_run",
        "Lace.C03.terminal_process_eq_pipe_process",
        "Lace.C03.typed_process_eq_pipe_process",
        "Lace.C03.loop_fuel_mono",
        "Lace.C03.loop_fuel_agree",
        "Lace.C03.fetches_fuel_mono",
        "Lace.C03.ref_run_fuel_mono",
        "Lace.C03.term_loop_fuel_mono",
        "Lace.C03.loop_fuel_split",
        "Lace.C03.ref_run_fuel_split",
    ],
    "also": ["C03T"],
    "needs_bin": True,
    "compare": c03_compare,
    "classify": c03_classify,
    "nontrivial": c03_nontrivial,
    "group": lambda d: d["impl"].split(" ", 1)[0],
    "rule": ("structured programs that terminate by construction (counted loops, nested JSR/RET and CALL/RETS "
             "subroutines, loads/stores/indirection, traps with input, self-modifying stores; endings: HALT, "
             "running off the end, jumps to xFFFF / below the origin / to xFE00 and above, unknown trap, RTI) "
             "and arbitrary word images (origins incl. images ending exactly at / one above the top of memory, "
             "empty file), each under a step budget enforced by the run-loop tick hook; observables: outcome "
             "class and exit status, final registers/PC/CC, every memory word against the loaded image, stdout, "
             "input consumed, number and hash of the fetch addresses, out-of-bounds fetch count. "
             "Non-trivial: executed at least one instruction or was refused by the loader."),
    "trusted": [
        "Lean re-implementations of Rust integer formatting ({:04x}, {:03b}, {} of i16)",
        "the literal pieces of the normal-mode REG table are shared by specification and model (Lace/Basic/Tables.lean)",
        "stderr messages (exception text, LineTracker newlines) are not modelled",
        "crossterm's decoding of terminal bytes into key events (the driver's eventsOfTyped applies the single-character rules of crossterm 0.28's unix parser to the typed text of C03T requests)",
    ],
    "assumptions": [
        "GETC/IN: non-ASCII byte gives xFFFD; end of input is an emulator error (exit status 1)",
        "in --minimal mode a lone ESC written by OUT/PUTS/PUTSP/IN is dropped",
    ],
}

# ---------------------------------------------------------------- C06
PROPS["C06"] = {
    "theorems": [
        "Lace.C06.obj_length",
        "Lace.C06.words_of_obj",
        "Lace.C06.run_obj_eq_run_src",
        "Lace.C06.loader_accepts_iff",
        "Lace.C06.loader_never_panics",
        "Lace.C03.load_spec",
        "Lace.C06.runLoaded_fuel_mono",
        "Lace.C06.runObjFile_fuel_mono",
        "Lace.C06.runAssembled_fuel_mono",
    ],
    "needs_bin": True,
    "compare": cmp_proc,
    "classify": lambda rq, impl: rq.split(" ", 1)[0] + ":" + " ".join(impl.split(" ")[:2 if impl.startswith("fin") else 1]),
    "nontrivial": lambda rq, impl: True,
    "group": lambda d: d["request"].split(" ", 1)[0],
    "rule": ("process mode: generated programs (as .orig/.fill sources, origin present or defaulted) are compiled with the "
             "real `lace compile`; the written bytes are compared with objBytes; the object file and the source are "
             "run with `lace run` (both output modes, with and without -f stack, with input) and stdout + exit "
             "status compared with the model of main.rs::run and with each other; arbitrary byte strings (every "
             "length parity, empty, any first word, images ending at / one below / one above the top of memory) "
             "are offered as .lc3/.obj files; one case in three is a real assembly source over the whole instruction and "
             "directive set under a random layout, whose compiled bytes must be the object-file encoding of the image "
             "the assembler model computes from the same text. Every case is distinct by construction."),
    "trusted": [
        "clap argument parsing and real file-system semantics",
        "the words of generated sources are given as .fill directives here; instruction encoding is C01",
    ],
    "assumptions": ["status lines printed by main.rs (`Assembling/Running/Completed target <file>`) are part of stdout and are modelled"],
}

PROPS["C02"]["theorems"] = [
    "Lace.C02.execute_eq_isa",
    "Lace.C02.exec_frame",
    "Lace.C02.exec_frame_regs",
    "Lace.C02.exec_frame_mem",
    "Lace.C02.execute_frame",
    "Lace.C02.unknown_trap_stops",
    "Lace.C02.stack_off_stops",
    "Lace.C02.execute_no_panic",
    "Lace.regfield_lt",
]


# ---------------------------------------------------------------- C20
def c20_classify(rq, impl):
    if rq.startswith("U20 "):
        return "tty:" + ("timeout" if impl == "timeout" else "echoes%d" % min(0 if "echo=- " in impl else impl.split(" ")[0].count(",") + 1, 4))
    f = rq.split(" ")
    nkeys = 0 if len(f) < 3 or f[2] == "-" else f[2].count(",") + 1
    if impl.endswith("| panic"):
        out = "panic"
    else:
        out = "submitted%d" % min(impl.count("! "), 3)
    return "keys%s:%s" % (nkeys if nkeys <= 5 else "6+", out)


def c20_nontrivial(rq, impl):
    if rq.startswith("U20 "):
        return impl.startswith("echo=")
    # at least one key, and some key changed what the editor shows
    views = impl.split(" | ")[0].split(" ")
    return len(set(views)) > 1 or "!" in impl


def c20_group(d):
    if d["request"].startswith("U20 "):
        return "terminal-session"
    f = d["request"].split(" ")
    keys = [] if len(f) < 3 or f[2] == "-" else f[2].split(",")
    a = d["impl"].split(" ")
    b = (d.get("spec") or d.get("model") or "").split(" ")
    for i, (x, y) in enumerate(zip(a, b)):
        if x != y:
            if i < len(keys):
                k = keys[i]
                return "first-difference-at-key-" + ("Char" if k.startswith("c") else k)
            break
    return "first-difference-after-keys"


PROPS["C20"] = {
    "theorems": [
        "Lace.C20.editor_no_panic",
        "Lace.C20.cursor_in_bounds",
        "Lace.C20.submit_eq_reference",
        "Lace.C20.commands_eq_split",
        "Lace.C20.key_step",
        "Lace.C20.session_inv",
        "Lace.C20.submitted_not_blank",
        "Lace.Editor.handleKey_sim",
        "Lace.Editor.findWordNext_eq",
        "Lace.Editor.findWordBack_eq",
        "Lace.Editor.insertCharIndex_eq",
        "Lace.Editor.removeCharIndex_eq",
    ],
    "also": ["C20T"],
    "needs_bin": True,
    "compare": cmp_default,
    "classify": c20_classify,
    "nontrivial": c20_nontrivial,
    "group": c20_group,
    "rule": ("every key sequence up to length 4 (thorough: 5) over {a, b, space, +, e-acute (2 bytes), "
             "U+1F600 (4 bytes), Backspace, Delete, Left, Right, Ctrl+Left, Ctrl+Right, Up, Down, Enter} from the "
             "histories [], [\"ab c\"], [\"e-acute x\", \"q\"]; random sequences of up to 60 keys with Unicode "
             "spaces, digits, CJK, combining marks, ASCII control characters and random histories; whole lines "
             "with `;` after multi-byte characters through read_line + get_next_command; plus a corpus of past "
             "witnesses. A case is the request line (history, keys); it is non-trivial when some key changes "
             "what the editor shows or submits a line."),
    "exhaustive_note": "all key sequences up to length 4 (quick) / 5 (thorough) over the 15-key alphabet from three histories are enumerated",
    "trusted": [
        "char::is_whitespace / char::is_alphanumeric are a parameter of model and theorems; the harness sends Rust's own classification of every character of a case",
        "str::trim().is_empty() is modelled as 'every character is_whitespace'",
        "terminal drawing (print_prompt, println), raw mode, crossterm key decoding and the history file are not modelled",
    ],
    "assumptions": [
        "I10: history entries are non-blank (lines the editor itself could have stored)",
        "usize overflow of the cursor (a line of 2^64 characters) is not modelled",
    ],
}


# ---------------------------------------------------------------- C14
def _c14_unhex(h):
    if h in ("-", "N"):
        return h
    try:
        return bytes.fromhex(h).decode("utf-8", "replace")
    except ValueError:
        return "?"


def c14_classify(rq, impl):
    f = rq.split(" ")
    if f[0] == "L14":
        w = impl.split(" ")
        return "line:" + (" ".join(w[:2]) if w[0] == "ok" else w[0])
    w = impl.split(" ")
    return "session:" + w[0]


def c14_nontrivial(rq, impl):
    # a line that parses to a command, or a session that yields at least one command
    if rq.startswith("L14"):
        return impl.startswith("ok ") or impl.startswith("exit") or impl == "panic"
    body = impl.split(" :", 1)[1] if " :" in impl else ""
    return any(ev.strip() not in ("", "err") for ev in body.split("|"))


def c14_group(d):
    f = d["request"].split(" ")
    if f[0] == "L14":
        words = _c14_unhex(f[1]).split(" ")
        return "line-" + (words[0].lower()[:12] if words else "")
    return "session"


PROPS["C14"] = {
    "theorems": [
        "Lace.C14.parse_integer_eq_grammar",
        "Lace.C14.parse_command_eq_grammar",
        "Lace.C14.parse_no_panic",
        "Lace.C14.reader_lines_valid",
        "Lace.C14.session_no_panic",
        "Lace.C14.session_eq_script",
        "Lace.C14.split_argument_eq_split_stdin",
        "Lace.C14.read_no_panic",
        "Lace.C14.session_eq_lines",
        "Lace.C14.transport_independent",
        "Lace.C14.transport_independent_semicolon",
        "Lace.C14.transport_independent_argument_only",
        "Lace.C14.separators_equivalent",
        "Lace.C14.swapSeparators_ok",
        "Lace.C14.commandTable_unambiguous",
        "Lace.C14.parse_offsets_in_range",
    ],
    "compare": cmp_default,
    "classify": c14_classify,
    "nontrivial": c14_nontrivial,
    "group": c14_group,
    "rule": ("L14: one trimmed command line -> Command::try_from, rendered with all argument values. "
             "ALL strings of length <= 4 (quick; 5 thorough) over the 16 symbols + - # 0 1 7 9 a f g x o b ^ r _ "
             "as the argument of `move r1`, `goto`, `break add`, `step into`, `print` (exhaustive); "
             "boundary-directed literals (magnitudes around 2^15, 2^16, 2^31, 2^32, 20-digit strings) in every radix "
             "with every sign/prefix/zero placement in 9 argument positions; every command word, alias and "
             "misspelling of name.rs in three letter cases with 0-3 arguments; random longer lines with multi-byte "
             "characters and Unicode white space. R14: ~200 random scripts (2000 thorough), each delivered in every "
             "split between --command argument and stdin, with ';' / newline / mixed separators, with and without a "
             "trailing separator. A case is non-trivial when the line parses to a command (or exits / panics), or the "
             "session yields at least one command."),
    "exhaustive_note": "all strings up to length 4 (quick) / 5 (thorough) over the 16-symbol alphabet are enumerated in 5 argument positions",
    "trusted": [
        "Rust str::trim / char::is_whitespace = the 25 White_Space code points transcribed in Lace/Model/Cmd/Text.lean",
        "str::eq_ignore_ascii_case modelled on code points; std::str::from_utf8 modelled by Lean core's ByteArray.utf8DecodeChar?",
        "usize cursor arithmetic is not overflow-checked in the model (bounded by the buffer length)",
        "the interactive terminal reader (terminal.rs) is not modelled; R14 exercises the piped-stdin reader",
    ],
    "assumptions": [
        "I9: command text is valid UTF-8 (invalid UTF-8 on stdin panics with \"uh oh\"; mirrored by the model, outside the property)",
        "K1: `sudo` exits the process with status 0 from inside the name parser (known finding, not fixed)",
    ],
}


# ---------------------------------------------------------------- assembler (C05 and friends)
def asm_classify(rq, impl):
    f = impl.split(" ")
    if f[0] == "diag" and len(f) > 1:
        return "diag:" + f[1]
    return f[0] if impl else "<empty>"


def asm_nontrivial(rq, impl):
    # every distinct source text is a case of its own; the empty text is the only trivial one
    return not rq.endswith(" -")


def asm_group(d):
    return asm_classify(d["request"], d["impl"]) + "/" + asm_classify(d["request"], d.get("model") or "")


PROPS["C05"] = {
    "theorems": [
        "Lace.C05.assemble_no_panic",
        "Lace.C05.diag_points_inside",
        "Lace.C05.token_progress",
        "Lace.C05.assemble_terminates",
    ],
    "compare": cmp_default,
    "classify": asm_classify,
    "nontrivial": asm_nontrivial,
    "group": asm_group,
    "rule": ("UTF-8 source texts: grammar-derived programs over the whole instruction / trap / directive set under "
             "random layouts and literal spellings; the same with token-level mutations (delete, duplicate, swap, "
             "insert, replace by a token of any kind incl. data directives, .break, .orig, strings), byte-level "
             "mutations, 2/3/4-byte characters at token boundaries and after x/0x/#/rN/\"/., comments abutting "
             "tokens, fragment soups, size extremes (.blkw xFFFF repeated, label distances around 0x8000, more than "
             "65,535 statements) and a corpus of past witnesses. A case is (stack flag, text); compared: outcome "
             "class, diagnostic kind and primary label span, and for accepted texts origin, every emitted word, "
             "every statement span and the .break addresses. Checked directly on the implementation: no unwind, "
             "the report renders with {:?}, every label lies inside the source."),
    "trusted": [
        "Lean re-implementations of Rust's i16/u16::from_str_radix, char::to_digit, is_ascii_whitespace, to_ascii_lowercase",
        "miette's renderer is exercised (must not panic), not modelled",
    ],
    "assumptions": [
        "memory exhaustion is outside the model: the preprocessor expands .blkw/.stringz eagerly (65,535 tokens per `.blkw xFFFF`)",
        "the warning printed for a negative .blkw count is not an observable of the model",
    ],
}

def cmp_seq(rq, impl, model):
    # the implementation answered one text differently on the session's thread and on a fresh thread:
    # that history is itself the failing input (the property is about lace alone), whatever the model says
    if " !fresh " in impl:
        spec = " ## ".join(e.split(" !fresh ")[1] if " !fresh " in e else e for e in impl.split(" ## "))
        return [{"kind": "impl-vs-spec", "request": rq, "impl": impl, "model": split_ms(model)[0], "spec": spec,
                 "note": "spec = every text answered as on a fresh thread (lace's own answer there)"}]
    return cmp_default(rq, impl, model)


def seq_classify(rq, impl):
    parts = impl.split(" ## ")
    ok = sum(1 for p in parts if p.startswith("ok"))
    return "len%d:%dok%s" % (len(parts), ok, ":FRESH-DIFF" if " !fresh " in impl else "")


PROPS["C19"] = {
    "also": ["C19W"],
    "needs_bin": True,
    "theorems": [
        "Lace.C19.reset_eq_empty",
        "Lace.C19.assemble_after_reset",
        "Lace.C19.assemble_deterministic",
        "Lace.C19.runSeq_reset_eq_map",
        "Lace.C19.watch_recheck_eq_check",
        "Lace.C19.stale_table_matters",
        "Lace.C19.watch_session_eq_checks",
    ],
    "compare": cmp_seq,
    "classify": seq_classify,
    "nontrivial": lambda rq, impl: True,
    "group": lambda d: seq_classify(d["request"], d["impl"]),
    "rule": ("histories of 2-6 sources (valid; failing in the lexer, in the parser after labels were recorded, in "
             "backpatch, in emit; sharing label names; differing origins; the same source repeated) assembled one "
             "after the other on ONE thread, with lace::reset_state() before each (4 of 5 histories) or without "
             "(1 of 5: exercises the model's symbol-table threading). Compared per element: the full assembler "
             "observation of C05 against the model's runSeq; with reset additionally, on the implementation, "
             "against the same source assembled on a fresh thread (a difference is reported as `!fresh` and is a "
             "failing history by itself). `F19` requests: histories around tables of 20,000-65,000 labels, answered "
             "on the implementation alone (this thread vs a fresh thread per element; the model's answer `same` is "
             "theorem runSeq_reset_eq_map)."),
    "trusted": [
        "the theorem is modest (purity is by construction in a functional model); that lace has no state besides "
        "the symbol table is established by the correspondence check, not by proof",
    ],
    "assumptions": [
        "`lace watch` itself (inotify, screen clearing) is not exercised; its closure is assemble / reset_state / reclaim",
    ],
}

PROPS["C02"]["theorems"] = [
    "Lace.C02.execute_eq_isa",
    "Lace.C02.exec_frame",
    "Lace.C02.exec_frame_regs",
    "Lace.C02.exec_frame_mem",
    "Lace.C02.execute_frame",
    "Lace.C02.unknown_trap_stops",
    "Lace.C02.stack_off_stops",
    "Lace.C02.execute_no_panic",
    "Lace.regfield_lt",
]


# ---------------------------------------------------------------- C07 / C08 (process mode)
def c07_compare(rq, impl, model):
    out = cmp_default(rq, impl, model)
    # the property itself, checked directly on the implementation's three exit statuses
    f = dict(x.split("=", 1) for x in impl.split(" ") if "=" in x)
    ck, cp, rn = f.get("check"), f.get("compile"), f.get("run")
    bad = None
    if "panic" in (ck, cp, rn):
        bad = "a command panicked"
    elif ck == "0" and cp != "0":
        bad = "check reports success but compile fails"
    elif cp != "0" and (ck == "0" or rn == "ok"):
        bad = "compile rejects the source but check or run accept it"
    if bad and not any(d["kind"] == "impl-vs-spec" for d in out):
        out.append({"kind": "impl-vs-spec", "request": rq, "impl": impl, "model": model, "spec": bad})
    return out


PROPS["C07"] = {
    "theorems": [
        "Lace.C07.check_ok_imp_compile_ok",
        "Lace.C07.compile_err_imp_check_err_and_run_err",
        "Lace.C07.check_compile_run_agree",
        "Lace.C07.emission_error_fails_check",
        "Lace.C05.assemble_no_panic",
    ],
    "needs_bin": True,
    "compare": lambda rq, impl, model: c07_compare(rq, impl, model if " ;; S " in model else model + " ;; S " + split_ms(model)[0]),
    "classify": lambda rq, impl: impl,
    "nontrivial": lambda rq, impl: True,
    "group": lambda d: d["impl"],
    "rule": ("process mode: for each generated source and each feature setting the real `lace check`, `lace compile` and "
             "`lace run` are spawned and their exit statuses (and whether run got past assembling) compared with the "
             "model of main.rs driven by the assembler model, and with each other (the property predicate itself). "
             "Sources: a label reference exactly at / one beyond / one inside the limit of its field, forwards and "
             "backwards, at every statement position, for every PC-relative instruction (br*, ld, ldi, lea, st, sti, "
             "jsr, call); sources using the stack mnemonics; plain valid and invalid sources. A case = (source, flag)."),
    "trusted": ["clap argument parsing; `lace watch` (inotify) is not exercised, it calls the same assemble()"],
    "assumptions": ["`run` counts as accepting the source iff it prints `Running emitted binary`"],
}


def c08_compare(rq, impl, model):
    m, _ = split_ms(model)
    out = cmp_default(rq, impl, "M " + m + " ;; S " + m)
    # direct all-or-nothing predicate on the implementation
    f = rq.split(" ")
    dest = f[3] if len(f) > 3 else ""
    for pre in ("nu8:", "long:", "lnkrel:", "lnkabs:", "hard:", "stale:"):
        if dest.startswith(pre):
            dest = dest[len(pre):]
    if dest.startswith("deep:"):
        dest = "absent"      # a directory or an unresolvable path: reading it gives nothing
    st = impl.split(" ")[0]
    after = impl.split("dest=", 1)[1] if "dest=" in impl else ""
    before = {"absent": "absent", "devfull": "devfull", "nodir": "nodir"}.get(dest, "file:" + dest[4:] if dest.startswith("pre:") else "?")
    bad = None
    if st == "st=panic":
        bad = "compile panicked"
    after = after.split(" extra=")[0]
    extra = impl.split(" extra=", 1)[1] if " extra=" in impl else "0"
    if st == "st=panic":
        bad = "compile panicked"
    elif extra != "0":
        bad = "compile left %s file(s) behind next to the destination" % extra
    elif st != "st=0" and after != before:
        bad = "compile failed but the destination changed: before %s after %s" % (before, after)
    elif st == "st=0" and not after.startswith("file:"):
        bad = "compile reports success but no object file exists"
    if bad and not any(d["kind"] == "impl-vs-spec" for d in out):
        out.append({"kind": "impl-vs-spec", "request": rq, "impl": impl, "model": model, "spec": bad})
    return out


PROPS["C08"] = {
    "theorems": [
        "Lace.C08.compile_all_or_nothing_faults",
        "Lace.C08.writeAllOrNothing_spec",
        "Lace.C08.compile_write_fails_at",
        "Lace.C08.in_place_truncates",
        "Lace.C08.compile_all_or_nothing",
        "Lace.C08.compile_fail_at",
        "Lace.C08.compile_unwritable",
        "Lace.C08.emitAll_fail_at",
        "Lace.C08.compileP_all_or_nothing",
        "Lace.C08.no_stray_entries",
        "Lace.C08.no_new_names",
        "Lace.C08.hard_link_other_name_unchanged",
        "Lace.C08.old_inodes_unchanged",
        "Lace.C08.live_link_preserved",
        "Lace.C08.dangling_link_replaced",
        "Lace.C08.dest_location_regular_file",
        "Lace.C08.tmp_name_exists_refused",
        "Lace.C08.unresolvable_refused",
        "Lace.C08.not_replaceable_refused",
        "Lace.C08.compileP_status",
        "Lace.C08.compileP_refines_compileFs",
        "Lace.C08.compileP_name_refines_compileFs",
        "Lace.C08.writeAllOrNothingP_spec",
        "Lace.C08.compileP_spec",
        "Lace.C08.Shape.ofPlainDir",
        "Lace.C08.Shape.ofNotLink",
        "Lace.C08.Shape.ofResolves",
        "Lace.C08.Shape.ofUnresolvable",
        "Lace.C08.stale_tmp_link_truncates_before_fix",
        "Lace.C08.stale_tmp_link_refused",
        "Lace.C08.symlink_depth_counterexample_before_fix",
        "Lace.C08.symlink_depth_refused",
    ],
    "needs_bin": True,
    "compare": c08_compare,
    "classify": lambda rq, impl: (":".join(x for x in rq.split(" ")[3].split(":") if not all(c in "0123456789abcdef" for c in x) or x == "") if len(rq.split(" ")) > 3 else "?") + ":" + impl.split(" ")[0],
    "nontrivial": lambda rq, impl: True,
    "group": lambda d: d["impl"].split(" ")[0],
    "rule": ("process mode: `lace compile src dest` with an emission failure (out-of-range label reference) injected at "
             "every statement position k of n (and no failure), and other invalid sources; destination pre-existing "
             "with known random contents, absent, a private /dev/full-like device node, or in a non-existent directory; one "
             "regular destination in three is special: a name that is not valid UTF-8, a 255-byte name, a live or dangling "
             "symbolic link with a relative or absolute target in a sub-directory, a file with a second hard link; plus "
             "`stale:` (symbolic links .lace-tmp<n> -> the destination for the next 3,000 process ids, the spawned one "
             "verified: compile must refuse and remove nothing) and `deep:39..42` (n/n/.../n through a link to the working "
             "directory: around the limit of 40 link traversals compile must refuse and leave the link alone); in two "
             "cases out of five under a file size limit (RLIMIT_FSIZE with SIGXFSZ ignored: a write to a regular file fails "
             "after exactly that many bytes, as on a full disk), plus an exhaustive sweep of the limit over every byte "
             "position 0..8 of a 6-byte object file x 13 destinations; observed: exit status, the bytes read THROUGH THE "
             "DESTINATION PATH afterwards and the number of stray entries in the working directory and the sub-directory "
             "(+1 if the other hard-link name changed), compared with the path-level file-system model of "
             "write_all_or_nothing / the Compile arm (PathFs.compileP: directories, links, inodes, path resolution, fault "
             "parameter) run on the same file system and driven by the assembler model, and checked directly against the "
             "all-or-nothing predicate."),
    "trusted": ["real file-system semantics beyond: path resolution follows links (relative targets from the link's directory), "
                "create fails in a missing directory and follows links, create_new fails on any existing name, canonicalize "
                "reports NotFound vs. other errors (ELOOP after 40 links), /dev/full accepts open but no data, "
                "a size limit makes write_all fail after a short write, rename is atomic and replaces the destination's own "
                "entry (a link is not followed), a renamed-over file keeps its other names"],
    "assumptions": ["outside the model: permissions, `.`/`..`, mount points, concurrent writers, a crash (SIGKILL, power loss) "
                    "between two file operations; a failing rename is in the model (theorem) but not injected on the "
                    "implementation; the theorems cover every destination except a dangling symbolic link reached through symbolic "
                    "links (DESIGN.md §11.3 'C08 paths')"],
}


# ---------------------------------------------------------------- debugger sessions (C09–C13, C16)
def dbg_classify(rq, impl):
    return impl.split(" ", 1)[0] + ":" + impl.rsplit(" | ", 1)[-1]


def dbg_nontrivial(rq, impl):
    # a session that executed at least one instruction and read at least one command
    try:
        f = impl.split(" | ")
        return int(f[3].split(" ")[0]) > 0 and int(f[4].split(" ")[0]) > 0
    except Exception:
        return True


_DBG_COMMON_TRUSTED = [
    "debugger output is modelled in --minimal mode only, as the list of non-empty stderr lines; help text and miette output are collapsed to markers; the fancy tables, colours and LineTracker newlines are not modelled",
    "sessions here run `.orig`/`.fill` sources (labels and .break included); statement texts and the symbol table of those sources are supplied by construction (C17 covers real sources)",
    "scripts are delivered through --command already split; command-line parsing is C14",
]


def _dbg(theorems, rule, extra_assumptions=()):
    return {
        "theorems": theorems,
        "compare": cmp_default,
        "classify": dbg_classify,
        "nontrivial": dbg_nontrivial,
        "group": lambda d: d["impl"].rsplit(" | ", 1)[-1] + ":" + d["impl"].split(" ", 1)[0],
        "rule": rule + (" Observed per session and compared with the model: outcome and exit status, final registers/PC/CC, "
                        "every memory word against the loaded image, stdout, input consumed, the sequence of executed "
                        "addresses (count + hash), the interleaving of command reads and executions (count + hash), the "
                        "breakpoint list with predefined/run-time marks, every non-empty stderr line, and the property's "
                        "own verdict evaluated on the implementation. One session in five (programs without the REG trap) runs in "
                        "the normal, non --minimal output mode; there the debugger's own prints are not compared, everything else "
                        "is. Non-trivial: executed ≥ 1 instruction and read ≥ 1 command."),
        "trusted": _DBG_COMMON_TRUSTED,
        "assumptions": list(extra_assumptions),
    }


PROPS["C09"] = dict(_dbg(
    ["Lace.C09.debug_transparent", "Lace.C09.iter_nonmut", "Lace.C09.detached_eq_plain",
     "Lace.C09.nextAction_nonmut", "Lace.DbgProofs.runCommand_nonmut",
     # shared standard input (Props/C09IO.lean, model Model/DebuggerIO.lean)
     "Lace.C09IO.reader_consumes_exactly", "Lace.C09IO.fetch_consumes_exactly",
     "Lace.C09IO.fetch_rest_suffix", "Lace.C09IO.quit_hands_over_stdin",
     "Lace.C09IO.preparsed_agrees", "Lace.C09IO.preparsed_agrees_argument",
     "Lace.C09IO.debug_transparent_io", "Lace.C09IO.transport_independent_io",
     "Lace.C09IO.runLoop_sync", "Lace.C09IO.runCommand_frame", "Lace.C09IO.execute_setInp",
     "Lace.C09IO.readFromLoop_tview"],
    "generated terminating programs (loops, nested JSR/RET and CALL/RETS subroutines, self-modifying stores, traps with "
    "input, all endings incl. exceptions) with random .break directives and labels × random scripts of non-mutating "
    "commands with arbitrary arguments (step, step into k incl. 0 and 65535, step out, continue, break add/remove at "
    "absolute/label/PC-offset locations incl. out-of-range ones, break list, print, registers, assembly, echo), ended by "
    "quit, exit or end of input; the same image is also run without the debugger and the two final observables compared "
    "(verdict plain=same). One case in four is a TEXT-level session: the script reaches the real debugger as text "
    "(through --command, through standard input, or split across both; `;` or newline separated; aliases, letter "
    "case, number spellings, blank and invalid lines mixed in) and the driver derives the commands from the same text "
    "with the command-language model (Cmd.session) before running the debugger model — the two models are tied "
    "together end to end, and C14's transport independence is checked at the level of effects. The MODEL line of a text "
    "session comes from the debugger model that reads its commands on demand from the shared standard input "
    "(DbgIO.runLoopIO), the SPECIFICATION line from the pre-parsed model on the bytes that follow the script "
    "(Lace.C09IO.preparsed_agrees). One text session in three has a program that READS INPUT (GETC/IN): the script "
    "(inspection and breakpoint commands, rejected and blank lines) is on standard input — or split with --command, or "
    "wholly in --command — and ends in quit + ONE delimiter (`;` or newline) with the program's input (arbitrary bytes, "
    "sometimes beginning with a delimiter or more command text) right behind it; a directed corpus of 12 minimal "
    "hand-over sessions runs first (Lace.C09IO.quit_hands_over_stdin). In addition (harness "
    "id C09P) the real binary is spawned in pairs, `lace debug --command <text script>` vs `lace run`, in --minimal "
    "AND normal output mode, and stdout + exit status must be identical.",
    ["I8: with program input present the script ends the debugger itself (quit/exit), otherwise the debugger would read the program's input as commands",
     "transparency is claimed for scripts ending in quit / end of input; sessions containing `exit` end the program early by design and are only compared with the model"]), also=["C09P"], needs_bin=True)
PROPS["C10"] = _dbg(
    ["Lace.C10.paused_machine_on_trajectory", "Lace.C10.stepInto_iter", "Lace.C10.continue_iter",
     "Lace.C10.stepOver_iter", "Lace.C10.stepOver_pauses", "Lace.C10.stepOut_iter", "Lace.C10.cmd_step",
     "Lace.C10.cmd_stepInto", "Lace.C10.cmd_refused_at_halt", "Lace.C10.stepInto_exact",
     "Lace.C10.run_exact", "Lace.C10.continue_exact", "Lace.C10.stepOver_exact", "Lace.C10.stepOut_exact",
     # refinement of the big-step reference debugger Spec/RefDebug.lean (Props/C10Ref.lean)
     "Lace.C10.stepping_refines_reference",
     "Lace.C10.stepping_refines_reference_done",
     "Lace.C10.reference_refines_stepping",
     "Lace.C10.reference_fuel_refines_stepping",
     "Lace.C10.stepping_fuel_prefix",
     "Lace.C10.session_sim",
     "Lace.C10.cmd_sim",
     "Lace.C10.single_command",
     "Lace.C10.step_into_exact_with_breakpoints",
     "Lace.C10.step_over_call_pauses_at_return",
     "Lace.C10.step_out_stops_after_ret",
     "Lace.C10.step_out_without_stack",
     "Lace.C10.continue_stops_only_at_interrupt",
     "Lace.RefDebugProofs.run_sim",
     "Lace.RefDebugProofs.classOk_all",
     "Lace.RefDebugProofs.runObs_fst",
     "Lace.C10.runUntil_paused",
     "Lace.C10.runUntil_count_le",
     "Lace.C10.resume_paused",
     "Lace.C10.runUntil_fuel_mono",
     "Lace.C10.resume_fuel_mono",
     "Lace.C10.cmd_fuel_mono",
     "Lace.C10.cmd_fuel_agree",
     "Lace.C10.script_fuel_mono"],
    "generated programs and hand-written ones (self-loop, counted loop, recursive JSR and CALL subroutines, HALT in the "
    "middle, jumps to xFFFF / below origin / above user space, high origin) × random scripts over {step, step into k with "
    "k ∈ {0,1,2,3,7,65535}, step out, continue, break add/remove} ending in exit; verdict adv=same: the paused machine "
    "equals an undebugged run of the image advanced by exactly the number of executed instructions. Three-way: for every "
    "session `cs; exit` over the alphabet that ends, the driver also runs the big-step reference debugger "
    "(Spec/RefDebug.lean, executable) and its outcome, final machine, world, instruction count, executed addresses and "
    "command/execution interleaving form the specification line the implementation must equal.")
PROPS["C11"] = _dbg(
    ["Lace.C11.bp_sorted_nodup", "Lace.C11.bp_pause_before_exec", "Lace.C11.exec_rearms",
     "Lace.C11.no_bp_no_pause", "Lace.C11.runCommand_bps", "Lace.C11.armed_iteration_reads",
     # whole sessions (Props/C11Trace.lean), `.break` in the assembler model (Proofs/ParseBreaks.lean)
     "Lace.C11.bp_pause_before_exec_trace", "Lace.C11.bp_pause_before_exec_from", "Lace.C11.iter_bp_exec_reads",
     "Lace.C11.iter_fresh", "Lace.C11.bp_removed_never_pauses_trace", "Lace.C11.bp_line_only_at_breakpoint_trace",
     "Lace.C11.no_bp_runs_on_trace", "Lace.C11.bp_exec_preceded_by_resume", "Lace.C11.bp_fires_every_arrival",
     "Lace.C11.break_directive_addresses", "Lace.C11.break_directive_addresses_src", "Lace.C11.parse_breaks",
     "Lace.C11.assemble_breaks", "Lace.C11.runLoop_execs_eq_trace", "Lace.C11.nextReads_length",
     # `.break` tied to the abstract program (Spec.Prog.breaks; Props/C11Text.lean, Proofs/ParseBreaksRender.lean)
     "Lace.C11.breaks_render", "Lace.C11.debugger_breakpoints_render", "Lace.C11.break_marks_next_statement",
     "Lace.C11.break_trailing", "Lace.C11.break_occupies_no_memory", "Lace.C11.break_occupies_no_memory_render",
     "Lace.C11.mem_breaks_iff", "Lace.C11.breaks_incr", "Lace.C11.parse_tokens_breaks",
     "Lace.C11.parse_items_breaks"],
    "programs with loops incl. a one-instruction self-loop, .break before the first / between any two / after the last "
    "statement, doubled, together with labels × scripts of break add / remove / list at absolute, label and PC-offset "
    "locations interleaved with every resuming command; pause points are observable through the command/execution "
    "interleaving, the `Reached::Breakpoint` lines and the breakpoint list.")
PROPS["C12"] = _dbg(
    ["Lace.C12.initial_never_mutated", "Lace.C12.reset_restores", "Lace.C12.reset_then_run_eq_fresh_run",
     "Lace.C12.iter_initial"],
    "histories of stepping, continue, move (registers and memory incl. code, below the origin refused, stack area), goto, "
    "reset and self-modifying stores followed by `reset; exit` (verdict reset=ok: registers, PC, CC and all 65,536 words "
    "equal the loaded image) or `reset; quit` (the rest of the run is compared with the model).")
PROPS["C13"] = _dbg(
    ["Lace.C13.move_reg_frame", "Lace.C13.move_mem_frame", "Lace.C13.resolveUser_spec", "Lace.C13.oob_refused",
     "Lace.C13.inspect_readonly",
     "Lace.C13.quiet_step", "Lace.C13.quiet_next", "Lace.C13.session_frame", "Lace.C13.session_mem_changed",
     "Lace.C13.session_reg_changed", "Lace.C13.session_pc_changed", "Lace.C13.session_pc_inUser",
     "Lace.C13.session_bps_changed", "Lace.C13.session_confined", "Lace.C13.session_readonly",
     "Lace.C13.runCommand_setCmds", "Lace.C13.actionLoop_quiet", "Lace.C13.demo_session"],
    "after 0–2 steps, 1–4 probe commands move / goto / break add / break remove / print / assembly with wild locations "
    "(absolute addresses across the whole address space incl. 0, orig−1, xFDFF, xFE00, xFFFF; label ± offsets up to "
    "±32767; PC offsets at the signed 16-bit boundaries; unknown labels), every register, boundary values; then "
    "`registers`, `break list`, `exit`: the full machine, breakpoint list and error lines are compared.")
PROPS["C16"] = _dbg(
    ["Lace.C16.no_spin", "Lace.C16.iter_mono", "Lace.C16.work_bound", "Lace.DbgProofs.nextAction_no_cmd",
     "Lace.C16.reads_bounded", "Lace.C16.session_work_bound", "Lace.C16.session_terminates",
     "Lace.C16.runLoop_fuel_mono", "Lace.C16.runLoop_fuel_agree", "Lace.C16.session_outcome_unique"],
    "programs that jump to xFFFF, below the origin, to xFE00 and above, or park on HALT (and ordinary ones) × scripts of "
    "resuming commands (continue, step, step out, step into k), break add and goto issued wherever the program is, "
    "followed by end of input or quit, under a large iteration budget; verdict progress=ok: iterations counted by the "
    "run-loop tick hook ≤ executed instructions + commands read + 1.")


# ---------------------------------------------------------------- C01 / C04 (abstract programs, three-way)
def enc_classify(rq, impl):
    f = impl.split(" ", 1)[0] if impl else "<empty>"
    return f


def enc_nontrivial(rq, impl):
    # a case is an abstract program with at least one item, rendered to a non-empty text
    f = rq.split(" ")
    return len(f) > 4 and f[2] != "-"


def enc_group(d):
    return enc_classify(d["request"], d["impl"]) + "/" + (d.get("spec") or "?").split(" ", 1)[0]


PROPS["C01"] = {
    "theorems": [
        "Lace.C01.emit_eq_encode_holds",
        "Lace.C01.bitOffs_eq_pcField",
        "Lace.C01.emitAll_eq_specWords",
        "Lace.C01.parse_numbered",
        "Lace.C01.image_eq_spec",
        "Lace.C01.image_word",
        "Lace.C01.image_depends_on_labels_only",
        "Lace.C01.layout_irrelevant_of_assemble_image",
        "Lace.C01.parse_stmt_tokens",
        "Lace.C01.airOf_words",
        "Lace.C01.stmt_tokens_to_spec",
        "Lace.C01.lexes_reg_chars",
        "Lace.C01.lexes_kw",
        "Lace.C01.lexes_dir",
        "Lace.C01.lexes_lit",
        "Lace.C01.lexes_str",
        "Lace.C01.lexes_label",
        "Lace.C01.lexKind_label",
        "Lace.C01.advanceRealLoop_gap",
        "Lace.C01.preprocess_textRel",
        "Lace.C01.textRel_render",
        "Lace.C01.preprocess_render",
        "Lace.C01.parse_tokens_image",
        "Lace.C01.assemble_image_render",
        "Lace.C01.layout_irrelevant_render",
        "Lace.C01.lexKind_label_iff",
        "Lace.C01.fullOk_of_lt",
    ],
    "compare": cmp_default,
    "classify": enc_classify,
    "nontrivial": enc_nontrivial,
    "group": enc_group,
    "rule": ("ABSTRACT programs (optional .orig, .break, statements with register numbers, 16-bit literal words, label "
             "identities) rendered to text by the harness under random layouts (keyword/register case, every white-space "
             "character incl. `,` `:` CR FF, comments, blank lines, text after .end) and literal spellings (#d, #+d, #-d, "
             "xH, XH, 0xH, x-H, leading zeros); the driver computes spec(P) = Spec.Prog.image from the items alone and "
             "model(text) from the text alone; three-way: impl(text) = model(text) = spec(P) on origin and every word. "
             "Exhaustive sweeps, many statements per program: every register triple of ADD/AND, every pair of NOT, all 32 "
             "imm5 and all 64 offset6 x register pairs, every PC-relative distance of the 9/10/11-bit fields of every form "
             "(BR x flags, LD, LDI, LEA, ST, STI, JSR, CALL) as a label (before, after and ON the statement) and as a "
             "literal, all 256 trap vectors, named traps, JMP/JSRR/PUSH/POP x 8, .fill boundary words (all 65,536 in the "
             "thorough tier), .blkw 0..23, .stringz with every escape / unknown escapes / wide characters; each at origins "
             "{none, 0, 1, x3000, x7FFF, x8000, xFDFF-512}. Plus random programs (1-400 statements, dense label graphs), "
             "each rendered under TWO random layouts whose images must agree (`layout-diff` otherwise). Corpus: D1, D2, "
             "D3, D6, D7 witnesses, duplicate / undefined / case-differing labels, .orig twice, stack flag."),
    "trusted": [
        "text-level theorem assemble_image_render is proved for Spec.render (Lace/Spec/Render.lean). That the harness renderer (enc.rs: "
        "AProg::pieces, asmgen.rs: layout, spell_lit) stays inside the range of Spec.render is CHECKED on every run, not proved: for every "
        "text of an accepted program the driver reads a layout L off the text (Driver/Layout.lean, untrusted) and evaluates "
        "`render L P = text and L.ok P` (`outside-render-range` otherwise); it also renders P itself under the canonical layout and "
        "checks model(render L0 P) = Spec.Prog.image (`spec-render-mismatch`)",
    ],
    "assumptions": [
        "labels are valid label names whatever the stack flag (I13); a label marks a statement of at least one word",
        "a program of exactly 65,535 words followed by .break / .orig / a label is outside Spec.render's range (Prog.renderable / fullOk): lace answers `too many`, Spec.Prog.image accepts",
    ],
}

PROPS["C04"] = {
    "theorems": [
        "Lace.C01.emit_ok_iff_fits_holds",
        "Lace.C04.lit_range_iff",
        "Lace.C04.expectLit_lit",
        "Lace.C04.accept_iff_fits",
        "Lace.C04.no_truncation",
        "Lace.C04.reject_is_diag",
        "Lace.C04.dup_label_rejected",
        "Lace.C04.undefined_label_rejected",
        "Lace.C04.second_orig_rejected",
        "Lace.C01.parse_tokens_ok_image",
        "Lace.C04.accept_render_image",
        "Lace.C04.accept_iff_wf_render",
        "Lace.C04.reject_render",
    ],
    "compare": cmp_default,
    "classify": enc_classify,
    "nontrivial": enc_nontrivial,
    "group": enc_group,
    "rule": ("ABSTRACT programs whose operands are arbitrary 16-bit words and whose label distances are arbitrary, rendered "
             "and checked three-way as for C01 (accept/reject, and origin + every word when accepted; spec(P) from the "
             "items alone). Every instruction form with a numeric operand (ADD/AND imm5, LDR/STR offset6, BR x 7 flags / "
             "LD / LDI / LEA / ST / STI literal 9 bits, JSR literal 11 bits, TRAP 8 bits unsigned, .fill) x operand in "
             "{min-2, min-1, min, min+1, -1, 0, 1, max-1, max, max+1, max+2, x7FFF, x8000, xFFFF} x spellings {signed "
             "decimal, unsigned decimal, hex, negative hex} x {no origin, x8000}; .orig at 17 boundary values x 4 "
             "spellings, twice (4 positions), in the middle, at the end, absent; trap 0..x101 and 6 extremes; label "
             "distances exactly +-2^(n-1), one and two short, one beyond, and 0x7FFE..0x8000 / 0xFFFC..0xFFFD made with "
             ".blkw, for every PC-relative form, forward and backward; undefined / duplicate / case-differing labels x "
             "every form; stack mnemonics x flag; random programs with out-of-range operands, undefined and duplicate "
             "labels and repeated .orig, a third of them under two layouts."),
    "trusted": [
        "the harness renderer (enc.rs, asmgen.rs) realises the relation `t is a layout of P`",
        "text-level theorem accept_iff_wf_render is proved for the layout space Layout.ok of Spec/Render.lean; that the "
        "harness renderer stays inside it is re-checked by the driver on every text of a renderable program, accepted or rejected",
    ],
    "assumptions": [
        "labels are valid label names whatever the stack flag (I13); a label marks a statement of at least one word",
    ],
}


# ---------------------------------------------------------------- C18
_C18_WORDS = ("push", "pop", "call", "rets")


def c18_compare(rq, impl, model):
    """Model / spec comparison plus predicates checked directly on the implementation:
    F18/R18 answers are `<flag on> ## <flag off>`."""
    impl, model = canon_proc(impl), canon_proc(model)
    out = cmp_default(rq, impl, model)
    f = rq.split(" ")
    if f[0] == "F18" and " ## " in impl:
        on, off = impl.split(" ## ", 1)
        try:
            text = "" if f[2] == "-" else bytes.fromhex(f[2]).decode("utf-8", "replace")
        except ValueError:
            text = None
        want = None
        if f[1] == "same" and on != off:
            want = "no stack mnemonic in token position (by construction): both settings must give the same result"
        elif (f[1] == "reject" and not off.startswith("diag lexStack ")
              and not on.startswith("diag lex") and not on.startswith("diag preproc")):
            # with the flag on the lexer and the preprocessor got through the whole text, mnemonic included
            want = "a stack mnemonic in token position (by construction): flag off must give diag lexStack"
        elif text is not None and on != off and not any(w in text.lower() for w in _C18_WORDS):
            want = "none of push/pop/call/rets occurs in the text at all: both settings must give the same result"
        elif on != off and not off.startswith("diag lexStack "):
            want = "the flag may only turn a result into diag lexStack"
        if want:
            out.append({"kind": "impl-vs-spec", "request": rq, "impl": impl, "model": model, "spec": want})
    elif f[0] == "R18" and " ## " in impl:
        on, off = impl.split(" ## ", 1)
        if on != off and not off.startswith("exit 1 "):
            out.append({"kind": "impl-vs-spec", "request": rq, "impl": impl, "model": model,
                        "spec": "the flag may only turn a run into `exit 1` at an opcode-0xD word"})
    elif f[0] == "P18":
        # rejected for the missing feature => the diagnostic names it (the model says when)
        pass
    return out


def c18_classify(rq, impl):
    f = rq.split(" ")
    if f[0] in ("F18", "R18"):
        parts = impl.split(" ## ")
        def cls(p):
            w = p.split(" ")
            return (w[0] + ":" + w[1]) if w[0] in ("diag", "exit", "loadexit") and len(w) > 1 else w[0]
        if len(parts) == 2:
            a, b = cls(parts[0]), cls(parts[1])
            return "%s:%s" % (f[0], a if parts[0] == parts[1] else a + "|" + b) if a != b or parts[0] == parts[1] \
                else "%s:%s|differs" % (f[0], a)
        return f[0] + ":" + impl[:20]
    if f[0] == "P18":
        st = impl.split(" ")[0]
        named = impl.rsplit(" ", 1)[-1]
        return "P18:%s:%s:%s:%s" % (f[1], "noflag" if f[2] == "N" else "flag", st, named)
    return f[0]


def c18_nontrivial(rq, impl):
    f = rq.split(" ")
    if f[0] == "F18":
        return not rq.endswith(" -")
    if f[0] == "R18":
        # executed at least one instruction under some setting, or was refused by the loader
        for part in impl.split(" ## "):
            if part.startswith("load"):
                return True
            try:
                if int(part.rsplit("|", 1)[1].split()[0]) > 0:
                    return True
            except Exception:
                return True
        return False
    return True


def c18_group(d):
    f = d["request"].split(" ")
    if f[0] == "F18":
        return "asm-" + f[1]
    if f[0] == "P18":
        return "proc-" + f[1] + "-" + f[2]
    return "run"


PROPS["C18"] = {
    "theorems": [
        "Lace.C18.flag_dichotomy",
        "Lace.C18.flag_off_rejects",
        "Lace.C18.flag_off_diag_inside",
        "Lace.C18.flag_irrelevant_asm",
        "Lace.C18.flag_irrelevant_text",
        "Lace.C18.flag_off_rejects_iff",
        "Lace.C18.flag_irrelevant_vm",
        "Lace.C18.flag_off_opD_exit1",
        "Lace.C18.flag_on_executes",
        "Lace.C18.flag_matters_on_opD",
        "Lace.C18.flag_irrelevant_run",
        "Lace.C18.flag_off_run_opD_exit1",
        "Lace.C18.flag_on_run_eq_ref",
        "Lace.C18.fetched_words_per_fetch",
        "Lace.C18.features_from_str_spec",
        "Lace.C18.features_from_str_err",
        "Lace.C18.split_comma_spec",
        "Lace.C18.flag_irrelevant_cli",
        "Lace.C18.flag_off_cli_rejects",
        "Lace.C18.flag_position_irrelevant",
        "Lace.C18.obj_flag_irrelevant",
        "Lace.C18.obj_flag_off_opD_exit1",
        "Lace.C18.obj_flag_position_irrelevant",
        "Lace.C18.obj_bad_option_exit2",
        "Lace.C02.execute_eq_isa",
        "Lace.C02.stack_off_stops",
    ],
    "needs_bin": True,
    "compare": c18_compare,
    "classify": c18_classify,
    "nontrivial": c18_nontrivial,
    "group": c18_group,
    "rule": ("every case is observed under BOTH settings of the flag. F18 (in-process assembler): grammar-derived programs "
             "without the four mnemonics; the same with the mnemonics inside comments and strings, with near-miss labels "
             "(pushy, xpop, r1rets, call_ ...), with everything after .end; with push/pop/call/rets inserted as an "
             "instruction, as a label definition (`PuSh .fill x1`, `pop: halt`) or as a label reference (`lea r0 pop`, "
             "`br PUSH`, `.fill call`) in random letter case under random layouts; texts with other errors; plus a corpus. "
             "The answer carries both outcomes; the spec line is computed from the flag-ON token stream (no mnemonic token "
             "=> off = on; a mnemonic token => off = diag lexStack); checked directly on the implementation: the "
             "generator's expectation (same / reject), 'none of the four words occurs in the text => same result', and "
             "'the flag can only turn a result into diag lexStack'. R18 (in-process from_raw + run under a step budget): "
             "images built around raw opcode-0xD words (reached; behind HALT; branched over; loaded as data; stored into "
             "the instruction stream and then executed; present but overwritten before being reached; in loops; PUSH/POP "
             "pairs, CALL/RETS, junk in unused bits), the structured terminating programs and random images of C03; spec "
             "line: the flag-off run fetches no 0xD word => off = on = reference machine, otherwise off = exit 1. "
             "P18 (process mode): `lace check|compile|run f.asm [--minimal]` with the option absent, `-f stack`, `-f \"\"`, "
             "`-f stack,stack`, `-f foo`, `--features stack`, `--features=stack`, `-fstack`, `-f ,stack,`, `-f Stack` ..., and the option written BEFORE the "
             "subcommand (`lace -f stack run f.asm`: spec line = what the same option does after it) or both before and after "
             "on programs with / without the mnemonics and with raw 0xD words reached / not reached / stored at run "
             "time: exit status, stdout, bytes of out.lc3, and whether stderr contains the word `stack` when the "
             "status is 1. Non-trivial: every non-empty text; every run that executes an instruction or is refused by "
             "the loader; every spawn."),
    "trusted": [
        "clap's handling of -f/--features (value_parser = Features::from_str, default value rendered by Display, exit status 2 on a parse error) and real file-system semantics",
        "the word `stack` on stderr is searched in the rendered miette report / the VM's message; the rendering itself is not modelled (generated sources never contain that word)",
        "Lean re-implementations of Rust integer formatting and from_str_radix, as for C03/C05",
    ],
    "assumptions": [
        "'contains one of the four mnemonics' is made precise with lace's own lexer: the flag-on token stream contains a token of kind push/pop/call/rets (any letter case, instruction or label position; comments, strings and text after .end are not tokens)",
        "'never executes opcode 0xD' is stated on the words the flag-off run fetches, as memory is at fetch time",
        "`step out` availability in the debugger (debugger/mod.rs:364-381) is not covered here",
    ],
}


# ---------------------------------------------------------------- C15 / C17 (source-level debugger sessions)
def src_classify(rq, impl):
    return impl.split(" ", 1)[0] if impl else "<empty>"


def src_nontrivial(rq, impl):
    # the session reached the debugger and printed something
    return impl.startswith(("done", "exit")) and not impl.endswith("| -")


PROPS["C15"] = {
    "theorems": [
        "Lace.C15.eval_eq_isa_abs",
        "Lace.C15.eval_text_eq_spec",
        "Lace.C15.eval_ld_label",
        "Lace.C15.eval_st_label",
        "Lace.C15.eval_pc_only_jumps_partial",
        "Lace.C15.eval_pc_only_jumps_holds",
        "Lace.C15.eval_never_ends_session_holds",
        "Lace.C15.refused_noop",
        "Lace.C15.eval_refusals_noop",
        "Lace.C15.eval_never_ends_session_partial",
        "Lace.C15.parseSimple_no_panic_holds",
        "Lace.C15.parseSimple_diag_inside",
        "Lace.C15.eval_text_total",
    ],
    "compare": cmp_default,
    "classify": src_classify,
    "nontrivial": src_nontrivial,
    "group": lambda d: "eval",
    "rule": ("debugger sessions on REAL assembly sources (labels, instructions, directives, random layouts, origins "
             "0x0000..0xFDFF incl. >= 0x8000, programs with a .blkw of several hundred words so that labels are out "
             "of reach): registers set up with `move`, then `goto a; eval <instr>; registers; print <label>` for a in "
             "every statement address (and the sentinel HALT), every instruction form (register / immediate / "
             "base+offset / label operand defined before and after a / JSR JSRR JMP RET / traps with and without "
             "input / stack forms with the flag on), the off-limits ones (BR*, RTI, HALT, unknown vectors) and "
             "malformed text (missing, surplus, wrong-kind operands, two instructions, directive text, out-of-range "
             "immediates, unknown labels, token soup); plus a corpus (D17 at every address, D18). Compared three ways: "
             "implementation vs Lean model (source assembled by the Lean assembler model, eval = eval_inner model) vs "
             "specification (labels from the generator's abstract program, eval = Spec.execAbs): final machine, "
             "memory diff, stdout, executed instructions, breakpoints, every stderr line (an eval diagnostic is "
             "collapsed to <evalmsg>)."),
    "trusted": [
        "the generator's abstract program (label -> word index, origin) as the oracle for label addresses",
        "text -> statement goes through the assembler's statement parser on both the model and the spec side",
    ],
    "assumptions": [
        "literal PC offsets and the link value of JSR/JSRR/CALL are unspecified by the property: mirrored, few generated",
        "eval getc / in at end of input exits 1 exactly as the VM does (I3); treated as in scope of 'as the VM would'",
        "a label operand farther from the PC than the instruction's field reaches is refused with a diagnostic",
    ],
}

# ---------------------------------------------------------------- C17: the breakpoint table
_BOX_V = "│┃|║"


def _table_rows(hex_table):
    """Rows of a breakpoint table, whatever its box characters, widths and heading: a list of
    (address, label cell, statement cell); a physical line without column separators continues the
    statement cell of the row above (statement texts may contain line breaks)."""
    try:
        text = bytes.fromhex(hex_table).decode("utf-8", "replace")
    except ValueError:
        return None
    rows = []
    for ln in text.split("\n"):
        parts = re.split("[" + _BOX_V + "]", ln)
        m = re.search(r"0x([0-9a-fA-F]{4})", parts[1]) if len(parts) >= 4 else None
        if m:
            rows.append([m.group(1).lower(), parts[2].strip(), parts[3].rstrip()])
        elif rows and len(parts) <= 2 and not re.search("[─━═┼╋┬┴├┤╭╮╰╯┌┐└┘]", ln):
            rows[-1][2] += "\n" + (parts[0] if len(parts) == 1 else parts[0] + parts[1]).rstrip()
    return rows


def _cell_agrees(shown, expected_shown):
    """The implementation's cell against the model's cell (both possibly cut with an ellipsis at
    their own width): the texts agree as far as both show them."""
    a, b = shown.rstrip(), expected_shown.rstrip()
    ca, cb = a.endswith("…"), b.endswith("…")
    a2, b2 = a.rstrip("…").strip(), b.rstrip("…").strip()
    if not ca and not cb:
        return a2 == b2
    n = min(len(a2), len(b2))
    if ca and cb:
        return a2[:n] == b2[:n]
    # one side shows the whole text: the cut side must be a prefix of it
    return (b2.startswith(a2) if ca else a2.startswith(b2))


def _disp_width(t):
    import unicodedata
    return sum(0 if unicodedata.combining(ch) else (2 if unicodedata.east_asian_width(ch) in "WF" else 1) for ch in t)


def _cut_consistent(tabs):
    """A table may cut a text that does not fit its column, by whatever measure of length it uses
    (characters, display columns); it may not cut a text that fits.  Checked on the implementation's
    own tables of one session, without assuming any width: no cut cell is shorter, by BOTH measures,
    than a cell of the same column that is shown whole."""
    for col in (1, 2):
        cut, whole = [], []
        for t in tabs:
            rows = _table_rows(t) if t not in ("-", "panic") else None
            for r in rows or []:
                if "\n" in r[col]:
                    continue        # a text with line breaks spreads over several lines of the table: not measured
                c = r[col].strip()
                if c.endswith("…"):
                    cut.append(max(len(c), _disp_width(c)))
                elif c:
                    whole.append(min(len(c), _disp_width(c)))
        if cut and whole and min(cut) < max(whole):
            return False
    return True


def c17_compare(rq, impl, model):
    """B17: when the tables differ as text (box characters, widths, a heading row are the table's
    own business), they are compared cell by cell instead."""
    if not rq.startswith("B17") or " | " not in impl:
        return cmp_default(rq, impl, model)
    m, s = split_ms(model)

    def split_tabs(x):
        head, _, tabs = x.rpartition(" | ")
        return head, tabs.split(",")

    def same(x, y):
        hx, tx = split_tabs(x)
        hy, ty = split_tabs(y)
        if hx != hy or len(tx) != len(ty):
            return False
        for a, b in zip(tx, ty):
            if a == b:
                continue
            ra = _table_rows(a) if a not in ("-", "panic") else ([] if a == "-" else None)
            rb = _table_rows(b) if b not in ("-", "panic") else ([] if b == "-" else None)
            if ra is None or rb is None or len(ra) != len(rb):
                return False
            for x1, y1 in zip(ra, rb):
                if x1[0] != y1[0] or not _cell_agrees(x1[1], y1[1]) or not _cell_agrees(x1[2].replace("\n", " ").strip(), y1[2].replace("\n", " ").strip()):
                    return False
        return True

    out = []
    if not _cut_consistent(split_tabs(impl)[1]):
        return [{"kind": "impl-vs-spec", "request": rq, "impl": impl, "model": m, "spec": s if s is not None else m,
                 "note": "the table cuts a text although it shows a longer one whole in the same column"}]
    if s is not None and not same(m, s):
        out.append({"kind": "impl-vs-model", "request": rq, "impl": impl, "model": m, "spec": s,
                    "note": "driver: model and spec answers differ"})
    if s is not None and not same(impl, s):
        out.append({"kind": "impl-vs-spec", "request": rq, "impl": impl, "model": m, "spec": s})
    elif not same(impl, m):
        out.append({"kind": "impl-vs-model", "request": rq, "impl": impl, "model": m, "spec": s})
    return out


PROPS["C17"] = {
    "theorems": [
        "Lace.C17.span_starts_at_statement_token",
        "Lace.C17.span_covers_operands_holds",
        "Lace.C17.multiword_share_span_holds",
        "Lace.C17.span_inside_source_holds",
        "Lace.C17.show_single_line_no_panic",
        "Lace.C17.span_text_eq_statement_partial",
        "Lace.C17.no_statement_no_text",
        "Lace.C17.statement_text",
        "Lace.C17.label_resolves",
        "Lace.C17.label_out_of_range",
        "Lace.C17.unknown_label",
        # the breakpoint table (Props/C17Table.lean)
        "Lace.C17.printCell_eq_bpCell",
        "Lace.C17.bpCell_length",
        "Lace.C17.bpCell_fits",
        "Lace.C17.bpCell_truncates",
        "Lace.C17.cut_only_what_does_not_fit",
        "Lace.C17.label_cell_rule",
        "Lace.C17.line_cell_rule",
        "Lace.C17.getSingleLine_eq_showSingleLine",
        "Lace.C17.bp_table_line_eq_assembly",
        "Lace.C17.bp_table_empty",
        "Lace.C17.bp_table_line_statement",
        "Lace.C17.bp_table_line_blank",
        "Lace.C17.break_list_normal_no_panic",
        "Lace.C17.bp_table_label",
        "Lace.C17.bp_table_label_sound",
        "Lace.C17.bp_table_label_none",
        "Lace.C17.bp_table_label_mem",
        "Lace.C17.resolveSymbolName_perm",
        "Lace.C17.bp_table_rows",
        "Lace.C17.bp_table_sorted",
        "Lace.C17.bpRows_eq",
        "Lace.C17.two_labels_one_line",
        "Lace.C01.parseHead_te",
        "Lace.C01.parse_items_spans",
        "Lace.C01.parse_tokens_spans",
        "Lace.C01.preprocess_textRel_spans",
        "Lace.C01.textRel_render",
        "Lace.C01.itemsSpansOf_ESpans",
        "Lace.C01.slice_itemsStmtSpans",
        "Lace.C17.spans_render",
        "Lace.C17.span_text_eq_statement_render",
        "Lace.C17.span_text_eq_statement_index",
        "Lace.C17.spans_length_render",
        "Lace.C17.stmtText_render",
        "Lace.C17.assembly_shows_statement_text",
        "Lace.C17.span_text_eq_statement_wf",
        "Lace.C17.span_text_eq_statement_text_holds",
    ],
    "compare": c17_compare,
    "classify": src_classify,
    "nontrivial": src_nontrivial,
    "group": lambda d: "view",
    "rule": ("programs from an abstract program rendered under a wild layout (operand-less instructions after "
             "operand-ful ones, several statements per line, .stringz/.blkw/.fill, labels with and without colon, "
             "commas / colons / CR / FF and comments between operands, multi-byte characters in comments and strings, "
             "origins incl. >= 0x8000 and user space ending inside the program, .break and .orig interleaved, a "
             "statement token at byte 0 of the file, text after .end): `assembly a` for EVERY a in [orig-2, orig+n+2] "
             "(observed byte for byte between echo markers), and for every label `print l`, `print l+-k`, "
             "`assembly l`, `break add l+-k`, `goto l+-k`, `assembly ^0`, `break add ^0`, a case-variant name, then "
             "`break list`, `registers`. Three-way: implementation vs model (spans from the Lean assembler model, "
             "text sliced from the source) vs the generator's own per-statement text, label table, origin and .break "
             "positions (renderStatement oracle). B17: sessions in the NORMAL output mode on such sources with labels of "
             "10-30 characters and .stringz statements of 24-40 characters (multi-byte characters anywhere): `break add` "
             "at every / some statement addresses, addresses without statement, refused addresses, label+-k, `break "
             "remove`, `break list` one to three times (empty list and .break-only lists included); what `break list` "
             "printed is cut out of stderr between echo markers, ANSI escape sequences removed, compared byte for byte "
             "three-way: implementation vs breakListNormal on the assembler model's spans and symbol table vs the table "
             "laid out from the generator's per-word texts and label table."),
    "trusted": [
        "the generator records what it wrote per statement (text, word count) while rendering; word counts of "
        ".stringz use an independent unescape",
    ],
    "assumptions": [
        "labels are used as locations only when the command grammar can name them (I14): `b+1`, `o-3`, `x+2` are integers",
        "the C17 generator writes no comment between a data directive and its operand (the theorem and the C01 generator cover it)",
        "ESC characters in statement text are not generated (minimal mode strips ANSI sequences)",
        "break list (normal mode) is compared after removing ESC [ ... final-byte sequences from both sides: the "
        "colour prefix lace's DebuggerWriter/Colored puts in front of every write is not modelled",
        "generated sources put at most one label on a statement (a label followed by .break/.orig shares its line "
        "with the next label; lace then shows whichever the hash map yields first: Lace.C17.two_labels_one_line)",
    ],
}
