#!/usr/bin/env python3
"""Regenerates seeded/README.md from the meta.json files written by seedtest.py."""
import json, os, glob
ROOT = os.path.dirname(os.path.dirname(os.path.abspath(__file__)))
head = open(os.path.join(ROOT, "seeded", "README.md")).read().split("| id |")[0]
rows = []
for d in sorted(glob.glob(os.path.join(ROOT, "seeded", "*", "meta.json"))):
    m = json.load(open(d))
    rows.append("| %s | %s | %s | %s | %s |" % (
        m["id"], m.get("breaks_property", "?"), "yes" if m.get("valid") else "NO",
        ", ".join(m.get("detected_by", [])) or "— (missed)", ", ".join(m.get("ran", []))))
open(os.path.join(ROOT, "seeded", "README.md"), "w").write(
    head + "| id | breaks | confirmed | caught by | checks run |\n|---|---|---|---|---|\n" + "\n".join(rows) + "\n")
print(len(rows), "rows;", sum(1 for r in rows if "missed" in r), "missed;", sum(1 for r in rows if "| NO |" in r), "invalid")
