#!/usr/bin/env python3
"""Resolve git conflict markers by keeping both sides (union). Usage: union_merge.py files…"""
import sys, re
for p in sys.argv[1:]:
    s = open(p).read()
    s = re.sub(r"<<<<<<< [^\n]*\n(.*?)=======\n(.*?)>>>>>>> [^\n]*\n", lambda m: m.group(1) + m.group(2), s, flags=re.S)
    open(p, "w").write(s)
