import sys
p=sys.argv[1]
text=open(f"/tmp/r9-out/{p}.txt").read()
print(f"""You are helping to test a verification tool by seeding realistic defects into a Rust project. You have your own scratch git worktree of the project `rozukke/lace` (an LC-3 assembly toolchain: lexer, parser, assembler, 16-bit VM with a stack extension, interactive debugger) at /tmp/r9-{p} . Work ONLY inside /tmp/r9-{p} and /tmp/r9-out/{p}/ . Do not read or touch /verif or /repo. The sandbox has no network; use `cargo build --offline` / `cargo test --offline` (set CARGO_NET_OFFLINE=true).

Here is a semantic property that the project is supposed to satisfy:

--- PROPERTY {p} ---
{text}
--- END ---

Your task: produce TWO different, independent changes (mutants) to the project's source (under src/), each of which
  * makes the project violate this property,
  * still compiles, and still passes the entire existing test suite (`cargo test --offline` in the worktree: 72 tests, all must pass),
  * looks like a plausible, realistic change a developer could make (a refactor gone subtly wrong, an optimisation, an off-by-one, a forgotten case, a changed comparison, state captured at the wrong time ...), NOT an obviously sabotaged one,
  * needs something SPECIFIC to manifest: an unusual input, a particular boundary value, a multi-step sequence of operations, a rare coincidence of operand values, or two cooperating code sites that each look fine alone. Ordinary use (e.g. the example programs under tests/files, or any simple program/script) must NOT expose it at once. Prefer changes that a random differential tester would be unlikely to hit unless its generators deliberately cover the corner.
The two mutants should touch different code sites / different clauses of the property if possible.

First read the relevant source to understand how the property is implemented today, and convince yourself the property holds on the unchanged worktree for your demonstration inputs.

For each mutant k in 1,2 write into /tmp/r9-out/{p}/m<k>/ :
  * patch.diff  - `git diff` of the change against the worktree's HEAD (must apply with `git apply` on a clean checkout; only files under src/),
  * demo.sh     - a bash script `demo.sh <path-to-lace-checkout>` that builds that checkout (`cd $1 && cargo build --offline`), runs the built `target/debug/lace` binary (or a small cargo test/program of your own placed in a temp dir - but do not add files to the checkout) on concrete inputs and exits 0 iff the property holds there, non-zero iff it is violated. It must exit 0 on the unchanged worktree and non-zero with the patch applied. Keep it deterministic and fast (< 2 min), and have it print what was expected and what was observed.
  * notes.md    - which clause is broken, the change, exactly what is needed for it to manifest, and why the 72 tests do not notice.

Useful facts: `lace run file.asm --minimal`, `lace compile file.asm out.lc3`, `lace check file.asm`, `lace debug file.asm --minimal --command 'cmd; cmd; ...'` (debugger output goes to stderr; `registers`, `print <loc>`, `break list`, `assembly <loc>` print values in --minimal mode), `-f stack` enables the stack extension. Standard input can be piped.

Before you finish, VERIFY each mutant yourself: reset the worktree (`git checkout -- .`), run demo.sh (must exit 0), apply the patch, run `cargo test --offline` (all 72 pass), run demo.sh (must exit non-zero); then reset the worktree again so it is clean at the end. Report in your final message, for each mutant: one-line description, files touched, and the verification results.""")
