#!/bin/bash
# Re-run every seeded change listed in seeded/rounds-4-15.txt (id, directory, properties to check) against
# the current /verif and /repo in two private lab copies, then collect the meta.json files and rebuild
# seeded/README.md.   usage: checklib/reseed.sh   (about 2 hours on 16 cores)
set -u
V=/verif
$V/checklib/lab.sh /tmp/lab >/dev/null; $V/checklib/lab.sh /tmp/lab2 >/dev/null
rm -rf /tmp/lab/verif/seeded/R* /tmp/lab2/verif/seeded/R*
awk 'NR%2==1' $V/seeded/rounds-4-15.txt > /tmp/seeds-a.txt; awk 'NR%2==0' $V/seeded/rounds-4-15.txt > /tmp/seeds-b.txt
run() { ( cd $1/verif; while read id dir props; do echo "=== $id ($props)"; python3 checklib/seedtest.py $id $dir $props 2>&1 | tail -14; done < $2; echo BATCH-DONE ) > $3 2>&1; }
run /tmp/lab /tmp/seeds-a.txt /tmp/final-a.log &
run /tmp/lab2 /tmp/seeds-b.txt /tmp/final-b.log &
wait
for lab in /tmp/lab /tmp/lab2; do for d in $lab/verif/seeded/R*; do [ -f $d/meta.json ] && cp $d/meta.json $V/seeded/$(basename $d)/; done; done
cd $V && python3 checklib/seeded_readme.py
echo ALL-DONE
