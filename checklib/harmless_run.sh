#!/bin/bash
# usage: harmless_run.sh <lab made by checklib/lab.sh> <patch>...  : apply each behaviour-preserving patch (harmless/*/p?.diff) to the lab's repo clone, run all 20 quick checks, report alarms (none expected) HARMLESS_PROPS="C08 C17" restricts the checks.
LAB=$1; shift
cd $LAB/verif
for patch in "$@"; do
  name=$(basename $(dirname $patch))-$(basename $patch .diff)
  git -C $LAB/repo checkout -q -- . ; git -C $LAB/repo clean -fdq
  if ! git -C $LAB/repo apply $patch; then echo "RF $name: patch does not apply"; continue; fi
  alarms=""
  for p in ${HARMLESS_PROPS:-C01 C02 C03 C04 C05 C06 C07 C08 C09 C10 C11 C12 C13 C14 C15 C16 C17 C18 C19 C20}; do
    out=$(./check $p --quick 2>&1)
    if [ $? -ne 0 ]; then alarms="$alarms $p"; echo "$out" | grep -E "VIOLATION|FAIL" | head -3 | sed "s/^/   [$name] /"; 
      for r in $(echo "$out" | grep -o 'replay=[^ ]*' | cut -d= -f2 | head -2); do mkdir -p ${RF_REPLAYS:-/tmp/rf-replays}/$name; cp $r ${RF_REPLAYS:-/tmp/rf-replays}/$name/ 2>/dev/null; done
    fi
  done
  echo "RF $name: alarms:[$alarms ]"
  git -C $LAB/repo checkout -q -- . ; git -C $LAB/repo clean -fdq
done
echo RF-DONE
