/-
  Layout extraction (driver side, C01): given an abstract program and a text that the harness claims
  to be a layout of it, reconstruct a `Spec.Layout` — separators, letter cases, literal spellings,
  label names, trail — by a single scan of the text along the program's abstract token sequence.

  Nothing here is trusted: the caller accepts the result only if `render L P = text` and
  `L.ok P` hold (both are evaluated), i.e. only if the text provably lies in the range of
  `Spec.render`, where theorem `Lace.C01.assemble_image_render` applies.
-/
import Lace.Spec.Render
namespace Lace.Driver.Lay
open Lace Lace.Spec

/-- split off white space and comments (state machine of `gapAux`): (gap, rest) -/
def splitGap : Bool → List Char → List Char → List Char × List Char
  | _, [], acc => (acc.reverse, [])
  | true, c :: cs, acc => splitGap (c != '\n') cs (c :: acc)
  | false, c :: cs, acc =>
    if c == ';' then splitGap true cs (c :: acc)
    else if isSepChar c then splitGap false cs (c :: acc)
    else (acc.reverse, c :: cs)

/-- a string literal: from the opening quote through the closing one -/
def splitStr : List Char → List Char → List Char × List Char
  | [], acc => (acc.reverse, [])
  | c :: cs, acc =>
    if c == '"' then ((c :: acc).reverse, cs)
    else if c == '\\' then
      match cs with
      | d :: ds => splitStr ds (d :: c :: acc)
      | [] => ((c :: acc).reverse, [])
    else splitStr cs (c :: acc)

/-- the next token's characters: a string literal, or a maximal run of non-separator characters -/
def splitTok (isStr : Bool) (t : List Char) : List Char × List Char :=
  match isStr, t with
  | true, '"' :: cs => splitStr cs ['"']
  | _, _ => (t.takeWhile (fun c => !isSepChar c), t.dropWhile (fun c => !isSepChar c))

def capsOf (text canon : List Char) : List Bool :=
  List.zipWith (fun c k => c != k) text canon

structure Acc where
  lays : List TokLay := []
  names : List (Nat × List Char) := []

/-- scan the text along the token sequence -/
def scan : List Tok → List Char → Acc → Acc × List Char
  | [], t, acc => (acc, t)
  | tok :: toks, t, acc =>
    let (sep, t1) := splitGap false t []
    let isStr := match tok with | .str _ => true | _ => false
    let (txt, t2) := splitTok isStr t1
    let lay : TokLay :=
      match tok with
      | .kw s alt =>
        let useAlt := alt != s && txt.map lowerChar == alt
        { sep := sep, alt := useAlt, caps := capsOf txt (if useAlt then alt else s) }
      | .reg r => { sep := sep, caps := capsOf txt (regText r) }
      | .lit _ => { sep := sep, lit := txt }
      | _ => { sep := sep }
    let names := match tok with | .label id => (id, txt) :: acc.names | _ => acc.names
    scan toks t2 { lays := lay :: acc.lays, names := names }

/-- the layout read off `t` (to be validated by the caller) -/
def extract (P : Prog) (t : List Char) : Layout :=
  let (acc, trail) := scan P.toks t {}
  let tbl := acc.names.reverse
  { names := fun id => match tbl.lookup id with | some n => n | none => canonName id
    toks := acc.lays.reverse
    trail := trail }

/-- `t` provably is `render L P` for a well-formed layout `L` -/
def inRange (P : Prog) (t : List Char) : Bool :=
  let L := extract P t
  render L P == t && L.ok P

end Lace.Driver.Lay
