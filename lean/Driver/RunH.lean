/- Driver handler for whole-image runs (C03): `X03 so mi fuel inp n w0 … w(n-1)`. -/
import Driver.Proto
import Lace.Spec.RefRun
import Lace.Model.Run
open Lace Lace.Driver

namespace Lace.Driver

def fnvStep (h : UInt64) (b : UInt64) : UInt64 := (h ^^^ b) * 0x100000001b3

def fnv (pcs : List Word) : UInt64 :=
  pcs.foldl (fun h pc =>
    let n := pc.toNat
    fnvStep (fnvStep h (UInt64.ofNat (n % 256))) (UInt64.ofNat (n / 256))) 0xcbf29ce484222325

def hex16 (n : UInt64) : String := hexN 16 n.toNat

def parseWords : List String → Option (List Word)
  | [] => some []
  | t :: ts => do
    let v ← parseHex t
    let rest ← parseWords ts
    some (BitVec.ofNat 16 v :: rest)

def showRunM (loaded : Machine) (fetch : List Word) : Run.RunResult → String
  | .done m w => "done " ++ showRegs m ++ " |" ++ memDiff loaded m ++ " | " ++ showWorld w ++ " | " ++
      toString fetch.length ++ " " ++ hex16 (fnv fetch) ++ " 0"
  | .exit c m w => "exit " ++ toString c ++ " " ++ showRegs m ++ " |" ++ memDiff loaded m ++ " | " ++ showWorld w ++ " | " ++
      toString fetch.length ++ " " ++ hex16 (fnv fetch) ++ " 0"
  | .fuel m w => "fuel " ++ showRegs m ++ " |" ++ memDiff loaded m ++ " | " ++ showWorld w ++ " | " ++
      toString fetch.length ++ " " ++ hex16 (fnv fetch) ++ " 0"
  | .panic _ => "panic | " ++ toString fetch.length ++ " 0"

def showRunS (loaded : Machine) (fetch : List Word) : Ref.RunResult → String
  | .done m w => showRunM loaded fetch (.done m w)
  | .exit c m w => showRunM loaded fetch (.exit c m w)
  | .fuel m w => showRunM loaded fetch (.fuel m w)
  | .panic s => showRunM loaded fetch (.panic s)

def handleX03 (toks : List String) : String :=
  match toks with
  | so :: mi :: fuel :: inp :: n :: ws =>
    match parseHex so, parseHex mi, parseHex fuel, parseBytes inp, parseHex n, parseWords ws with
    | some so, some mi, some fuel, some inp, some n, some ws =>
      if ws.length != n then "bad-request" else
      let so := so != 0
      let mi := mi != 0
      let w : World := { inp := inp, outRev := [] }
      let mline :=
        match Run.fromRaw ws with
        | .exit c => "loadexit " ++ toString c
        | .panic _ => "loadpanic"
        | .ok m =>
          let fetch := Run.fetches so mi fuel m w
          showRunM m fetch (Run.loop so mi fuel m w)
      let sline :=
        match Ref.load ws with
        | none => "loadexit 238"
        | some m =>
          -- the specification says every fetch is inside user space; the trace itself is
          -- taken from the model (theorem `fetch_in_bounds`)
          let fetch := Run.fetches so mi fuel m w
          showRunS m fetch (Ref.run so mi fuel m w)
      "M " ++ mline ++ " ;; S " ++ sline
    | _, _, _, _, _, _ => "bad-request"
  | _ => "bad-request"

end Lace.Driver
