/-
  Line protocol for C14 (debugger command language): canonical rendering of commands —
  identical, character for character, to `verif_hooks::render` in
  `src/debugger/command/mod.rs` — and the `L14` / `R14` request handlers.
-/
import Driver.Proto
import Lace.Model.Cmd.Reader
import Lace.Spec.CmdGrammar
namespace Lace.Driver
open Lace.Cmd

def renderMemLoc : MemLoc → String
  | .pcOffset off => "pc:" ++ toString off
  | .address a => "addr:" ++ hexW a
  | .label name off => "label:" ++ charsHex name ++ ":" ++ toString off

def renderLoc : Loc → String
  | .reg r => "r" ++ toString r.toNat
  | .mem l => renderMemLoc l

def renderCommand : Command → String
  | .help => "help"
  | .stepOver => "step"
  | .stepInto count => "stepinto " ++ hexW count
  | .stepOut => "stepout"
  | .continue_ => "continue"
  | .registers => "registers"
  | .print l => "print " ++ renderLoc l
  | .move l v => "move " ++ renderLoc l ++ " " ++ hexW v
  | .goto l => "goto " ++ renderMemLoc l
  | .assembly l => "assembly " ++ renderMemLoc l
  | .eval instr => "eval " ++ charsHex instr
  | .echo s => "echo " ++ charsHex s
  | .reset => "reset"
  | .quit => "quit"
  | .exit => "exit"
  | .breakList => "breaklist"
  | .breakAdd l => "breakadd " ++ renderMemLoc l
  | .breakRemove l => "breakremove " ++ renderMemLoc l

def renderOutcome : ParseOutcome → String
  | .ok c => "ok " ++ renderCommand c
  | .err => "err"
  | .exit code => "exit " ++ toString code
  | .panic _ => "panic"

/-- `<end> <#err> : ev | ev | …` where `ev` is `err` or a rendered command, in order. -/
def renderSession (ending : String) (events : Array String) : String :=
  let nerr := (events.filter (· == "err")).size
  ending ++ " " ++ toString nerr ++ " :" ++
    (if events.isEmpty then "" else " " ++ " | ".intercalate events.toList)

/-- `Cmd.session` (loop `readFrom` until end of input, = `verif_read_all`), rendered. -/
def runSession (r : Reader) : String :=
  let s := Cmd.session r
  let events := s.events.map fun
    | some c => renderCommand c
    | none => "err"
  let ending := match s.ending with
    | .eof => "eof"
    | .exit code => "exit " ++ toString code
    | .panic _ => "panic"
  renderSession ending events.toArray

/-- The domain of `Command::try_from`: a non-empty trimmed line without separators. -/
def validLine (line : List Char) : Bool :=
  line != [] && trim line == line && line.all (fun c => !CmdGrammar.isSeparator c)

/-- What the grammar says a whole session yields: every line is a command or a rejected line,
and the session always runs to the end of the input. -/
def specSession (a : Option (List Char)) (b : List Char) : String :=
  let events := (CmdGrammar.script (CmdGrammar.combined a b)).map fun
    | some c => renderCommand c
    | none => "err"
  renderSession "eof" events.toArray

end Lace.Driver
