/-
  Driver handler for SOURCE-LEVEL debugger sessions (`E15`, `V17` requests; see
  harness/src/dbg.rs `SrcCase`).

    <tag> <stack> <fuel> <inp> <src> <orig> <nT> <text>*nT <nB> <idx>*nB <nL> (<name> <idx>)*nL <nC> <cmd>*nC

  `src` is the assembly source (hex of UTF-8).  The MODEL answer assembles it with the Lean
  assembler model (`Lace.Asm.assemble`) and runs the session with everything the debugger knows
  taken from that: words, origin, symbol table, statement spans (texts are sliced from the source),
  `.break` addresses, `eval` through `evalInner`.

  The SPEC answer runs the same session with the debugger's knowledge taken from the harness
  generator's ABSTRACT program instead: origin, per-word statement text (`renderStatement`),
  `.break` positions, label ↦ word index; `eval` is `Spec.evalSpec` (`execAbs`) with labels
  resolved through the generator's table.  Only the loaded words themselves come from the
  assembler model (their correctness is C01's business).
-/
import Driver.DbgH
import Lace.Model.AsmSource
import Lace.Spec.EvalStmt
open Lace Lace.Driver Lace.Dbg Lace.Cmd

namespace Lace.Driver

structure SrcReq where
  so : Bool
  fuel : Nat
  inp : List Nat
  src : List Char
  orig : Word
  texts : List (List Char)
  breaks : List Nat
  labels : List (List Char × Nat)
  cmds : List Command

def parsePairs : List String → Option (List (List Char × Nat))
  | [] => some []
  | a :: b :: r => do
    let name ← parseText a
    let k ← parseHex b
    let tl ← parsePairs r
    some ((name, k) :: tl)
  | _ => none

def parseSrcReq (toks : List String) : Option SrcReq := do
  match toks with
  | so :: fuel :: inp :: src :: orig :: nt :: rest =>
    let so ← parseHex so
    let fuel ← parseHex fuel
    let inp ← parseBytes inp
    let src ← parseText src
    let orig ← parseHex orig
    let nt ← parseHex nt
    let (ts, rest) ← takeN nt rest
    let ts ← ts.mapM parseText
    match rest with
    | nb :: rest =>
      let nb ← parseHex nb
      let (bs, rest) ← takeN nb rest
      let bs ← bs.mapM parseHex
      match rest with
      | nl :: rest =>
        let nl ← parseHex nl
        let (ls, rest) ← takeN (2 * nl) rest
        let ls ← parsePairs ls
        match rest with
        | nc :: rest =>
          let nc ← parseHex nc
          if rest.length != nc then none else
          let cs ← rest.mapM parseCmd
          some { so := so != 0, fuel := fuel, inp := inp, src := src, orig := BitVec.ofNat 16 orig,
                 texts := ts, breaks := bs, labels := ls, cmds := cs }
        | _ => none
      | _ => none
    | _ => none
  | _ => none

/-- The debugger's environment according to the generator's abstract program. -/
def specEnv (r : SrcReq) : Env :=
  let res : Asm.Label → Option Word
    | .ref line => some (Spec.addrOfLine r.orig line)
    | .unfilled name => (r.labels.lookup name).map fun k => r.orig + BitVec.ofNat 16 k
  { stackOn := r.so, minimal := true,
    symtab := r.labels.map fun (n, k) => (n, BitVec.ofNat 16 (k + 1)),
    stmtText := fun i => r.texts[i]?,
    stmtCount := r.texts.length,
    eval := fun m w text =>
      -- the operand names are resolved through the generator's label table, not the assembler's
      match Asm.parseSimple (some r.so) [] ((evalLine r.orig m + 1) % 65536) text with
      | .diag _ _ => .refused evalMsg
      | .panic s => .panic s
      | .ok stmt => Spec.evalSpec r.so true res m w stmt }

def sessionLine (env : Env) (fuel : Nat) (loaded : Machine) (w : World) (d : Dbg) (nm : Bool := false) :
    String :=
  let fmt (head : String) (att : Bool) (d : Dbg) (m : Machine) (w : World) (ex : List Word) : String :=
    let pcs := ex.reverse
    head ++ " " ++ showRegs m ++ " |" ++ memDiff loaded m ++ " | " ++ showWorld w ++ " | " ++
      toString pcs.length ++ " " ++ hex16 (fnv pcs) ++ " | " ++ toString d.ncmds ++ " " ++
      hex16 (fnv (d.cmdAt.reverse.map (BitVec.ofNat 16))) ++ " | " ++
      showBps att d ++ " | " ++ (if nm then "~" else showErr d)
  match runLoop env fuel true d loaded w [] with
  | .done att d m w ex => fmt "done" att d m w ex
  | .exit c att d m w ex => fmt ("exit " ++ toString c) att d m w ex
  | .fuel att d m w ex => fmt "fuel" att d m w ex
  | .panic _ => "panic"

def handleSrc (_tag : String) (toks : List String) : String :=
  match parseSrcReq toks with
  | none => "bad-request"
  | some r =>
    match Asm.assemble r.so [] r.src with
    | (.diag _ _, _) => "M asmdiag"
    | (.panic _, _) => "M loadpanic"
    | (.ok img, tbl) =>
      let orig : Word := img.orig.getD 0x3000#16
      match Run.fromRaw (orig :: img.words) with
      | .exit c => "M loadexit " ++ toString c
      | .panic _ => "M loadpanic"
      | .ok loaded =>
        let w : World := { inp := r.inp, outRev := [] }
        let mline :=
          sessionLine (envOf r.so r.src img tbl) r.fuel loaded w
            (newDbg loaded (img.bps.map (BitVec.ofNat 16)) r.cmds)
        -- the generator's view: same words, its own origin / texts / breakpoints / labels
        let sline :=
          if r.orig != orig then "spec-orig-differs"
          else if r.texts.length != img.words.length then "spec-length-differs"
          else sessionLine (specEnv r) r.fuel loaded w
            (newDbg loaded (r.breaks.map (BitVec.ofNat 16)) r.cmds)
        "M " ++ mline ++ " ;; S " ++ sline

end Lace.Driver
