/-
  Driver handlers for C18 (the stack extension is gated by its feature flag, and only it).

  `F18 <expect> <hex source>`         assembler, both settings:  `M <on> ## <off>`
  `R18 <mi> <fuel> <inp> <n> <w…>`    `from_raw` + `run`, both settings: `M <on> ## <off>`
  `P18 <cmd> <style> <value> <fuel> <inp> <source>`   one `lace check|compile|run` process:
                                      `M st=<status> out=<stdout> img=<bytes|absent|-> named=<0|1|->`

  The `S` part is what the property says, computed from the *other* setting:
  * F18: the flag-on token stream has none of the four mnemonics ⇒ off = on
         (`C18.flag_irrelevant_text`); it has one ⇒ off is the stack diagnostic (`flag_off_rejects`);
  * R18: the flag-off run fetches no opcode-0xD word ⇒ off = on, taken from the reference machine
         (`C18.flag_irrelevant_run`, `flag_on_run_eq_ref`); it fetches one ⇒ off is `exit 1`;
  * P18: option absent / value without `stack`, no mnemonic token, no opcode 0xD fetched ⇒ the
         process behaves as the model says it does with `-f stack`; a mnemonic token ⇒ status 1,
         nothing written, stderr names the feature.
-/
import Driver.Proto
import Driver.RunH
import Driver.Asm
import Driver.CliH
import Lace.Proofs.AsmFlag
import Lace.Model.CliFlag
open Lace Lace.Driver Lace.Asm Lace.Cli

namespace Lace.Driver

/-- `some true` = the flag-on token stream exists and has one of the four mnemonics,
`some false` = exists and has none, `none` = the flag-on lexer / preprocessor fails. -/
def hasStackToken (src : List Char) : Option Bool :=
  match preprocess (some true) src with
  | .ok toks => some (toks.any (fun t => t.kind.isStack))
  | _ => none

def handleF18 (toks : List String) : String :=
  match toks with
  | [_expect, src] =>
    match parseText src with
    | some src =>
      let on := showOutcome (assemble true [] src).1
      let offO := (assemble false [] src).1
      let off := showOutcome offO
      let m := "M " ++ on ++ " ## " ++ off
      match hasStackToken src with
      | some false => m ++ " ;; S " ++ on ++ " ## " ++ on
      | some true =>
        match offO with
        | .diag .lexStack _ => m ++ " ;; S " ++ on ++ " ## " ++ off
        | _ => m ++ " ;; S " ++ on ++ " ## diag lexStack <span of the mnemonic>"
      | none => m
    | none => "bad-request"
  | _ => "bad-request"

def runLineM (so mi : Bool) (fuel : Nat) (ws : List Word) (w : World) : String :=
  match Run.fromRaw ws with
  | .exit c => "loadexit " ++ toString c
  | .panic _ => "loadpanic"
  | .ok m => showRunM m (Run.fetches so mi fuel m w) (Run.loop so mi fuel m w)

def handleR18 (toks : List String) : String :=
  match toks with
  | mi :: fuel :: inp :: n :: ws =>
    match parseHex mi, parseHex fuel, parseBytes inp, parseHex n, parseWords ws with
    | some mi, some fuel, some inp, some n, some ws =>
      if ws.length != n then "bad-request" else
      let mi := mi != 0
      let w : World := { inp := inp, outRev := [] }
      let m := "M " ++ runLineM true mi fuel ws w ++ " ## " ++ runLineM false mi fuel ws w
      let s :=
        match Ref.load ws with
        | none => "loadexit 238 ## loadexit 238"
        | some m0 =>
          let on := showRunS m0 (Run.fetches true mi fuel m0 w) (Ref.run true mi fuel m0 w)
          if (Run.fetchedWords false mi fuel m0 w).all (fun x => !Run.isOpD x) then on ++ " ## " ++ on
          else
            match Ref.run false mi fuel m0 w with
            | .exit 1 m' w' =>
              on ++ " ## " ++ showRunS m0 (Run.fetches false mi fuel m0 w) (.exit 1 m' w')
            | _ => on ++ " ## exit 1 <at the first opcode-0xD word>"
      m ++ " ;; S " ++ s
    | _, _, _, _, _ => "bad-request"
  | _ => "bad-request"

def showFlagProc (cmd : FlagCmd) : FlagProc → String
  | .panic _ => "st=panic"
  | .fuel => "st=fuel"
  | .finished o =>
    "st=" ++ toString o.status ++ " out=" ++ charsHex o.out ++ " img=" ++
      (match cmd, o.image with
       | .compile, some b => bytesHex b
       | .compile, none => "absent"
       | _, _ => "-") ++
      " named=" ++ (if o.status == 1 then (if o.named then "1" else "0") else "-")

def fileName : List Char := "f.asm".toList
def destName : List Char := "out.lc3".toList

def objName : List Char := "f.lc3".toList

/-- `P18 runobj …`: the source is compiled WITH the feature (set-up, not observed), then
`lace run f.lc3 --minimal` is spawned with the option as the request says. -/
def handleP18Obj (style value fuel inp src : String) : String :=
  match parseText value, parseHex fuel, parseBytes inp, parseText src with
  | some value, some fuel, some inp, some src =>
    match (assemble true [] src).1 with
    | .ok img =>
      let bytes := objBytes img.orig img.words
      let g : FlagArg := if style == "G" || style == "B" then .given value else .absent
      let l : FlagArg := if style == "N" || style == "G" then .absent else .given value
      let m := "M " ++ showFlagProc .run (laceFlagObj g l fuel objName bytes inp)
      if style == "G" then
        -- `C18.obj_flag_position_irrelevant`
        m ++ " ;; S " ++ showFlagProc .run (laceFlagObj .absent (.given value) fuel objName bytes inp)
      else
      match featuresOf2 g l with
      | .ok false =>
        -- `C18.obj_flag_irrelevant`: no opcode 0xD fetched without the option ⇒ as with `-f stack`
        let noD : Bool :=
          bytes.length % 2 == 0 &&
          match Run.fromRaw (wordsOfBytes bytes) with
          | .ok m0 => (Run.fetchedWords false true fuel m0 (runWorld objName inp)).all (fun x => !Run.isOpD x)
          | _ => true
        if noD then
          m ++ " ;; S " ++ showFlagProc .run (laceFlagObj .absent (.given Features.stackWord) fuel objName bytes inp)
        else m
      | _ => m
    | _ => "M st=nocompile"
  | _, _, _, _ => "bad-request"

def handleP18 (toks : List String) : String :=
  match toks with
  | ["runobj", style, value, fuel, inp, src] => handleP18Obj style value fuel inp src
  | [cmd, style, value, fuel, inp, src] =>
    let cmd? : Option FlagCmd :=
      if cmd == "check" then some .check else if cmd == "compile" then some .compile
      else if cmd == "run" then some .run
      -- `lace debug f.asm --minimal --command quit`: the debugger detaches before the first
      -- instruction; by `C09.debug_transparent` / `quit_hands_over_stdin` the process is `run`
      else if cmd == "debug" then some .run else none
    match cmd?, parseText value, parseHex fuel, parseBytes inp, parseText src with
    | some cmd, some value, some fuel, some inp, some src =>
      -- N absent; G before the subcommand; B before and after it; S L E J after it
      let g : FlagArg := if style == "G" || style == "B" then .given value else .absent
      let l : FlagArg := if style == "N" || style == "G" then .absent else .given value
      let r := laceFlag cmd g l fuel fileName destName src inp
      let m := "M " ++ showFlagProc cmd r
      if style == "G" then
        -- written before the subcommand, the option means what it means after it
        -- (`C18.flag_position_irrelevant`)
        m ++ " ;; S " ++ showFlagProc cmd (laceFlag cmd .absent (.given value) fuel fileName destName src inp)
      else
      match featuresOf2 g l with
      | .ok false =>
        match hasStackToken src with
        | some true =>
          -- rejected, nothing written, the diagnostic names the feature
          let out0 := message (if (match cmd with | .check => true | _ => false) then "Checking".toList
                               else "Assembling".toList) ("target ".toList ++ fileName)
          m ++ " ;; S " ++ showFlagProc cmd (.finished { status := 1, out := out0, image := none, named := true })
        | some false =>
          let ron := laceFlag cmd .absent (.given Features.stackWord) fuel fileName destName src inp
          -- for `run`: only when the flag-off run never fetches opcode 0xD
          let noD : Bool :=
            match cmd, (assemble false [] src).1 with
            | .run, .ok img =>
              match Run.fromRaw (img.orig.getD 0x3000#16 :: img.words) with
              | .ok m0 => (Run.fetchedWords false true fuel m0 (runWorld fileName inp)).all
                            (fun x => !Run.isOpD x)
              | _ => true
            | _, _ => true
          if noD then m ++ " ;; S " ++ showFlagProc cmd ron else m
        | none => m
      | _ => m
    | _, _, _, _, _ => "bad-request"
  | _ => "bad-request"

end Lace.Driver
