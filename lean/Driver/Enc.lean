/-
  Driver handler for the three-way C01 / C04 check.

  `P01 <stack 0/1> <hex text₁> <hex text₂ | => <item>*` — `text₁` (and `text₂`) are layouts of
  the abstract program given by the items (the driver never looks at the text to compute the
  specification's answer, and never at the items to compute the model's):

      o:HHHH                     .orig
      k                          .break
      s:<label id | ->:<form>…   statement; forms
          add:d:s:r<k> | add:d:s:#HHHH   (and likewise)       not:d:s   ret   rti
          br:<nzp 1-7>:<loc>   jsr:<loc>   ld|ldi|lea|st|sti:r:<loc>    loc = L<id> | #HHHH
          jmp:b   jsrr:b   ldr|str:r:b:HHHH   trap:HHHH   nt:<0-7>  (getc out puts in putsp halt putn reg)
          push:r   pop:r   call:L<id>   rets   fill:HHHH   blkw:HHHH   strz:<hex body | ->

  Answer `M <model outcome> ;; S <spec outcome>`, outcome = `ok <orig|-> <n> <words…>` | `reject`
  (`panic` for a model panic; with two texts whose outcomes differ, `layout-diff <o₁> ## <o₂>`;
  `S outside` when the program is outside the specification's domain — a generator error).

  Second specification-side computation (ties `Spec.render` to the correspondence): the abstract
  program is rendered by the SPECIFICATION's `render` under the canonical layout `Layout.canon`, the
  result is assembled by the model and must give `Spec.Prog.image` (theorem
  `Lace.C01.assemble_image_render`; on rejected programs the model must reject as well).  A
  disagreement replaces the `S` answer by `spec-render-mismatch <model(render L0 P)> ## <spec(P)>`.
  Programs the canonical layout cannot write (`canonOk`: a string body with a raw quote / line feed,
  `br` without condition, a full image of 65,535 words followed by anything but `.blkw 0`) are skipped.

  Third computation (ties the HARNESS renderer to `Spec.render`): for every text of a program in the
  domain — accepted or rejected by the specification — a layout is read off the text
  (`Driver/Layout.lean`) and validated by evaluating `render L P = text ∧ L.ok P`; then the text
  provably lies in the range of `Spec.render` and `assemble_image_render` (accepted programs) /
  `C04.accept_iff_wf_render` (both directions) applies to it.  A text outside the range turns the `S` answer into
  `outside-render-range` (programs that are not `Prog.renderable` are exempt).

  Fourth computation (C17, ties `Spec.stmtTexts` to the assembler model's spans): for every text the
  model accepts and whose layout has been read off and validated, the source sliced at the image's
  statement spans must be the specification's statement texts (`Spec.stmtTexts L P`; theorem
  `Lace.C17.span_text_eq_statement_render`).  A disagreement turns the `S` answer into
  `stmt-text-mismatch`.

  Fifth computation (C11, ties `Spec.Prog.breaks` to the assembler model's `.break` list): on the same
  texts the model's `img.bps` must be `P.breaks` (theorem `Lace.C11.breaks_render`).  A disagreement
  turns the `S` answer into `breaks-mismatch`.
-/
import Driver.Proto
import Driver.Asm
import Lace.Spec.Prog
import Lace.Spec.Render
import Driver.Layout
import Lace.Model.AsmSource
open Lace Lace.Driver Lace.Asm

namespace Lace.Driver.Enc
open Lace.Spec

def showImage (orig : Option Word) (words : List Word) : String :=
  let s := "ok " ++ (match orig with | some w => hexW w | none => "-") ++ " " ++ toString words.length
  words.foldl (fun acc w => (acc.push ' ') ++ hexW w) s

/-- canonical outcome of the model -/
def canonOutcome : Outcome → String
  | .panic _ => "panic"
  | .diag _ _ => "reject"
  | .ok img => showImage img.orig img.words

def parseWord (s : String) : Option Word :=
  if s.length = 4 then (parseHex s).map (BitVec.ofNat 16) else none

def parseReg (s : String) : Option (BitVec 3) :=
  match s.toNat? with
  | some n => if n < 8 then some (BitVec.ofNat 3 n) else none
  | none => none

def parseLoc (s : String) : Option Loc :=
  match s.toList with
  | 'L' :: rest => (String.ofList rest).toNat?.map Loc.label
  | '#' :: rest => (parseWord (String.ofList rest)).map Loc.lit
  | _ => none

def parseLabelId (s : String) : Option Nat :=
  match s.toList with
  | 'L' :: rest => (String.ofList rest).toNat?
  | _ => none

def parseStmt (fs : List String) : Option SrcStmt :=
  let regImm (d s x : String) (fr : BitVec 3 → BitVec 3 → BitVec 3 → SrcStmt)
      (fi : BitVec 3 → BitVec 3 → Word → SrcStmt) : Option SrcStmt := do
    let d ← parseReg d; let s ← parseReg s
    match x.toList with
    | 'r' :: k => do let r ← parseReg (String.ofList k); pure (fr d s r)
    | '#' :: h => do let w ← parseWord (String.ofList h); pure (fi d s w)
    | _ => none
  let regLoc (r l : String) (f : BitVec 3 → Loc → SrcStmt) : Option SrcStmt := do
    let r ← parseReg r; let l ← parseLoc l; pure (f r l)
  match fs with
  | ["add", d, s, x] => regImm d s x .addReg .addImm
  | ["and", d, s, x] => regImm d s x .andReg .andImm
  | ["br", f, l] => do
      let n ← f.toNat?
      if n = 0 ∨ n > 7 then none else
      let l ← parseLoc l; pure (.br (BitVec.ofNat 3 n) l)
  | ["jmp", b] => (parseReg b).map .jmp
  | ["jsr", l] => (parseLoc l).map .jsr
  | ["jsrr", b] => (parseReg b).map .jsrr
  | ["ld", r, l] => regLoc r l .ld
  | ["ldi", r, l] => regLoc r l .ldi
  | ["lea", r, l] => regLoc r l .lea
  | ["st", r, l] => regLoc r l .st
  | ["sti", r, l] => regLoc r l .sti
  | ["ldr", d, b, o] => do let d ← parseReg d; let b ← parseReg b; let o ← parseWord o; pure (.ldr d b o)
  | ["str", d, b, o] => do let d ← parseReg d; let b ← parseReg b; let o ← parseWord o; pure (.str d b o)
  | ["not", d, s] => do let d ← parseReg d; let s ← parseReg s; pure (.not d s)
  | ["ret"] => some .ret
  | ["rti"] => some .rti
  | ["trap", v] => (parseWord v).map .trap
  | ["nt", k] => (parseReg k).map .namedTrap
  | ["push", r] => (parseReg r).map .push
  | ["pop", r] => (parseReg r).map .pop
  | ["call", l] => (parseLabelId l).map .call
  | ["rets"] => some .rets
  | ["fill", w] => (parseWord w).map .fill
  | ["blkw", w] => (parseWord w).map .blkw
  | ["strz", b] => (parseText b).map .stringz
  | _ => none

def parseItem (s : String) : Option Item :=
  match s.splitOn ":" with
  | ["o", w] => (parseWord w).map .orig
  | ["k"] => some .brk
  | "s" :: lab :: form => do
      let l ← if lab == "-" then some none else lab.toNat?.map some
      let st ← parseStmt form
      pure (.stmt l st)
  | _ => none

def specOutcome (flag : Bool) (P : Prog) : String :=
  if !P.syntaxOk then "outside" else
  match P.image flag with
  | some (o, ws) => showImage o ws
  | none => "reject"

/-- the canonical layout is a well-formed layout of `P` (`Layout.ok` without the quadratic check
that distinct labels have distinct names: `canonName` is `L<decimal id>`) -/
def canonOk (P : Prog) : Bool :=
  P.syntaxOk && P.renderable && okToks canonName true (canonLays P.items) P.toks

/-- `render (Layout.canon P) P`, assembled by the model, against `Prog.image`: `none` = agree / skipped -/
def renderCheck (flag : Bool) (P : Prog) : Option String :=
  if canonOk P then
    let m := canonOutcome (assemble flag [] (render (Layout.canon P) P)).1
    let s := specOutcome flag P
    if m == s then none else some ("spec-render-mismatch " ++ m ++ " ## " ++ s)
  else none

/-- the validated layout of a text: `some L` only if `render L P = t` and `L.ok P` -/
def layoutOf (P : Prog) (t : List Char) : Option Layout :=
  let L := Lay.extract P t
  if render L P == t && L.ok P then some L else none

/-- every text of a renderable program — accepted or rejected by the specification — is `render L P`
for a well-formed layout `L` -/
def rangeCheck (_flag : Bool) (P : Prog) (lays : List (Option Layout)) : Option String :=
  if P.syntaxOk && P.renderable then
    if lays.all Option.isSome then none else some "outside-render-range"
  else none

/-- C17: on an accepted text with a validated layout, the source sliced at the model's statement
spans is `Spec.stmtTexts L P` -/
def textCheck (P : Prog) (runs : List (List Char × Outcome × Option Layout)) : Option String :=
  if P.syntaxOk && P.renderable then
    if runs.all (fun (t, o, L) =>
        match o, L with
        | .ok img, some L =>
          -- (slicing is linear in the offset: skipped where words × text length is huge, e.g. a
          -- 32K-word string literal of 64 KB — the theorem covers those)
          img.spans.length * t.length > 20000000 ||
          img.spans.map (fun p => Lace.Dbg.sliceBytes t p.1 p.2) == (stmtTexts L P).map some
        | _, _ => true) then none
    else some "stmt-text-mismatch"
  else none

/-- C11: on an accepted text with a validated layout, the model's breakpoint list is `P.breaks` -/
def breaksCheck (P : Prog) (runs : List (List Char × Outcome × Option Layout)) : Option String :=
  if P.syntaxOk && P.renderable then
    let raw := breakIdx P.items 0
    -- (`eraseDups` is quadratic in the number of `.break` items: skipped beyond 3,000 of them — the
    -- theorem covers those)
    if raw.length > 3000 then none else
    let bs := P.breaks
    if runs.all (fun (_, o, L) =>
        match o, L with
        | .ok img, some _ => img.bps == bs
        | _, _ => true) then none
    else some "breaks-mismatch"
  else none

/-- `P01 stack text₁ text₂|= items…` -/
def handleP01 (toks : List String) : String :=
  match toks with
  | [so, t1, "=", "x"] =>
    -- a statement whose numeric operand is spelled with text that is not a literal at all
    -- (I1: `#65536`, `x10000`, `x-8001`, `#-32769`, …): the specification rejects it
    match parseHex so, parseText t1 with
    | some so, some t1 => "M " ++ canonOutcome (assemble (so != 0) [] t1).1 ++ " ;; S reject"
    | _, _ => "bad-request"
  | [so, t1, "=", "m"] =>
    -- a directed raw text without an abstract program: implementation against the model only
    match parseHex so, parseText t1 with
    | some so, some t1 => "M " ++ canonOutcome (assemble (so != 0) [] t1).1
    | _, _ => "bad-request"
  | so :: t1 :: t2 :: items =>
    match parseHex so, parseText t1, (if t2 == "=" then some none else (parseText t2).map some),
        items.mapM parseItem with
    | some so, some t1, some t2, some items =>
      let flag := so != 0
      let P : Prog := { items := items }
      let texts := t1 :: (match t2 with | some t => [t] | none => [])
      let inDomain := P.syntaxOk && P.renderable
      let runs := texts.map fun t =>
        (t, (assemble flag [] t).1, if inDomain then layoutOf P t else none)
      let m :=
        match runs.map (fun r => canonOutcome r.2.1) with
        | [m1, m2] => if m1 == m2 then m1 else "layout-diff " ++ m1 ++ " ## " ++ m2
        | m1 :: _ => m1
        | [] => "bad-request"
      "M " ++ m ++ " ;; S " ++
        (match renderCheck flag P, rangeCheck flag P (runs.map (·.2.2)), textCheck P runs,
            breaksCheck P runs with
         | some e, _, _, _ => e
         | none, some e, _, _ => e
         | none, none, some e, _ => e
         | none, none, none, some e => e
         | none, none, none, none => specOutcome flag P)
    | _, _, _, _ => "bad-request"
  | _ => "bad-request"

end Lace.Driver.Enc
