/- Driver handler for text-level debugger sessions (`T09`).

   M: the debugger model that reads its commands ON DEMAND from (`--command` argument, standard
      input) — `DbgIO.runLoopIO`; standard input is the world's input, shared with the program's
      GETC / IN.
   S: the script text (argument + the first `cut` bytes of standard input) is parsed beforehand by
      the command-language model (`Cmd.session`), the resulting commands drive the pre-parsed
      debugger model `Dbg.runLoop` on the rest of standard input — the object of the C09–C16
      theorems; `Lace.C09IO.preparsed_agrees` says M = S for the sessions generated. -/
import Driver.DbgH
import Lace.Model.Cmd.Reader
import Lace.Model.DebuggerIO
open Lace Lace.Driver Lace.Dbg Lace.Cmd

namespace Lace.Driver

/-- number of error reports made while reading the first `k` commands (`k` counts the
end-of-input read too, so all of them if the reader reached the end of input) -/
def errorsBefore : List (Option Command) → Nat → Nat
  | _, 0 => 0
  | [], _ => 0
  | none :: rest, k + 1 => 1 + errorsBefore rest (k + 1)
  | some _ :: rest, k + 1 => errorsBefore rest k

def handleT09 (toks : List String) : String :=
  match toks with
  | so :: fuel :: orig :: n :: rest =>
    match parseHex so, parseHex fuel, parseHex orig, parseHex n with
    | some so, some fuel, some orig, some n =>
      match takeN n rest with
      | none => "bad-request"
      | some (ws, rest) =>
        match parseWords ws, rest with
        | some ws, nb :: rest =>
          match parseHex nb with
          | none => "bad-request"
          | some nb =>
            match takeN nb rest with
            | none => "bad-request"
            | some (bs, rest) =>
              match bs.mapM parseHex, rest with
              | some bs, nl :: rest =>
                match parseHex nl with
                | none => "bad-request"
                | some nl =>
                  match (takeN (2 * nl) rest).bind (fun p =>
                      match p.2 with
                      | [arg, stdin] => some (p.1, arg, stdin, (none : Option String))
                      | [arg, stdin, cut] => some (p.1, arg, stdin, some cut)
                      | _ => none) with
                  | some (ls, arg, stdin, cutTok) =>
                    let rec pairs : List String → Option (List (List Char × Nat))
                      | [] => some []
                      | a :: b :: r => do
                        let name ← parseText a
                        let k ← parseHex b
                        let tl ← pairs r
                        some ((name, k) :: tl)
                      | _ => none
                    let argT : Option (Option (List Char)) :=
                      if arg == "N" then some none else (parseText (arg.drop 1).toString).map some
                    let cutN : Option Nat := match cutTok with
                      | none => some 1000000000
                      | some t => parseHex t
                    match pairs ls, argT, parseBytes stdin, cutN with
                    | some ls, some argT, some stdinB, some cutN =>
                      let scriptB := stdinB.take cutN
                      let inputB := stdinB.drop cutN
                      let reader := Reader.from argT (scriptB.map UInt8.ofNat)
                      let sess := Cmd.session reader
                      match sess.ending with
                      | .panic _ => "M panic"
                      | _ =>
                        -- `exit 0` (sudo) ends the process from inside the reader: the commands before it run first
                        let cmds := sess.events.filterMap id
                        let r : DbgReq := { so := so != 0, fuel := fuel, inp := [], orig := BitVec.ofNat 16 orig,
                                            words := ws, breaks := bs, labels := ls, cmds := cmds }
                        match Run.fromRaw (r.orig :: r.words) with
                        | .exit _ => "M load-failed"
                        | .panic _ => "M load-failed"
                        | .ok loaded =>
                          let env := fillEnv r
                          let fmt (head : String) (att : Bool) (d : Dbg) (m : Machine) (w : World) (ex : List Word)
                              (nerr : Nat) : String :=
                            let pcs := ex.reverse
                            head ++ " " ++ showRegs m ++ " |" ++ memDiff loaded m ++ " | " ++ charsHex w.output ++ " | " ++
                              toString pcs.length ++ " " ++ hex16 (fnv pcs) ++ " | " ++ toString d.ncmds ++ " | " ++
                              showBps att d ++ " | " ++ showErr d ++ " | errs=" ++ toString nerr
                          -- S: commands parsed beforehand, program input = what follows the script
                          let specLine :=
                            let w : World := { inp := inputB, outRev := [] }
                            let d := newDbg loaded (r.breaks.map (BitVec.ofNat 16)) r.cmds
                            match runLoop env r.fuel true d loaded w [] with
                            | .done att d m w ex => fmt "done" att d m w ex (errorsBefore sess.events d.ncmds)
                            | .exit c att d m w ex => fmt ("exit " ++ toString c) att d m w ex (errorsBefore sess.events d.ncmds)
                            | .fuel att d m w ex => fmt "fuel" att d m w ex (errorsBefore sess.events d.ncmds)
                            | .panic _ => "panic"
                          -- M: commands read on demand from the shared standard input
                          let modelLine :=
                            let w : World := { inp := stdinB, outRev := [] }
                            let d := newDbg loaded (r.breaks.map (BitVec.ofNat 16)) []
                            match DbgIO.runLoopIO env r.fuel true (DbgIO.Src.from argT) d loaded w [] with
                            | (s, .done att d m w ex) => fmt "done" att d m w ex s.nerr
                            | (s, .exit c att d m w ex) => fmt ("exit " ++ toString c) att d m w ex s.nerr
                            | (s, .fuel att d m w ex) => fmt "fuel" att d m w ex s.nerr
                            | (_, .panic _) => "panic"
                          "M " ++ modelLine ++ " ;; S " ++ specLine
                    | _, _, _, _ => "bad-request"
                  | _ => "bad-request"
              | _, _ => "bad-request"
        | _, _ => "bad-request"
    | _, _, _, _ => "bad-request"
  | _ => "bad-request"

end Lace.Driver
