/-
  Driver for property C20 (line editor).

  `K20 <history> <keys> <classes>`  (see `harness/src/edit.rs` for the field syntax)
  answer: `M <model session> ;; S <reference-editor session>`
-/
import Driver.Proto
import Lace.Model.Editor
import Lace.Spec.RefEditor
import Lace.Model.Cmd.Reader
namespace Lace.Driver.Edit
open Lace Lace.Driver Lace.Editor

def parseList {α : Type} (s : String) (f : String → Option α) : Option (List α) :=
  if s == "-" then some [] else (s.splitOn ",").mapM f

def parseItem (s : String) : Option (List Char) :=
  if s == "." then some [] else parseText s

def parseKey (s : String) : Option Key :=
  match s with
  | "BS" => some .backspace
  | "DEL" => some .delete
  | "L" => some .left
  | "R" => some .right
  | "CL" => some .ctrlLeft
  | "CR" => some .ctrlRight
  | "UP" => some .up
  | "DN" => some .down
  | "ENT" => some .enter
  | _ =>
    match s.toList with
    | 'c' :: rest => (parseHex (String.ofList rest)).map fun n => .char (Char.ofNat n)
    | _ => none

def parseClass (s : String) : Option (Nat × CharClass) :=
  match s.splitOn ":" with
  | [cp, wa] =>
    match parseHex cp, wa.toList with
    | some n, [w, a] => some (n, { ws := w == '1', alnum := a == '1' })
    | _, _ => none
  | _ => none

def classifier (table : List (Nat × CharClass)) (c : Char) : CharClass :=
  match table.find? (fun e => e.1 == c.toNat) with
  | some e => e.2
  | none => { ws := false, alnum := false }

def hexItem (s : List Char) : String := if s.isEmpty then "." else charsHex s

def showItems (l : List (List Char)) : String :=
  if l.isEmpty then "-" else ",".intercalate (l.map hexItem)

def showView (buffer : List Char) (cursor index : Nat) (current : List Char) : String :=
  charsHex buffer ++ "/" ++ toString cursor ++ "/" ++ toString index ++ "/" ++ charsHex current

def termCurrent (t : Term) : List Char :=
  match t.hist[t.index]? with
  | some h => h
  | none => t.buffer

def showTerm (t : Term) : String := showView t.buffer t.vcursor t.index (termCurrent t)

/-- The model session, in the harness' output format. -/
def runModel (cls : Char → CharClass) (hist : List (List Char)) (keys : List Key) : String := Id.run do
  let mut t := readLineBegin (Term.new hist)
  let mut views := ""
  let mut cmds : List (List Char) := []
  for k in keys do
    -- the scripted-key hook logs the view right after `handle_key`
    match handleKey cls t k with
    | .panic _ => return views ++ "| " ++ showItems cmds ++ " | panic"
    | .ok (t1, done) => views := views ++ showTerm t1 ++ (if done then "! " else " ")
    match feedKey cls t k with
    | .panic _ => return views ++ "| " ++ showItems cmds ++ " | panic"
    | .ok (_, t', sub) =>
      match sub with
      | some line =>
        match commands line with
        | .panic _ => return views ++ "| " ++ showItems cmds ++ " | panic"
        | .ok cs => cmds := cmds ++ cs
      | none => pure ()
      t := t'
  return views ++ "| " ++ showItems cmds ++ " | " ++ showTerm t ++ "/" ++ toString t.cursor ++ " | " ++ showItems t.hist

def showRef (s : RefEditor.State) : String := showView s.line s.cursor s.index s.current

/-- The reference-editor session, in the same format. -/
def runSpec (cls : Char → CharClass) (hist : List (List Char)) (keys : List Key) : String := Id.run do
  let mut s := RefEditor.init hist
  let mut views := ""
  let mut cmds : List (List Char) := []
  for k in keys do
    let (s1, s', sub) := RefEditor.feedKey cls s k
    views := views ++ showRef s1 ++ (if sub.isSome then "! " else " ")
    match sub with
    | some line => cmds := cmds ++ RefEditor.splitCommands line
    | none => pure ()
    s := s'
  return views ++ "| " ++ showItems cmds ++ " | " ++ showRef s ++ "/0 | " ++ showItems s.history

def handleK20 (toks : List String) : String :=
  match toks with
  | [h, k, c] =>
    match parseList h parseItem, parseList k parseKey, parseList c parseClass with
    | some hist, some keys, some table =>
      let cls := classifier table
      "M " ++ runModel cls hist keys ++ " ;; S " ++ runSpec cls hist keys
    | _, _, _ => "bad-request"
  | _ => "bad-request"


/-! ### `U20`: a real terminal session (keys typed into a pseudo-terminal) -/

/-- What the debugger echoes for the submitted lines: the lines are split and parsed by the
command-language model (newline-joined: `;` and newline are both delimiters there); `echo`
commands whose text starts with `@` are reported, up to the first `exit` / `quit`. -/
def echoesOf (lines : List (List Char)) : Option (List (List Char)) :=
  let text := (lines.map fun l => l ++ ['\n']).flatten
  let sess := Lace.Cmd.session (Lace.Cmd.Reader.from (some text) [])
  match sess.ending with
  | .panic _ => none
  | _ =>
    let rec go : List (Option Lace.Cmd.Command) → List (List Char) → List (List Char)
      | [], acc => acc.reverse
      | some (.echo t) :: rest, acc => go rest (if t.head? = some '@' then t :: acc else acc)
      | some .exit :: _, acc => acc.reverse
      | some .quit :: _, acc => acc.reverse
      | _ :: rest, acc => go rest acc
    some (go sess.events [])

def showSession (lines : List (List Char)) (hist : List (List Char)) : String :=
  match echoesOf lines with
  | none => "panic"
  | some es => "echo=" ++ showItems es ++ " hist=" ++ showItems hist

def sessionModel (cls : Char → CharClass) (hist : List (List Char)) (keys : List Key) : String := Id.run do
  let mut t := readLineBegin (Term.new hist)
  let mut lines : List (List Char) := []
  for k in keys do
    match feedKey cls t k with
    | .panic _ => return "panic"
    | .ok (_, t', sub) =>
      match sub with
      | some line => lines := lines ++ [line]
      | none => pure ()
      t := t'
  return showSession lines t.hist

def sessionSpec (cls : Char → CharClass) (hist : List (List Char)) (keys : List Key) : String := Id.run do
  let mut s := RefEditor.init hist
  let mut lines : List (List Char) := []
  for k in keys do
    let (_, s', sub) := RefEditor.feedKey cls s k
    match sub with
    | some line => lines := lines ++ [line]
    | none => pure ()
    s := s'
  return showSession lines s.history

/-- `U20 <history> <keys> <classes>`: `lace debug` on a terminal with these keys typed.  Answer:
the `@`-marked echoes and the final history file. -/
def handleU20 (toks : List String) : String :=
  match toks with
  | [h, k, c] =>
    match parseList h parseItem, parseList k parseKey, parseList c parseClass with
    | some hist, some keys, some table =>
      let cls := classifier table
      "M " ++ sessionModel cls hist keys ++ " ;; S " ++ sessionSpec cls hist keys
    | _, _, _ => "bad-request"
  | _ => "bad-request"

end Lace.Driver.Edit
