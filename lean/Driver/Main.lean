/-
  `lacemodel`: runs the Lean model (and the specification) on requests read from stdin,
  one per line, and prints one answer per line.  The Rust harness produces the same lines
  from the real implementation; `/verif/check` diffs them.
-/
import Driver.Proto
import Lace.Spec.ISA
import Lace.Model.VM
import Driver.Asm
open Lace Lace.Driver

/-- `X02 stackOn minimal instr <machine> inp-hex`
answer: `M <model step> ;; S <spec step>` -/
def handleX02 (toks : List String) : String :=
  match toks with
  | so :: mi :: instr :: rest =>
    match parseHex so, parseHex mi, parseHex instr, parseMachine rest with
    | some so, some mi, some instr, some (m, [inp]) =>
      match parseBytes inp with
      | some inp =>
        let w : World := { inp := inp, out := [] }
        let i := BitVec.ofNat 16 instr
        let rm := VM.execute (so != 0) (mi != 0) i m w
        let rs := ISA.exec (so != 0) (mi != 0) (ISA.decode i) m w
        "M " ++ showStep m rm ++ " ;; S " ++ showStep m rs
      | none => "bad-request"
    | _, _, _, _ => "bad-request"
  | _ => "bad-request"

def handle (line : String) : String :=
  match line.trimAscii.toString.splitOn " " with
  | "X02" :: rest => handleX02 rest
  | "A01" :: rest => handleA01 rest
  | "A19" :: rest => handleA19 rest
  | _ => "bad-request"

partial def loop (h : IO.FS.Stream) (out : IO.FS.Stream) : IO Unit := do
  let line ← h.getLine
  if line.isEmpty then return ()
  out.putStrLn (handle line)
  loop h out

def main : IO Unit := do
  let out ← IO.getStdout
  loop (← IO.getStdin) out
  out.flush
