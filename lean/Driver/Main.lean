/-
  `lacemodel`: runs the Lean model (and the specification) on requests read from stdin,
  one per line, and prints one answer per line.  The Rust harness produces the same lines
  from the real implementation; `/verif/check` diffs them.
-/
import Driver.Proto
import Lace.Spec.ISA
import Lace.Model.VM
import Driver.RunH
import Driver.CliH
import Driver.DbgH
import Driver.DbgText
import Driver.Edit
import Driver.CmdProto
import Driver.Asm
import Driver.Enc
import Driver.FlagH
import Driver.SrcH
import Driver.BptH
open Lace Lace.Driver

/-- `X02 stackOn minimal instr <machine> inp-hex`
answer: `M <model step> ;; S <spec step>` -/
def handleX02 (toks : List String) : String :=
  match toks with
  | so :: mi :: instr :: rest =>
    match parseHex so, parseHex mi, parseHex instr, parseMachine rest with
    | some so, some mi, some instr, some (m, [inp]) =>
      match parseBytes inp with
      | some inp =>
        let w : World := { inp := inp, outRev := [] }
        let i := BitVec.ofNat 16 instr
        let rm := VM.execute (so != 0) (mi != 0) i m w
        let rs := ISA.exec (so != 0) (mi != 0) (ISA.decode i) m w
        "M " ++ showStep m rm ++ " ;; S " ++ showStep m rs
      | none => "bad-request"
    | _, _, _, _ => "bad-request"
  | _ => "bad-request"

/-- `L14 <hex line>`: `Command::try_from` on one line. -/
def handleL14 (toks : List String) : String :=
  match toks with
  | [line] =>
    match parseText line with
    | some line =>
      "M " ++ renderOutcome (Cmd.parseLine line) ++
        (if validLine line then " ;; S " ++ renderOutcome (CmdGrammar.parseLine line) else "")
    | none => "bad-request"
  | _ => "bad-request"

/-- `R14 <N | hex argument> <hex stdin>`: every command `read_from` yields until end of input. -/
def handleR14 (toks : List String) : String :=
  match toks with
  | [arg, inp] =>
    let arg? : Option (Option (List Char)) := if arg == "N" then some none else (parseText arg).map some
    match arg?, parseBytes inp with
    | some arg, some inpBytes =>
      "M " ++ runSession (Cmd.Reader.from arg (inpBytes.map UInt8.ofNat)) ++
        (match parseText inp with
         | some b => " ;; S " ++ specSession arg b
         | none => "")          -- standard input that is not UTF-8: outside the property (I9)
    | _, _ => "bad-request"
  | _ => "bad-request"

def handle (line : String) : String :=
  match line.trimAscii.toString.splitOn " " with
  | "X02" :: rest => handleX02 rest
  | "X03" :: rest => handleX03 rest
  | "O06" :: rest => handleO06 rest
  | "Q06" :: rest => handleQ06 rest
  | "D09" :: rest => handleDbg "D09" rest
  | "T09" :: rest => handleT09 rest
  | "D10" :: rest => handleDbg "D10" rest
  | "D11" :: rest => handleDbg "D11" rest
  | "D12" :: rest => handleDbg "D12" rest
  | "D13" :: rest => handleDbg "D13" rest
  | "D16" :: rest => handleDbg "D16" rest
  | "X06" :: rest => handleX06 rest
  | "Y06" :: rest => handleY06 rest
  | "S07" :: rest => handleS07 rest
  | "W19" :: rest => handleW19 rest
  | "T03" :: rest => handleT03 rest
  | "K03" :: rest => handleK03 rest
  | "S08" :: rest => handleS08 rest
  -- direct predicates on the implementation: the only acceptable observation is `holds`
  | "Z06" :: _ => "M holds ;; S holds"
  | "Z09" :: _ => "M holds ;; S holds"
  | "K20" :: rest => Lace.Driver.Edit.handleK20 rest
  | "U20" :: rest => Lace.Driver.Edit.handleU20 rest
  | "L14" :: rest => handleL14 rest
  | "R14" :: rest => handleR14 rest
  | "A01" :: rest => handleA01 rest
  | "A19" :: rest => handleA19 rest
  | "F19" :: rest => handleF19 rest
  | "P01" :: rest => Lace.Driver.Enc.handleP01 rest
  | "F18" :: rest => handleF18 rest
  | "R18" :: rest => handleR18 rest
  | "P18" :: rest => handleP18 rest
  | "E15" :: rest => handleSrc "E15" rest
  | "V17" :: rest => handleSrc "V17" rest
  | "B17" :: rest => handleBpt rest
  | _ => "bad-request"

partial def loop (h : IO.FS.Stream) (out : IO.FS.Stream) : IO Unit := do
  let line ← h.getLine
  if line.isEmpty then return ()
  out.putStrLn (handle line)
  loop h out

def main : IO Unit := do
  let out ← IO.getStdout
  loop (← IO.getStdin) out
  out.flush
