/-
  Driver handlers for the assembler model.

  `A01 <stack 0/1> <hex of UTF-8 source>` → one of
      `M ok <orig|-> <n> <w1 … wn> | <offs:len …> | <breakpoints …>`   (words / breakpoints hex4)
      `M diag <kind> <offs> <len>`                                        (`- -` for span-less errors)
      `M panic`
  `A19 <stack> <reset 0/1> <n> <src₁> … <srcₙ>` → `M <answer₁> ## … ## <answerₙ>`.
  The symbol table is empty at the start of every `A01` request (the harness calls
  `lace::reset_state()` before each case).
-/
import Driver.Proto
import Lace.Model.Assemble
open Lace Lace.Driver Lace.Asm

namespace Lace.Driver

def showOutcome : Outcome → String
  | .panic _ => "panic"
  | .diag k none => "diag " ++ k.name ++ " - -"
  | .diag k (some (o, l)) => "diag " ++ k.name ++ " " ++ toString o ++ " " ++ toString l
  | .ok img =>
    let s := "ok " ++ (match img.orig with | some w => hexW w | none => "-") ++ " " ++
      toString img.words.length
    let s := img.words.foldl (fun acc w => (acc.push ' ') ++ hexW w) s
    let s := s ++ " |"
    let s := img.spans.foldl (fun acc p => ((acc.push ' ') ++ toString p.1).push ':' ++ toString p.2) s
    let s := s ++ " |"
    img.bps.foldl (fun acc b => (acc.push ' ') ++ hexN 4 b) s

/-- `A01 stack src` -/
def handleA01 (toks : List String) : String :=
  match toks with
  | [so, src] =>
    match parseHex so, parseText src with
    | some so, some src => "M " ++ showOutcome (assemble (so != 0) [] src).1
    | _, _ => "bad-request"
  | _ => "bad-request"

/-- `A19 stack reset n src₁ … srcₙ`: the sources assembled one after the other on one thread,
with (`reset = 1`) or without `reset_state()` before each; answers joined by ` ## `. -/
def handleA19 (toks : List String) : String :=
  match toks with
  | so :: rs :: _n :: srcs =>
    match parseHex so, parseHex rs, srcs.mapM parseText with
    | some so, some rs, some srcs =>
      "M " ++ " ## ".intercalate ((runSeq (so != 0) (rs != 0) [] srcs).map showOutcome)
    | _, _, _ => "bad-request"
  | _ => "bad-request"

/-- `F19 stack resets n src₁ … srcₙ` (`resets ≥ 1`): by `Lace.C19.runSeq_reset_eq_map` every element
of such a history is answered as on an empty table — as on a fresh thread —, whatever came before;
the harness reports, per element, whether lace on the session's thread and lace on a fresh thread
agree.  The model's answer is therefore `same` for every element (sources of any size). -/
def handleF19 (toks : List String) : String :=
  match toks with
  | _so :: rs :: _n :: srcs =>
    match parseHex rs with
    | some rs => if rs = 0 then "bad-request" else "M " ++ " ## ".intercalate (srcs.map fun _ => "same")
    | none => "bad-request"
  | _ => "bad-request"

end Lace.Driver
