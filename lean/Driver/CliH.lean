/- Driver handlers for the process-mode checks (C06): object-file bytes, running object files
   and assembled sources. -/
import Driver.Proto
import Driver.RunH
import Lace.Model.Cli
import Lace.Model.CliAsm
open Lace Lace.Driver Lace.Cli

namespace Lace.Driver

def bytesHex (bs : List Nat) : String :=
  if bs.isEmpty then "-" else bs.foldl (fun acc b => acc ++ hexN 2 b) ""

def parseOrigWords (toks : List String) : Option (Option Word × List Word) :=
  match toks with
  | o :: n :: ws => do
    let orig ← if o == "-" then some none else (parseHex o).map (fun v => some (BitVec.ofNat 16 v))
    let n ← parseHex n
    let ws ← parseWords ws
    if ws.length != n then none else some (orig, ws)
  | _ => none

def showProc : Proc → String
  | .finished r => "fin " ++ toString r.status ++ " " ++ charsHex r.out
  | .panic _ => "panic"
  | .fuel => "fuel"

/-- `O06 orig|- n words…` → the bytes `lace compile` must write -/
def handleO06 (toks : List String) : String :=
  match parseOrigWords toks with
  | some (orig, ws) => "M ok " ++ bytesHex (objBytes orig ws)
  | none => "bad-request"

/-- `X06 so mi fuel name inp bytes` → `lace run <name>.lc3` -/
def handleX06 (toks : List String) : String :=
  match toks with
  | [so, mi, fuel, name, inp, bytes] =>
    match parseHex so, parseHex mi, parseHex fuel, parseText name, parseBytes inp, parseBytes bytes with
    | some so, some mi, some fuel, some name, some inp, some bytes =>
      "M " ++ showProc (runObjFile (so != 0) (mi != 0) fuel name bytes inp)
    | _, _, _, _, _, _ => "bad-request"
  | _ => "bad-request"

/-- `Y06 so mi fuel name inp orig|- n words…` → `lace run <name>.asm` for a source that
assembles to these words -/
def handleY06 (toks : List String) : String :=
  match toks with
  | so :: mi :: fuel :: name :: inp :: rest =>
    match parseHex so, parseHex mi, parseHex fuel, parseText name, parseBytes inp, parseOrigWords rest with
    | some so, some mi, some fuel, some name, some inp, some (orig, ws) =>
      "M " ++ showProc (runAssembled (so != 0) (mi != 0) fuel name orig ws inp)
    | _, _, _, _, _, _ => "bad-request"
  | _ => "bad-request"

/-- `T03 mi fuel keys n words…` → `lace run t.asm` with a terminal on standard input and the text
`keys` typed: by C03 ("GETC and IN consume exactly one input byte each") the run on the UTF-8
bytes of the text.  The model loop is the reference loop (`C03.run_eq_ref`), so the same line
is the specification's answer. -/
def handleT03 (toks : List String) : String :=
  match toks with
  | mi :: fuel :: keys :: n :: ws =>
    match parseHex mi, parseHex fuel, parseBytes keys, parseHex n, parseWords ws with
    | some mi, some fuel, some keys, some n, some ws =>
      if ws.length != n then "bad-request" else
      let line := showProc (runAssembled false (mi != 0) fuel "t.asm".toList (some 0x3000#16) ws keys)
      "M " ++ line ++ " ;; S " ++ line
    | _, _, _, _, _ => "bad-request"
  | _ => "bad-request"

end Lace.Driver

namespace Lace.Driver
open Lace.Cli

/-- `S07 flag src` → exit statuses of `lace check`, `lace compile`, and whether `lace run` starts -/
def handleS07 (toks : List String) : String :=
  match toks with
  | [so, src] =>
    match parseHex so, parseText src with
    | some so, some src =>
      match parsedOf (so != 0) src with
      | none => "M check=panic compile=panic run=panic"
      | some p =>
        let line := "check=" ++ toString (checkStatus p) ++ " compile=" ++ toString (compile p (.file none)).1 ++
          " run=" ++ (if runAssembles p then "ok" else "fail")
        "M " ++ line
    | _, _ => "bad-request"
  | _ => "bad-request"

def showDest : Dest → String
  | .file none => "absent"
  | .file (some b) => "file:" ++ bytesHex b
  | .devFull => "devfull"
  | .uncreatable => "nodir"

/-- `S08 flag src dest [lim]` with dest ∈ `absent | pre:<hex> | devfull | nodir` and `lim` ∈
`- | <hex byte count>` (a file size limit in force while `lace compile` runs). The answer names
the exit status, the destination afterwards and the number of files left behind next to it. -/
def handleS08 (toks : List String) : String :=
  let go (so src dest : String) (lim : Option (Option Nat)) : String :=
    -- `nu8:`: the destination's name is not valid UTF-8 — irrelevant to what compile does
    -- `long:` a 255-byte name; `lnkrel:` / `lnkabs:` a symbolic link (live or dangling) — the
    -- destination as read through the given path afterwards is what the model describes
    let dest := (["nu8:", "long:", "lnkrel:", "lnkabs:"].foldl
      (fun d pre => if d.startsWith pre then (d.drop pre.length).toString else d) dest)
    let d : Option Dest :=
      if dest == "absent" then some (.file none)
      else if dest == "devfull" then some .devFull
      else if dest == "nodir" then some .uncreatable
      else if dest.startsWith "pre:" then (parseBytes (dest.drop 4).toString).map (fun b => Dest.file (some b))
      else none
    match parseHex so, parseText src, d, lim with
    | some so, some src, some d, some lim =>
      match parsedOf (so != 0) src with
      | none => "M st=panic"
      | some p =>
        let r := compileFs { limit := lim } p { dest := d }
        "M st=" ++ toString r.1 ++ " dest=" ++ showDest r.2.dest ++
          " extra=" ++ (match r.2.tmp with | none => "0" | some _ => "1")
    | _, _, _, _ => "bad-request"
  match toks with
  | [so, src, dest] => go so src dest (some none)
  | [so, src, dest, lim] => go so src dest (if lim == "-" then some none else (parseHex lim).map some)
  | _ => "bad-request"

end Lace.Driver

namespace Lace.Driver
open Lace.Asm

/-- `W19 stack n src₁ … srcₙ`: the verdicts of the re-checks of one `lace watch` session (state
reset between them) and of fresh `lace check`s of the same texts — by C19 both are `map assemble`. -/
def handleW19 (toks : List String) : String :=
  match toks with
  | so :: _n :: srcs =>
    -- a source is a byte string; `none` = not valid UTF-8 (`fs::read_to_string` fails: `check`
    -- reports an error, the watcher prints it and exits)
    match parseHex so, srcs.mapM (fun h => (parseBytes h).map fun _ => parseText h) with
    | some so, some srcs =>
      let verdict : Outcome → String
        | .ok _ => "ok"
        | .diag _ _ => "diag"
        | .panic _ => "panic"
      -- `so` = flag placement (0 off, 1 after, 2 before the subcommand) + 4 × delivery mode
      let so := so % 4
      let readable := (srcs.takeWhile Option.isSome).filterMap id
      let rest := srcs.drop readable.length
      let w := (runSeq (so != 0) true [] readable).map verdict ++
        (match rest with | [] => [] | _ :: later => "exited" :: later.map fun _ => "none")
      let f := srcs.map fun s => match s with
        | some t => verdict (assemble (so != 0) [] t).1
        | none => "diag"
      let line := "watch=" ++ ",".intercalate w ++ " fresh=" ++ ",".intercalate f
      "M " ++ line ++ " ;; S " ++ line
    | _, _ => "bad-request"
  | _ => "bad-request"

end Lace.Driver

namespace Lace.Driver
open Lace.Asm

/-- `Q06 stack src`: what `lace compile` writes for this source text (`fail` if it does not assemble). -/
def handleQ06 (toks : List String) : String :=
  match toks with
  | [so, src] =>
    match parseHex so, parseText src with
    | some so, some src =>
      match (assemble (so != 0) [] src).1 with
      | .ok img => "M ok " ++ bytesHex (objBytes img.orig img.words)
      | .diag _ _ => "M fail"
      | .panic _ => "M panic"
    | _, _ => "bad-request"
  | _ => "bad-request"

end Lace.Driver
