/- Driver handlers for the process-mode checks (C06): object-file bytes, running object files
   and assembled sources. -/
import Driver.Proto
import Driver.RunH
import Lace.Model.Cli
import Lace.Model.CliAsm
import Lace.Model.TermRun
open Lace Lace.Driver Lace.Cli

namespace Lace.Driver

def bytesHex (bs : List Nat) : String :=
  if bs.isEmpty then "-" else bs.foldl (fun acc b => acc ++ hexN 2 b) ""

def parseOrigWords (toks : List String) : Option (Option Word × List Word) :=
  match toks with
  | o :: n :: ws => do
    let orig ← if o == "-" then some none else (parseHex o).map (fun v => some (BitVec.ofNat 16 v))
    let n ← parseHex n
    let ws ← parseWords ws
    if ws.length != n then none else some (orig, ws)
  | _ => none

def showProc : Proc → String
  | .finished r => "fin " ++ toString r.status ++ " " ++ charsHex r.out
  | .panic _ => "panic"
  | .fuel => "fuel"

/-- `O06 orig|- n words…` → the bytes `lace compile` must write -/
def handleO06 (toks : List String) : String :=
  match parseOrigWords toks with
  | some (orig, ws) => "M ok " ++ bytesHex (objBytes orig ws)
  | none => "bad-request"

/-- `X06 so mi fuel name inp bytes` → `lace run <name>.lc3` -/
def handleX06 (toks : List String) : String :=
  match toks with
  | [so, mi, fuel, name, inp, bytes] =>
    match parseHex so, parseHex mi, parseHex fuel, parseText name, parseBytes inp, parseBytes bytes with
    | some so, some mi, some fuel, some name, some inp, some bytes =>
      "M " ++ showProc (runObjFile (so != 0) (mi != 0) fuel name bytes inp)
    | _, _, _, _, _, _ => "bad-request"
  | _ => "bad-request"

/-- `Y06 so mi fuel name inp orig|- n words…` → `lace run <name>.asm` for a source that
assembles to these words -/
def handleY06 (toks : List String) : String :=
  match toks with
  | so :: mi :: fuel :: name :: inp :: rest =>
    match parseHex so, parseHex mi, parseHex fuel, parseText name, parseBytes inp, parseOrigWords rest with
    | some so, some mi, some fuel, some name, some inp, some (orig, ws) =>
      "M " ++ showProc (runAssembled (so != 0) (mi != 0) fuel name orig ws inp)
    | _, _, _, _, _, _ => "bad-request"
  | _ => "bad-request"

/-- Events crossterm 0.28 reports for text typed into a terminal in raw mode
(`crossterm/src/event/sys/unix/parse.rs`, `parse_event`), character by character; escape sequences
are not decoded (ESC is reported as a key that `Key::try_from` ignores).  This decoding is trusted,
not verified; the harness types printable characters only.  `SHIFT` is set by crossterm for every
upper-case character (`char::is_uppercase`), here for ASCII upper case: `Key::try_from` treats
`NONE` and `SHIFT` alike. -/
def eventsOfTyped (cs : List Char) : List Term.Event :=
  cs.map fun c =>
    let n := c.toNat
    if n == 0x0D then .key Term.Mods.NONE .enter .press
    else if n == 0x09 then .key Term.Mods.NONE .other .press           -- Tab
    else if n == 0x7F then .key Term.Mods.NONE .backspace .press
    else if n == 0x1B then .key Term.Mods.NONE .other .press           -- Esc
    else if n == 0 then .key Term.Mods.CONTROL (.char ' ') .press
    else if 0x01 ≤ n ∧ n ≤ 0x1A then .key Term.Mods.CONTROL (.char (Char.ofNat (n - 1 + 'a'.toNat))) .press
    else if 0x1C ≤ n ∧ n ≤ 0x1F then .key Term.Mods.CONTROL (.char (Char.ofNat (n - 0x1C + '4'.toNat))) .press
    else .key (if c.isUpper then Term.Mods.SHIFT else Term.Mods.NONE) (.char c) .press

def showTProc : TermRun.TProc → String
  | .finished r => "fin " ++ toString r.status ++ " " ++ charsHex r.out
  | .panic _ => "panic"
  | .fuel => "fuel"
  | .blocked => "timeout"

/-- `T03 mi fuel keys n words…` → `lace run t.asm` with a terminal on standard input and the text
`keys` typed.  Model line: the TERMINAL path (`TermRun.runAssembled`: GETC / IN through the model of
`term::read_byte`, on the key events of the typed text).  Specification line: by C03 ("GETC and IN
consume exactly one input byte each") the run of the PIPE path on the UTF-8 bytes of the text; its
loop is the reference loop (`C03.run_eq_ref`).  `C03.terminal_run_eq_pipe_run` proves the two lines
equal for every program and every typed text without control characters. -/
def handleT03 (toks : List String) : String :=
  match toks with
  | mi :: fuel :: keys :: n :: ws =>
    match parseHex mi, parseHex fuel, parseBytes keys, parseText keys, parseHex n, parseWords ws with
    | some mi, some fuel, some keyBytes, some keyText, some n, some ws =>
      if ws.length != n then "bad-request" else
      let viaTerm := showTProc (TermRun.runAssembled false (mi != 0) fuel "t.asm".toList (some 0x3000#16) ws
        (eventsOfTyped keyText))
      let viaPipe := showProc (runAssembled false (mi != 0) fuel "t.asm".toList (some 0x3000#16) ws keyBytes)
      "M " ++ viaTerm ++ " ;; S " ++ viaPipe
    | _, _, _, _, _, _ => "bad-request"
  | _ => "bad-request"

/-- `K03 mi fuel keys n words…` → as `T03`, for sessions with control keys typed while the terminal
is in raw mode.  Model line: the terminal path on the events decoded from the typed bytes.
Specification line (`C03.terminal_process_eq_pipe_process`): the pipe path on `pipeBytes` of those
events — present when the theorem makes the two lines literally equal: no Ctrl+C among the events
and the terminal run is not left waiting for a key (there the pipe run ends with status 1). -/
def handleK03 (toks : List String) : String :=
  match toks with
  | mi :: fuel :: keys :: n :: ws =>
    match parseHex mi, parseHex fuel, parseText keys, parseHex n, parseWords ws with
    | some mi, some fuel, some keyText, some n, some ws =>
      if ws.length != n then "bad-request" else
      let evs := eventsOfTyped keyText
      let t := TermRun.runAssembled false (mi != 0) fuel "t.asm".toList (some 0x3000#16) ws evs
      let viaPipe := showProc (runAssembled false (mi != 0) fuel "t.asm".toList (some 0x3000#16) ws (Term.pipeBytes evs))
      let waiting := match t with | .blocked => true | _ => false
      "M " ++ showTProc t ++ (if decide (Term.NoCtrlC evs) && !waiting then " ;; S " ++ viaPipe else "")
    | _, _, _, _, _ => "bad-request"
  | _ => "bad-request"

end Lace.Driver

namespace Lace.Driver
open Lace.Cli

/-- `S07 flag src` → exit statuses of `lace check`, `lace compile`, and whether `lace run` starts -/
def handleS07 (toks : List String) : String :=
  match toks with
  | [so, src] =>
    match parseHex so, parseText src with
    | some so, some src =>
      match parsedOf (so != 0) src with
      | none => "M check=panic compile=panic run=panic"
      | some p =>
        let line := "check=" ++ toString (checkStatus p) ++ " compile=" ++ toString (compile p (.file none)).1 ++
          " run=" ++ (if runAssembles p then "ok" else "fail")
        "M " ++ line
    | _, _ => "bad-request"
  | _ => "bad-request"

def showDest : Dest → String
  | .file none => "absent"
  | .file (some b) => "file:" ++ bytesHex b
  | .devFull => "devfull"
  | .uncreatable => "nodir"

/-- `S08 flag src dest [lim]` with dest ∈ `absent | pre:<hex> | devfull | nodir` and `lim` ∈
`- | <hex byte count>` (a file size limit in force while `lace compile` runs). The answer names
the exit status, the destination afterwards and the number of files left behind next to it. -/
def handleS08 (toks : List String) : String :=
  let go (so src dest : String) (lim : Option (Option Nat)) : String :=
    -- `nu8:`: the destination's name is not valid UTF-8 — irrelevant to what compile does
    -- `long:` a 255-byte name; `lnkrel:` / `lnkabs:` a symbolic link (live or dangling) — the
    -- destination as read through the given path afterwards is what the model describes
    let dest := (["nu8:", "long:", "lnkrel:", "lnkabs:", "hard:"].foldl
      (fun d pre => if d.startsWith pre then (d.drop pre.length).toString else d) dest)
    let d : Option Dest :=
      if dest == "absent" then some (.file none)
      else if dest == "devfull" then some .devFull
      else if dest == "nodir" then some .uncreatable
      else if dest.startsWith "pre:" then (parseBytes (dest.drop 4).toString).map (fun b => Dest.file (some b))
      else none
    match parseHex so, parseText src, d, lim with
    | some so, some src, some d, some lim =>
      match parsedOf (so != 0) src with
      | none => "M st=panic"
      | some p =>
        let r := compileFs { limit := lim } p { dest := d }
        "M st=" ++ toString r.1 ++ " dest=" ++ showDest r.2.dest ++
          " extra=" ++ (match r.2.tmp with | none => "0" | some _ => "1")
    | _, _, _, _ => "bad-request"
  match toks with
  | [so, src, dest] => go so src dest (some none)
  | [so, src, dest, lim] => go so src dest (if lim == "-" then some none else (parseHex lim).map some)
  | _ => "bad-request"

end Lace.Driver

namespace Lace.Driver
open Lace.Asm

/-- `W19 stack n src₁ … srcₙ`: the verdicts of the re-checks of one `lace watch` session (state
reset between them) and of fresh `lace check`s of the same texts — by C19 both are `map assemble`. -/
def handleW19 (toks : List String) : String :=
  match toks with
  | so :: _n :: srcs =>
    -- a source is a byte string; `none` = not valid UTF-8 (`fs::read_to_string` fails: `check`
    -- reports an error, the watcher prints it and exits)
    match parseHex so, srcs.mapM (fun h => (parseBytes h).map fun _ => parseText h) with
    | some so, some srcs =>
      let shw : WatchVerdict → String
        | .ok => "ok" | .diag => "diag" | .panic => "panic" | .exited => "exited" | .none => "none"
      -- `so` = flag placement (0 off, 1 after, 2 before the subcommand) + 4 × delivery mode
      let so := so % 4
      let w := (watchSession (so != 0) [] srcs).map shw
      let f := srcs.map fun s => shw (checkVerdict (so != 0) s)
      let line := "watch=" ++ ",".intercalate w ++ " fresh=" ++ ",".intercalate f
      "M " ++ line ++ " ;; S " ++ line
    | _, _ => "bad-request"
  | _ => "bad-request"

end Lace.Driver

namespace Lace.Driver
open Lace.Asm

/-- `Q06 stack src`: what `lace compile` writes for this source text (`fail` if it does not assemble). -/
def handleQ06 (toks : List String) : String :=
  match toks with
  | [so, src] =>
    match parseHex so, parseText src with
    | some so, some src =>
      match (assemble (so != 0) [] src).1 with
      | .ok img => "M ok " ++ bytesHex (objBytes img.orig img.words)
      | .diag _ _ => "M fail"
      | .panic _ => "M panic"
    | _, _ => "bad-request"
  | _ => "bad-request"

end Lace.Driver
