/- Driver handlers for the process-mode checks (C06): object-file bytes, running object files
   and assembled sources. -/
import Driver.Proto
import Driver.RunH
import Lace.Model.Cli
import Lace.Model.CliAsm
import Lace.Model.TermRun
import Lace.Model.PathFs
open Lace Lace.Driver Lace.Cli

namespace Lace.Driver

def bytesHex (bs : List Nat) : String :=
  if bs.isEmpty then "-" else bs.foldl (fun acc b => acc ++ hexN 2 b) ""

def parseOrigWords (toks : List String) : Option (Option Word × List Word) :=
  match toks with
  | o :: n :: ws => do
    let orig ← if o == "-" then some none else (parseHex o).map (fun v => some (BitVec.ofNat 16 v))
    let n ← parseHex n
    let ws ← parseWords ws
    if ws.length != n then none else some (orig, ws)
  | _ => none

def showProc : Proc → String
  | .finished r => "fin " ++ toString r.status ++ " " ++ charsHex r.out
  | .panic _ => "panic"
  | .fuel => "fuel"

/-- `O06 orig|- n words…` → the bytes `lace compile` must write -/
def handleO06 (toks : List String) : String :=
  match parseOrigWords toks with
  | some (orig, ws) => "M ok " ++ bytesHex (objBytes orig ws)
  | none => "bad-request"

/-- `X06 so mi fuel name inp bytes` → `lace run <name>.lc3` -/
def handleX06 (toks : List String) : String :=
  match toks with
  | [so, mi, fuel, name, inp, bytes] =>
    match parseHex so, parseHex mi, parseHex fuel, parseText name, parseBytes inp, parseBytes bytes with
    | some so, some mi, some fuel, some name, some inp, some bytes =>
      "M " ++ showProc (runObjFile (so != 0) (mi != 0) fuel name bytes inp)
    | _, _, _, _, _, _ => "bad-request"
  | _ => "bad-request"

/-- `Y06 so mi fuel name inp orig|- n words…` → `lace run <name>.asm` for a source that
assembles to these words -/
def handleY06 (toks : List String) : String :=
  match toks with
  | so :: mi :: fuel :: name :: inp :: rest =>
    match parseHex so, parseHex mi, parseHex fuel, parseText name, parseBytes inp, parseOrigWords rest with
    | some so, some mi, some fuel, some name, some inp, some (orig, ws) =>
      "M " ++ showProc (runAssembled (so != 0) (mi != 0) fuel name orig ws inp)
    | _, _, _, _, _, _ => "bad-request"
  | _ => "bad-request"

/-- Events crossterm 0.28 reports for text typed into a terminal in raw mode
(`crossterm/src/event/sys/unix/parse.rs`, `parse_event`), character by character; escape sequences
are not decoded (ESC is reported as a key that `Key::try_from` ignores).  This decoding is trusted,
not verified; the harness types printable characters only.  `SHIFT` is set by crossterm for every
upper-case character (`char::is_uppercase`), here for ASCII upper case: `Key::try_from` treats
`NONE` and `SHIFT` alike. -/
def eventsOfTyped (cs : List Char) : List Term.Event :=
  cs.map fun c =>
    let n := c.toNat
    if n == 0x0D then .key Term.Mods.NONE .enter .press
    else if n == 0x09 then .key Term.Mods.NONE .other .press           -- Tab
    else if n == 0x7F then .key Term.Mods.NONE .backspace .press
    else if n == 0x1B then .key Term.Mods.NONE .other .press           -- Esc
    else if n == 0 then .key Term.Mods.CONTROL (.char ' ') .press
    else if 0x01 ≤ n ∧ n ≤ 0x1A then .key Term.Mods.CONTROL (.char (Char.ofNat (n - 1 + 'a'.toNat))) .press
    else if 0x1C ≤ n ∧ n ≤ 0x1F then .key Term.Mods.CONTROL (.char (Char.ofNat (n - 0x1C + '4'.toNat))) .press
    else .key (if c.isUpper then Term.Mods.SHIFT else Term.Mods.NONE) (.char c) .press

def showTProc : TermRun.TProc → String
  | .finished r => "fin " ++ toString r.status ++ " " ++ charsHex r.out
  | .panic _ => "panic"
  | .fuel => "fuel"
  | .blocked => "timeout"

/-- `T03 mi fuel keys n words…` → `lace run t.asm` with a terminal on standard input and the text
`keys` typed.  Model line: the TERMINAL path (`TermRun.runAssembled`: GETC / IN through the model of
`term::read_byte`, on the key events of the typed text).  Specification line: by C03 ("GETC and IN
consume exactly one input byte each") the run of the PIPE path on the UTF-8 bytes of the text; its
loop is the reference loop (`C03.run_eq_ref`).  `C03.terminal_run_eq_pipe_run` proves the two lines
equal for every program and every typed text without control characters. -/
def handleT03 (toks : List String) : String :=
  match toks with
  | mi :: fuel :: keys :: n :: ws =>
    match parseHex mi, parseHex fuel, parseBytes keys, parseText keys, parseHex n, parseWords ws with
    | some mi, some fuel, some keyBytes, some keyText, some n, some ws =>
      if ws.length != n then "bad-request" else
      let viaTerm := showTProc (TermRun.runAssembled false (mi != 0) fuel "t.asm".toList (some 0x3000#16) ws
        (eventsOfTyped keyText))
      let viaPipe := showProc (runAssembled false (mi != 0) fuel "t.asm".toList (some 0x3000#16) ws keyBytes)
      "M " ++ viaTerm ++ " ;; S " ++ viaPipe
    | _, _, _, _, _, _ => "bad-request"
  | _ => "bad-request"

/-- `K03 mi fuel keys n words…` → as `T03`, for sessions with control keys typed while the terminal
is in raw mode.  Model line: the terminal path on the events decoded from the typed bytes.
Specification line (`C03.terminal_process_eq_pipe_process`): the pipe path on `pipeBytes` of those
events — present when the theorem makes the two lines literally equal: no Ctrl+C among the events
and the terminal run is not left waiting for a key (there the pipe run ends with status 1). -/
def handleK03 (toks : List String) : String :=
  match toks with
  | mi :: fuel :: keys :: n :: ws =>
    match parseHex mi, parseHex fuel, parseText keys, parseHex n, parseWords ws with
    | some mi, some fuel, some keyText, some n, some ws =>
      if ws.length != n then "bad-request" else
      let evs := eventsOfTyped keyText
      let t := TermRun.runAssembled false (mi != 0) fuel "t.asm".toList (some 0x3000#16) ws evs
      let viaPipe := showProc (runAssembled false (mi != 0) fuel "t.asm".toList (some 0x3000#16) ws (Term.pipeBytes evs))
      let waiting := match t with | .blocked => true | _ => false
      "M " ++ showTProc t ++ (if decide (Term.NoCtrlC evs) && !waiting then " ;; S " ++ viaPipe else "")
    | _, _, _, _, _ => "bad-request"
  | _ => "bad-request"

end Lace.Driver

namespace Lace.Driver
open Lace.Cli

/-- `S07 flag src` → exit statuses of `lace check`, `lace compile`, and whether `lace run` starts -/
def handleS07 (toks : List String) : String :=
  match toks with
  | [so, src] =>
    match parseHex so, parseText src with
    | some so, some src =>
      match parsedOf (so != 0) src with
      | none => "M check=panic compile=panic run=panic"
      | some p =>
        let line := "check=" ++ toString (checkStatus p) ++ " compile=" ++ toString (compile p (.file none)).1 ++
          " run=" ++ (if runAssembles p then "ok" else "fail")
        "M " ++ line
    | _, _ => "bad-request"
  | _ => "bad-request"

/-- The file system `harness/src/cli.rs` (`obs_c08`) sets up for one case, as a path-level file
system: the root stands for the case's scratch directory, `work/` is the working directory and
holds `s.asm` (inode 1) and `sub/`. -/
structure S08Case where
  fs : PathFs.Fs
  /-- the argument given to `lace compile` -/
  dest : PathFs.Path
  /-- `read_path.file_name()`: the one name that may appear in `work/` -/
  name : PathFs.Name

open PathFs in
def s08Case (variant kind : String) (pre : Option (List Nat)) (src : List Nat) : S08Case :=
  let base : Ents := [(["work"], .dir), (["work", "s.asm"], .file 1), (["work", "sub"], .dir)]
  let mk (ents : Ents) (data : List (Nat × List Nat)) : PathFs.Fs := { ents := ents, data := (1, src) :: data, cwd := ["work"] }
  if variant == "deep" then
    -- `n` is a link to the working directory (`ln -s . n`); the destination is `n/n/…/n`
    { fs := mk (base ++ [(["work", "n"], .link ⟨false, []⟩)]) [],
      dest := ⟨false, List.replicate (kind.toNat?.getD 0) "n"⟩, name := "n" }
  else if kind == "devfull" then
    -- a private character device with /dev/full's numbers
    { fs := mk (base ++ [(["work", "devfull"], .dev)]) [], dest := ⟨false, ["devfull"]⟩, name := "devfull" }
  else if kind == "nodir" then
    { fs := mk base [], dest := ⟨false, ["no-such-dir", "out.lc3"]⟩, name := "out.lc3" }
  else
    let isLnk := variant == "lnkrel" || variant == "lnkabs"
    -- `nu8:` a name that is not valid UTF-8 (here: its lossy rendering), `long:` a 255-byte name:
    -- plain names in the working directory
    let name : Name :=
      if variant == "nu8" then "out��.lc3"
      else if variant == "long" then String.ofList (List.replicate 251 'n') ++ ".lc3"
      else if isLnk then "link.lc3" else "out.lc3"
    let dest : Path := if isLnk then ⟨false, ["sub", "link.lc3"]⟩ else ⟨false, [name]⟩
    let lnk : Ents :=
      if variant == "lnkrel" then [(["work", "sub", "link.lc3"], .link ⟨false, ["real.lc3"]⟩)]
      else if variant == "lnkabs" then [(["work", "sub", "link.lc3"], .link ⟨true, ["work", "sub", "real.lc3"]⟩)]
      else []
    -- the pre-existing contents go to the link's target, if the destination is a link
    let fileLoc : Loc := if isLnk then ["work", "sub", "real.lc3"] else ["work", name]
    match pre with
    | none => { fs := mk (base ++ lnk) [], dest := dest, name := name }
    | some b =>
      let other : Ents :=
        if variant == "hard" then [(["work", "sub", "other-name.lc3"], .file 2)]
        -- `stale:` the name the temporary file will get (the model's process id is 1) exists: a
        -- symbolic link to the destination
        else if variant == "stale" then [(["work", tmpName 1], .link ⟨false, ["out.lc3"]⟩)]
        else []
      { fs := mk (base ++ lnk ++ [(fileLoc, .file 2)] ++ other) [(2, b)], dest := dest, name := name }

/-- `S08 flag src dest [lim]` with dest ∈ `[nu8:|long:|lnkrel:|lnkabs:|hard:|stale:](absent | pre:<hex>) |
devfull | nodir | deep:<components>` and `lim` ∈ `- | <hex byte count>` (a file size limit in force while
`lace compile` runs). The model is `PathFs.compileP` (`write_all_or_nothing` statement by statement,
every path resolved by every operation) on the file system the harness sets up; the answer is
computed from the resulting file system exactly as `obs_c08` computes it from the real one: exit
status, what reading through the destination path gives, and the number of stray directory
entries in `work/` and `work/sub/` plus one if the other name of a hard-linked destination no
longer reads the old contents. -/
def handleS08 (toks : List String) : String :=
  let go (so src dest : String) (lim : Option (Option Nat)) : String :=
    let (variant, kind) : String × String :=
      match ["nu8:", "long:", "lnkrel:", "lnkabs:", "hard:", "stale:", "deep:"].find? (fun pre => dest.startsWith pre) with
      | some pre => ((pre.dropEnd 1).toString, (dest.drop pre.length).toString)
      | none => ("", dest)
    let pre : Option (Option (List Nat)) :=
      if kind == "absent" || kind == "devfull" || kind == "nodir" || variant == "deep" then some none
      else if kind.startsWith "pre:" then (parseBytes (kind.drop 4).toString).map some
      else none
    let special := kind == "devfull" || kind == "nodir"
    match parseHex so, parseText src, parseBytes src, pre, lim with
    | some so, some src, some srcBytes, some pre, some lim =>
      if special && variant != "" then "bad-request" else
      match parsedOf (so != 0) src with
      | none => "M st=panic"
      | some p =>
        let c := s08Case variant kind pre srcBytes
        let fuel := 40       -- Linux follows at most 40 links
        let r := PathFs.compileP { limit := lim } fuel 1 p c.fs c.dest
        let after : String :=
          if kind == "devfull" then
            match PathFs.entryAt r.2.ents ["work", "devfull"] with
            | some .dev => "devfull"
            | some _ => "device-replaced-by-a-file"
            | none => "device-removed"
          else if kind == "nodir" then
            if (PathFs.entryAt r.2.ents ["work", "no-such-dir"]).isSome then "created" else "nodir"
          else
            match PathFs.readPath r.2 fuel c.dest with
            | .bytes b => "file:" ++ bytesHex b
            | _ => "absent"
        let stray (d : PathFs.Loc) (ok : List PathFs.Name) : Nat :=
          ((PathFs.listDir r.2 d).filter fun n => !ok.contains n).length
        let otherChanged : Nat :=
          match pre with
          | some b =>
            if variant == "hard" && PathFs.readPath r.2 fuel ⟨false, ["sub", "other-name.lc3"]⟩ != .bytes b then 1 else 0
          | none => 0
        -- the links the harness prepared (`stale:` the temporary name, `deep:` `n`) must still be links
        let isLink (l : PathFs.Loc) : Bool := match PathFs.entryAt r.2.ents l with | some (.link _) => true | _ => false
        let linksGone : Nat :=
          (if variant == "stale" && !isLink ["work", PathFs.tmpName 1] then 1 else 0) +
          (if variant == "deep" && !isLink ["work", "n"] then 1 else 0)
        let extra := stray ["work"] (["s.asm", "sub", c.name] ++ (if variant == "stale" then [PathFs.tmpName 1] else [])) +
          stray ["work", "sub"] ["link.lc3", "real.lc3", "other-name.lc3"] + otherChanged + linksGone
        "M st=" ++ toString r.1 ++ " dest=" ++ after ++ " extra=" ++ toString extra
    | _, _, _, _, _ => "bad-request"
  match toks with
  | [so, src, dest] => go so src dest (some none)
  | [so, src, dest, lim] => go so src dest (if lim == "-" then some none else (parseHex lim).map some)
  | _ => "bad-request"

end Lace.Driver

namespace Lace.Driver
open Lace.Asm

/-- `W19 stack n src₁ … srcₙ`: the verdicts of the re-checks of one `lace watch` session (state
reset between them) and of fresh `lace check`s of the same texts — by C19 both are `map assemble`. -/
def handleW19 (toks : List String) : String :=
  match toks with
  | so :: _n :: srcs =>
    -- a source is a byte string; `none` = not valid UTF-8 (`fs::read_to_string` fails: `check`
    -- reports an error, the watcher prints it and exits)
    match parseHex so, srcs.mapM (fun h => (parseBytes h).map fun _ => parseText h) with
    | some so, some srcs =>
      let shw : WatchVerdict → String
        | .ok => "ok" | .diag => "diag" | .panic => "panic" | .exited => "exited" | .none => "none"
      -- `so` = flag placement (0 off, 1 after, 2 before the subcommand) + 4 × delivery mode
      let so := so % 4
      let w := (watchSession (so != 0) [] srcs).map shw
      let f := srcs.map fun s => shw (checkVerdict (so != 0) s)
      let line := "watch=" ++ ",".intercalate w ++ " fresh=" ++ ",".intercalate f
      "M " ++ line ++ " ;; S " ++ line
    | _, _ => "bad-request"
  | _ => "bad-request"

end Lace.Driver

namespace Lace.Driver
open Lace.Asm

/-- `Q06 stack src`: what `lace compile` writes for this source text (`fail` if it does not assemble). -/
def handleQ06 (toks : List String) : String :=
  match toks with
  | [so, src] =>
    match parseHex so, parseText src with
    | some so, some src =>
      match (assemble (so != 0) [] src).1 with
      | .ok img => "M ok " ++ bytesHex (objBytes img.orig img.words)
      | .diag _ _ => "M fail"
      | .panic _ => "M panic"
    | _, _ => "bad-request"
  | _ => "bad-request"

end Lace.Driver
