/-
  Driver handler for `B17` requests: SOURCE-LEVEL debugger sessions in the NORMAL (non
  `--minimal`) output mode whose observable is what `break list` prints — the breakpoint table
  (harness/src/evl.rs `c17_table_session`).  Same request layout as `E15` / `V17`:

    B17 <stack> <fuel> <inp> <src> <orig> <nT> <text>*nT <nB> <idx>*nB <nL> (<name> <idx>)*nL <nC> <cmd>*nC

  Answer: the session line (debugger output not compared: `~`), then ` | ` and, for every
  `break list` of the script, the hex of what stood on stderr between the echo of that command and
  the echo of the next one, escape sequences removed (`Lace.Dbg.breakListSeen`), joined by `,`.

  MODEL: source → Lean assembler model → `viewOf` (origin, symbol table, spans) →
  `Lace.Dbg.breakListNormal` on the breakpoint list the debugger model holds at that point of the
  script.  SPEC: the generator's own knowledge — per word the statement text it rendered, per
  label the word it marks, the `.break` positions — laid out as the same table.
-/
import Driver.SrcH
import Lace.Model.BreakTable
open Lace Lace.Driver Lace.Dbg Lace.Cmd

namespace Lace.Driver

def isEnd (c : Command) : Bool := c == .exit || c == .quit

/-- positions of the `break list` commands the session reaches (before the first `exit`/`quit`) -/
def breakListPositions (cmds : List Command) : List Nat :=
  let live := cmds.takeWhile (fun c => !isEnd c)
  (List.range live.length).filter fun k => live[k]? == some .breakList

/-- the breakpoint list after the first `k` commands of the script -/
def bpsAfter (env : Env) (fuel : Nat) (loaded : Machine) (w : World) (bps0 : List Word)
    (cmds : List Command) (k : Nat) : Option Breakpoints :=
  match runLoop env fuel true (newDbg loaded bps0 (cmds.take k ++ [.exit])) loaded w [] with
  | .done _ d _ _ _ => some d.bps
  | .exit _ _ d _ _ _ => some d.bps
  | .fuel _ d _ _ _ => some d.bps
  | .panic _ => none

/-- What is compared of a normal-mode `break list`: the table itself, from its first `┌` to its
last `┘` (nothing when there is no table). The heading line and the "no breakpoints" notice —
wording, category symbol — are free text that no property specifies. -/
def cutTable (cs : List Char) : List Char :=
  let rest := cs.dropWhile (fun c => !"┌╭┏╔".toList.contains c)
  (rest.reverse.dropWhile (fun c => !"┘╯┛╝".toList.contains c)).reverse

def showTables (ts : List String) : String := if ts.isEmpty then "-" else ",".intercalate ts

/-- SPEC: the table according to the generator: word `i` of the image was produced by the
statement whose text is `texts[i]`; label `n` marks word `k`. -/
def specBreakList (r : SrcReq) (bps : Breakpoints) : List Char :=
  if bps.isEmpty then "  · No breakpoints exist.".toList
  else
    let rows := bps.map fun b =>
      if b.address < r.orig then (b.address, [], [])
      else
        let i := b.address.toNat - r.orig.toNat
        let label := match r.labels.find? (fun p => p.2 == i) with
          | some p => p.1
          | none => []
        (b.address, label, (r.texts[i]?).getD [])
    "  · Breakpoints:\n".toList ++ Tables.bpTable rows

def handleBpt (toks : List String) : String :=
  match parseSrcReq toks with
  | none => "bad-request"
  | some r =>
    match Asm.assemble r.so [] r.src with
    | (.diag _ _, _) => "M asmdiag"
    | (.panic _, _) => "M loadpanic"
    | (.ok img, tbl) =>
      let orig : Word := img.orig.getD 0x3000#16
      match Run.fromRaw (orig :: img.words) with
      | .exit c => "M loadexit " ++ toString c
      | .panic _ => "M loadpanic"
      | .ok loaded =>
        let w : World := { inp := r.inp, outRev := [] }
        let env : Env := { envOf r.so r.src img tbl with minimal := false }
        let bps0 := img.bps.map (BitVec.ofNat 16)
        let mline := sessionLine env r.fuel loaded w (newDbg loaded bps0 r.cmds) true
        let view := viewOf r.src img tbl
        let ks := breakListPositions r.cmds
        let mtabs := ks.map fun k =>
          match bpsAfter env r.fuel loaded w bps0 r.cmds k with
          | none => "panic"
          | some bps =>
            match breakListNormal view bps with
            | .error _ => "panic"
            | .ok out => charsHex (cutTable (breakListSeen out))
        let specOk := r.orig == orig && r.texts.length == img.words.length
        let senv : Env := { specEnv r with minimal := false }
        let sbps0 := r.breaks.map (BitVec.ofNat 16)
        let sline :=
          if r.orig != orig then "spec-orig-differs"
          else if r.texts.length != img.words.length then "spec-length-differs"
          else sessionLine senv r.fuel loaded w (newDbg loaded sbps0 r.cmds) true
        let stabs := if !specOk then [] else ks.map fun k =>
          match bpsAfter senv r.fuel loaded w sbps0 r.cmds k with
          | none => "panic"
          | some bps => charsHex (cutTable (breakListSeen (specBreakList r bps)))
        "M " ++ mline ++ " | " ++ showTables mtabs ++ " ;; S " ++ sline ++ " | " ++ showTables stabs

end Lace.Driver
