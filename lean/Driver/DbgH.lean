/- Driver handler for debugger sessions (`D09` … requests; see harness/src/dbg.rs). -/
import Driver.Proto
import Driver.RunH
import Lace.Model.Debugger
import Lace.Model.Eval
import Lace.Model.DebuggerRef
open Lace Lace.Driver Lace.Dbg Lace.Cmd

namespace Lace.Driver

def hexDigitU (n : Nat) : Char :=
  if n < 10 then Char.ofNat (48 + n) else Char.ofNat (55 + n)

def hex4U (w : Word) : List Char :=
  let n := w.toNat
  [hexDigitU (n / 4096 % 16), hexDigitU (n / 256 % 16), hexDigitU (n / 16 % 16), hexDigitU (n % 16)]

def parseInt? (s : String) : Option Int :=
  if s.startsWith "-" then (s.drop 1).toNat?.map (fun n => - (n : Int)) else s.toNat?.map (fun n => (n : Int))

def parseLoc (t : String) : Option MemLoc :=
  if t.startsWith "@" then (parseHex (t.drop 1).toString).map (fun a => .address (BitVec.ofNat 16 a))
  else if t.startsWith "^" then (parseInt? (t.drop 1).toString).map .pcOffset
  else if t.startsWith "L" then
    match (t.drop 1).toString.splitOn "/" with
    | [n, o] => do
      let name ← parseText n
      let off ← parseInt? o
      some (.label name off)
    | _ => none
  else none

def parseRegTok (t : String) : Option (BitVec 3) :=
  if t.startsWith "r" then (t.drop 1).toString.toNat?.map (BitVec.ofNat 3) else none

def parseCmd (t : String) : Option Command :=
  match t.splitOn ":" with
  | ["h"] => some .help
  | ["so"] => some .stepOver
  | ["si", k] => k.toNat?.map (fun k => .stepInto (BitVec.ofNat 16 k))
  | ["sout"] => some .stepOut
  | ["c"] => some .continue_
  | ["regs"] => some .registers
  | ["p", l] => match parseRegTok l with
    | some r => some (.print (.reg r))
    | none => (parseLoc l).map (fun l => .print (.mem l))
  | ["mv", l, v] => do
    let v ← parseHex v
    match parseRegTok l with
    | some r => some (.move (.reg r) (BitVec.ofNat 16 v))
    | none => (parseLoc l).map (fun l => .move (.mem l) (BitVec.ofNat 16 v))
  | ["g", l] => (parseLoc l).map .goto
  | ["a", l] => (parseLoc l).map .assembly
  | ["ev", s] => (parseText s).map .eval
  | ["e", s] => (parseText s).map .echo
  | ["z"] => some .reset
  | ["q"] => some .quit
  | ["x"] => some .exit
  | ["bl"] => some .breakList
  | ["ba", l] => (parseLoc l).map .breakAdd
  | ["br", l] => (parseLoc l).map .breakRemove
  | _ => none

structure DbgReq where
  so : Bool
  fuel : Nat
  inp : List Nat
  orig : Word
  words : List Word
  breaks : List Nat
  labels : List (List Char × Nat)
  cmds : List Command

def takeN (n : Nat) (ts : List String) : Option (List String × List String) :=
  if ts.length < n then none else some (ts.take n, ts.drop n)

def parseDbgReq (toks : List String) : Option DbgReq := do
  match toks with
  | so :: fuel :: inp :: orig :: n :: rest =>
    let so ← parseHex so
    let fuel ← parseHex fuel
    let inp ← parseBytes inp
    let orig ← parseHex orig
    let n ← parseHex n
    let (ws, rest) ← takeN n rest
    let ws ← parseWords ws
    match rest with
    | nb :: rest =>
      let nb ← parseHex nb
      let (bs, rest) ← takeN nb rest
      let bs ← bs.mapM parseHex
      match rest with
      | nl :: rest =>
        let nl ← parseHex nl
        let (ls, rest) ← takeN (2 * nl) rest
        let rec pairs : List String → Option (List (List Char × Nat))
          | [] => some []
          | a :: b :: r => do
            let name ← parseText a
            let k ← parseHex b
            let tl ← pairs r
            some ((name, k) :: tl)
          | _ => none
        let ls ← pairs ls
        match rest with
        | nc :: rest =>
          let nc ← parseHex nc
          if rest.length != nc then none else
          let cs ← rest.mapM parseCmd
          some { so := so != 0, fuel := fuel, inp := inp, orig := BitVec.ofNat 16 orig, words := ws,
                 breaks := bs, labels := ls, cmds := cs }
        | _ => none
      | _ => none
    | _ => none
  | _ => none

/-- Environment of a `.orig`/`.fill` source: every statement's text is `.fill xWWWW`. -/
def fillEnv (r : DbgReq) (mi : Bool := true) : Env :=
  { stackOn := r.so, minimal := mi,
    symtab := r.labels.map fun (n, k) => (n, BitVec.ofNat 16 (k + 1)),
    stmtText := fun i => (r.words[i]?).map fun w => ".fill x".toList ++ hex4U w,
    stmtCount := r.words.length,
    eval := fun m w text =>
      evalInner r.so mi (r.labels.map fun (n, k) => (n, k + 1)) r.orig m w text }

def showBps (attached : Bool) (d : Dbg) : String :=
  if !attached then "-" else
  if d.bps.isEmpty then "none" else
  ",".intercalate (d.bps.map fun b => hexW b.address ++ (if b.predefined then "p" else "r"))

def showErr (d : Dbg) : String :=
  let lines := d.errRev.reverse
  if lines.isEmpty then "-" else ",".intercalate (lines.map charsHex)

def programObs (head : String) (loaded m : Machine) (w : World) : String :=
  head ++ " " ++ showRegs m ++ " |" ++ memDiff loaded m ++ " | " ++ charsHex w.output

def hasExit (cs : List Command) : Bool := cs.any (· == .exit)

def c10Alphabet (cs : List Command) : Bool :=
  cs.all fun c => match c with
    | .stepOver | .stepInto _ | .stepOut | .continue_ | .breakAdd _ | .breakRemove _ | .exit | .quit => true
    | _ => false

def progBody (loaded m : Machine) (w : World) : String :=
  showRegs m ++ " |" ++ memDiff loaded m ++ " | " ++ charsHex w.output

/-- Run the session on the model; answer as `harness/src/dbg.rs::run_debug` prints it, followed
by the property-specific verdict (computed here on the model exactly as the harness computes
it on the implementation). The `S` answer states what the property demands of the verdict. -/
def handleDbg (tag : String) (toks : List String) : String :=
  -- trailing `NM`: the session ran in the normal (non `--minimal`) output mode; what the debugger
  -- printed is then not compared
  let nm := toks.getLast? == some "NM"
  let toks := if nm then toks.dropLast else toks
  match parseDbgReq toks with
  | none => "bad-request"
  | some r =>
    match Run.fromRaw (r.orig :: r.words) with
    | .exit c => "M loadexit " ++ toString c ++ " | -"
    | .panic _ => "M loadpanic | -"
    | .ok loaded =>
      let env := fillEnv r (!nm)
      let w : World := { inp := r.inp, outRev := [] }
      let d := newDbg loaded (r.breaks.map (BitVec.ofNat 16)) r.cmds
      -- one observation line from its parts (shared by the model and, for D10, the reference)
      let fmtParts (head : String) (m : Machine) (w : World) (nexec : Nat) (pcs : List Word)
          (ncmds : Nat) (cmdAt : List Nat) (bps err : String) : String :=
        head ++ " " ++ showRegs m ++ " |" ++ memDiff loaded m ++ " | " ++ showWorld w ++ " | " ++
          toString nexec ++ " " ++ hex16 (fnv pcs) ++ " | " ++ toString ncmds ++ " " ++
          hex16 (fnv (cmdAt.map (BitVec.ofNat 16))) ++ " | " ++ bps ++ " | " ++ err
      let fmt (head : String) (att : Bool) (d : Dbg) (m : Machine) (w : World) (ex : List Word) :
          String × String × String × Nat :=
        let pcs := ex.reverse
        (fmtParts head m w pcs.length pcs d.ncmds d.cmdAt.reverse (showBps att d) (if nm then "~" else showErr d),
          head, progBody loaded m w, pcs.length)
      let modelRun := runLoop env r.fuel true d loaded w []
      let (line, head, body, nexec) :=
        match modelRun with
        | .done att d m w ex => fmt "done" att d m w ex
        | .exit c att d m w ex => fmt ("exit " ++ toString c) att d m w ex
        | .fuel att d m w ex => fmt "fuel" att d m w ex
        | .panic _ => ("panic", "panic", "", 0)
      -- D10: the REFERENCE debugger (`Spec/RefDebug.lean`) on the same session, when the script is
      -- `cs; exit` with `cs` over C10's alphabet and the model session ended: outcome, machine,
      -- world, instruction count, executed addresses (the reference machine's fetch sequence) and
      -- the command / execution interleaving come from the reference; the breakpoint list with its
      -- predefined marks and the stderr lines (not part of the reference) are the model's.
      let refLine : Option String :=
        if tag != "D10" || head == "fuel" || head == "panic" then none else
        match r.cmds.reverse with
        | .exit :: revcs =>
          let cs := revcs.reverse
          if !cs.all C10.InAlphabet then none else
          let (bpsS, errS) : String × String := match modelRun with
            | .done att d _ _ _ => (showBps att d, if nm then "~" else showErr d)
            | .exit _ att d _ _ _ => (showBps att d, if nm then "~" else showErr d)
            | _ => ("", "")
          let R := C10.refSession env r.fuel loaded (r.breaks.map (BitVec.ofNat 16)) cs loaded w
          let pcs := Run.fetches r.so (!nm) R.executed loaded w
          let parts (head : String) (m : Machine) (w : World) : String :=
            fmtParts head m w R.executed pcs R.log.length (R.log.map (·.executed)) bpsS errS
          match R.final with
          | .exited m w => some (parts "done" m w)
          | .ended c m w => some (parts ("exit " ++ toString c) m w)
          | _ => none
        | _ => none
      let plainRun (fuel : Nat) : String × String :=
        match Run.loop r.so (!nm) fuel loaded w with
        | .done m w => ("done", progBody loaded m w)
        | .exit c m w => ("exit " ++ toString c, progBody loaded m w)
        | .fuel m w => ("fuel", progBody loaded m w)
        | .panic _ => ("panic", "")
      let (verdict, demanded) : String × String :=
        if tag == "D09" then
          let (ph, pb) := plainRun r.fuel
          let inconclusive := hasExit r.cmds || head == "fuel" || ph == "fuel"
          (if inconclusive || (head == ph && body == pb) then "plain=same" else "plain=differs", "plain=same")
        else if tag == "D10" then
          if !c10Alphabet r.cmds || head == "fuel" || head == "panic" then ("adv=na", "adv=na")
          else
            let (_, pb) := plainRun nexec
            (if body == pb then "adv=same" else "adv=differs", "adv=same")
        else if tag == "D12" then
          let n := r.cmds.length
          if n ≥ 2 && r.cmds[n - 2]? == some .reset && r.cmds[n - 1]? == some .exit && head == "done" then
            let want := hexW r.orig ++ " 0 0000 0000 0000 0000 0000 0000 0000 fdff | - |"
            (if body.startsWith want then "reset=ok" else "reset=bad", "reset=ok")
          else ("reset=na", "reset=na")
        else if tag == "D16" then ("progress=ok", "progress=ok")
        else ("-", "-")
      if line == "panic" then "M panic | -" else
      "M " ++ line ++ " | " ++ verdict ++ " ;; S " ++ refLine.getD line ++ " | " ++ demanded

end Lace.Driver
