/-
  Line-protocol helpers for the model driver: hex parsing/printing and machine (de)serialisation.
  One request per line, fields separated by single spaces.
-/
import Lace.Basic.Machine
import Lace.Basic.Fmt
namespace Lace.Driver

def hexVal (c : Char) : Option Nat :=
  if '0' ≤ c ∧ c ≤ '9' then some (c.toNat - 48)
  else if 'a' ≤ c ∧ c ≤ 'f' then some (c.toNat - 87)
  else if 'A' ≤ c ∧ c ≤ 'F' then some (c.toNat - 55)
  else none

def parseHex (s : String) : Option Nat :=
  if s.isEmpty then none else
  s.foldl (fun acc c => match acc, hexVal c with
    | some a, some d => some (a * 16 + d)
    | _, _ => none) (some 0)

def hexN (digits : Nat) (n : Nat) : String :=
  String.ofList ((List.range digits).reverse.map fun i => hexDigit (n / 16 ^ i % 16))

def hexW (w : Word) : String := hexN 4 w.toNat

/-- Hex string of bytes → list of byte values. -/
def parseBytes (s : String) : Option (List Nat) :=
  let cs := s.toList
  let rec go : List Char → List Nat → Option (List Nat)
    | [], acc => some acc.reverse
    | [_], _ => none
    | a :: b :: rest, acc =>
      match hexVal a, hexVal b with
      | some x, some y => go rest ((x * 16 + y) :: acc)
      | _, _ => none
  if s == "-" then some [] else go cs []

/-- UTF-8 encode a list of chars and print as hex ("-" when empty). -/
def charsHex (cs : List Char) : String :=
  let bytes := (String.ofList cs).toUTF8
  if bytes.size == 0 then "-" else
  bytes.foldl (fun acc b => acc ++ hexN 2 b.toNat) ""

/-- Decode hex-encoded UTF-8 text ("-" = empty). `none` on malformed hex or invalid UTF-8. -/
def parseText (s : String) : Option (List Char) := do
  let bytes ← parseBytes s
  let ba := ByteArray.mk (bytes.map (fun b => UInt8.ofNat b)).toArray
  match String.fromUTF8? ba with
  | some str => some str.toList
  | none => none

def ccOfNat : Nat → CC
  | 0 => .none | 1 => .p | 2 => .z | _ => .n     -- 0 none, 1 p(001), 2 z(010), 4 n(100)

def ccToNat : CC → Nat
  | .none => 0 | .p => 1 | .z => 2 | .n => 4

def zeroMem : Vector Word 65536 := Vector.replicate 65536 0#16

/-- Parse `pc cc r0 … r7 orig nmem (addr val)*` from a token list; returns the rest. -/
def parseMachine (toks : List String) : Option (Machine × List String) := do
  match toks with
  | pc :: cc :: r0 :: r1 :: r2 :: r3 :: r4 :: r5 :: r6 :: r7 :: orig :: nmem :: rest =>
    let pc ← parseHex pc
    let cc ← parseHex cc
    let regs ← [r0, r1, r2, r3, r4, r5, r6, r7].mapM parseHex
    let orig ← parseHex orig
    let nmem ← parseHex nmem
    let regv : Vector Word 8 := Vector.ofFn fun i => BitVec.ofNat 16 (regs.getD i.val 0)
    let rec fill : Nat → List String → Vector Word 65536 → Option (Vector Word 65536 × List String)
      | 0, ts, mem => some (mem, ts)
      | n + 1, a :: v :: ts, mem => do
        let a ← parseHex a
        let v ← parseHex v
        fill n ts (mem.set (a % 65536) (BitVec.ofNat 16 v) (Nat.mod_lt _ (by decide)))
      | _, _, _ => none
    let (mem, rest) ← fill nmem rest zeroMem
    some ({ mem := mem, reg := regv, pc := BitVec.ofNat 16 pc, cc := ccOfNat cc,
            orig := BitVec.ofNat 16 orig }, rest)
  | _ => none

/-- `pc cc r0..r7` -/
def showRegs (m : Machine) : String :=
  hexW m.pc ++ " " ++ toString (ccToNat m.cc) ++
    (List.range 8).foldl (fun acc i => acc ++ " " ++ hexW (m.reg.toArray.getD i 0)) ""

/-- Memory words that differ between two machines, as `addr:val` (new value), ascending. -/
def memDiff (old new : Machine) : String := Id.run do
  let a := old.mem.toArray
  let b := new.mem.toArray
  let mut s := ""
  for i in [0:65536] do
    let x := a.getD i 0
    let y := b.getD i 0
    if x != y then s := s ++ " " ++ hexN 4 i ++ ":" ++ hexW y
  return if s.isEmpty then " -" else s

def showWorld (w : World) : String :=
  charsHex w.output ++ " " ++ toString w.inp.length

def showStep (old : Machine) : StepResult → String
  | .ok m w => "ok " ++ showRegs m ++ " |" ++ memDiff old m ++ " | " ++ showWorld w
  | .exit c w => "exit " ++ toString c ++ " | " ++ showWorld w
  | .panic _ => "panic"

end Lace.Driver
