/-
  MODEL of `RunEnvironment::run` with a debugger attached in which the debugger's commands are
  NOT parsed beforehand but READ ON DEMAND, exactly as `Debugger::run_command` does it:
  `Command::read_from(&mut self.command_reader, …)` → `CommandReader::read` → the `--command`
  argument first, then standard input, byte by byte, up to and including the one `;` or newline
  that ends the command; end of input ↦ `quit`.

  Standard input is ONE byte stream (`std::io::stdin()`, one process-wide buffered reader): the
  command reader (`reader/stdin.rs`, `Stdin::read_byte`) and the program's GETC / IN
  (`runtime.rs`, `read_byte_stdin`) take their bytes from the same place.  In this model that
  place is `World.inp`: a command read consumes a prefix of it, an instruction executed between
  two command reads takes its input from what the reader left, and the bytes that follow `quit`
  and its delimiter are the program's.

  Everything else — `run_command`, `check_interrupts`, the status loop, the body of the run
  loop — is the pre-parsed model `Lace/Model/Debugger.lean`, reused as it is (`Dbg.cmds` is
  simply never looked at here).
-/
import Lace.Model.Debugger
import Lace.Model.Cmd.Reader
namespace Lace.DbgIO
open Lace Lace.Cmd Lace.Dbg

/-! ### `World.inp` as the byte stream behind `std::io::stdin()` -/

/-- The bytes the command reader sees. -/
def bytesOf (inp : List Nat) : List UInt8 := inp.map UInt8.ofNat

/-- The same bytes as the program's input. -/
def natsOf (bytes : List UInt8) : List Nat := bytes.map UInt8.toNat

/-- What is left of the input when the reader has left `k` bytes unread: a read consumes a
prefix, so the remainder is the last `k` entries (`Lace.C09IO.fetch_rest_suffix`: the bytes
the reader returns as unread are exactly those of this suffix). -/
def keepLast (inp : List Nat) (k : Nat) : List Nat := inp.drop (inp.length - k)

/-- The part of `CommandReader` that is not standard input (the `--command` argument with its
cursor), and the number of times `handle_error` has been called (`CommandError` reports). -/
structure Src where
  arg : Option Argument
  nerr : Nat
  deriving DecidableEq, Repr

/-- `CommandReader::from(opts.command)` -/
def Src.from (argument : Option (List Char)) : Src :=
  { arg := argument.map Argument.from, nerr := 0 }

/-- The `CommandReader` as it stands: the argument, and standard input = the world's input. -/
def readerOf (s : Src) (w : World) : Reader := { argument := s.arg, stdin := bytesOf w.inp }

/-- Result of one `Command::read_from(&mut self.command_reader, handle_error)`. -/
inductive Fetch where
  | command (c : Command) (s : Src) (w : World)
  /-- `None`: end of input (of the argument and of standard input) -/
  | eof (s : Src) (w : World)
  /-- `sudo`: the process exits from inside the parser -/
  | exit (code : Nat) (s : Src) (w : World)
  | panic (site : String)

/-- One `Command::read_from` on the shared input.  The reader's unread remainder becomes the
world's input. -/
def fetch (s : Src) (w : World) : Fetch :=
  match readFrom (readerOf s w) with
  | .command c n r =>
    .command c { arg := r.argument, nerr := s.nerr + n } { w with inp := keepLast w.inp r.stdin.length }
  | .eof n r =>
    .eof { arg := r.argument, nerr := s.nerr + n } { w with inp := keepLast w.inp r.stdin.length }
  | .exit code n => .exit code { s with nerr := s.nerr + n } w
  | .panic site _ => .panic site

/-- The `loop { match &mut self.status … }` of `next_action`, reading on demand.  `n` bounds
the iterations; every iteration returns, consumes at least one byte of the argument or of
standard input, or leaves `StepOver` for `WaitForAction`. -/
def actionLoopIO (env : Env) : Nat → Src → Dbg → Machine → World → Option Sig → Src × NextResult
  | 0, s, _, _, _, _ => (s, .panic "actionLoop fuel")
  | n + 1, s, d, m, w, instr =>
    match d.status with
    | .wait =>
      -- `run_command`: `instruction_count = 0`, then `Command::read_from(..).unwrap_or(Quit)`
      match fetch s w with
      | .panic site => (s, .panic site)
      | .exit code s w => (s, .exit code { d with icount := 0 } m w)
      | .eof s w =>
        (s, .action .stopDebugger
              { d with icount := 0, ncmds := d.ncmds + 1, cmdAt := d.nexec :: d.cmdAt } m w)
      | .command c s w =>
        match runCommand env d m w c with
        | .next d m w => actionLoopIO env n s d m w instr
        | .action a d m w => (s, .action a d m w)
        | .exit c d m w => (s, .exit c d m w)
        | .panic site => (s, .panic site)
    | .stepOver ret =>
      if m.pc == ret then
        let d := if d.icount > 1 then say d "Reached::SubroutineEnd" else d
        actionLoopIO env n s { d with status := .wait } m w instr
      else (s, .action .proceed d m w)
    | .stepInto count =>
      if count.toNat > 0 then (s, .action .proceed { d with status := .stepInto (count - 1) } m w)
      else (s, .action .proceed { d with status := .wait } m w)
    | .cont => (s, .action .proceed d m w)
    | .finish =>
      if instr == some .ret then
        (s, .action .proceed { say d "Reached::SubroutineEnd" with status := .wait } m w)
      else (s, .action .proceed d m w)

/-- `Debugger::next_action`, reading on demand. -/
def nextActionIO (env : Env) (s : Src) (d : Dbg) (m : Machine) (w : World) : Src × NextResult :=
  let d := match Run.checkPcBounds m with
    | .lt => { say d "OutOfBounds::ProgramCounter" with status := .wait }
    | .gt => { say d "OutOfBounds::ProgramCounter" with status := .wait }
    | .eq => d
  let instr := sigOf (m.read m.pc)
  let d := checkInterrupts d m.pc instr
  actionLoopIO env (2 * (readerOf s w).size + 3) s d m w instr

/-- What `RunEnvironment::run` does with the action the debugger returned (the rest of the
loop body; `Lace.C09IO.iter_eq_afterAction`: this is `Dbg.iter` after its `next_action`). -/
def afterAction (env : Env) : NextResult → Iter
  | .panic s => .panic s
  | .exit c d m w => .exit c true d m w none
  | .action .stopDebugger d m w => .cont false d m w none
  | .action .exitProgram d m w => .done true d m w
  | .action .proceed d m w =>
    if sigOf (m.read m.pc) == some .halt then .cont true d m w none
    else if Run.checkPcBounds m != .eq then .cont true d m w none
    else
      let d := { d with icount := if d.icount < 4294967295 then d.icount + 1 else d.icount,
                        nexec := d.nexec + 1 }
      execOne env true d m w

/-- One iteration of `RunEnvironment::run`; detached, it is `Dbg.iter`. -/
def iterIO (env : Env) (att : Bool) (s : Src) (d : Dbg) (m : Machine) (w : World) : Src × Iter :=
  if att then
    let r := nextActionIO env s d m w
    (r.1, afterAction env r.2)
  else (s, iter env false d m w)

/-- `RunEnvironment::run` with the debugger reading its commands on demand from
(`--command` argument, standard input = `World.inp`).  One `n` per iteration of the loop, as in
`Dbg.runLoop`. -/
def runLoopIO (env : Env) : Nat → Bool → Src → Dbg → Machine → World → List Word → Src × DbgRun
  | 0, att, s, d, m, w, ex => (s, .fuel att d m w ex)
  | n + 1, att, s, d, m, w, ex =>
    match iterIO env att s d m w with
    | (s, .cont att d m w e) => runLoopIO env n att s d m w (pushExec e ex)
    | (s, .done att d m w) => (s, .done att d m w ex)
    | (s, .exit c att d m w e) => (s, .exit c att d m w (pushExec e ex))
    | (s, .panic site) => (s, .panic site)

/-- The word the attached debugger lets the machine execute in this iteration, if any. -/
def attachedWord (env : Env) (s : Src) (d : Dbg) (m : Machine) (w : World) : Option Word :=
  match (nextActionIO env s d m w).2 with
  | .action .proceed _ m' _ =>
    if sigOf (m'.read m'.pc) == some .halt then none
    else if Run.checkPcBounds m' != .eq then none
    else some (m'.read m'.pc)
  | _ => none

/-- The instruction words executed while the debugger is attached, in order. -/
def attachedWords (env : Env) : Nat → Bool → Src → Dbg → Machine → World → List Word
  | 0, _, _, _, _, _ => []
  | _ + 1, false, _, _, _, _ => []
  | n + 1, true, s, d, m, w =>
    (attachedWord env s d m w).toList ++
      match iterIO env true s d m w with
      | (s, .cont att d m w _) => attachedWords env n att s d m w
      | _ => []

/-- GETC and IN: the two instructions that read standard input (`trap` with vector x20 / x23). -/
def readsInput (instr : Word) : Bool :=
  (instr >>> 12).toNat == 0xF && ((instr &&& 0xFF#16).toNat == 0x20 || (instr &&& 0xFF#16).toNat == 0x23)

end Lace.DbgIO
