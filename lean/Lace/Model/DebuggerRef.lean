/-
  The debugger model's commands read as commands of the reference debugger (`Spec/RefDebug.lean`):
  C10's alphabet, the translation `toRef` (locations resolved as `resolve_location` +
  `expect_userspace_address` resolve them) and the reference's reading of a whole session.
  Used by the refinement theorems (`Props/C10Ref.lean`) and by the driver (three-way check of
  `D10` sessions: implementation vs model vs reference).  Core only: linked into `lacemodel`.
-/
import Lace.Model.Debugger
import Lace.Spec.RefDebug
namespace Lace.C10
open Lace Lace.Dbg Lace.Cmd Lace.RefDebug

/-! ### The alphabet and its reading by the reference -/

/-- C10's alphabet (the parser never yields `step into 0`: a count of 0 means 1, C14). -/
def InAlphabet : Command → Bool
  | .stepOver => true
  | .stepInto k => k != 0#16
  | .stepOut => true
  | .continue_ => true
  | .breakAdd _ => true
  | .breakRemove _ => true
  | .help => false
  | .registers => false
  | .print _ => false
  | .move _ _ => false
  | .goto _ => false
  | .assembly _ => false
  | .eval _ => false
  | .echo _ => false
  | .reset => false
  | .quit => false
  | .exit => false
  | .breakList => false

/-- The reference command a debugger command denotes; locations are resolved as lace resolves
them (`resolve_location` + `expect_userspace_address`, C13). -/
def toRef (env : Env) (orig : Word) : Command → RefDebug.Cmd
  | .stepOver => .step
  | .stepInto k => .stepInto k
  | .stepOut => .stepOut
  | .continue_ => .continue_
  | .breakAdd l => .breakAdd fun m => (resolveUser env orig m l).toOption
  | .breakRemove l => .breakRemove fun m => (resolveUser env orig m l).toOption
  | .help => .continue_
  | .registers => .continue_
  | .print _ => .continue_
  | .move _ _ => .continue_
  | .goto _ => .continue_
  | .assembly _ => .continue_
  | .eval _ => .continue_
  | .echo _ => .continue_
  | .reset => .continue_
  | .quit => .continue_
  | .exit => .continue_
  | .breakList => .continue_

/-- The reference's reading of the same session (`fuel` instructions at most per command). -/
def refSession (env : Env) (fuel : Nat) (initial : Machine) (bpsRel : List Word) (cs : List Command)
    (m : Machine) (w : World) : Result :=
  runScript env.stackOn env.minimal fuel 0 (cs.map (toRef env initial.pc))
    (BpSet.ofList (bpsRel.map (· + initial.pc))) m w

end Lace.C10
