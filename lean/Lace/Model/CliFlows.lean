/-
  MODEL of the `Check`, `Compile` and `Run` arms of `src/main.rs` (after the fixes that make
  `assemble()` emit every word, initialise the feature flags for `check`/`watch`, and make
  `compile` emit before creating the destination), over an abstract file system.

  The assembler enters only through its per-statement emission results, so the theorems hold
  for every assembler behaviour; `Lace/Model/Assemble.lean` supplies the real one.
-/
import Lace.Model.Cli
namespace Lace.Cli
open Lace

/-- What parsing + backpatching produced: an origin and, per statement, the result of
`stmt.emit()` (`none` = diagnostic, e.g. label out of range). `none` overall = the parser or
backpatcher already reported a diagnostic. -/
abbrev Parsed := Option (Option Word × List (Option Word))

/-- `for stmt in &air { stmt.emit()? }` — all words, or the first failure. -/
def emitAll : List (Option Word) → Option (List Word)
  | [] => some []
  | none :: _ => none
  | some w :: rest => (emitAll rest).map (w :: ·)

/-- `fn assemble(contents) -> Result<Air>` of main.rs: parse, backpatch, then emit everything. -/
def assembleOk (p : Parsed) : Option (Option Word × List Word) :=
  match p with
  | none => none
  | some (orig, emits) => (emitAll emits).map (orig, ·)

/-- Exit status of `lace check`. -/
def checkStatus (p : Parsed) : Nat := if (assembleOk p).isSome then 0 else 1

/-- The destination of `lace compile`, abstractly. -/
inductive Dest where
  /-- a path in a writable directory: absent (`none`) or a regular file with these bytes -/
  | file (content : Option (List Nat))
  /-- a device that can be opened but accepts no data (`/dev/full`) -/
  | devFull
  /-- a path that cannot be created (missing directory, no permission) -/
  | uncreatable
  deriving DecidableEq, Repr

inductive FsOp where
  | create                      -- `File::create` (truncates)
  | writeAll (bytes : List Nat)
  | flush
  deriving DecidableEq, Repr

/-- File-system semantics assumed for the three kinds of destination. A failed operation
leaves the destination as it was; partial writes on regular files (disk full) are outside
this model (OS behaviour). Returns the new destination and whether the operation succeeded. -/
def applyOp (d : Dest) : FsOp → Dest × Bool
  | .create => match d with
    | .file _ => (.file (some []), true)
    | .devFull => (.devFull, true)
    | .uncreatable => (.uncreatable, false)
  | .writeAll bytes => match d with
    | .file (some old) => (.file (some (old ++ bytes)), true)
    | .file none => (.file none, false)
    | .devFull => (.devFull, bytes.isEmpty)
    | .uncreatable => (.uncreatable, false)
  | .flush => (d, true)

/-- The `Compile` arm: assemble (incl. emission); build the byte buffer; only then
`File::create`, `write_all`, `flush`, each `?`-propagated. Returns exit status and destination. -/
def compile (p : Parsed) (d : Dest) : Nat × Dest :=
  match assembleOk p with
  | none => (1, d)
  | some (orig, words) =>
    let bytes := objBytes orig words
    let (d1, ok1) := applyOp d .create
    if !ok1 then (1, d1) else
    let (d2, ok2) := applyOp d1 (.writeAll bytes)
    if !ok2 then (1, d2) else
    let (d3, ok3) := applyOp d2 .flush
    if !ok3 then (1, d3) else (0, d3)

/-- Whether `lace run` gets past assembling (prints "Running emitted binary"). -/
def runAssembles (p : Parsed) : Bool := (assembleOk p).isSome

end Lace.Cli
