/-
  MODEL of the `Check`, `Compile` and `Run` arms of `src/main.rs` (after the fixes that make
  `assemble()` emit every word, initialise the feature flags for `check`/`watch`, and make
  `compile` emit before creating the destination), over an abstract file system.

  The assembler enters only through its per-statement emission results, so the theorems hold
  for every assembler behaviour; `Lace/Model/Assemble.lean` supplies the real one.
-/
import Lace.Model.Cli
namespace Lace.Cli
open Lace

/-- What parsing + backpatching produced: an origin and, per statement, the result of
`stmt.emit()` (`none` = diagnostic, e.g. label out of range). `none` overall = the parser or
backpatcher already reported a diagnostic. -/
abbrev Parsed := Option (Option Word × List (Option Word))

/-- `for stmt in &air { stmt.emit()? }` — all words, or the first failure. -/
def emitAll : List (Option Word) → Option (List Word)
  | [] => some []
  | none :: _ => none
  | some w :: rest => (emitAll rest).map (w :: ·)

/-- `fn assemble(contents) -> Result<Air>` of main.rs: parse, backpatch, then emit everything. -/
def assembleOk (p : Parsed) : Option (Option Word × List Word) :=
  match p with
  | none => none
  | some (orig, emits) => (emitAll emits).map (orig, ·)

/-- Exit status of `lace check`. -/
def checkStatus (p : Parsed) : Nat := if (assembleOk p).isSome then 0 else 1

/-- The destination of `lace compile`, abstractly. -/
inductive Dest where
  /-- a path in a writable directory: absent (`none`) or a regular file with these bytes -/
  | file (content : Option (List Nat))
  /-- a device that can be opened but accepts no data (`/dev/full`) -/
  | devFull
  /-- a path that cannot be created (missing directory, no permission) -/
  | uncreatable
  deriving DecidableEq, Repr

/-- Faults the environment may inject into the file operations of `compile`. -/
structure Faults where
  /-- size limit for regular files (RLIMIT_FSIZE, free disk space): a regular file cannot grow
  beyond this many bytes — a write that would makes it exactly this long and fails;
  `none` = no limit -/
  limit : Option Nat := none
  /-- renaming the complete temporary file over the destination fails -/
  renameFails : Bool := false
  deriving DecidableEq, Repr

/-- The part of the file system `compile` touches: the destination and its temporary sibling
`<dest>.tmp<pid>` (absent, or a regular file with these bytes). -/
structure Fs where
  dest : Dest
  tmp : Option (List Nat) := none
  deriving DecidableEq, Repr

inductive FsOp where
  | createDest                  -- `File::create(dest)` (truncates)
  | writeDest (bytes : List Nat)
  | flushDest
  | createTmp                   -- `File::create(tmp)`
  | writeTmp (bytes : List Nat)
  | flushTmp
  | rename                      -- `fs::rename(tmp, dest)`
  | removeTmp                   -- `fs::remove_file(tmp)` (result ignored)
  deriving DecidableEq, Repr

/-- `write_all` on a regular file holding `old` under the size limit: all of it, or the part
that fits and a failure. -/
def writeLimited (f : Faults) (old bytes : List Nat) : List Nat × Bool :=
  match f.limit with
  | none => (old ++ bytes, true)
  | some l => if old.length + bytes.length ≤ l then (old ++ bytes, true)
              else ((old ++ bytes).take (max l old.length), false)

/-- File-system semantics assumed. Returns the new state and whether the operation succeeded. -/
def applyOp (f : Faults) (s : Fs) : FsOp → Fs × Bool
  | .createDest => match s.dest with
    | .file _ => ({ s with dest := .file (some []) }, true)
    | .devFull => (s, true)
    | .uncreatable => (s, false)
  | .writeDest bytes => match s.dest with
    | .file (some old) =>
      let (b, ok) := writeLimited f old bytes
      ({ s with dest := .file (some b) }, ok)
    | .file none => (s, false)
    | .devFull => (s, bytes.isEmpty)
    | .uncreatable => (s, false)
  | .flushDest => (s, true)
  | .createTmp => match s.dest with
    | .uncreatable => (s, false)                 -- the directory does not exist / is not writable
    | _ => ({ s with tmp := some [] }, true)
  | .writeTmp bytes => match s.tmp with
    | some old =>
      let (b, ok) := writeLimited f old bytes
      ({ s with tmp := some b }, ok)
    | none => (s, false)
  | .flushTmp => (s, true)
  | .rename => match s.tmp with
    | some b => if f.renameFails then (s, false) else ({ dest := .file (some b), tmp := none }, true)
    | none => (s, false)
  | .removeTmp => ({ s with tmp := none }, true)

/-- Run operations until one fails (`?` / `and_then` chains). -/
def applyOps (f : Faults) (s : Fs) : List FsOp → Fs × Bool
  | [] => (s, true)
  | op :: rest =>
    let (s1, ok) := applyOp f s op
    if ok then applyOps f s1 rest else (s1, false)

/-- `write_all_or_nothing(dest, bytes)` of main.rs: a destination that exists and is not a regular
file (a device) is written in place; otherwise the bytes go to the temporary sibling, which is
renamed over the destination once complete and removed if anything failed. -/
def writeAllOrNothing (f : Faults) (s : Fs) (bytes : List Nat) : Fs × Bool :=
  match s.dest with
  | .devFull => applyOps f s [.createDest, .writeDest bytes, .flushDest]
  | _ =>
    let (s1, ok) := applyOps f s [.createTmp, .writeTmp bytes, .flushTmp, .rename]
    if ok then (s1, true) else ((applyOp f s1 .removeTmp).1, false)

/-- The `Compile` arm: assemble (incl. emission); build the byte buffer; only then touch the file
system. Returns exit status and file-system state. -/
def compileFs (f : Faults) (p : Parsed) (s : Fs) : Nat × Fs :=
  match assembleOk p with
  | none => (1, s)
  | some (orig, words) =>
    let (s1, ok) := writeAllOrNothing f s (objBytes orig words)
    if ok then (0, s1) else (1, s1)

/-- `compile` without injected faults, on the destination alone. -/
def compile (p : Parsed) (d : Dest) : Nat × Dest :=
  let r := compileFs {} p { dest := d }
  (r.1, r.2.dest)

/-- What `compile` did before the fix: create (truncate) the destination and write it in place.
Kept to state the defect (`Props/C08.lean`). -/
def compileInPlace (f : Faults) (p : Parsed) (s : Fs) : Nat × Fs :=
  match assembleOk p with
  | none => (1, s)
  | some (orig, words) =>
    let (s1, ok) := applyOps f s [.createDest, .writeDest (objBytes orig words), .flushDest]
    if ok then (0, s1) else (1, s1)

/-- Whether `lace run` gets past assembling (prints "Running emitted binary"). -/
def runAssembles (p : Parsed) : Bool := (assembleOk p).isSome

end Lace.Cli
