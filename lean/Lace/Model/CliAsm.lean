/-
  Glue between the assembler model and the command-line flows: what `parse` + `backpatch`
  give `main.rs::assemble()` to emit, as the `Parsed` value the CLI model works on.
-/
import Lace.Model.CliFlows
import Lace.Model.Assemble
namespace Lace.Cli
open Lace Lace.Asm

/-- `none` = the assembler panicked (never happens: `Lace.C05.assemble_no_panic`). -/
def parsedOf (flag : Bool) (src : List Char) : Option Parsed :=
  match parse (some flag) [] src with
  | (.panic _, _) => none
  | (.diag _ _, _) => some none
  | (.ok air, tbl) =>
    match backpatchAll tbl air.stmts with
    | none => some none
    | some stmts =>
      some (some (air.orig, stmts.map fun a => match a.emit with
        | .ok w => some w
        | _ => none))

end Lace.Cli
