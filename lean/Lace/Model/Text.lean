/-
  Text primitives for the assembler model.

  Source text is a `List Char`; every position is a UTF-8 *byte* offset (lace's spans are byte
  spans).  This file models the Rust standard-library functions the lexer relies on
  (trusted base): `char::is_ascii_whitespace`, `to_ascii_lowercase`, `char::to_digit`,
  `i16::from_str_radix` / `u16::from_str_radix` (sign handling and the order in which
  `InvalidDigit` and overflow are reported).

  Import-free (core Lean only).
-/
namespace Lace.Asm

/-- Length in UTF-8 bytes (`str::len`). -/
def utf8Len : List Char → Nat
  | [] => 0
  | c :: cs => c.utf8Size + utf8Len cs

/-- `char::to_ascii_lowercase` -/
def asciiLower (c : Char) : Char :=
  if 'A' ≤ c ∧ c ≤ 'Z' then Char.ofNat (c.toNat + 32) else c

/-- `str::to_ascii_lowercase` -/
def lowerAll (cs : List Char) : List Char := cs.map asciiLower

/-- `char::is_ascii_whitespace`: SPACE, TAB, LF, FF, CR. -/
def isAsciiWs (c : Char) : Bool :=
  c == ' ' || c == '\t' || c == '\n' || c == Char.ofNat 12 || c == '\r'

/-- `lexer::is_whitespace`: ASCII white space, comma, colon. -/
def isWs (c : Char) : Bool := isAsciiWs c || c == ',' || c == ':'

def notWs (c : Char) : Bool := !isWs c

/-- `lexer::is_reg_num` -/
def isRegNum (c : Char) : Bool := decide ('0' ≤ c) && decide (c ≤ '7')

/-- `lexer::is_id` -/
def isId (c : Char) : Bool :=
  (decide ('a' ≤ c) && decide (c ≤ 'z')) || (decide ('A' ≤ c) && decide (c ≤ 'Z')) ||
  (decide ('0' ≤ c) && decide (c ≤ '9')) || c == '_'

/-- `std::num::IntErrorKind` (the kinds `from_str_radix` can return). -/
inductive IntErr where
  | empty | invalidDigit | posOverflow | negOverflow
  deriving DecidableEq, Repr

/-- `(byte as char).to_digit(radix)` for `radix ≤ 36`.  Rust looks at *bytes*; the first byte
of a multi-byte character is ≥ 0x80 and never a digit, so on characters the result is the
same: a non-ASCII character is not a digit. -/
def toDigit (radix : Nat) (c : Char) : Option Nat :=
  let v : Option Nat :=
    if '0' ≤ c ∧ c ≤ '9' then some (c.toNat - 48)
    else if 'a' ≤ c ∧ c ≤ 'z' then some (c.toNat - 87)
    else if 'A' ≤ c ∧ c ≤ 'Z' then some (c.toNat - 55)
    else none
  match v with
  | some d => if d < radix then some d else none
  | none => none

/-- The checked digit loop of `from_str_radix`: at each character the digit is validated
*before* the overflow of `result * radix` is reported, and that before the overflow of the
addition/subtraction.  (The unchecked fast path taken for short inputs gives the same results
because it cannot overflow.) -/
def digitsLoop (radix : Nat) (lo hi : Int) (neg : Bool) : List Char → Int → Except IntErr Int
  | [], acc => .ok acc
  | c :: cs, acc =>
    match toDigit radix c with
    | none => .error .invalidDigit
    | some d =>
      let ovf : IntErr := if neg then .negOverflow else .posOverflow
      let m := acc * (radix : Int)
      if m < lo ∨ hi < m then .error ovf
      else
        let r := if neg then m - (d : Int) else m + (d : Int)
        if r < lo ∨ hi < r then .error ovf
        else digitsLoop radix lo hi neg cs r

/-- `i16::from_str_radix` (`signed = true`) / `u16::from_str_radix` (`signed = false`). -/
def fromStrRadix (signed : Bool) (radix : Nat) (s : List Char) : Except IntErr Int :=
  let lo : Int := if signed then -32768 else 0
  let hi : Int := if signed then 32767 else 65535
  match s with
  | [] => .error .empty
  | [c] =>
    if c == '+' || c == '-' then .error .invalidDigit
    else digitsLoop radix lo hi false [c] 0
  | c :: rest =>
    if c == '+' then digitsLoop radix lo hi false rest 0
    else if c == '-' && signed then digitsLoop radix lo hi true rest 0
    else digitsLoop radix lo hi false (c :: rest) 0

end Lace.Asm
