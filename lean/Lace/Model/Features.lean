/-
  MODEL of `impl FromStr for Features` (`src/features.rs`), the parser clap applies to the value
  of `-f` / `--features` (and to the default value, the empty string):

      let mut features = Self::default();
      for word in string.split(',') {
          let value = match word {
              "" => continue,
              "stack" => &mut features.stack,
              _ => return Err(format!("Unknown feature '{}'", word)),
          };
          if *value { return Err(format!("Cannot specify feature '{}' twice", word)); }
          *value = true;
      }
      Ok(features)

  `Features` has the single field `stack`, so a value is a `Bool`.

  Import-free (core Lean only).
-/
namespace Lace.Features

/-- The two `Err(String)` results (the message is determined by the constructor and the word). -/
inductive Err where
  /-- `Unknown feature '<word>'` -/
  | unknown (word : List Char)
  /-- `Cannot specify feature '<word>' twice` -/
  | twice (word : List Char)
  deriving DecidableEq, Repr

/-- `str::split(',')`: the pieces between the commas, in order; never empty (`"".split(',')`
yields one empty piece). -/
def splitComma : List Char → List (List Char)
  | [] => [[]]
  | c :: cs =>
    if c = ',' then [] :: splitComma cs
    else
      match splitComma cs with
      | [] => [[c]]                 -- not reachable: `splitComma` never returns `[]`
      | w :: ws => (c :: w) :: ws

def stackWord : List Char := ['s', 't', 'a', 'c', 'k']

/-- The `for word in …` loop; `st` is `features.stack` so far. -/
def loop : List (List Char) → Bool → Except Err Bool
  | [], st => .ok st
  | w :: ws, st =>
    if w = [] then loop ws st
    else if w = stackWord then (if st then .error (.twice w) else loop ws true)
    else .error (.unknown w)

/-- `Features::from_str` -/
def fromStr (s : List Char) : Except Err Bool := loop (splitComma s) false

/-- `Display for Features` (what clap shows as, and parses back from, the default value). -/
def display (stack : Bool) : List Char := if stack then stackWord else []

end Lace.Features
