/-
  Model of `src/symbol.rs` (and the token types of `src/lexer/mod.rs`): spans, registers,
  instruction / trap / directive kinds, labels, and the thread-local `SYMBOL_TABLE`, which is an
  explicit association list here (argument and result of everything that touches it).

  Import-free (core Lean only).
-/
import Lace.Basic.Machine
import Lace.Model.Text
namespace Lace.Asm

/-- `Span { offs: SrcOffset, len }` — byte offset and byte length. -/
structure Span where
  offs : Nat
  len : Nat
  deriving DecidableEq, Repr, Inhabited

namespace Span
/-- `Span::dummy()` -/
def dummy : Span := ⟨0, 0⟩
/-- `Span::end` -/
def stop (s : Span) : Nat := s.offs + s.len
/-- `Span::join`: `none` is the `end - offs` underflow panic of the dev profile. -/
def join? (a b : Span) : Option Span :=
  let offs := min a.offs b.offs
  let e := max a.stop b.stop
  if e < offs then none else some ⟨offs, e - offs⟩
end Span

/-- `Flag` (branch condition) -/
inductive Flag where
  | n | z | p | nz | zp | np | nzp
  deriving DecidableEq, Repr

/-- `Flag::bits` -/
def Flag.bits : Flag → Word
  | .n => 0b100#16 | .z => 0b010#16 | .p => 0b001#16
  | .nz => 0b110#16 | .zp => 0b011#16 | .np => 0b101#16 | .nzp => 0b111#16

inductive InstrKind where
  | add | and | br (f : Flag) | jmp | jsr | jsrr | ld | ldi | ldr | lea | not | ret | rti
  | st | sti | str | pop | push | call | rets
  deriving DecidableEq, Repr

inductive TrapKind where
  | generic | halt | putsp | in_ | puts | out | getc | putn | reg
  deriving DecidableEq, Repr

inductive DirKind where
  | orig | end_ | stringz | blkw | fill | break_
  deriving DecidableEq, Repr

/-- `LiteralKind`; `Dec(i16)` is kept as its 16-bit pattern. -/
inductive LitKind where
  | hex (v : Word) | dec (v : Word) | str
  deriving DecidableEq, Repr

inductive TokenKind where
  | label
  | instr (k : InstrKind)
  | trap (k : TrapKind)
  | lit (k : LitKind)
  | dir (k : DirKind)
  | reg (r : BitVec 3)
  | byte (v : Word)
  | breakpoint
  | whitespace
  | comment
  | eof
  deriving DecidableEq, Repr

/-- A token.  `text` is the source text under `span` (`&src[span.offs .. span.offs + span.len]`):
the lexer builds a token's span from the cursor positions before and after the characters it
consumed, so the slice Rust takes there *is* the list of consumed characters, by construction.
Tokens made by the preprocessor (`Byte`, `Breakpoint`) have no text of their own. -/
structure Token where
  kind : TokenKind
  span : Span
  text : List Char
  deriving Repr

/-- `Display for TokenKind`, after the fix of D4 (`Byte` and `Breakpoint` used to hit the
`unreachable!` arm): `none` is the remaining `unreachable!` for white space / comment / EOF. -/
def TokenKind.display : TokenKind → Option String
  | .label => some "label"
  | .instr _ => some "instruction"
  | .trap _ => some "trap"
  | .lit _ => some "literal"
  | .dir _ => some "preprocessor directive"
  | .reg _ => some "register"
  | .byte _ => some "data directive"
  | .breakpoint => some "breakpoint directive"
  | .whitespace => none
  | .comment => none
  | .eof => none

/-- The symbol table: label text ↦ 1-based statement number (`FxHashMap<String, u16>`). -/
abbrev SymTab := List (List Char × Nat)

namespace SymTab
/-- `HashMap::get` -/
def get? : SymTab → List Char → Option Nat
  | [], _ => none
  | (k, v) :: rest, key => if k = key then some v else get? rest key

/-- `HashMap::insert`: the value is replaced when the key exists; returns the old value. -/
def insert : SymTab → List Char → Nat → SymTab × Option Nat
  | [], key, v => ([(key, v)], none)
  | (k, old) :: rest, key, v =>
    if k = key then ((k, v) :: rest, some old)
    else
      let (rest', r) := insert rest key v
      ((k, old) :: rest', r)

/-- `reset_state()` -/
def reset (_ : SymTab) : SymTab := []
end SymTab

/-- `Label` -/
inductive Label where
  | ref (line : Nat)
  | unfilled (name : List Char)
  deriving DecidableEq, Repr

namespace Label
/-- `Label::insert`: `false` = "Label exists" (the table has been updated all the same). -/
def insert (tbl : SymTab) (name : List Char) (line : Nat) : SymTab × Bool :=
  match tbl.insert name line with
  | (t, some _) => (t, false)
  | (t, none) => (t, true)

/-- `Label::try_fill` -/
def tryFill (tbl : SymTab) (name : List Char) : Label :=
  match tbl.get? name with
  | some v => .ref v
  | none => .unfilled name

/-- `Label::filled`: `none` = "Label not found". -/
def filled (tbl : SymTab) : Label → Option Label
  | .unfilled name =>
    match tbl.get? name with
    | some v => some (.ref v)
    | none => none
  | .ref v => some (.ref v)
end Label

/-- One constructor per error constructor of `src/error.rs`, plus the span-less `bail!`/`miette!`
errors of `air.rs` / `symbol.rs`. -/
inductive DiagKind where
  | lexDir | lexStr | lexBadLit | lexUnknown | lexStack
  | preprocBadLit | preprocNoStr
  | dupLabel | unexpected | eof | litRange | tooMany
  | origTwice | labelNotFound | offsetTooLarge
  deriving DecidableEq, Repr

def DiagKind.name : DiagKind → String
  | .lexDir => "lexDir" | .lexStr => "lexStr" | .lexBadLit => "lexBadLit"
  | .lexUnknown => "lexUnknown" | .lexStack => "lexStack"
  | .preprocBadLit => "preprocBadLit" | .preprocNoStr => "preprocNoStr"
  | .dupLabel => "dupLabel" | .unexpected => "unexpected" | .eof => "eof"
  | .litRange => "litRange" | .tooMany => "tooMany"
  | .origTwice => "origTwice" | .labelNotFound => "labelNotFound"
  | .offsetTooLarge => "offsetTooLarge"

/-- Result of a fallible stage: a value, a diagnostic (kind and primary label span as byte
offset / byte length, `none` for span-less errors), or a Rust panic at the named site. -/
inductive Res (α : Type) where
  | ok (a : α)
  | diag (k : DiagKind) (span : Option (Nat × Nat))
  | panic (site : String)
  deriving Repr

end Lace.Asm
