/-
  The instruction words the run loop fetches, in order (companion of `Run.fetches`, which lists
  the addresses): the word read at each fetch, *as memory is at that moment* — a program that
  stores an opcode-0xD word and later jumps to it fetches that word.  Used to say "a run never
  executes opcode 0xD" (C18).

  Import-free apart from the run-loop model.
-/
import Lace.Model.Run
namespace Lace.Run
open Lace

/-- Words fetched by `loop so mi n m w`, in order; the last one is the word whose execution
stopped the run, if it was stopped by an instruction. -/
def fetchedWords (so mi : Bool) : Nat → Machine → World → List Word
  | 0, _, _ => []
  | n + 1, m, w =>
    if m.pc == 0xFFFF#16 then []
    else match checkPcBounds m with
      | .lt => []
      | .gt => []
      | .eq =>
        if m.pc.toNat + 1 ≥ 65536 then []
        else
          match VM.execute so mi (m.read m.pc) (m.setPC (m.pc + 1)) w with
          | .ok m' w' => m.read m.pc :: fetchedWords so mi n m' w'
          | _ => [m.read m.pc]

/-- bits [15:12] of an instruction word are 0xD (the opcode of the stack extension) -/
def isOpD (x : Word) : Bool := (x.extractLsb' 12 4).toNat == 13

end Lace.Run
