/-
  MODEL of `write_all_or_nothing` and of the `Compile` arm of `src/main.rs` over a PATH-LEVEL file
  system: directories, symbolic links (relative and absolute targets), hard links (several names
  for one inode), special files, a working directory, and path resolution.

  `Model/CliFlows.lean` knows a destination only as "absent / these bytes / a full device /
  uncreatable"; everything that distinguishes one destination PATH from another is invisible
  there.  Here every file operation of main.rs takes the path text it is given in the Rust code
  and resolves it again, as the system calls do:

    fs::canonicalize(p)      `canonicalize`    all links followed; fails unless everything exists:
                                               NotFound, or another error (ELOOP, ENOTDIR)
    fs::metadata(p)          `metadataIsFile`  follows links
    File::create(p)          `create`          open(O_WRONLY|O_CREAT|O_TRUNC): follows links — through
                                               a dangling link it creates the link's TARGET; a new
                                               file gets a new inode; an existing one is truncated
    OpenOptions…create_new   `createNew`       open(O_WRONLY|O_CREAT|O_EXCL): fails if the name has any
                                               entry (a final link is not followed); new inode
    write_all / flush        `write`           on the open handle (inode), under the size limit
    fs::rename(a, b)         `rename`          final components NOT followed: the entry `b` — a
                                               regular file, a symbolic link, nothing — is replaced
                                               by the entry `a` in one step; may be told to fail
    fs::remove_file(p)       `removeFile`      final component not followed
    p.with_file_name(n)      `withFileName`    textual

  Representation.  A location (`Loc`) is the list of names from the root to an entry, free of
  links.  The entry table maps locations to entries (`mget`/`mset`/`merase`: a finite map, one
  binding per key); the directory `d` "contains" the name `n` iff `d ++ [n]` is bound.  The root
  `[]` is a directory.  A path (`Path`) is what the program passes around: absolute or relative to
  the working directory, a list of names (the text split at `/`).  `walk` resolves it: a relative
  link target is resolved in the directory that holds the LINK; `fuel` bounds the number of links
  followed (Linux: 40), exhaustion is an error (ELOOP).

  Not expressible here (see also `Props/C08Paths.lean`): permissions and ownership (every
  directory is writable, every file openable); `.` and `..` components, empty components,
  trailing slashes; mount points (rename never fails with EXDEV unless told to fail); directories
  as rename sources; a crash between two operations; concurrent processes.
-/
import Lace.Model.CliFlows
namespace Lace.PathFs
open Lace

abbrev Name := String
/-- Names from the root to an entry; no links on the way. -/
abbrev Loc := List Name

/-- A path as the program holds it: `abs` = starts with `/`; `comps` = the text split at `/`. -/
structure Path where
  abs : Bool
  comps : List Name
  deriving DecidableEq, Repr

inductive Entry where
  /-- a regular file: a NAME for inode `ino` (several names may share an inode: hard links) -/
  | file (ino : Nat)
  /-- a symbolic link holding this path text -/
  | link (target : Path)
  /-- a character device that can be opened for writing but accepts no data (`/dev/full`) -/
  | dev
  | dir
  deriving DecidableEq, Repr

def Entry.isFile : Entry → Bool
  | .file _ => true
  | _ => false

/-! ### Finite maps as association lists (one binding per key) -/

def mget {α β} [DecidableEq α] (k : α) : List (α × β) → Option β
  | [] => none
  | (k', v) :: m => if k' = k then some v else mget k m

def merase {α β} [DecidableEq α] (k : α) : List (α × β) → List (α × β)
  | [] => []
  | (k', v) :: m => if k' = k then merase k m else (k', v) :: merase k m

def mset {α β} [DecidableEq α] (k : α) (v : β) (m : List (α × β)) : List (α × β) :=
  (k, v) :: merase k m

abbrev Ents := List (Loc × Entry)

structure Fs where
  /-- the entry table: location ↦ entry -/
  ents : Ents
  /-- the inode table: inode ↦ contents (bytes) -/
  data : List (Nat × List Nat) := []
  /-- the working directory -/
  cwd : Loc := []
  deriving DecidableEq, Repr

/-- The entry at a location. The root is a directory. -/
def entryAt (m : Ents) (l : Loc) : Option Entry :=
  if l = [] then some .dir else mget l m

def contents (fs : Fs) (i : Nat) : List Nat := (mget i fs.data).getD []

/-- The largest inode number any name refers to. -/
def maxIno : Ents → Nat
  | [] => 0
  | (_, .file i) :: m => max i (maxIno m)
  | _ :: m => maxIno m

/-- A new file gets an inode no name refers to. -/
def freshIno (fs : Fs) : Nat := maxIno fs.ents + 1

/-- A location = (the directory holding the entry, the entry's name). -/
def splitLast : Loc → Option (Loc × Name)
  | [] => none
  | [a] => some ([], a)
  | a :: b :: l => (splitLast (b :: l)).map fun dn => (a :: dn.1, dn.2)

/-- The names in directory `d`. -/
def listDir (fs : Fs) (d : Loc) : List Name :=
  fs.ents.filterMap fun ke =>
    match splitLast ke.1 with
    | some (d', n) => if d' = d then some n else none
    | none => none

/-! ### Path resolution -/

/-- Why a resolution failed before its last component. -/
inductive Errno where
  /-- ENOENT: a directory on the way does not exist (`io::ErrorKind::NotFound`) -/
  | noent
  /-- ENOTDIR: a component on the way is a file or a device -/
  | notdir
  /-- ELOOP: more links than may be followed -/
  | loop
  deriving DecidableEq, Repr

inductive Res where
  /-- the path names this existing entry -/
  | found (loc : Loc) (e : Entry)
  /-- everything but the last component exists: directory `dir` has no entry `name` (ENOENT) -/
  | missing (dir : Loc) (name : Name)
  | error (e : Errno)
  deriving DecidableEq, Repr

/-- One pass over the components from directory `cur`; `k` continues after a link has been
replaced by its target text. `followLast = false`: a link in final position is the result
(`lstat`, `rename`, `unlink`); otherwise it is followed (`stat`, `open`). -/
def walkWith (k : Loc → List Name → Res) (m : Ents) (followLast : Bool) : Loc → List Name → Res
  | cur, [] => .found cur .dir
  | cur, n :: rest =>
    match entryAt m (cur ++ [n]) with
    | none => if rest.isEmpty then .missing cur n else .error .noent
    | some .dir => walkWith k m followLast (cur ++ [n]) rest
    | some (.link t) =>
      if rest.isEmpty && !followLast then .found (cur ++ [n]) (.link t)
      -- a relative target is resolved in the directory that holds the link
      else k (if t.abs then [] else cur) (t.comps ++ rest)
    | some e => if rest.isEmpty then .found (cur ++ [n]) e else .error .notdir

/-- Resolution that may follow `fuel` links. -/
def walk (m : Ents) (followLast : Bool) : Nat → Loc → List Name → Res
  | 0 => walkWith (fun _ _ => .error .loop) m followLast
  | fuel + 1 => walkWith (walk m followLast fuel) m followLast

def startOf (fs : Fs) (p : Path) : Loc := if p.abs then [] else fs.cwd

def resolve (fs : Fs) (followLast : Bool) (fuel : Nat) (p : Path) : Res :=
  walk fs.ents followLast fuel (startOf fs p) p.comps

/-! ### The operations main.rs uses -/

/-- Result of `fs::canonicalize`, as far as main.rs distinguishes. -/
inductive Canon where
  | ok (p : Path)
  /-- `Err(e)` with `e.kind() == ErrorKind::NotFound` -/
  | notFound
  /-- any other `Err` (too many levels of symbolic links, not a directory) -/
  | otherError
  deriving DecidableEq, Repr

/-- `fs::canonicalize`: the absolute link-free path of an existing entry. -/
def canonicalize (fs : Fs) (fuel : Nat) (p : Path) : Canon :=
  match resolve fs true fuel p with
  | .found loc _ => .ok ⟨true, loc⟩
  | .missing _ _ => .notFound
  | .error .noent => .notFound
  | .error _ => .otherError

/-- `fs::metadata(p)` then `.is_file()`; `none` = `Err`. -/
def metadataIsFile (fs : Fs) (fuel : Nat) (p : Path) : Option Bool :=
  match resolve fs true fuel p with
  | .found _ (.file _) => some true
  | .found _ _ => some false
  | _ => none

/-- An open file. -/
inductive Handle where
  | ino (i : Nat)
  | dev
  deriving DecidableEq, Repr

/-- `File::create(p)`. -/
def create (fs : Fs) (fuel : Nat) (p : Path) : Fs × Option Handle :=
  match resolve fs true fuel p with
  | .found _ (.file i) => ({ fs with data := mset i [] fs.data }, some (.ino i))
  | .found _ .dev => (fs, some .dev)
  | .found _ _ => (fs, none)                          -- a directory (EISDIR)
  | .missing d n =>
    let i := freshIno fs
    ({ fs with ents := mset (d ++ [n]) (.file i) fs.ents, data := mset i [] fs.data }, some (.ino i))
  | .error _ => (fs, none)

/-- `OpenOptions::new().write(true).create_new(true).open(p)`: open(O_WRONLY|O_CREAT|O_EXCL). Fails
(EEXIST) if the name has ANY entry — a link in final position is not followed, dangling or not. -/
def createNew (fs : Fs) (fuel : Nat) (p : Path) : Fs × Option Handle :=
  match resolve fs false fuel p with
  | .missing d n =>
    let i := freshIno fs
    ({ fs with ents := mset (d ++ [n]) (.file i) fs.ents, data := mset i [] fs.data }, some (.ino i))
  | _ => (fs, none)

/-- `write_all` (`flush` does nothing on a `File`): a regular file under the size limit (all of
it, or the part that fits and a failure — `Cli.writeLimited`); the device accepts nothing. -/
def write (f : Cli.Faults) (fs : Fs) (h : Handle) (bytes : List Nat) : Fs × Bool :=
  match h with
  | .ino i =>
    let r := Cli.writeLimited f (contents fs i) bytes
    ({ fs with data := mset i r.1 fs.data }, r.2)
  | .dev => (fs, bytes.isEmpty)

/-- Where `rename` puts the source entry: the destination's own location (final link not followed). -/
def renameTarget (fs : Fs) (fuel : Nat) (p : Path) : Option Loc :=
  match resolve fs false fuel p with
  | .found _ .dir => none                             -- EISDIR
  | .found l _ => some l
  | .missing d n => some (d ++ [n])
  | .error _ => none

/-- `fs::rename(src, dst)` for a source that is not a directory. Atomic: the destination entry
is the old one or the new one. -/
def rename (f : Cli.Faults) (fs : Fs) (fuel : Nat) (src dst : Path) : Fs × Bool :=
  match resolve fs false fuel src with
  | .found ls es =>
    if es = .dir then (fs, false) else
    match renameTarget fs fuel dst with
    | none => (fs, false)
    | some ld =>
      if f.renameFails then (fs, false)
      -- two names of one file: nothing happens, both stay (POSIX)
      else if ls = ld ∨ (entryAt fs.ents ld = some es ∧ es.isFile = true) then (fs, true)
      else ({ fs with ents := mset ld es (merase ls fs.ents) }, true)
  | _ => (fs, false)

/-- `fs::remove_file(p)`. -/
def removeFile (fs : Fs) (fuel : Nat) (p : Path) : Fs × Bool :=
  match resolve fs false fuel p with
  | .found _ .dir => (fs, false)
  | .found l _ => ({ fs with ents := merase l fs.ents }, true)
  | _ => (fs, false)

/-- `Path::with_file_name`. -/
def withFileName (p : Path) (n : Name) : Path := ⟨p.abs, p.comps.dropLast ++ [n]⟩

/-- `format!(".lace-tmp{}", std::process::id())` -/
def tmpName (pid : Nat) : Name := ".lace-tmp" ++ toString pid

/-! ### `write_all_or_nothing` and the `Compile` arm -/

/-- The inner `fn write(path, bytes)`: `File::create(path)?; file.write_all(bytes)?; file.flush()`. -/
def writeFile (f : Cli.Faults) (fs : Fs) (fuel : Nat) (p : Path) (bytes : List Nat) : Fs × Bool :=
  match create fs fuel p with
  | (fs1, none) => (fs1, false)
  | (fs1, some h) => write f fs1 h bytes

/-- From the creation of the temporary file to the end of `write_all_or_nothing`:
```
let mut file = fs::OpenOptions::new().write(true).create_new(true).open(&tmp)?;
let result = file.write_all(bytes).and_then(|()| file.flush()).and_then(|()| fs::rename(&tmp, &dest));
if result.is_err() { let _ = fs::remove_file(&tmp); }
result
``` -/
def replaceVia (f : Cli.Faults) (fuel : Nat) (fs : Fs) (tmp dest : Path) (bytes : List Nat) : Fs × Bool :=
  match createNew fs fuel tmp with
  | (fs1, none) => (fs1, false)           -- `?`: nothing has been created, nothing is removed
  | (fs1, some h) =>
    let r1 := write f fs1 h bytes
    let r2 := if r1.2 then rename f r1.1 fuel tmp dest else (r1.1, false)
    if r2.2 then (r2.1, true) else ((removeFile r2.1 fuel tmp).1, false)

/-- `write_all_or_nothing(dest, bytes)`, line by line. -/
def writeAllOrNothingP (f : Cli.Faults) (fuel pid : Nat) (fs : Fs) (dest : Path) (bytes : List Nat) :
    Fs × Bool :=
  -- let dest = match fs::canonicalize(dest) { Ok(resolved) => resolved,
  --   Err(err) if err.kind() == NotFound => dest.to_path_buf(), Err(err) => return Err(err) };
  match canonicalize fs fuel dest with
  | .otherError => (fs, false)
  | c =>
    let dest := match c with | .ok resolved => resolved | _ => dest
    -- if fs::metadata(&dest).is_ok_and(|meta| !meta.is_file()) { return write(&dest, bytes); }
    if metadataIsFile fs fuel dest = some false then writeFile f fs fuel dest bytes
    -- let tmp = dest.with_file_name(format!(".lace-tmp{}", std::process::id()));
    else replaceVia f fuel fs (withFileName dest (tmpName pid)) dest bytes

/-- The `Compile` arm on the path-level file system: assemble and emit everything first, then
`write_all_or_nothing`. Returns exit status and file system. -/
def compileP (f : Cli.Faults) (fuel pid : Nat) (p : Cli.Parsed) (fs : Fs) (dest : Path) : Nat × Fs :=
  match Cli.assembleOk p with
  | none => (1, fs)
  | some (orig, words) =>
    let r := writeAllOrNothingP f fuel pid fs dest (Cli.objBytes orig words)
    if r.2 then (0, r.1) else (1, r.1)

/-! ### `write_all_or_nothing` before the fixes cb35643 / 2214b6f

Kept to state the two defects the model exposed (`Props/C08Paths.lean`, `…_before_fix`): the
temporary file was opened with `File::create` (follows links, truncates), and ANY failure of
`canonicalize` made the path as given the destination. -/

def replaceViaBeforeFix (f : Cli.Faults) (fuel : Nat) (fs : Fs) (tmp dest : Path) (bytes : List Nat) : Fs × Bool :=
  let r1 := writeFile f fs fuel tmp bytes
  let r2 := if r1.2 then rename f r1.1 fuel tmp dest else (r1.1, false)
  if r2.2 then (r2.1, true) else ((removeFile r2.1 fuel tmp).1, false)

def writeAllOrNothingBeforeFix (f : Cli.Faults) (fuel pid : Nat) (fs : Fs) (dest : Path) (bytes : List Nat) :
    Fs × Bool :=
  -- let dest = fs::canonicalize(dest).unwrap_or(dest.to_path_buf());
  let dest := match canonicalize fs fuel dest with | .ok resolved => resolved | _ => dest
  if metadataIsFile fs fuel dest = some false then writeFile f fs fuel dest bytes
  else replaceViaBeforeFix f fuel fs (withFileName dest (tmpName pid)) dest bytes

def compilePBeforeFix (f : Cli.Faults) (fuel pid : Nat) (p : Cli.Parsed) (fs : Fs) (dest : Path) : Nat × Fs :=
  match Cli.assembleOk p with
  | none => (1, fs)
  | some (orig, words) =>
    let r := writeAllOrNothingBeforeFix f fuel pid fs dest (Cli.objBytes orig words)
    if r.2 then (0, r.1) else (1, r.1)

/-! ### Observations -/

/-- What reading through a path gives. -/
inductive Read where
  | bytes (b : List Nat)
  | dev
  | dir
  /-- no such file (also: a dangling or looping link, a missing directory) -/
  | absent
  deriving DecidableEq, Repr

def readPath (fs : Fs) (fuel : Nat) (p : Path) : Read :=
  match resolve fs true fuel p with
  | .found _ (.file i) => .bytes (contents fs i)
  | .found _ .dev => .dev
  | .found _ .dir => .dir
  | _ => .absent

/-- The location at which `compile` delivers the object file: where the path leads with all links
followed if that exists, else the location of the path's own last component. -/
def destLoc (fs : Fs) (fuel : Nat) (p : Path) : Option Loc :=
  match resolve fs true fuel p with
  | .found loc _ => some loc
  | _ => renameTarget fs fuel p

end Lace.PathFs
