/-
  Model of `src/air.rs`: AIR statements, `Air::{set_orig, add_stmt, backpatch}`,
  `AsmLine::{backpatch, emit, bit_offs}`, `ImmediateOrReg::bits`, and
  `Breakpoints::insert` (from `src/debugger/breakpoint.rs`, used by the parser for `.break`).

  Line numbers (`u16` in Rust) are natural numbers `< 65536`; wrapping / truncating operations are
  written with `% 65536`, checked ones are explicit.

  Import-free (core Lean only).
-/
import Lace.Model.Symbol
namespace Lace.Asm

/-- `ImmediateOrReg` -/
inductive ImmOrReg where
  | reg (r : BitVec 3)
  | imm5 (v : BitVec 8)
  deriving DecidableEq, Repr

/-- `ImmediateOrReg::bits` -/
def ImmOrReg.bits : ImmOrReg → Word
  | .reg r => r.setWidth 16
  | .imm5 v => (v.setWidth 16 &&& 0b11111#16) ||| 0b100000#16

/-- `AirStmt` -/
inductive Stmt where
  | add (dest src : BitVec 3) (x : ImmOrReg)
  | and (dest src : BitVec 3) (x : ImmOrReg)
  | branch (f : Flag) (l : Label)
  | jump (src : BitVec 3)
  | jumpSub (l : Label)
  | jumpSubReg (src : BitVec 3)
  | load (dest : BitVec 3) (l : Label)
  | loadInd (dest : BitVec 3) (l : Label)
  | loadOffs (dest src : BitVec 3) (off : BitVec 8)
  | loadEAddr (dest : BitVec 3) (l : Label)
  | not (dest src : BitVec 3)
  | ret
  | interrupt
  | store (src : BitVec 3) (l : Label)
  | storeInd (src : BitVec 3) (l : Label)
  | storeOffs (src dest : BitVec 3) (off : BitVec 8)
  | push (src : BitVec 3)
  | pop (dest : BitVec 3)
  | call (l : Label)
  | rets
  | rawWord (v : Word)
  | trap (v : BitVec 8)
  deriving DecidableEq, Repr

/-- `AsmLine` -/
structure AsmLine where
  line : Nat
  stmt : Stmt
  span : Span
  deriving Repr

/-- The label operand of a statement, if it has one (the `match` of `AsmLine::backpatch`). -/
def Stmt.label? : Stmt → Option Label
  | .branch _ l => some l
  | .jumpSub l => some l
  | .load _ l => some l
  | .loadInd _ l => some l
  | .loadEAddr _ l => some l
  | .store _ l => some l
  | .storeInd _ l => some l
  | .call l => some l
  | _ => none

def Stmt.setLabel (s : Stmt) (l : Label) : Stmt :=
  match s with
  | .branch f _ => .branch f l
  | .jumpSub _ => .jumpSub l
  | .load d _ => .load d l
  | .loadInd d _ => .loadInd d l
  | .loadEAddr d _ => .loadEAddr d l
  | .store r _ => .store r l
  | .storeInd r _ => .storeInd r l
  | .call _ => .call l
  | s => s

/-- `AsmLine::backpatch`: `none` = "Label not found". -/
def AsmLine.backpatch (tbl : SymTab) (a : AsmLine) : Option AsmLine :=
  match a.stmt.label? with
  | none => some a
  | some l =>
    match l.filled tbl with
    | some l' => some { a with stmt := a.stmt.setLabel l' }
    | none => none

/-- `Air::backpatch`: stops at the first statement whose label is not defined. -/
def backpatchAll (tbl : SymTab) : List AsmLine → Option (List AsmLine)
  | [] => some []
  | a :: rest =>
    match a.backpatch tbl with
    | none => none
    | some a' =>
      match backpatchAll tbl rest with
      | none => none
      | some rest' => some (a' :: rest')

/-- `AsmLine::bit_offs`, after the fix of D6: the difference `label_pos - line` wraps modulo 2^16
(`overflowing_sub`, as before) and is read as `i16`; the `- 1`, the `abs()` and the comparison
are done in `i32` and cannot overflow.  (The original did them in `i16`: distance 0x8000 /
0x8001 panicked.) -/
def bitOffs (line : Nat) (l : Label) (bits : Nat) : Res Word :=
  match l with
  | .unfilled _ => .panic "bit_offs: tried to offset unfilled label"
  | .ref labelPos =>
    let d : Word := BitVec.ofNat 16 labelPos - BitVec.ofNat 16 line
    let offset : Int := d.toInt - 1
    let lim : Int := (2 : Int) ^ (bits - 1) - (if offset > 0 then 1 else 0)
    if offset.natAbs > lim then .diag .offsetTooLarge none
    else .ok (BitVec.ofInt 16 offset &&& BitVec.ofNat 16 (2 ^ bits - 1))

def regBits (r : BitVec 3) (sh : Nat) : Word := r.setWidth 16 <<< sh

def withOffs (raw : Word) (line : Nat) (l : Label) (bits : Nat) : Res Word :=
  match bitOffs line l bits with
  | .ok o => .ok (raw ||| o)
  | .diag k s => .diag k s
  | .panic s => .panic s

/-- `AsmLine::emit`.  LDR/STR mask their offset with `0x3F` (fix of D1; the original OR-ed the
whole `u8`, so a negative offset spilled into the base-register field). -/
def AsmLine.emit (a : AsmLine) : Res Word :=
  match a.stmt with
  | .add d s x => .ok (0x1000#16 ||| regBits d 9 ||| regBits s 6 ||| x.bits)
  | .and d s x => .ok (0x5000#16 ||| regBits d 9 ||| regBits s 6 ||| x.bits)
  | .branch f l => withOffs (0x0000#16 ||| (f.bits <<< 9)) a.line l 9
  | .jump s => .ok (0xC000#16 ||| regBits s 6)
  | .jumpSub l => withOffs 0x4800#16 a.line l 11
  | .jumpSubReg s => .ok (0x4000#16 ||| regBits s 6)
  | .load d l => withOffs (0x2000#16 ||| regBits d 9) a.line l 9
  | .loadInd d l => withOffs (0xA000#16 ||| regBits d 9) a.line l 9
  | .loadOffs d s off =>
    .ok (0x6000#16 ||| regBits d 9 ||| regBits s 6 ||| (off.setWidth 16 &&& 0x3F#16))
  | .loadEAddr d l => withOffs (0xE000#16 ||| regBits d 9) a.line l 9
  | .not d s => .ok (0x9000#16 ||| regBits d 9 ||| regBits s 6 ||| 0b111111#16)
  | .ret => .ok 0xC1C0#16
  | .interrupt => .ok 0x8000#16
  | .store s l => withOffs (0x3000#16 ||| regBits s 9) a.line l 9
  | .storeInd s l => withOffs (0xB000#16 ||| regBits s 9) a.line l 9
  | .storeOffs s d off =>
    .ok (0x7000#16 ||| regBits s 9 ||| regBits d 6 ||| (off.setWidth 16 &&& 0x3F#16))
  | .push s => .ok (0xD000#16 ||| 0x0400#16 ||| regBits s 6)
  | .pop d => .ok (0xD000#16 ||| regBits d 6)
  | .call l => withOffs (0xD000#16 ||| 0x0C00#16) a.line l 10
  | .rets => .ok (0xD000#16 ||| 0x0800#16)
  | .rawWord v => .ok v
  | .trap v => .ok (0xF000#16 ||| v.setWidth 16)

/-- Emit every statement in order, stopping at the first error (what `lace compile` / `run`
do).  Accumulates in reverse. -/
def emitAll : List AsmLine → List Word → Res (List Word)
  | [], acc => .ok acc.reverse
  | a :: rest, acc =>
    match a.emit with
    | .ok w => emitAll rest (w :: acc)
    | .diag k s => .diag k s
    | .panic s => .panic s

/-- `Breakpoints::insert`: sorted by address, no duplicates. -/
def bpInsert : List Nat → Nat → List Nat
  | [], a => [a]
  | b :: rest, a =>
    if b = a then b :: rest
    else if b ≥ a then a :: b :: rest
    else b :: bpInsert rest a

end Lace.Asm
