/-
  MODEL of `lace check|compile|run <file>.asm [-f <value> | --features <value>]` as far as C18
  observes them (`src/main.rs`): clap applies `Features::from_str` to the option's value (to the
  rendered default, the empty string, when the option is absent) and exits with status 2 and
  nothing on stdout if that fails; otherwise `features::init(value)` and the command's arm.

  Observables: exit status, stdout, the bytes of the destination after `compile`, and whether the
  text on stderr names the feature (`stack`): it does for the assembler's
  `lex::stack_extension_not_enabled` diagnostic and for the run-time gate's message
  ("Run with `-f stack` to enable stack extension feature").
-/
import Lace.Model.Features
import Lace.Model.CliAsm
import Lace.Model.RunTrace
namespace Lace.Cli
open Lace Lace.Asm

/-- How the option was given on the command line. -/
inductive FlagArg where
  | absent
  | given (value : List Char)

/-- clap: the value parser on the given value, or on `Display` of `Features::default()`. -/
def featuresOf : FlagArg → Except Features.Err Bool
  | .absent => Features.fromStr (Features.display false)
  | .given v => Features.fromStr v

/-- The option can be written before the subcommand (`lace -f stack run x.asm`: the top-level
`run_options` of `Args`) and after it (the subcommand's own `run_options`); each occurrence goes
through the value parser, and — after the fix that stopped the top-level one from being silently
dropped when a subcommand follows — `main` initialises the features with their union
(`features.union(global_features)`). -/
def featuresOf2 (global loc : FlagArg) : Except Features.Err Bool :=
  match featuresOf global, featuresOf loc with
  | .ok g, .ok l => .ok (l || g)
  | .error e, _ => .error e
  | _, .error e => .error e

inductive FlagCmd where
  | check | compile | run

structure FlagObs where
  status : Nat
  out : List Char
  /-- `compile` only: the destination afterwards (`none` = does not exist) -/
  image : Option (List Nat)
  /-- stderr names the stack feature -/
  named : Bool

inductive FlagProc where
  | finished (o : FlagObs)
  | panic (site : String)
  | fuel

/-- The console as it is when `run()` of main.rs enters the run loop: the two status lines. -/
def runWorld (name : List Char) (inp : List Nat) : World :=
  withOut (withOut { inp := inp, outRev := [] } (message "Assembling".toList ("target ".toList ++ name)))
    (message "Running".toList "emitted binary".toList)

def lastIsOpD : List Word → Bool
  | [] => false
  | [x] => Run.isOpD x
  | _ :: xs => lastIsOpD xs

/-- One `lace` process on the source `src` stored as `name`, the option given before (`global`)
and / or after (`loc`) the subcommand; `compile` writes to `dest` (absent
before); `run` is given `--minimal` and `inp` on stdin. -/
def laceFlag (cmd : FlagCmd) (global loc : FlagArg) (fuel : Nat) (name dest : List Char) (src : List Char)
    (inp : List Nat) : FlagProc :=
  match featuresOf2 global loc with
  | .error _ => .finished { status := 2, out := [], image := none, named := false }
  | .ok flag =>
    let target (n : List Char) := "target ".toList ++ n
    match cmd with
    | .check =>
      let out0 := message "Checking".toList (target name)
      match (assemble flag [] src).1 with
      | .panic s => .panic s
      | .diag k _ => .finished { status := 1, out := out0, image := none, named := k == .lexStack }
      | .ok _ =>
        .finished { status := 0, out := out0 ++ message "Success".toList "no errors found!".toList,
                    image := none, named := false }
    | .compile =>
      let out0 := message "Assembling".toList (target name)
      match (assemble flag [] src).1 with
      | .panic s => .panic s
      | .diag k _ => .finished { status := 1, out := out0, image := none, named := k == .lexStack }
      | .ok img =>
        .finished { status := 0,
                    out := out0 ++ message "Finished".toList "emit binary".toList ++
                      message "Saved".toList (target dest),
                    image := some (objBytes img.orig img.words), named := false }
    | .run =>
      let out0 := message "Assembling".toList (target name)
      match (assemble flag [] src).1 with
      | .panic s => .panic s
      | .diag k _ => .finished { status := 1, out := out0, image := none, named := k == .lexStack }
      | .ok img =>
        match runAssembled flag true fuel name img.orig img.words inp with
        | .panic s => .panic s
        | .fuel => .fuel
        | .finished r =>
          -- exit status 1 at run time: the opcode-0xD gate (names the feature) or GETC/IN at the
          -- end of input (does not)
          let gate : Bool :=
            match Run.fromRaw (img.orig.getD 0x3000#16 :: img.words) with
            | .ok m => !flag && lastIsOpD (Run.fetchedWords flag true fuel m (runWorld name inp))
            | _ => false
          .finished { status := r.status, out := r.out, image := none, named := r.status == 1 && gate }

/-- One `lace run <name>.lc3 --minimal` process on an OBJECT file with these bytes, the option given
before and / or after the subcommand: the features are initialised from the option exactly as for a
source (`main` does it before the command's arm is entered), then the loader and the run loop. -/
def laceFlagObj (global loc : FlagArg) (fuel : Nat) (name : List Char) (bytes : List Nat) (inp : List Nat) :
    FlagProc :=
  match featuresOf2 global loc with
  | .error _ => .finished { status := 2, out := [], image := none, named := false }
  | .ok flag =>
    match runObjFile flag true fuel name bytes inp with
    | .panic s => .panic s
    | .fuel => .fuel
    | .finished r =>
      -- exit status 1: a file of odd length ("not aligned", does not name the feature), the
      -- opcode-0xD gate (names it), GETC/IN at the end of input (does not)
      let gate : Bool :=
        bytes.length % 2 == 0 &&
        match Run.fromRaw (wordsOfBytes bytes) with
        | .ok m => !flag && lastIsOpD (Run.fetchedWords flag true fuel m (runWorld name inp))
        | _ => false
      .finished { status := r.status, out := r.out, image := none, named := r.status == 1 && gate }

end Lace.Cli
