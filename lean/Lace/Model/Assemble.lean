/-
  Top-level entry of the assembler model: what `lace compile` / `lace run` do with a source text,

      AsmParser::new(src)?.parse()? ;  air.backpatch()? ;  stmt.emit()? for every statement

  with the thread-local symbol table as an explicit argument and result (it is returned also when
  assembling fails: that is the table "left behind").

  Import-free (core Lean only).
-/
import Lace.Model.Parser
namespace Lace.Asm

/-- A successfully assembled program. -/
structure Image where
  /-- `Air::orig()` (`none` means the default 0x3000) -/
  orig : Option Word
  /-- the emitted words, one per statement -/
  words : List Word
  /-- per statement: span (byte offset, byte length) of its source text -/
  spans : List (Nat × Nat)
  /-- `.break` addresses relative to 0 (as `parse` produces them, before `with_orig`) -/
  bps : List Nat
  deriving Repr, DecidableEq

/-- Observable outcome of assembling one source text. -/
inductive Outcome where
  | ok (img : Image)
  | diag (k : DiagKind) (span : Option (Nat × Nat))
  | panic (site : String)
  deriving Repr, DecidableEq

/-- `parse` → `backpatch` → `emit`* with an arbitrary feature state (`none` = not initialised). -/
def assembleWith (feat : Option Bool) (tbl : SymTab) (src : List Char) : Outcome × SymTab :=
  match parse feat tbl src with
  | (.diag k s, tbl') => (.diag k s, tbl')
  | (.panic s, tbl') => (.panic s, tbl')
  | (.ok air, tbl') =>
    match backpatchAll tbl' air.stmts with
    | none => (.diag .labelNotFound none, tbl')
    | some stmts =>
      match emitAll stmts [] with
      | .diag k s => (.diag k s, tbl')
      | .panic s => (.panic s, tbl')
      | .ok words =>
        (.ok { orig := air.orig, words := words,
               spans := stmts.map (fun a => (a.span.offs, a.span.len)), bps := air.bps }, tbl')

/-- The assembler with the stack feature on / off. -/
def assemble (stackFeature : Bool) (tbl : SymTab) (src : List Char) : Outcome × SymTab :=
  assembleWith (some stackFeature) tbl src

/-- A process that assembles the sources in order on one thread; `doReset` = it calls
`reset_state()` before each (what `lace watch` does between re-checks). -/
def runSeq (flag : Bool) (doReset : Bool) : SymTab → List (List Char) → List Outcome
  | _, [] => []
  | tbl, src :: rest =>
    let r := assemble flag (if doReset then SymTab.reset tbl else tbl) src
    r.1 :: runSeq flag doReset r.2 rest

/-- What one re-check of `lace watch` reports (or that the watcher is gone). -/
inductive WatchVerdict where
  | ok | diag | panic
  /-- the file could not be read as text (`fs::read_to_string` failed): the watcher prints the
  error and exits -/
  | exited
  /-- no re-check: the watcher has exited before this version was saved -/
  | none
  deriving DecidableEq, Repr

def WatchVerdict.ofOutcome : Outcome → WatchVerdict
  | .ok _ => .ok
  | .diag _ _ => .diag
  | .panic _ => .panic

/-- The `watch` arm of main.rs over the successive versions of the watched file (`none` = a version
that is not valid UTF-8): read, assemble, `reset_state()`, again — until a version cannot be read,
which ends the process. -/
def watchSession (flag : Bool) : SymTab → List (Option (List Char)) → List WatchVerdict
  | _, [] => []
  | _, none :: rest => .exited :: rest.map fun _ => .none
  | tbl, some src :: rest =>
    let r := assemble flag tbl src
    .ofOutcome r.1 :: watchSession flag (SymTab.reset r.2) rest

/-- What a fresh `lace check` says about a version. -/
def checkVerdict (flag : Bool) : Option (List Char) → WatchVerdict
  | none => .diag
  | some src => .ofOutcome (assemble flag [] src).1

end Lace.Asm
