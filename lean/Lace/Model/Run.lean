/-
  MODEL of `RunEnvironment::from_raw` and of `RunEnvironment::run` without a debugger
  (`src/runtime.rs`), plus the `.lc3`/`.obj` branch of `run()` in `src/main.rs`.
-/
import Lace.Model.VM
namespace Lace.Run
open Lace

inductive LoadResult where
  | ok (m : Machine)
  /-- `exception!` → `std::process::exit(0xEE)` -/
  | exit (code : Nat)
  | panic (site : String)

/-- `mem[orig..orig + raw.len()].clone_from_slice(&raw)` -/
def copyWords : List Word → Nat → Vector Word 65536 → Vector Word 65536
  | [], _, mem => mem
  | x :: xs, i, mem => copyWords xs (i + 1) (if h : i < 65536 then mem.set i x h else mem)

/-- `RunEnvironment::from_raw(raw: &[u16])` -/
def fromRaw (raw : List Word) : LoadResult :=
  match raw with
  | [] => .exit 0xEE                                  -- "provided file is empty"
  | o :: rest =>
    let orig := o.toNat
    if orig + raw.length > 65536 then .exit 0xEE      -- "too long and cannot fit in memory"
    else
      let mem := Vector.replicate 65536 0#16
      let mem := copyWords rest orig mem
      -- `mem[orig + raw.len()] = 0xF025` (index < 0x10000 by the test above)
      if h : orig + rest.length < 65536 then
        let mem := mem.set (orig + rest.length) 0xF025#16 h
        .ok { mem := mem,
              reg := #v[0, 0, 0, 0, 0, 0, 0, 0xFE00#16 - 1],
              pc := BitVec.ofNat 16 orig,
              cc := .none,
              orig := BitVec.ofNat 16 orig }
      else .panic "from_raw: index out of bounds"

inductive RunResult where
  | done (m : Machine) (w : World)          -- `break` (PC == u16::MAX), `run` returns
  | exit (code : Nat) (m : Machine) (w : World)
  | panic (site : String)
  | fuel (m : Machine) (w : World)

/-- `RunState::check_pc_bounds` -/
def checkPcBounds (m : Machine) : Ordering :=
  if m.pc < m.orig then .lt
  else if m.pc ≥ 0xFE00#16 then .gt
  else .eq

/-- `RunEnvironment::run` with `self.debugger == None`; one `n` per loop iteration. -/
def loop (so mi : Bool) : Nat → Machine → World → RunResult
  | 0, m, w => .fuel m w
  | n + 1, m, w =>
    if m.pc == 0xFFFF#16 then .done m w
    else match checkPcBounds m with
      | .lt => .exit 0xEE m w
      | .gt => .exit 0xEE m w
      | .eq =>
        let instr := m.read m.pc
        -- `self.state.pc += 1` (checked in the dev profile)
        if m.pc.toNat + 1 ≥ 65536 then .panic "pc += 1 overflow"
        else
          let m1 := m.setPC (m.pc + 1)
          match VM.execute so mi instr m1 w with
          | .ok m' w' => loop so mi n m' w'
          | .exit c w' => .exit c m1 w'
          | .panic s => .panic s

/-- Addresses from which `loop` fetches an instruction, in order. -/
def fetches (so mi : Bool) : Nat → Machine → World → List Word
  | 0, _, _ => []
  | n + 1, m, w =>
    if m.pc == 0xFFFF#16 then []
    else match checkPcBounds m with
      | .lt => []
      | .gt => []
      | .eq =>
        if m.pc.toNat + 1 ≥ 65536 then []
        else
          match VM.execute so mi (m.read m.pc) (m.setPC (m.pc + 1)) w with
          | .ok m' w' => m.pc :: fetches so mi n m' w'
          | _ => [m.pc]

end Lace.Run
