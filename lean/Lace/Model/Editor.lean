/-
  Model of the interactive line editor of the debugger
  (`src/debugger/command/reader/terminal.rs`, `Key` from `src/term.rs`), function by function,
  as the code stands after the fixes of property C20 (see KNOWN_FINDINGS.json):

  * `find_word_next` counts characters (`chars().enumerate()`), D22;
  * `find_word_next` leaves its outer loop after a run of spaces that reaches the end of the line;
  * Backspace / Delete call `update_next` only when they delete something.

  Conventions: text is `List Char`; where the Rust code uses *byte* indices (`count_chars_bytes`,
  `String::insert`, `String::remove`, `get_next_command`) the model uses byte indices
  (`Char.utf8Size`).  Every panic site (`assert!`, `debug_assert!`, `expect`, `unwrap`,
  `String::insert/remove` off a char boundary, string slicing off a char boundary) is the explicit
  outcome `Res.panic site`.  `usize` overflow of `visible_cursor += 1` is not modelled (it needs
  a line of 2^64 characters).  `char::is_whitespace` / `char::is_alphanumeric` are a parameter
  `cls : Char → CharClass` (`str::trim` uses `char::is_whitespace` too).

  Not modelled: drawing (`print_prompt`, the `println!()`s), raw mode, key decoding, the history
  *file* (`TerminalHistory::push` also appends the line to it).

  Core Lean only (no Mathlib): linked into the `lacemodel` driver.
-/
import Lace.Basic.Keys
namespace Lace.Editor

/-- Outcome of a modelled Rust function: a value, or a panic at a named site. -/
inductive Res (α : Type) where
  | ok (a : α)
  | panic (site : String)
  deriving Repr, DecidableEq

namespace Res
@[inline] def bind {α β : Type} (x : Res α) (f : α → Res β) : Res β :=
  match x with
  | .ok a => f a
  | .panic s => .panic s

instance : Monad Res where
  pure := .ok
  bind := Res.bind

/-- The outcome is a value (no panic). -/
def isOk {α : Type} : Res α → Bool
  | .ok _ => true
  | .panic _ => false
end Res

/-- `str::len()`: number of UTF-8 bytes. -/
def utf8Len : List Char → Nat
  | [] => 0
  | c :: cs => c.utf8Size + utf8Len cs

/-! ### `count_chars_bytes`, `insert_char_index`, `remove_char_index` -/

/-- Body of the loop `for (i, (j, _)) in string.char_indices().enumerate()` of
`count_chars_bytes`: `i` character index, `j` byte offset, `bi`/`cc` the two accumulators. -/
def countCharsBytesGo (charIndex : Nat) : List Char → Nat → Nat → Nat → Nat → Nat × Nat
  | [], _, _, bi, cc => (bi, cc)
  | ch :: rest, i, j, bi, cc =>
    countCharsBytesGo charIndex rest (i + 1) (j + ch.utf8Size) (if i = charIndex then j else bi) (cc + 1)

/-- `count_chars_bytes(string, char_index) -> (byte_index, char_count)` -/
def countCharsBytes (s : List Char) (charIndex : Nat) : Nat × Nat :=
  countCharsBytesGo charIndex s 0 0 (utf8Len s) 0

/-- `String::insert(idx, ch)`: `none` = `assert!(self.is_char_boundary(idx))` fails. -/
def strInsert : List Char → Nat → Char → Option (List Char)
  | s, 0, ch => some (ch :: s)
  | [], _ + 1, _ => none
  | c :: rest, n + 1, ch =>
    if c.utf8Size ≤ n + 1 then (strInsert rest (n + 1 - c.utf8Size) ch).map (c :: ·) else none

/-- `String::remove(idx)`: `none` = slicing `self[idx..]` off a boundary or past the end, or
"cannot remove a char from the end of a string". -/
def strRemove : List Char → Nat → Option (List Char)
  | [], _ => none
  | _ :: rest, 0 => some rest
  | c :: rest, n + 1 =>
    if c.utf8Size ≤ n + 1 then (strRemove rest (n + 1 - c.utf8Size)).map (c :: ·) else none

/-- `insert_char_index(string, char_index, ch)` -/
def insertCharIndex (s : List Char) (charIndex : Nat) (ch : Char) : Res (List Char) :=
  let (byteIndex, charCount) := countCharsBytes s charIndex
  if charIndex ≤ charCount then
    match strInsert s byteIndex ch with
    | some s' => .ok s'
    | none => .panic "String::insert: not a char boundary"
  else .panic "insert_char_index: out-of-bounds char index"

/-- `remove_char_index(string, char_index)` (the removed character is not used by the caller) -/
def removeCharIndex (s : List Char) (charIndex : Nat) : Res (List Char) :=
  let (byteIndex, charCount) := countCharsBytes s charIndex
  if charIndex < charCount then
    match strRemove s byteIndex with
    | some s' => .ok s'
    | none => .panic "String::remove: not a char boundary / end of string"
  else .panic "remove_char_index: out-of-bounds char index"

/-! ### Word motions -/

/-- `for (i, ch) in chars.by_ref() { if !ch.is_whitespace() { return i; } }` on the rest of the
enumerated characters (`i` = index of the head); `none` = iterator exhausted. -/
def firstNonWs (cls : Char → CharClass) : List Char → Nat → Option Nat
  | [], _ => none
  | ch :: rest, i => if !(cls ch).ws then some i else firstNonWs cls rest (i + 1)

/-- The `while let Some((i, ch)) = chars.next()` loop of `find_word_next` ("on non-space"). -/
def wordNextLoop (cls : Char → CharClass) (fullWord alnum : Bool) (total : Nat) : List Char → Nat → Nat
  | [], _ => total
  | ch :: rest, i =>
    if (cls ch).ws then
      match firstNonWs cls rest (i + 1) with
      | some j => j
      | none => total          -- `break`, then "go to end of line"
    else if !fullWord && (cls ch).alnum != alnum then i
    else wordNextLoop cls fullWord alnum total rest (i + 1)

/-- `find_word_next(string, cursor, full_word)` (fixed: character indices). -/
def findWordNext (cls : Char → CharClass) (s : List Char) (cursor : Nat) (fullWord : Bool) : Nat :=
  match s.drop cursor with          -- `string.chars().enumerate().skip(cursor)`
  | [] => s.length
  | first :: rest =>
    if (cls first).ws then
      match firstNonWs cls rest (cursor + 1) with
      | some j => j
      | none => s.length
    else wordNextLoop cls fullWord (cls first).alnum s.length rest (cursor + 1)

/-- `string.chars().nth(cursor).unwrap()` -/
def nthChar (s : List Char) (i : Nat) : Res Char :=
  match s[i]? with
  | some c => .ok c
  | none => .panic "find_word_back: chars().nth(cursor).unwrap() on None"

/-- `while cursor > 0 && string.chars().nth(cursor).unwrap().is_whitespace() { cursor -= 1; }` -/
def skipWsBack (cls : Char → CharClass) (s : List Char) : Nat → Res Nat
  | 0 => .ok 0
  | c + 1 =>
    match nthChar s (c + 1) with
    | .panic e => .panic e
    | .ok ch => if (cls ch).ws then skipWsBack cls s c else .ok (c + 1)

/-- `while cursor > 0 { cursor -= 1; if ws(nth cursor) || (!full_word && alnum(nth cursor) != alnum)
{ return cursor + 1; } }  0` -/
def wordBackLoop (cls : Char → CharClass) (s : List Char) (fullWord alnum : Bool) : Nat → Res Nat
  | 0 => .ok 0
  | c + 1 =>
    match nthChar s c with
    | .panic e => .panic e
    | .ok ch =>
      if (cls ch).ws || (!fullWord && (cls ch).alnum != alnum) then .ok (c + 1)
      else wordBackLoop cls s fullWord alnum c

/-- `find_word_back(string, cursor, full_word)` -/
def findWordBack (cls : Char → CharClass) (s : List Char) (cursor : Nat) (fullWord : Bool) : Res Nat :=
  if cursor ≤ 1 then .ok 0 else
  match skipWsBack cls s (cursor - 1) with
  | .panic e => .panic e
  | .ok c =>
    match nthChar s c with
    | .panic e => .panic e
    | .ok ch => wordBackLoop cls s fullWord (cls ch).alnum c

/-! ### `Terminal` -/

/-- `Terminal` (with `TerminalHistory` flattened; no `stderr`, no history file). -/
structure Term where
  /-- `buffer` -/
  buffer : List Char
  /-- `cursor`: byte index of `get_next_command` -/
  cursor : Nat
  /-- `visible_cursor`: character index -/
  vcursor : Nat
  /-- `history.list`, oldest first -/
  hist : List (List Char)
  /-- `history.index`; `== hist.length` means the new line -/
  index : Nat
  deriving Repr, DecidableEq

/-- `Terminal::verif_new(history)` / `Terminal::new()` with the file's contents as `history`. -/
def Term.new (hist : List (List Char)) : Term :=
  { buffer := [], cursor := 0, vcursor := 0, hist := hist, index := hist.length }

/-- `is_next` (with its `debug_assert!`) -/
def isNext (t : Term) : Res Bool :=
  if t.index ≤ t.hist.length then .ok (decide (t.index ≥ t.hist.length))
  else .panic "is_next: index went past history"

/-- `update_next` -/
def updateNext (t : Term) : Res Term :=
  match isNext t with
  | .panic e => .panic e
  | .ok true => .ok t
  | .ok false =>
    match t.hist[t.index]? with
    | some h => .ok { t with buffer := h, index := t.hist.length }
    | none => .panic "update_next: expect(\"checked above\")"

/-- `get_current` -/
def getCurrent (t : Term) : Res (List Char) :=
  match isNext t with
  | .panic e => .panic e
  | .ok true => .ok t.buffer
  | .ok false =>
    match t.hist[t.index]? with
    | some h => .ok h
    | none => .panic "get_current: expect(\"checked above\")"

/-- `s.trim().is_empty()` -/
def isBlank (cls : Char → CharClass) (s : List Char) : Bool := s.all fun c => (cls c).ws

/-- `Terminal::handle_key`; the Boolean is its return value (`true` = end of line). -/
def handleKey (cls : Char → CharClass) (t : Term) (key : Key) : Res (Term × Bool) :=
  match key with
  | .enter =>
    match isNext t with
    | .panic e => .panic e
    | .ok nx =>
      if nx && isBlank cls t.buffer then
        .ok ({ t with buffer := [], vcursor := 0 }, false)
      else
        match updateNext t with
        | .panic e => .panic e
        | .ok t1 => .ok (t1, true)
  | .char ch =>
    if isAsciiControl ch then .ok (t, false) else
    match updateNext t with
    | .panic e => .panic e
    | .ok t1 =>
      match insertCharIndex t1.buffer t1.vcursor ch with
      | .panic e => .panic e
      | .ok b => .ok ({ t1 with buffer := b, vcursor := t1.vcursor + 1 }, false)
  | .backspace =>
    match getCurrent t with
    | .panic e => .panic e
    | .ok cur =>
      if t.vcursor > 0 && t.vcursor ≤ cur.length then
        match updateNext t with
        | .panic e => .panic e
        | .ok t1 =>
          match removeCharIndex t1.buffer (t1.vcursor - 1) with
          | .panic e => .panic e
          | .ok b => .ok ({ t1 with buffer := b, vcursor := t1.vcursor - 1 }, false)
      else .ok (t, false)
  | .delete =>
    match getCurrent t with
    | .panic e => .panic e
    | .ok cur =>
      if t.vcursor < cur.length then
        match updateNext t with
        | .panic e => .panic e
        | .ok t1 =>
          match removeCharIndex t1.buffer t1.vcursor with
          | .panic e => .panic e
          | .ok b => .ok ({ t1 with buffer := b }, false)
      else .ok (t, false)
  | .left =>
    if t.vcursor > 0 then .ok ({ t with vcursor := t.vcursor - 1 }, false) else .ok (t, false)
  | .right =>
    match getCurrent t with
    | .panic e => .panic e
    | .ok cur =>
      if t.vcursor < cur.length then .ok ({ t with vcursor := t.vcursor + 1 }, false) else .ok (t, false)
  | .ctrlLeft =>
    match getCurrent t with
    | .panic e => .panic e
    | .ok cur =>
      match findWordBack cls cur t.vcursor false with
      | .panic e => .panic e
      | .ok c => .ok ({ t with vcursor := c }, false)
  | .ctrlRight =>
    match getCurrent t with
    | .panic e => .panic e
    | .ok cur => .ok ({ t with vcursor := findWordNext cls cur t.vcursor false }, false)
  | .up =>
    if t.index > 0 then
      let t1 := { t with index := t.index - 1 }
      match getCurrent t1 with
      | .panic e => .panic e
      | .ok cur => .ok ({ t1 with vcursor := cur.length }, false)
    else .ok (t, false)
  | .down =>
    if t.index < t.hist.length then
      let t1 := { t with index := t.index + 1 }
      match getCurrent t1 with
      | .panic e => .panic e
      | .ok cur => .ok ({ t1 with vcursor := cur.length }, false)
    else .ok (t, false)

/-! ### `read_line` -/

/-- Start of `read_line`: `self.buffer.clear(); self.visible_cursor = 0;` -/
def readLineBegin (t : Term) : Term := { t with buffer := [], vcursor := 0 }

/-- Rest of `read_line` after `read_line_raw` returned: the `debug_assert!`, the history push
(unless equal to the last entry) and the index reset. -/
def readLineFinish (cls : Char → CharClass) (t : Term) : Res Term :=
  if isBlank cls t.buffer then .panic "read_line: should have read characters until non-empty"
  else
    let hist := if t.hist.getLast? = some t.buffer then t.hist else t.hist ++ [t.buffer]
    .ok { t with hist := hist, index := hist.length }

/-- What one key does to a terminal that sits in `read_line_raw`: `handle_key`; if that ends the
line, the rest of `read_line` runs, the line is handed to `get_next_command` (see `commands`), and
the next `Read::read` call (byte cursor back at 0) starts a new `read_line`, which again waits for
keys.  Returns the state after `handle_key` (what the scripted-key hook logs), the state in which
the next key is awaited, and the submitted line if any. -/
def feedKey (cls : Char → CharClass) (t : Term) (key : Key) : Res (Term × Term × Option (List Char)) :=
  match handleKey cls t key with
  | .panic e => .panic e
  | .ok (t1, false) => .ok (t1, t1, none)
  | .ok (t1, true) =>
    match readLineFinish cls t1 with
    | .panic e => .panic e
    | .ok t2 => .ok (t1, readLineBegin t2, some t2.buffer)

/-- All keys of a session, oldest first: final state and the lines submitted, oldest first. -/
def feed (cls : Char → CharClass) : Term → List Key → Res (Term × List (List Char))
  | t, [] => .ok (t, [])
  | t, k :: ks =>
    match feedKey cls t k with
    | .panic e => .panic e
    | .ok (_, t', sub) =>
      match feed cls t' ks with
      | .panic e => .panic e
      | .ok (tf, subs) => .ok (tf, sub.toList ++ subs)

/-- A session of the debugger's terminal reader: `Terminal::new` with the given history, the first
`Read::read` (→ `read_line`), then the keys. -/
def session (cls : Char → CharClass) (hist : List (List Char)) (keys : List Key) :
    Res (Term × List (List Char)) :=
  feed cls (readLineBegin (Term.new hist)) keys

/-! ### `get_next_command` -/

/-- `&s[from..]` by byte index: `none` = not a char boundary (panic). -/
def sliceFrom : List Char → Nat → Option (List Char)
  | s, 0 => some s
  | [], _ + 1 => none
  | c :: rest, n + 1 => if c.utf8Size ≤ n + 1 then sliceFrom rest (n + 1 - c.utf8Size) else none

/-- `&s[..to]` by byte index: `none` = not a char boundary (panic). -/
def sliceTo : List Char → Nat → Option (List Char)
  | _, 0 => some []
  | [], _ + 1 => none
  | c :: rest, n + 1 =>
    if c.utf8Size ≤ n + 1 then (sliceTo rest (n + 1 - c.utf8Size)).map (c :: ·) else none

/-- `rest.find(';')`: byte index of the first `;`. -/
def findSemi : List Char → Option Nat
  | [] => none
  | c :: rest => if c = ';' then some 0 else (findSemi rest).map (· + c.utf8Size)

/-- `Terminal::get_next_command`: the command and the new state (only `cursor` changes). -/
def getNextCommand (t : Term) : Res (List Char × Term) :=
  match sliceFrom t.buffer t.cursor with
  | none => .panic "get_next_command: &self.buffer[self.cursor..] off a char boundary"
  | some rest =>
    match findSemi rest with
    | some index =>
      match sliceTo rest index with
      | some cmd => .ok (cmd, { t with cursor := t.cursor + (index + 1) })
      | none => .panic "get_next_command: &rest[..index] off a char boundary"
    | none => .ok (rest, { t with cursor := 0 })

/-- Successive `Read::read` calls after a line has been read, until the byte cursor is back at 0
(the next call would read a new line).  `fuel` bounds the number of calls. -/
def drainCommands : Nat → Term → Res (List (List Char) × Term)
  | 0, t => .ok ([], t)
  | fuel + 1, t =>
    match getNextCommand t with
    | .panic e => .panic e
    | .ok (cmd, t1) =>
      if t1.cursor = 0 then .ok ([cmd], t1)
      else
        match drainCommands fuel t1 with
        | .panic e => .panic e
        | .ok (cmds, t2) => .ok (cmd :: cmds, t2)

/-- The commands that `Read::read` yields for a freshly read line (`cursor = 0`). -/
def commands (line : List Char) : Res (List (List Char)) :=
  match drainCommands (line.length + 1)
      { buffer := line, cursor := 0, vcursor := 0, hist := [], index := 0 } with
  | .panic e => .panic e
  | .ok (cmds, _) => .ok cmds

end Lace.Editor
