/-
  Model of `src/parser.rs`: `preprocess`, `preprocess_simple`, `unescape`, `AsmParser::parse`,
  `parse_simple`, `parse_instr`, `parse_trap`, the `expect_*` family with its range checks, and the
  statement-span computation (`tok_end`).

  Each loop is a step function (one iteration of the Rust loop: `preprocessStep`, `parseStep`)
  driven by a fuel-bounded driver (`preprocessLoop`, `parseLoop`).  `preprocess` is started with
  `length src + 1`, the parser with `length tokens + 1`; running out of fuel is reported as
  `panic "fuel"` so that the no-panic theorem of C05 also says that this much fuel always suffices
  (each iteration consumes at least one character / token).

  Import-free (core Lean only).
-/
import Lace.Model.Lexer
import Lace.Model.Air
namespace Lace.Asm

/-- `Token::byte(val, span)` -/
def byteTok (v : Word) (span : Span) : Token := { kind := .byte v, span := span, text := [] }

/-- one escape sequence of `unescape` -/
def unescapeChar (c : Char) : List Char :=
  if c == 'n' then ['\n']
  else if c == 't' then ['\t']
  else if c == 'r' then ['\r']
  else if c == '\\' then ['\\']
  else if c == '"' then ['"']
  else ['\\', c]

/-- `unescape` (the early return for strings without a backslash computes the same value) -/
def unescape : List Char → List Char
  | [] => []
  | c :: cs =>
    if c == '\\' then
      match cs with
      | [] => ['\\']
      | d :: ds => unescapeChar d ++ unescape ds
    else c :: unescape cs

/-- `&str_raw[1 .. str_raw.len() - 1]`: `none` = the slice panics (fewer than two bytes, or a
bound inside a character). -/
def stripQuotes (raw : List Char) : Option (List Char) :=
  match raw with
  | [] => none
  | c :: rest =>
    match rest.getLast? with
    | none => none
    | some l => if c.utf8Size = 1 ∧ l.utf8Size = 1 then some rest.dropLast else none

/-- `c as u16` -/
def charWord (c : Char) : Word := BitVec.ofNat 16 c.toNat

/-- Result of one iteration of a loop: finished, or go round again with a new state. -/
inductive PreStep where
  | done (r : Res (List Token))
  | more (pos : Nat) (rest : List Char) (acc : List Token)

/-- One iteration of the loop of `preprocess`; `acc` is the result so far, newest first. -/
def preprocessStep (feat : Option Bool) (pos : Nat) (rest : List Char) (acc : List Token) : PreStep :=
  match advanceReal feat pos rest with
  | .diag k o l => .done (.diag k (some (o, l)))
  | .panic s => .done (.panic s)
  | .tok d pos1 rest1 =>
    match d.kind with
    | .dir .fill =>
      match advanceReal feat pos1 rest1 with
      | .diag k o l => .done (.diag k (some (o, l)))
      | .panic s => .done (.panic s)
      | .tok val pos2 rest2 =>
        match d.span.join? val.span with
        | none => .done (.panic "Span::join")
        | some span =>
          match val.kind with
          | .lit (.hex v) => .more pos2 rest2 (byteTok v span :: acc)
          | .lit (.dec v) => .more pos2 rest2 (byteTok v span :: acc)
          | _ => .done (.diag .preprocBadLit (some (val.span.offs, val.span.len)))
    | .dir .blkw =>
      match advanceReal feat pos1 rest1 with
      | .diag k o l => .done (.diag k (some (o, l)))
      | .panic s => .done (.panic s)
      | .tok val pos2 rest2 =>
        match d.span.join? val.span with
        | none => .done (.panic "Span::join")
        | some span =>
          match val.kind with
          | .lit (.hex v) => .more pos2 rest2 (List.replicate v.toNat (byteTok 0 span) ++ acc)
          -- a negative count prints a warning and is then used `as u16`
          | .lit (.dec v) => .more pos2 rest2 (List.replicate v.toNat (byteTok 0 span) ++ acc)
          | _ => .done (.diag .preprocBadLit (some (val.span.offs, val.span.len)))
    | .dir .stringz =>
      match advanceReal feat pos1 rest1 with
      | .diag k o l => .done (.diag k (some (o, l)))
      | .panic s => .done (.panic s)
      | .tok val pos2 rest2 =>
        match val.kind with
        | .lit .str =>
          match d.span.join? val.span with
          | none => .done (.panic "Span::join")
          | some span =>
            match stripQuotes val.text with
            | none => .done (.panic "preprocess: str_raw[1..len-1]")
            | some body =>
              let bytes := (unescape body).map (fun c => byteTok (charWord c) span)
              .more pos2 rest2 (byteTok 0 span :: (bytes.reverse ++ acc))
        | _ => .done (.diag .preprocNoStr (some (val.span.offs, val.span.len)))
    | .dir .break_ => .more pos1 rest1 ({ kind := .breakpoint, span := d.span, text := [] } :: acc)
    | .comment => .more pos1 rest1 acc
    | .whitespace => .more pos1 rest1 acc
    | .eof => .done (.ok acc.reverse)
    | .dir .end_ => .done (.ok acc.reverse)
    | _ => .more pos1 rest1 (d :: acc)

/-- The loop of `preprocess`. -/
def preprocessLoop (feat : Option Bool) : Nat → Nat → List Char → List Token → Res (List Token)
  | 0, _, _, _ => .panic "fuel"
  | fuel + 1, pos, rest, acc =>
    match preprocessStep feat pos rest acc with
    | .done r => r
    | .more pos' rest' acc' => preprocessLoop feat fuel pos' rest' acc'

/-- `preprocess(src)` -/
def preprocess (feat : Option Bool) (src : List Char) : Res (List Token) :=
  preprocessLoop feat (src.length + 1) 0 src []

/-- The loop of `preprocess_simple` (used by the debugger's `eval`). -/
def preprocessSimpleLoop (feat : Option Bool) : Nat → Nat → List Char → List Token → Res (List Token)
  | 0, _, _, _ => .panic "fuel"
  | fuel + 1, pos, rest, acc =>
    match advanceReal feat pos rest with
    | .diag k o l => .diag k (some (o, l))
    | .panic s => .panic s
    | .tok t pos1 rest1 =>
      match t.kind with
      | .byte _ => .panic "unreachable: found byte in stream"
      | .breakpoint => .panic "unreachable: found breakpoint in stream"
      | .comment => preprocessSimpleLoop feat fuel pos1 rest1 acc
      | .whitespace => preprocessSimpleLoop feat fuel pos1 rest1 acc
      | .eof => .ok acc.reverse
      | _ => preprocessSimpleLoop feat fuel pos1 rest1 (t :: acc)

def preprocessSimple (feat : Option Bool) (src : List Char) : Res (List Token) :=
  preprocessSimpleLoop feat (src.length + 1) 0 src []

/-! ### The parser -/

/-- `Bits` -/
inductive Bits where
  | signed (n : Nat)
  | unsigned (n : Nat)
  deriving Repr

/-- the `check_range` closure of `expect_lit`.  Signed: `2_i16.pow(n - 1)` (`none` = overflow
panic; the parser only uses `n ∈ {5, 6, 9, 11}`).  Unsigned, after the fix of D2: `0 .. 2^n`
computed in `u32` (the original used `2^(n-1)`, rejecting `.orig x8000` and `trap x80`). -/
def checkRange (bits : Bits) (val : Word) : Option Bool :=
  match bits with
  | .signed n =>
    if n = 0 ∨ n > 15 then none
    else
      let range : Int := (2 : Int) ^ (n - 1)
      some (decide (-range ≤ val.toInt) && decide (val.toInt < range))
  | .unsigned n =>
    if n > 31 then none
    else some (decide (val.toNat < 2 ^ n))

/-- `error::parse_eof(src)`: label at offset `src.len() - 1` (0 for an empty source), length 0. -/
def eofDiag {α : Type} (srcLen : Nat) : Res α := .diag .eof (some (srcLen - 1, 0))

/-- `error::parse_generic_unexpected(src, expected, found)`: formats `found.kind` with
`Display for TokenKind` (and, for a label, slices the source at the token's span, which is the
token's text by construction). -/
def unexpectedDiag {α : Type} (found : Token) : Res α :=
  match found.kind.display with
  | none => .panic "Display for TokenKind: unreachable"
  | some _ => .diag .unexpected (some (found.span.offs, found.span.len))

def isNumLit : TokenKind → Bool
  | .lit (.dec _) => true
  | .lit (.hex _) => true
  | _ => false

def isReg : TokenKind → Bool
  | .reg _ => true
  | _ => false

/-- `expect_where` / `expect`: next token must satisfy `check`; returns it, the remaining tokens
and the new `tok_end`. -/
def expectWhere (srcLen : Nat) (check : TokenKind → Bool) (toks : List Token) :
    Res (Token × List Token × Nat) :=
  match toks with
  | [] => eofDiag srcLen
  | t :: ts => if check t.kind then .ok (t, ts, t.span.offs + t.span.len) else unexpectedDiag t

/-- `expect_lit(bits)` -/
def expectLit (srcLen : Nat) (bits : Bits) (toks : List Token) : Res (Word × List Token × Nat) :=
  match expectWhere srcLen isNumLit toks with
  | .diag k s => .diag k s
  | .panic s => .panic s
  | .ok (t, ts, te) =>
    match t.kind with
    | .lit (.dec v) | .lit (.hex v) =>
      match checkRange bits v with
      | none => .panic "expect_lit: pow overflow"
      | some true => .ok (v, ts, te)
      | some false => .diag .litRange (some (t.span.offs, t.span.len))
    | _ => .panic "unreachable: non-literal after checking for literal type"

/-- `expect_reg` -/
def expectReg (srcLen : Nat) (toks : List Token) : Res (BitVec 3 × List Token × Nat) :=
  match expectWhere srcLen isReg toks with
  | .diag k s => .diag k s
  | .panic s => .panic s
  | .ok (t, ts, te) =>
    match t.kind with
    | .reg r => .ok (r, ts, te)
    | _ => .panic "unreachable: non-reg after filtering for reg"

/-- `expect_lit_or_reg` -/
def expectLitOrReg (srcLen : Nat) (toks : List Token) : Res (ImmOrReg × List Token × Nat) :=
  match toks with
  | [] => eofDiag srcLen
  | t :: _ =>
    match t.kind with
    | .reg _ =>
      match expectReg srcLen toks with
      | .ok (r, ts, te) => .ok (.reg r, ts, te)
      | .diag k s => .diag k s
      | .panic s => .panic s
    | .lit _ =>
      match expectLit srcLen (.signed 5) toks with
      | .ok (v, ts, te) => .ok (.imm5 (v.setWidth 8), ts, te)
      | .diag k s => .diag k s
      | .panic s => .panic s
    | _ => unexpectedDiag t

/-- `expect_lit_or_label(bits)`.  A literal offset becomes `Label::Ref(line + 1 + val)` with
wrapping addition (fix of D3; the original's checked `+` panicked on every negative offset). -/
def expectLitOrLabel (srcLen : Nat) (tbl : SymTab) (line : Nat) (bits : Nat) (toks : List Token) :
    Res (Label × List Token × Nat) :=
  match toks with
  | [] => eofDiag srcLen
  | t :: _ =>
    match t.kind with
    | .label =>
      match expectWhere srcLen (fun k => k = .label) toks with
      | .ok (lt, ts, te) => .ok (Label.tryFill tbl lt.text, ts, te)
      | .diag k s => .diag k s
      | .panic s => .panic s
    | .lit _ =>
      match expectLit srcLen (.signed bits) toks with
      | .ok (v, ts, te) => .ok (.ref ((line + 1 + v.toNat) % 65536), ts, te)
      | .diag k s => .diag k s
      | .panic s => .panic s
    | _ => unexpectedDiag t

/-- What `parse_instr` / `parse_trap` return: the statement, the remaining tokens and `tok_end`
(`none` = no operand was consumed, `tok_end` keeps its old value). -/
abbrev StmtRes := Res (Stmt × List Token × Option Nat)

/-- one register operand -/
def piReg1 (srcLen : Nat) (toks : List Token) (f : BitVec 3 → Stmt) : StmtRes :=
  match expectReg srcLen toks with
  | .ok (r, ts, te) => .ok (f r, ts, some te)
  | .diag k s => .diag k s
  | .panic s => .panic s

/-- one label-or-literal operand of `bits` bits -/
def piLbl (srcLen : Nat) (tbl : SymTab) (line bits : Nat) (toks : List Token) (f : Label → Stmt) :
    StmtRes :=
  match expectLitOrLabel srcLen tbl line bits toks with
  | .ok (l, ts, te) => .ok (f l, ts, some te)
  | .diag k s => .diag k s
  | .panic s => .panic s

/-- a register, then a 9-bit label-or-literal -/
def piRegLbl (srcLen : Nat) (tbl : SymTab) (line : Nat) (toks : List Token)
    (f : BitVec 3 → Label → Stmt) : StmtRes :=
  match expectReg srcLen toks with
  | .ok (r, ts, _) => piLbl srcLen tbl line 9 ts (f r)
  | .diag k s => .diag k s
  | .panic s => .panic s

/-- two registers, then a 6-bit literal cast to `u8` -/
def piReg2Lit (srcLen : Nat) (toks : List Token) (f : BitVec 3 → BitVec 3 → BitVec 8 → Stmt) :
    StmtRes :=
  match expectReg srcLen toks with
  | .diag k s => .diag k s
  | .panic s => .panic s
  | .ok (a, ts, _) =>
    match expectReg srcLen ts with
    | .diag k s => .diag k s
    | .panic s => .panic s
    | .ok (b, ts', _) =>
      match expectLit srcLen (.signed 6) ts' with
      | .ok (v, ts'', te) => .ok (f a b (v.setWidth 8), ts'', some te)
      | .diag k s => .diag k s
      | .panic s => .panic s

/-- two registers, then a register or a 5-bit literal -/
def piReg2Imm (srcLen : Nat) (toks : List Token) (f : BitVec 3 → BitVec 3 → ImmOrReg → Stmt) :
    StmtRes :=
  match expectReg srcLen toks with
  | .diag k s => .diag k s
  | .panic s => .panic s
  | .ok (a, ts, _) =>
    match expectReg srcLen ts with
    | .diag k s => .diag k s
    | .panic s => .panic s
    | .ok (b, ts', _) =>
      match expectLitOrReg srcLen ts' with
      | .ok (x, ts'', te) => .ok (f a b x, ts'', some te)
      | .diag k s => .diag k s
      | .panic s => .panic s

/-- two registers -/
def piReg2 (srcLen : Nat) (toks : List Token) (f : BitVec 3 → BitVec 3 → Stmt) : StmtRes :=
  match expectReg srcLen toks with
  | .diag k s => .diag k s
  | .panic s => .panic s
  | .ok (a, ts, _) =>
    match expectReg srcLen ts with
    | .diag k s => .diag k s
    | .panic s => .panic s
    | .ok (b, ts', te) => .ok (f a b, ts', some te)

/-- `parse_instr(kind)` -/
def parseInstr (srcLen : Nat) (tbl : SymTab) (line : Nat) (kind : InstrKind) (toks : List Token) :
    StmtRes :=
  match kind with
  | .push => piReg1 srcLen toks .push
  | .pop => piReg1 srcLen toks .pop
  | .call =>
    match expectWhere srcLen (fun k => k = .label) toks with
    | .ok (lt, ts, te) => .ok (.call (Label.tryFill tbl lt.text), ts, some te)
    | .diag k s => .diag k s
    | .panic s => .panic s
  | .rets => .ok (.rets, toks, none)
  | .add => piReg2Imm srcLen toks .add
  | .and => piReg2Imm srcLen toks .and
  | .br f => piLbl srcLen tbl line 9 toks (.branch f)
  | .jmp => piReg1 srcLen toks .jump
  | .jsr => piLbl srcLen tbl line 11 toks .jumpSub
  | .jsrr => piReg1 srcLen toks .jumpSubReg
  | .ld => piRegLbl srcLen tbl line toks .load
  | .ldi => piRegLbl srcLen tbl line toks .loadInd
  | .ldr => piReg2Lit srcLen toks .loadOffs
  | .lea => piRegLbl srcLen tbl line toks .loadEAddr
  | .not => piReg2 srcLen toks .not
  | .ret => .ok (.ret, toks, none)
  | .rti => .ok (.interrupt, toks, none)
  | .st => piRegLbl srcLen tbl line toks .store
  | .sti => piRegLbl srcLen tbl line toks .storeInd
  | .str => piReg2Lit srcLen toks .storeOffs

/-- `parse_trap(kind)` -/
def parseTrap (srcLen : Nat) (kind : TrapKind) (toks : List Token) : StmtRes :=
  match kind with
  | .generic =>
    match expectLit srcLen (.unsigned 8) toks with
    | .ok (v, ts, te) => .ok (.trap (v.setWidth 8), ts, some te)
    | .diag k s => .diag k s
    | .panic s => .panic s
  | .getc => .ok (.trap 0x20#8, toks, none)
  | .out => .ok (.trap 0x21#8, toks, none)
  | .puts => .ok (.trap 0x22#8, toks, none)
  | .in_ => .ok (.trap 0x23#8, toks, none)
  | .putsp => .ok (.trap 0x24#8, toks, none)
  | .halt => .ok (.trap 0x25#8, toks, none)
  | .putn => .ok (.trap 0x26#8, toks, none)
  | .reg => .ok (.trap 0x27#8, toks, none)

/-- What `AsmParser::parse` returns (`Air`): origin, statements, breakpoints. -/
structure Air where
  orig : Option Word
  stmts : List AsmLine
  bps : List Nat
  deriving Repr

/-- Parser state (`AsmParser` + its `Air`); `stmts` newest first, `n = stmts.length`. -/
structure PState where
  orig : Option Word
  stmts : List AsmLine
  n : Nat
  bps : List Nat
  line : Nat
  tokEnd : Nat

/-- One statement has been parsed: compute its span and append it (`Air::add_stmt`). -/
def PState.addStmt (st : PState) (tok : Token) (stmt : Stmt) (te : Option Nat) : PState :=
  let tokEnd := match te with | some e => e | none => st.tokEnd
  -- fix of D23: `tok_end <= offs` (was `<`): a statement that consumed no operand, or whose
  -- first token begins where the last operand of an earlier statement ended, spans its own token
  let len := if tokEnd ≤ tok.span.offs then tok.span.len else tokEnd - tok.span.offs
  { st with
    stmts := { line := (st.n + 1) % 65536, stmt := stmt, span := ⟨tok.span.offs, len⟩ } :: st.stmts
    n := st.n + 1
    tokEnd := tokEnd }

/-- Result of one iteration of the parser loop. -/
inductive ParseStep where
  | done (r : Res Air)
  | more (toks : List Token) (st : PState)

/-- `Ok(self.air)` -/
def PState.air (st : PState) : Air := { orig := st.orig, stmts := st.stmts.reverse, bps := st.bps }

/-- The end of one iteration for a statement: append it, then `self.line += 1` — after the fix of
D7 a checked increment: when statement 65,535 has been added nothing may follow. -/
def finishStmt (st : PState) (tok : Token) (r : Res (Stmt × List Token × Option Nat)) : ParseStep :=
  match r with
  | .diag k s => .done (.diag k s)
  | .panic s => .done (.panic s)
  | .ok (stmt, ts', te) =>
    let st' := st.addStmt tok stmt te
    if st.line + 1 > 65535 then
      match ts' with
      | [] => .done (.ok st'.air)
      | nxt :: _ => .done (.diag .tooMany (some (nxt.span.offs, nxt.span.len)))
    else .more ts' { st' with line := st.line + 1 }

/-- The part of one iteration of `AsmParser::parse` after the optional prefix label. -/
def parseLine (srcLen : Nat) (labeled : Bool) (toks : List Token) (st : PState) (tbl : SymTab) :
    ParseStep :=
  match toks with
  | [] => if labeled then .done (eofDiag srcLen) else .done (.ok st.air)
  | tok :: ts =>
    match tok.kind with
    | .label => .done (unexpectedDiag tok)
    | .lit _ => .done (unexpectedDiag tok)
    | .reg _ => .done (unexpectedDiag tok)
    | .dir d =>
      if d ≠ .orig then .done (.panic "assert!(dir == DirKind::Orig)")
      else
        match expectLit srcLen (.unsigned 16) ts with
        | .diag k s => .done (.diag k s)
        | .panic s => .done (.panic s)
        | .ok (v, ts', te) =>
          match st.orig with
          | some _ => .done (.diag .origTwice none)
          | none => .more ts' { st with orig := some v, tokEnd := te }
    | .breakpoint => .more ts { st with bps := bpInsert st.bps (st.n % 65536) }
    | .instr k => finishStmt st tok (parseInstr srcLen tbl st.line k ts)
    | .trap k => finishStmt st tok (parseTrap srcLen k ts)
    | .byte v => finishStmt st tok (.ok (.rawWord v, ts, none))
    | .whitespace => .done (.panic "unreachable: whitespace in preprocessed stream")
    | .comment => .done (.panic "unreachable: comment in preprocessed stream")
    | .eof => .done (.panic "unreachable: eof in preprocessed stream")

/-- One iteration of the loop of `AsmParser::parse`: optional prefix label (entered into the
symbol table), then one line.  The symbol table is returned in every case. -/
def parseStep (srcLen : Nat) (toks : List Token) (st : PState) (tbl : SymTab) : ParseStep × SymTab :=
  match toks with
  | t :: ts =>
    if t.kind = .label then
      match Label.insert tbl t.text st.line with
      | (tbl', false) => (.done (.diag .dupLabel (some (t.span.offs, t.span.len))), tbl')
      | (tbl', true) => (parseLine srcLen true ts st tbl', tbl')
    else (parseLine srcLen false toks st tbl, tbl)
  | [] => (parseLine srcLen false toks st tbl, tbl)

/-- The loop of `AsmParser::parse`. The symbol table is threaded and returned also on failure. -/
def parseLoop (srcLen : Nat) : Nat → List Token → PState → SymTab → Res Air × SymTab
  | 0, _, _, tbl => (.panic "fuel", tbl)
  | fuel + 1, toks, st, tbl =>
    match parseStep srcLen toks st tbl with
    | (.done r, tbl') => (r, tbl')
    | (.more toks' st', tbl') => parseLoop srcLen fuel toks' st' tbl'

/-- `AsmParser::new(src)?.parse()` -/
def parse (feat : Option Bool) (tbl : SymTab) (src : List Char) : Res Air × SymTab :=
  match preprocess feat src with
  | .diag k s => (.diag k s, tbl)
  | .panic s => (.panic s, tbl)
  | .ok toks =>
    parseLoop (utf8Len src) (toks.length + 1) toks
      { orig := none, stmts := [], n := 0, bps := [], line := 1, tokEnd := 0 } tbl

/-- `AsmParser::new_simple(src, line)?.parse_simple()` (the debugger's `eval`).  `line` is the
parser's line counter, from which literal PC offsets are counted (fix of D17: it used to be the
constant 1).  Tokens after the last operand are an unexpected-token diagnostic (fix of D18: the
original had `debug_assert!(self.toks.next().is_none())`, a panic in the dev profile and silent
acceptance in release). -/
def parseSimple (feat : Option Bool) (tbl : SymTab) (line : Nat) (src : List Char) : Res Stmt :=
  match preprocessSimple feat src with
  | .diag k s => .diag k s
  | .panic s => .panic s
  | .ok toks =>
    let srcLen := utf8Len src
    match toks with
    | [] => eofDiag srcLen
    | tok :: ts =>
      let fin (r : Res (Stmt × List Token × Option Nat)) : Res Stmt :=
        match r with
        | .diag k s => .diag k s
        | .panic s => .panic s
        | .ok (stmt, [], _) => .ok stmt
        | .ok (_, surplus :: _, _) => unexpectedDiag surplus
      match tok.kind with
      | .instr k => fin (parseInstr srcLen tbl line k ts)
      | .trap k => fin (parseTrap srcLen k ts)
      | .dir _ => unexpectedDiag tok
      | .label => unexpectedDiag tok
      | .lit _ => unexpectedDiag tok
      | .reg _ => unexpectedDiag tok
      | _ => .panic "unreachable: invalid token kind in preprocessed stream"

end Lace.Asm
