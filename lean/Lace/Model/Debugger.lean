/-
  MODEL of `src/debugger/mod.rs` (status machine, `next_action`, `check_interrupts`,
  `run_command`, location resolution), `src/debugger/breakpoint.rs`, and of
  `RunEnvironment::run` with a debugger attached (`src/runtime.rs`), in `--minimal` mode:
  what the debugger writes to stderr is modelled as a list of lines.

  The assembler enters through `Env` (symbol table, statement source texts, `eval`), so the
  debugger theorems hold for every assembler behaviour.
-/
import Lace.Model.Run
import Lace.Model.Cmd.Types
namespace Lace.Dbg
open Lace Lace.Cmd

/-! ### Breakpoints (`breakpoint.rs`) -/

structure Breakpoint where
  address : Word
  predefined : Bool
  deriving DecidableEq, Repr

abbrev Breakpoints := List Breakpoint

def bpGet (bs : Breakpoints) (a : Word) : Option Breakpoint := bs.find? (·.address == a)

/-- `Breakpoints::insert`: keeps the list sorted; `true` = already existed (nothing inserted). -/
def bpInsert : Breakpoints → Breakpoint → Breakpoints × Bool
  | [], b => ([b], false)
  | o :: rest, b =>
    if o.address == b.address then (o :: rest, true)
    else if o.address ≥ b.address then (b :: o :: rest, false)
    else
      let (r, e) := bpInsert rest b
      (o :: r, e)

/-- `Breakpoints::remove`: `true` = something was removed. -/
def bpRemove (bs : Breakpoints) (a : Word) : Breakpoints × Bool :=
  let r := bs.filter (·.address != a)
  (r, r.length != bs.length)

/-! ### Debugger state -/

inductive Status where
  | wait
  | stepOver (returnAddr : Word)
  | stepInto (count : Word)
  | cont
  | finish
  deriving DecidableEq, Repr

inductive Action where
  | proceed | stopDebugger | exitProgram
  deriving DecidableEq, Repr

inductive Sig where
  | ret | halt
  deriving DecidableEq, Repr

/-- `SignificantInstr::try_from` -/
def sigOf (instr : Word) : Option Sig :=
  let opcode := (instr >>> 12).toNat
  if opcode == 0xC && ((instr >>> 6) &&& 0b111#16) == 7#16 then some .ret
  else if opcode == 0xD && ((instr >>> 10) &&& 0b11#16) == 0b10#16 then some .ret
  else if opcode == 0xF && (instr &&& 0xFF#16) == 0x25#16 then some .halt
  else none

/-- `Debugger::is_subroutine_call` (JSR, JSRR, CALL) -/
def isCall (instr : Word) : Bool :=
  let opcode := (instr >>> 12).toNat
  opcode == 0x4 || (opcode == 0xD && ((instr >>> 10) &&& 0b11#16) == 0b11#16)

/-- Result of `eval <text>` as far as the debugger is concerned. -/
inductive EvalResult where
  /-- executed; new machine and world -/
  | ok (m : Machine) (w : World)
  /-- refused or erroneous: machine untouched; `lines` = what minimal mode prints on stderr -/
  | refused (lines : List (List Char))
  | exit (code : Nat) (w : World)
  | panic (site : String)

/-- What the debugger knows from the assembler. -/
structure Env where
  stackOn : Bool
  minimal : Bool
  /-- symbol table: label ↦ 1-based line number (`SYMBOL_TABLE`) -/
  symtab : List (List Char × Word)
  /-- source text of the statement with 0-based index `i` (`AsmSource`) -/
  stmtText : Nat → Option (List Char)
  /-- number of statements -/
  stmtCount : Nat
  eval : Machine → World → List Char → EvalResult

structure Dbg where
  initial : Machine
  status : Status
  bps : Breakpoints
  curBp : Option Word
  /-- `instruction_count: u32` (saturating) -/
  icount : Nat
  /-- commands still to be read (already parsed); exhausted = end of input = `quit` -/
  cmds : List Command
  /-- non-empty stderr lines printed so far (minimal mode), newest first -/
  errRev : List (List Char)
  /-- number of commands read so far -/
  ncmds : Nat
  /-- number of instructions executed so far while the debugger was attached -/
  nexec : Nat
  /-- for every command read (newest first): how many instructions had been executed before it
  (this fixes the interleaving of the `Cmd` and `Exec` events) -/
  cmdAt : List Nat

def say (d : Dbg) (line : String) : Dbg := { d with errRev := line.toList :: d.errRev }
def sayL (d : Dbg) (line : List Char) : Dbg := { d with errRev := line :: d.errRev }

def origOf (d : Dbg) : Word := d.initial.pc

/-- `add_address_offset` (after the i32 fix): `none` = outside `[orig, 0xFE00)`. -/
def addAddressOffset (orig : Word) (address : Word) (offset : Int) : Option Word :=
  let a : Int := address.toNat + offset
  if a ≥ orig.toNat ∧ a < 0xFE00 then some (BitVec.ofInt 16 a) else none

/-- `expect_userspace_address` -/
def inUser (orig : Word) (a : Word) : Bool := orig ≤ a && a < 0xFE00#16

/-- `resolve_location`: the address, or the error line that is printed. -/
def resolveLocation (env : Env) (orig : Word) (m : Machine) : MemLoc → Except String Word
  | .address a => .ok a
  | .pcOffset off =>
    match addAddressOffset orig m.pc off with
    | some a => .ok a
    | none => .error "OutOfBounds::Address"
  | .label name off =>
    match env.symtab.lookup name with
    | none => .error "Labels::NotFound"
    | some line =>
      -- `addr - 1`, then `address + self.orig()` (both checked u16 arithmetic; lines are ≥ 1
      -- and an image that loaded has orig + line - 1 ≤ 0xFFFF)
      match addAddressOffset orig ((line - 1) + orig) off with
      | some a => .ok a
      | none => .error "OutOfBounds::Address"

/-- A location that must lie in user space (`resolve_location` + `expect_userspace_address`). -/
def resolveUser (env : Env) (orig : Word) (m : Machine) (l : MemLoc) : Except String Word :=
  match resolveLocation env orig m l with
  | .error e => .error e
  | .ok a => if inUser orig a then .ok a else .error "OutOfBounds::Address"

def printInteger (d : Dbg) (v : Word) : Dbg := sayL d ('x' :: hex4 v)

def printRegisters (d : Dbg) (m : Machine) : Dbg :=
  let d := (List.range 8).foldl (fun d i =>
    sayL d (['R'] ++ decNat i ++ [' ', 'x'] ++ hex4 (m.reg.toArray.getD i 0))) d
  let d := sayL d ("PC x".toList ++ hex4 m.pc)
  sayL d ("CC ".toList ++ bin3 m.cc.bits)

/-- `check_halt`: `true` = at HALT, command refused. -/
def atHalt (m : Machine) : Bool := sigOf (m.read m.pc) == some .halt

inductive CmdResult where
  /-- keep reading commands -/
  | next (d : Dbg) (m : Machine) (w : World)
  | action (a : Action) (d : Dbg) (m : Machine) (w : World)
  | exit (code : Nat) (d : Dbg) (m : Machine) (w : World)
  | panic (site : String)

/-- One `run_command` for an already-read command. -/
def runCommand (env : Env) (d : Dbg) (m : Machine) (w : World) (c : Command) : CmdResult :=
  -- `if self.instruction_count > 0 { …; self.instruction_count = 0 }`
  let d := { d with icount := 0, ncmds := d.ncmds + 1, cmdAt := d.nexec :: d.cmdAt }
  match c with
  | .quit => .action .stopDebugger d m w
  | .exit => .action .exitProgram d m w
  | .help => .next (say d "<help>") m w
  | .reset => .next d d.initial w
  | .continue_ =>
    if atHalt m then .next (say d "Reached::Halt") m w
    else .next { d with status := .cont } m w
  | .stepOver =>
    if atHalt m then .next (say d "Reached::Halt") m w
    else if isCall (m.read m.pc) then .next { d with status := .stepOver (m.pc + 1) } m w
    else .next { d with status := .stepInto 0 } m w
  | .stepInto count =>
    if atHalt m then .next (say d "Reached::Halt") m w
    else if count == 0#16 then .panic "count - 1 underflow"      -- unreachable: parser gives ≥ 1
    else .next { d with status := .stepInto (count - 1) } m w
  | .stepOut =>
    if !env.stackOn then .next (say d "MissingFeature::Stack") m w
    else if atHalt m then .next (say d "Reached::Halt") m w
    else .next { d with status := .finish } m w
  | .print (.reg r) => .next (printInteger d (m.getReg r)) m w
  | .print (.mem l) =>
    match resolveLocation env (origOf d) m l with
    | .error e => .next (say d e) m w
    | .ok a => .next (printInteger d (m.read a)) m w
  | .move (.reg r) v => .next d (m.setReg r v) w
  | .move (.mem l) v =>
    match resolveUser env (origOf d) m l with
    | .error e => .next (say d e) m w
    | .ok a => .next d (m.write a v) w
  | .registers => .next (printRegisters d m) m w
  | .goto l =>
    match resolveUser env (origOf d) m l with
    | .error e => .next (say d e) m w
    | .ok a => .next d (m.setPC a) w
  | .eval text =>
    match env.eval m w text with
    | .ok m' w' => .next d m' w'
    | .refused lines => .next (lines.foldl sayL d) m w
    | .exit c w' => .exit c d m w'
    | .panic s => .panic s
  | .echo s => .next (sayL d (['['] ++ s ++ [']'])) m w
  | .assembly l =>
    match resolveLocation env (origOf d) m l with
    | .error e => .next (say d e) m w
    | .ok a =>
      -- `show_single_line` + `dprintln!(Always)`: the statement text (empty lines are not compared)
      if a < origOf d then .next d m w
      else match env.stmtText (a.toNat - (origOf d).toNat) with
        | some t => .next (if t.isEmpty then d else sayL d t) m w
        | none => .next d m w
  | .breakAdd l =>
    match resolveUser env (origOf d) m l with
    | .error e => .next (say d e) m w
    | .ok a =>
      let r := bpInsert d.bps { address := a, predefined := false }
      if r.2 then .next (say d "Breakpoints::AlreadyExists") m w
      else .next { d with bps := r.1 } m w
  | .breakRemove l =>
    match resolveUser env (origOf d) m l with
    | .error e => .next (say d e) m w
    | .ok a =>
      let r := bpRemove d.bps a
      if r.2 then .next { d with bps := r.1 } m w
      else .next (say d "Breakpoints::NotFound") m w
  | .breakList =>
    if d.bps.isEmpty then .next (say d "Breakpoints::Empty") m w
    else .next (d.bps.foldl (fun d b => sayL d ('x' :: hex4 b.address)) d) m w

/-- `check_interrupts` -/
def checkInterrupts (d : Dbg) (pc : Word) (instr : Option Sig) : Dbg :=
  match bpGet d.bps pc with
  | some _ =>
    if d.curBp != some pc || d.icount > 0 then
      { say d "Reached::Breakpoint" with curBp := some pc, status := .wait }
    else if instr == some .halt then { say d "Reached::Halt" with status := .wait }
    else { d with curBp := none }
  | none =>
    if instr == some .halt then { say d "Reached::Halt" with status := .wait }
    else { d with curBp := none }

inductive NextResult where
  | action (a : Action) (d : Dbg) (m : Machine) (w : World)
  | exit (code : Nat) (d : Dbg) (m : Machine) (w : World)
  | panic (site : String)

/-- The `loop { match &mut self.status … }` of `next_action`; `n` bounds the number of
iterations (each either returns or consumes a command; see `Props/C16`). -/
def actionLoop (env : Env) : Nat → Dbg → Machine → World → Option Sig → NextResult
  | 0, _, _, _, _ => .panic "actionLoop fuel"
  | n + 1, d, m, w, instr =>
    match d.status with
    | .wait =>
      match d.cmds with
      | [] => -- end of input: `Command::Quit`
        .action .stopDebugger { d with icount := 0, ncmds := d.ncmds + 1, cmdAt := d.nexec :: d.cmdAt } m w
      | c :: rest =>
        match runCommand env { d with cmds := rest } m w c with
        | .next d m w => actionLoop env n d m w instr
        | .action a d m w => .action a d m w
        | .exit c d m w => .exit c d m w
        | .panic s => .panic s
    | .stepOver ret =>
      if m.pc == ret then
        let d := if d.icount > 1 then say d "Reached::SubroutineEnd" else d
        actionLoop env n { d with status := .wait } m w instr
      else .action .proceed d m w
    | .stepInto count =>
      if count.toNat > 0 then .action .proceed { d with status := .stepInto (count - 1) } m w
      else .action .proceed { d with status := .wait } m w
    | .cont => .action .proceed d m w
    | .finish =>
      if instr == some .ret then
        .action .proceed { say d "Reached::SubroutineEnd" with status := .wait } m w
      else .action .proceed d m w

/-- `Debugger::next_action` -/
def nextAction (env : Env) (d : Dbg) (m : Machine) (w : World) : NextResult :=
  let d := match Run.checkPcBounds m with
    | .lt => { say d "OutOfBounds::ProgramCounter" with status := .wait }
    | .gt => { say d "OutOfBounds::ProgramCounter" with status := .wait }
    | .eq => d
  let instr := sigOf (m.read m.pc)
  let d := checkInterrupts d m.pc instr
  actionLoop env (2 * d.cmds.length + 3) d m w instr

/-! ### `RunEnvironment::run` with a debugger -/

/-- Result of one iteration of the `loop` in `RunEnvironment::run`. -/
inductive Iter where
  /-- the loop goes round again; `executed` = address of the instruction this iteration executed -/
  | cont (attached : Bool) (d : Dbg) (m : Machine) (w : World) (executed : Option Word)
  /-- `run` returns (PC = 0xFFFF without debugger, or the `exit` command) -/
  | done (attached : Bool) (d : Dbg) (m : Machine) (w : World)
  /-- the process exits; `executed` = the instruction that caused it, if any -/
  | exit (code : Nat) (attached : Bool) (d : Dbg) (m : Machine) (w : World) (executed : Option Word)
  | panic (site : String)

/-- Fetch, increment, execute (the common tail of the loop body). -/
def execOne (env : Env) (att : Bool) (d : Dbg) (m : Machine) (w : World) : Iter :=
  let instr := m.read m.pc
  let m1 := m.setPC (m.pc + 1)
  match VM.execute env.stackOn env.minimal instr m1 w with
  | .ok m' w' => .cont att d m' w' (some m.pc)
  | .exit c w' => .exit c att d m1 w' (some m.pc)
  | .panic s => .panic s

/-- One iteration of `RunEnvironment::run`. `attached = false` models `self.debugger = None`
(the record `d` is kept only so that what it printed remains observable). -/
def iter (env : Env) (att : Bool) (d : Dbg) (m : Machine) (w : World) : Iter :=
  if att then
    match nextAction env d m w with
    | .panic s => .panic s
    | .exit c d m w => .exit c true d m w none
    | .action .stopDebugger d m w => .cont false d m w none
    | .action .exitProgram d m w => .done true d m w
    | .action .proceed d m w =>
      if sigOf (m.read m.pc) == some .halt then .cont true d m w none
      else if Run.checkPcBounds m != .eq then .cont true d m w none
      else
        let d := { d with icount := if d.icount < 4294967295 then d.icount + 1 else d.icount,
                          nexec := d.nexec + 1 }
        -- (the debugger has established that PC is in user space and ≠ 0xFFFF)
        execOne env true d m w
  else
    if m.pc == 0xFFFF#16 then .done false d m w
    else match Run.checkPcBounds m with
      | .lt => .exit 0xEE false d m w none
      | .gt => .exit 0xEE false d m w none
      | .eq => execOne env false d m w

inductive DbgRun where
  /-- `run` returned (normal end or `exit` command); `attached` = debugger still attached -/
  | done (attached : Bool) (d : Dbg) (m : Machine) (w : World) (execs : List Word)
  | exit (code : Nat) (attached : Bool) (d : Dbg) (m : Machine) (w : World) (execs : List Word)
  | panic (site : String)
  | fuel (attached : Bool) (d : Dbg) (m : Machine) (w : World) (execs : List Word)

def pushExec (e : Option Word) (ex : List Word) : List Word :=
  match e with
  | some pc => pc :: ex
  | none => ex

/-- One `n` per iteration of the `loop` in `run`; `execs` collects (newest first) the addresses
of executed instructions. -/
def runLoop (env : Env) : Nat → Bool → Dbg → Machine → World → List Word → DbgRun
  | 0, att, d, m, w, ex => .fuel att d m w ex
  | n + 1, att, d, m, w, ex =>
    match iter env att d m w with
    | .cont att d m w e => runLoop env n att d m w (pushExec e ex)
    | .done att d m w => .done att d m w ex
    | .exit c att d m w e => .exit c att d m w (pushExec e ex)
    | .panic s => .panic s

/-- `Debugger::new` (+ `Breakpoints::with_orig`) -/
def newDbg (initial : Machine) (bpsRel : List Word) (cmds : List Command) : Dbg :=
  { initial := initial, status := .wait,
    bps := bpsRel.map fun a => { address := a + initial.pc, predefined := true },
    curBp := none, icount := 0, cmds := cmds, errRev := [], ncmds := 0, nexec := 0, cmdAt := [] }

end Lace.Dbg
