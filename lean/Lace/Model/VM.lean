/-
  MODEL of `src/runtime.rs`: `RunState::execute`, the sixteen handlers, `s_ext`, `set_flags`,
  `push_val` / `pop_val`, `read_char`, and the parts of `src/output.rs` that decide what
  `Output::Normal` puts on stdout.  Written function by function in the shape of the Rust
  code (shifts and masks, the `!sign + 1` trick, the opcode table), not in the shape of the
  ISA manual; `Lace/Props/C02.lean` proves the two agree.
-/
import Lace.Basic.Machine
import Lace.Basic.Fmt
import Lace.Basic.Tables
namespace Lace.VM

/-- `RunState::reg(reg: u16)` / `reg_mut`: the argument is always `… & 0b111`
(`debug_assert!(reg < 8)`, see `regfield_lt` in the proofs); indexing uses its low 3 bits. -/
@[inline] def reg (m : Machine) (r : Word) : Word := m.getReg (r.setWidth 3)
@[inline] def setReg (m : Machine) (r : Word) (v : Word) : Machine := m.setReg (r.setWidth 3) v

/-- `fn s_ext(mut val: u16, bits: u32) -> u16` -/
def sExt (val : Word) (bits : Nat) : Word :=
  let sign := val &&& (1#16 <<< (bits - 1))
  let val := val &&& ((1#16 <<< bits) - 1)
  let signExtension := (~~~ sign) + 1        -- (!sign).wrapping_add(1)
  val ||| signExtension

/-- `fn set_flags(&mut self, val: u16)`: `(val as i16).cmp(&0)` -/
def setFlags (m : Machine) (val : Word) : Machine :=
  m.setCC (match compare val.toInt 0 with
    | .lt => CC.n
    | .eq => CC.z
    | .gt => CC.p)

/-- `RunFlag as u16` -/
def flagBits : CC → Word
  | .n => 0b100#16
  | .z => 0b010#16
  | .p => 0b001#16
  | .none => 0#16

/-! ### `Output::Normal` (src/output.rs) -/

/-- `Output::Normal.print(ch)` for a single `char`: `NormalWriter::write_str` receives a
one-character string; in minimal mode `Decolored` skips an ESC (and would skip up to the next
`m` *of the same string*, which is empty here). -/
def printChar (minimal : Bool) (w : World) (c : Char) : World :=
  if minimal then
    if c == Char.ofNat 0x1b then w else { w with outRev := c :: w.outRev }
  else { w with outRev := c :: w.outRev }

/-- `Output::Normal.print(<text without ESC produced by integer formatting>)` -/
def printStr (minimal : Bool) (w : World) (cs : List Char) : World :=
  cs.foldl (printChar minimal) w

/-- `fn read_char() -> char` on a non-terminal stdin, with `read_byte_stdin`:
`none` = `UnexpectedEof` → `std::process::exit(1)`. -/
def readChar (w : World) : Option (Char × World) :=
  match w.inp with
  | [] => none
  | byte :: rest =>
    let w' := { w with inp := rest }
    if byte < 128 then some (Char.ofNat byte, w') else some (Char.ofNat 0xFFFD, w')

/-- `ch as u16` -/
def charAsU16 (c : Char) : Word := BitVec.ofNat 16 c.toNat

/-- `(x & 0xFF) as u8 as char` -/
def asciiOf (x : Word) : Char := Char.ofNat (x &&& 0xFF#16).toNat

/-! ### Handlers -/

def add (m : Machine) (instr : Word) : Machine :=
  let dr := (instr >>> 9) &&& 0b111#16
  let sr := (instr >>> 6) &&& 0b111#16
  let val1 := reg m sr
  let val2 := if instr &&& 0b100000#16 == 0#16 then reg m (instr &&& 0b111#16) else sExt instr 5
  let res := val1 + val2
  let m := setFlags m res
  setReg m dr res

def and (m : Machine) (instr : Word) : Machine :=
  let dr := (instr >>> 9) &&& 0b111#16
  let sr := (instr >>> 6) &&& 0b111#16
  let val1 := reg m sr
  let val2 := if instr &&& 0b100000#16 == 0#16 then reg m (instr &&& 0b111#16) else sExt instr 5
  let res := val1 &&& val2
  let m := setFlags m res
  setReg m dr res

def br (m : Machine) (instr : Word) : Machine :=
  let flag := (instr >>> 9) &&& 0b111#16
  if flagBits m.cc &&& flag != 0#16 then m.setPC (m.pc + sExt instr 9) else m

def jmp (m : Machine) (instr : Word) : Machine :=
  let br := (instr >>> 6) &&& 0b111#16
  m.setPC (reg m br)

/-- `jsr` after `fix: JSRR reads its base register before linking`. -/
def jsr (m : Machine) (instr : Word) : Machine :=
  if instr &&& 0x800#16 == 0#16 then
    let br := (instr >>> 6) &&& 0b111#16
    let target := reg m br
    (setReg m 7#16 m.pc).setPC target
  else
    let target := m.pc + sExt instr 11
    (setReg m 7#16 m.pc).setPC target

def ld (m : Machine) (instr : Word) : Machine :=
  let dr := (instr >>> 9) &&& 0b111#16
  let val := m.read (m.pc + sExt instr 9)
  let m := setReg m dr val
  setFlags m val

def ldi (m : Machine) (instr : Word) : Machine :=
  let dr := (instr >>> 9) &&& 0b111#16
  let ptr := m.read (m.pc + sExt instr 9)
  let val := m.read ptr
  let m := setReg m dr val
  setFlags m val

def ldr (m : Machine) (instr : Word) : Machine :=
  let dr := (instr >>> 9) &&& 0b111#16
  let br := (instr >>> 6) &&& 0b111#16
  let ptr := reg m br
  let val := m.read (ptr + sExt instr 6)
  let m := setReg m dr val
  setFlags m val

def lea (m : Machine) (instr : Word) : Machine :=
  let dr := (instr >>> 9) &&& 0b111#16
  let val := m.pc + sExt instr 9
  let m := setReg m dr val
  setFlags m val

def not (m : Machine) (instr : Word) : Machine :=
  let dr := (instr >>> 9) &&& 0b111#16
  let sr := (instr >>> 6) &&& 0b111#16
  let val := ~~~ (reg m sr)
  let m := setReg m dr val
  setFlags m val

def st (m : Machine) (instr : Word) : Machine :=
  let sr := (instr >>> 9) &&& 0b111#16
  let val := reg m sr
  m.write (m.pc + sExt instr 9) val

def sti (m : Machine) (instr : Word) : Machine :=
  let sr := (instr >>> 9) &&& 0b111#16
  let val := reg m sr
  let ptr := m.read (m.pc + sExt instr 9)
  m.write ptr val

def str (m : Machine) (instr : Word) : Machine :=
  let sr := (instr >>> 9) &&& 0b111#16
  let br := (instr >>> 6) &&& 0b111#16
  let ptr := reg m br
  let val := reg m sr
  m.write (ptr + sExt instr 6) val

/-- `push_val` (after `fix: wrapping stack pointer arithmetic`) -/
def pushVal (m : Machine) (val : Word) : Machine :=
  let m := setReg m 7#16 (reg m 7#16 - 1)
  let sp := reg m 7#16
  m.write sp val

/-- `pop_val` -/
def popVal (m : Machine) : Word × Machine :=
  let sp := reg m 7#16
  let val := m.read sp
  (val, setReg m 7#16 (reg m 7#16 + 1))

def stack (stackOn : Bool) (m : Machine) (w : World) (instr : Word) : StepResult :=
  if !stackOn then .exit 1 w
  else if instr &&& 0x0800#16 != 0#16 then
    if instr &&& 0x0400#16 != 0#16 then
      let m := pushVal m m.pc
      .ok (m.setPC (m.pc + sExt instr 10)) w
    else
      let (v, m) := popVal m
      .ok (m.setPC v) w
  else
    let r := (instr >>> 6) &&& 0b111#16
    if instr &&& 0x0400#16 != 0#16 then
      let val := reg m r
      .ok (pushVal m val) w
    else
      let (val, m) := popVal m
      .ok (setReg m r val) w

/-- PUTS loop (after `fix: PUTS/PUTSP wrap at the top of memory`):
`for offset in 0..=u16::MAX { addr = r0.wrapping_add(offset); … break on '\0' }`.
`n` counts the iterations still to run. -/
def putsLoop (minimal : Bool) (m : Machine) : Nat → Word → World → World
  | 0, _, w => w
  | n + 1, addr, w =>
    let chrRaw := m.read addr
    let chrAscii := asciiOf chrRaw
    if chrAscii == Char.ofNat 0 then w
    else putsLoop minimal m n (addr + 1) (printChar minimal w chrAscii)

/-- PUTSP loop (after `fix: PUTSP prints the low byte first`):
`for chr in [chr_raw & 0xFF, chr_raw >> 8] { if chr == 0 { break 'string } print }`. -/
def putspLoop (minimal : Bool) (m : Machine) : Nat → Word → World → World
  | 0, _, w => w
  | n + 1, addr, w =>
    let chrRaw := m.read addr
    let lo := asciiOf (chrRaw &&& 0xFF#16)
    if lo == Char.ofNat 0 then w
    else
      let w := printChar minimal w lo
      let hi := asciiOf (chrRaw >>> 8)
      if hi == Char.ofNat 0 then w
      else putspLoop minimal m n (addr + 1) (printChar minimal w hi)

/-- `Output::print_integer_inner` in normal mode -/
def printIntegerInner (minimal : Bool) (w : World) (v : Word) : World :=
  let w := printStr minimal w ("0x".toList ++ hex4 v)
  let w := printStr minimal w ("  ".toList ++ Tables.padLeft 6 (decI16 v))
  let w := printStr minimal w ("  ".toList ++ Tables.padLeft 6 (decNat v.toNat))
  let w := printStr minimal w "    ".toList
  printStr minimal w (Tables.charDisplay v)

/-- `Output::print_registers` -/
def printRegisters (minimal : Bool) (m : Machine) (w : World) : World :=
  if minimal then
    let w := (List.range 8).foldl (fun w i =>
        printStr minimal w (['R'] ++ decNat i ++ [' ', 'x'] ++ hex4 (reg m (BitVec.ofNat 16 i)) ++ ['\n'])) w
    let w := printStr minimal w ("PC x".toList ++ hex4 m.pc ++ ['\n'])
    printStr minimal w ("CC ".toList ++ bin3 ((flagBits m.cc).setWidth 3) ++ ['\n'])
  else
    let w := printStr minimal w "\x1b[2m┌───────────────────────────────────┐\x1b[0m\n".toList
    let w := printStr minimal w "\x1b[2m│        \x1b[3mhex     int    uint    chr\x1b[0m\x1b[2m │\x1b[0m\n".toList
    let w := (List.range 8).foldl (fun w i =>
        let w := printStr minimal w "\x1b[2m│\x1b[0m".toList
        let w := printStr minimal w (" \x1b[1mR\x1b[1m".toList ++ decNat i ++ "\x1b[0m  ".toList)
        let w := printIntegerInner minimal w (reg m (BitVec.ofNat 16 i))
        printStr minimal w " \x1b[2m│\x1b[0m\n".toList) w
    let w := printStr minimal w "\x1b[2m├─────────────────┬─────────────────┤\x1b[0m\n".toList
    let w := printStr minimal w "\x1b[2m│\x1b[0m".toList
    let w := printStr minimal w "    \x1b[1mPC\x1b[0m".toList
    let w := printStr minimal w (" 0x".toList ++ hex4 m.pc)
    let w := printStr minimal w "\x1b[2m    │    \x1b[0m".toList
    let w := printStr minimal w " \x1b[1mCC\x1b[0m".toList
    let w := printStr minimal w ("  ".toList ++ bin3 ((flagBits m.cc).setWidth 3))
    let w := printStr minimal w "     \x1b[2m│\x1b[0m\n".toList
    printStr minimal w "\x1b[2m└─────────────────┴─────────────────┘\x1b[0m\n".toList

def trap (minimal : Bool) (m : Machine) (w : World) (instr : Word) : StepResult :=
  let trapVect := instr &&& 0xFF#16
  match trapVect.toNat with
  | 0x20 =>
    match readChar w with
    | none => .exit 1 w
    | some (ch, w) => .ok (setReg m 0#16 (charAsU16 ch)) w
  | 0x21 =>
    let chr := asciiOf (reg m 0#16)
    .ok m (printChar minimal w chr)
  | 0x22 => .ok m (putsLoop minimal m 65536 (reg m 0#16) w)
  | 0x23 =>
    match readChar w with
    | none => .exit 1 w
    | some (ch, w) => .ok (setReg m 0#16 (charAsU16 ch)) (printChar minimal w ch)
  | 0x24 => .ok m (putspLoop minimal m 65536 (reg m 0#16) w)
  | 0x25 =>
    -- `self.pc = HALT_ADDRESS; println!("\n{:>12}", "Halted".cyan())` (no colour when piped)
    .ok (m.setPC 0xFFFF#16) { w with outRev := haltBanner.reverse ++ w.outRev }
  | 0x26 => .ok m (printStr minimal w (decI16 (reg m 0#16)))
  | 0x27 => .ok m (printRegisters minimal m w)   -- `start_new_line` only writes to stderr
  | _ => .exit 0xEE w

/-- `RunState::execute`: `OP_TABLE[(instr >> 12) as usize](self, instr)` -/
def execute (stackOn minimal : Bool) (instr : Word) (m : Machine) (w : World) : StepResult :=
  match (instr >>> 12).toNat with
  | 0x0 => .ok (br m instr) w
  | 0x1 => .ok (add m instr) w
  | 0x2 => .ok (ld m instr) w
  | 0x3 => .ok (st m instr) w
  | 0x4 => .ok (jsr m instr) w
  | 0x5 => .ok (and m instr) w
  | 0x6 => .ok (ldr m instr) w
  | 0x7 => .ok (str m instr) w
  | 0x8 => .panic "rti"                 -- `todo!()`
  | 0x9 => .ok (not m instr) w
  | 0xA => .ok (ldi m instr) w
  | 0xB => .ok (sti m instr) w
  | 0xC => .ok (jmp m instr) w
  | 0xD => stack stackOn m w instr
  | 0xE => .ok (lea m instr) w
  | _   => trap minimal m w instr

end Lace.VM
