/-
  MODEL of `lace run` when standard input is a TERMINAL: `RunState::trap` for GETC / IN calls
  `runtime::read_char`, which (because `stdin.is_terminal()`) calls `term::read_byte`
  (`Lace/Model/Term.lean`) instead of reading a byte from the pipe.  Everything else is the pipe
  model (`VM.execute`, `Run.loop`, `Cli.runLoaded`): no other instruction looks at standard input.

  `Lace.C03.terminal_run_eq_pipe_run` (`Lace/Props/C03TermRun.lean`) proves that a whole run on
  the terminal path is the run of the pipe path on `pipeBytes` of the events.
-/
import Lace.Model.Cli
import Lace.Model.Term
namespace Lace.TermRun
open Lace Lace.Term

/-- The outside of a process whose standard input is a terminal. -/
structure TWorld where
  /-- standard output (`outRev`); `inp` is never looked at on this path -/
  w : World
  /-- `BUFFERED_BYTE_COUNT` and crossterm's raw-mode flag -/
  st : TermState
  /-- the events `event::read()` will return -/
  evs : List Event

/-- Result of executing one instruction. -/
inductive TStep where
  | ok (m : Machine) (tw : TWorld)
  | exit (code : Nat) (tw : TWorld)
  | panic (site : String)
  /-- waiting for a key that never comes -/
  | blocked (tw : TWorld)

/-- An instruction that does not read: the pipe model's result, the terminal untouched. -/
def lift (tw : TWorld) : StepResult → TStep
  | .ok m w => .ok m { tw with w := w }
  | .exit c w => .exit c { tw with w := w }
  | .panic s => .panic s

/-- `RunState::trap`.  GETC / IN: `read_char()` of `runtime.rs` on a terminal.  `Ctrl+C` inside
`Key::try_from`: `disable_raw_mode(); println!(); std::process::exit(0)` — the line feed goes
straight to stdout, not through `Output`. -/
def trap (minimal : Bool) (m : Machine) (tw : TWorld) (instr : Word) : TStep :=
  let trapVect := instr &&& 0xFF#16
  match trapVect.toNat with
  | 0x20 =>
    match runtimeReadChar tw.st tw.evs with
    | .val ch st rest => .ok (VM.setReg m 0#16 (VM.charAsU16 ch)) { tw with st := st, evs := rest }
    | .blocked => .blocked tw
    | .ctrlC => .exit 0 { tw with w := { tw.w with outRev := '\n' :: tw.w.outRev } }
    | .panic s => .panic s
  | 0x23 =>
    match runtimeReadChar tw.st tw.evs with
    | .val ch st rest =>
      .ok (VM.setReg m 0#16 (VM.charAsU16 ch)) { w := VM.printChar minimal tw.w ch, st := st, evs := rest }
    | .blocked => .blocked tw
    | .ctrlC => .exit 0 { tw with w := { tw.w with outRev := '\n' :: tw.w.outRev } }
    | .panic s => .panic s
  | _ => lift tw (VM.trap minimal m tw.w instr)

/-- `RunState::execute`: only opcode 0xF (TRAP) can reach `read_char`. -/
def execute (stackOn minimal : Bool) (instr : Word) (m : Machine) (tw : TWorld) : TStep :=
  if (instr >>> 12).toNat < 0xF then lift tw (VM.execute stackOn minimal instr m tw.w)
  else trap minimal m tw instr

inductive TRunResult where
  | done (m : Machine) (tw : TWorld)
  | exit (code : Nat) (m : Machine) (tw : TWorld)
  | panic (site : String)
  | fuel (m : Machine) (tw : TWorld)
  | blocked (m : Machine) (tw : TWorld)

/-- `RunEnvironment::run` without a debugger (`Run.loop`), standard input a terminal. -/
def loop (so mi : Bool) : Nat → Machine → TWorld → TRunResult
  | 0, m, tw => .fuel m tw
  | n + 1, m, tw =>
    if m.pc == 0xFFFF#16 then .done m tw
    else match Run.checkPcBounds m with
      | .lt => .exit 0xEE m tw
      | .gt => .exit 0xEE m tw
      | .eq =>
        let instr := m.read m.pc
        if m.pc.toNat + 1 ≥ 65536 then .panic "pc += 1 overflow"
        else
          let m1 := m.setPC (m.pc + 1)
          match execute so mi instr m1 tw with
          | .ok m' tw' => loop so mi n m' tw'
          | .exit c tw' => .exit c m1 tw'
          | .panic s => .panic s
          | .blocked tw' => .blocked m1 tw'

/-- Result of a `lace` process on a terminal. -/
inductive TProc where
  | finished (r : Cli.ProcResult)
  | panic (site : String)
  | fuel
  /-- still waiting for a key -/
  | blocked

/-- `Cli.runLoaded`, terminal path. -/
def runLoaded (so mi : Bool) (fuel : Nat) (name : List Char) (m : Machine) (tw : TWorld) : TProc :=
  let tw := { tw with w := Cli.withOut tw.w (Cli.message "Running".toList "emitted binary".toList) }
  match loop so mi fuel m tw with
  | .done _ tw => .finished { status := 0, out := (Cli.withOut tw.w (Cli.message "Completed".toList ("target ".toList ++ name))).output }
  | .exit c _ tw => .finished { status := c, out := tw.w.output }
  | .panic s => .panic s
  | .fuel _ _ => .fuel
  | .blocked _ _ => .blocked

/-- `Cli.runAssembled`, terminal path: `lace run <name>.asm` with the events `evs` arriving on the
terminal that is its standard input. -/
def runAssembled (so mi : Bool) (fuel : Nat) (name : List Char) (orig : Option Word) (words : List Word)
    (evs : List Event) : TProc :=
  let w : World := { inp := [], outRev := [] }
  let w := Cli.withOut w (Cli.message "Assembling".toList ("target ".toList ++ name))
  match Run.fromRaw (orig.getD 0x3000#16 :: words) with
  | .exit c => .finished { status := c, out := w.output }
  | .panic s => .panic s
  | .ok m => runLoaded so mi fuel name m { w := w, st := TermState.init, evs := evs }

end Lace.TermRun
