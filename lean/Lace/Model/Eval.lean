/-
  MODEL of `src/debugger/eval.rs` (`eval`, `eval_inner`) on top of the assembler model
  (`parseSimple`, `AsmLine.backpatch`, `AsmLine.emit`) and the VM model (`VM.execute`), in
  `--minimal` mode.

  After the fixes of D17 and D18:

  * the statement is given line number `pc − orig` (mod 2^16): the line of the statement *just
    before* the program counter (statement `n` lives at `orig + n − 1`).  `execute` adds a
    PC-relative offset to `state.pc()` as it stands — under the debugger that is the address of
    the next instruction to run, nothing has been incremented — and `bit_offs` yields
    `label_line − asm_line − 1`, so `pc + offset = orig + label_line − 1`: the label's address,
    wherever the PC is.  (The original used line 0, which is right only at PC = origin.)
  * the parser's own line counter (from which *literal* offsets are counted) is `asm_line + 1`,
    as it was when `asm_line` was the constant 0: `eval ld r0 #k` still reads `mem[pc + 1 + k]`.
  * tokens after the last operand are a diagnostic (was: `debug_assert!`).

  What `eval` prints on stderr: a refusal prints one identifier line
  (`DisallowedInstruction::…`); a `miette` diagnostic prints free text, canonicalised by the
  harness to the single line `<evalmsg>`.
-/
import Lace.Model.Assemble
import Lace.Model.Debugger
namespace Lace.Dbg
open Lace

/-- canonical form of a printed `miette` report -/
def evalMsg : List (List Char) := ["<evalmsg>".toList]

/-- The refusal patterns of `eval_inner`, in the order of the `match`. -/
def refusalOf : Asm.Stmt → Option String
  | .branch _ _ => some "DisallowedInstruction::Branch"
  | .interrupt => some "DisallowedInstruction::Interrupt"
  | .trap v =>
    if v = 0x25#8 then some "DisallowedInstruction::Halt"
    else if v.toNat < 0x20 ∨ 0x27 < v.toNat then some "DisallowedInstruction::UnknownTrap"
    else none
  | _ => none

/-- `AirStmt::RawWord { .. }` -/
def isRawWord : Asm.Stmt → Bool
  | .rawWord _ => true
  | _ => false

/-- `eval_inner` after parsing: refusal patterns, `AsmLine::new(asm_line, stmt, dummy)`,
`backpatch`, `emit`, `execute`. -/
def evalStmt (so mi : Bool) (tbl : Asm.SymTab) (asmLine : Nat) (m : Machine) (w : World)
    (stmt : Asm.Stmt) : EvalResult :=
  match refusalOf stmt with
  | some ident => .refused [ident.toList]
  | none =>
    if isRawWord stmt then .panic "unreachable: tried to simulate raw word"
    else
      match Asm.AsmLine.backpatch tbl { line := asmLine, stmt := stmt, span := Asm.Span.dummy } with
      | none => .refused evalMsg                         -- "Label not found"
      | some a =>
        match a.emit with
        | .diag _ _ => .refused evalMsg                  -- label out of range of the field
        | .panic s => .panic s
        | .ok instr =>
          match VM.execute so mi instr m w with
          | .ok m' w' => .ok m' w'
          | .exit c w' => .exit c w'
          | .panic s => .panic s

/-- the line number `eval_inner` gives the statement: `state.pc().wrapping_sub(orig)` -/
def evalLine (orig : Word) (m : Machine) : Nat := (m.pc - orig).toNat

/-- `eval_inner(state, orig, line)`; `tbl` is the thread-local symbol table left by the assembler,
`orig` is `Debugger::orig()`. -/
def evalInner (so mi : Bool) (tbl : Asm.SymTab) (orig : Word) (m : Machine) (w : World)
    (text : List Char) : EvalResult :=
  let asmLine := evalLine orig m
  match Asm.parseSimple (some so) tbl ((asmLine + 1) % 65536) text with
  | .diag _ _ => .refused evalMsg
  | .panic s => .panic s
  | .ok stmt => evalStmt so mi tbl asmLine m w stmt

end Lace.Dbg
