/-
  MODEL of `break list` in the NORMAL (non `--minimal`) output mode:

    src/debugger/mod.rs   `Command::BreakList` (the `else` branch of `Output::is_minimal()`),
                          `resolve_symbol_name`
    src/debugger/asm.rs   `AsmSource::get_single_line`
    src/output.rs         `Output::print_breakpoint_table` with its closure `print_cell`
                          (the literal pieces of the table are `Lace.Tables.bpTable`)

  The output is a function of (breakpoint list, origin, symbol table, statement spans, source).

  WHAT IS MODELLED.  The text handed to `DebuggerWriter::write_str`, i.e. the table with the escape
  sequences `print_breakpoint_table` itself writes (`ESC[2m`, `ESC[0;1m`, …).  `DebuggerWriter`
  wraps every single `write_str` in `Colored`, which puts the colour code `ESC[34m` in front of
  each piece and again after every escape sequence inside it; how many pieces one `print(…)` call
  is cut into is decided by Rust's formatting machinery (`{:04x}` arrives as several writes).  The
  model does not mirror that: observations are compared AFTER removing the `ESC [ … final-byte`
  sequences from both sides (`Lace.Tables.stripAnsi` here, `tty::strip_ansi` in the harness).
  Nothing else is removed — widths, padding, box characters, `…`, line breaks are compared.

  Import-free apart from the model (core Lean only).
-/
import Lace.Basic.Tables
import Lace.Model.AsmSource
import Lace.Model.Debugger
namespace Lace.Dbg
open Lace

/-! ### `print_cell` as the loop it is -/

/-- The `for (i, ch) in text.chars().enumerate()` loop of `print_cell`:

        len += 1;  if i > width - 3 { print('…'); break; }  print(ch);

    returns what was printed and the final `len`.  (`width - 3` is `usize` arithmetic: the two
    call sites pass the constants 14 and 28.) -/
def printCellLoop (width : Nat) : List Char → Nat → Nat → List Char × Nat
  | [], _, len => ([], len)
  | ch :: rest, i, len =>
    if i > width - 3 then (['…'], len + 1)
    else
      let r := printCellLoop width rest (i + 1) (len + 1)
      (ch :: r.1, r.2)

/-- `print_cell(text, width)`: the loop, then `for _ in len..width - 1 { print(' ') }`. -/
def printCell (text : List Char) (width : Nat) : List Char :=
  let r := printCellLoop width text 0 0
  r.1 ++ List.replicate (width - 1 - r.2) ' '

/-! ### `get_single_line`, `resolve_symbol_name` -/

/-- `AsmSource::get_single_line`: `Some(&self.src[span])` of the statement at `address`, `None`
when there is none; the slice may panic.  (The Rust code repeats `show_single_line` line by line,
and so does this definition; `Props/C17Table.lean` proves the two equal.) -/
def AsmSource.getSingleLine (s : AsmSource) (address : Word) : ShownLine :=
  match s.statementAt address with
  | none => .nothing
  | some (o, l) =>
    match sliceBytes s.src o l with
    | some t => .text t
    | none => .panic

/-- `resolve_symbol_name(address)`: the first key, in the hash map's iteration order, whose value
is `address + 1`.  `tbl` lists the entries of `SYMBOL_TABLE` in that (unspecified) order; see
`Props/C17Table.lean` (`resolveSymbolName_perm`) for when the order does not matter. -/
def resolveSymbolName (tbl : List (List Char × Word)) (address : Word) : Option (List Char) :=
  (tbl.find? fun p => p.2 == address + 1).map (·.1)

/-! ### `Command::BreakList`, normal mode -/

/-- Everything `break list` looks at. -/
structure BpView where
  orig : Word
  /-- `SYMBOL_TABLE` (label ↦ 1-based line), in iteration order -/
  symtab : List (List Char × Word)
  source : AsmSource
  deriving DecidableEq

/-- The closure handed to `print_breakpoint_table`, for one breakpoint:
`(address, resolve_symbol_name(address - orig).unwrap_or(""), get_single_line(address).unwrap_or(""))`.
Errors are the panics of the dev profile. -/
def bpRowOf (v : BpView) (b : Breakpoint) : Except String (Word × List Char × List Char) :=
  if b.address < v.orig then .error "address - self.orig(): subtraction overflow"
  else if b.address - v.orig = 0xFFFF#16 then .error "address + 1: addition overflow"
  else
    let label := (resolveSymbolName v.symtab (b.address - v.orig)).getD []
    match v.source.getSingleLine b.address with
    | .panic => .error "&self.src[range]"
    | .nothing => .ok (b.address, label, [])
    | .text t => .ok (b.address, label, t)

def bpRowsOf (v : BpView) : Breakpoints → Except String (List (Word × List Char × List Char))
  | [] => .ok []
  | b :: rest =>
    match bpRowOf v b with
    | .error e => .error e
    | .ok r =>
      match bpRowsOf v rest with
      | .error e => .error e
      | .ok rs => .ok (r :: rs)

/-- `print_category(Info)` -/
def infoMark : List Char := "  · ".toList

/-- What `break list` writes in the normal output mode.

* empty list: `dprintln!(Alternate, Info, …, ["No breakpoints exist."])` — the `Alternate` form
  goes through `dprint!`, so NO line break is written (the next prompt's `start_new_line` adds it);
* otherwise `dprintln!(Sometimes, Info, "Breakpoints:")` and the table. -/
def breakListNormal (v : BpView) (bps : Breakpoints) : Except String (List Char) :=
  if bps.isEmpty then .ok (infoMark ++ "No breakpoints exist.".toList)
  else
    match bpRowsOf v bps with
    | .error e => .error e
    | .ok rows => .ok (infoMark ++ "Breakpoints:\n".toList ++ Tables.bpTable rows)

/-- `LineTracker` run over a text without escape sequences: is the cursor at the start of a line
afterwards?  (`start` = before.)  Line breaks set it, other control characters leave it, anything
else clears it. -/
def lineStartAfter (start : Bool) : List Char → Bool
  | [] => start
  | c :: r =>
    if c = '\n' ∨ c = '\r' then lineStartAfter true r
    else if c.toNat < 0x20 ∨ c.toNat = 0x7f then lineStartAfter start r
    else lineStartAfter false r

/-- What stands on stderr between the echo of `break list` and the echo of the next command, escape
sequences removed: the command's output, then the line break `Output::start_new_line` supplies at
the top of the next `run_command` when the cursor is not at the start of a line. -/
def breakListSeen (out : List Char) : List Char :=
  let t := Tables.stripAnsi out
  if lineStartAfter true t then t else t ++ ['\n']

/-- The view of a program assembled from `src`: the assembler's origin, table and spans. -/
def viewOf (src : List Char) (img : Asm.Image) (tbl : Asm.SymTab) : BpView :=
  let orig : Word := img.orig.getD 0x3000#16
  { orig := orig,
    symtab := tbl.map fun (n, k) => (n, BitVec.ofNat 16 k),
    source := { orig := orig, spans := img.spans, src := src } }

end Lace.Dbg
