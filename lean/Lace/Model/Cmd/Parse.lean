/-
  Model of `src/debugger/command/parse/{mod,label,naive,name}.rs`: the `Arguments` iterator
  (byte cursor, space-only separation), the preliminary `NaiveType` check, `TryParse` for
  registers / PC offsets / labels / memory locations / locations, and the command-name tables.
-/
import Lace.Model.Cmd.Text
import Lace.Model.Cmd.Integer
namespace Lace.Cmd

/-! ## `label.rs` -/

/-- `label::can_start_with` -/
def canStartWith (ch : Char) : Bool :=
  let n := ch.toNat
  (97 ≤ n && n ≤ 122) || (65 ≤ n && n ≤ 90) || n == 95

/-- `label::can_contain` -/
def canContain (ch : Char) : Bool :=
  let n := ch.toNat
  (97 ≤ n && n ≤ 122) || (65 ≤ n && n ≤ 90) || (48 ≤ n && n ≤ 57) || n == 95

/-- Turn an integer result into an `i16` field: `Some(v) => v.as_i16()?`, `None => Err(..)`. -/
def offsetOf (r : PR Int) : PR Int :=
  match r with
  | .ok v => match asI16 v with
    | some o => .ok o
    | none => .err
  | .none => .err
  | .err => .err
  | .panic s => .panic s

/-- `impl TryParse for Label`: `(name, offset)`. `ByteCounted::len` is the byte length of the
consumed characters; `split_at` panics off a char boundary. -/
def tryParseLabel (string : List Char) : PR (List Char × Int) :=
  match string with
  | [] => .none
  | c :: rest =>
    if ¬ canStartWith c then .none else
    let length := c.utf8Size + utf8Len (rest.takeWhile canContain)
    match splitAtBytes string length with
    | none => .panic "label.rs: string.split_at(length)"
    | some (name, offsetStr) =>
      if offsetStr.isEmpty then .ok (name, 0) else
      match offsetOf (parseIntegerSigned offsetStr) with
      | .ok o => .ok (name, o)
      | .none => .err
      | .err => .err
      | .panic s => .panic s

/-! ## `TryParse` for `Register`, `PCOffset`, `MemoryLocation`, `Location` (`parse/mod.rs`) -/

def registerDigit (ch : Char) : Option (BitVec 3) :=
  let n := ch.toNat
  if 48 ≤ n ∧ n ≤ 55 then some (BitVec.ofNat 3 (n - 48)) else none

/-- `impl TryParse for Register` -/
def tryParseRegister (string : List Char) : PR (BitVec 3) :=
  match string with
  | [] => .none
  | c :: rest =>
    if ¬ (c = 'r' ∨ c = 'R') then .none else
    match rest with
    | [] => .none
    | digit :: rest =>
      match registerDigit digit with
      | none => .none
      | some r =>
        match rest with
        | [] => .ok r
        | ch :: _ => if canContain ch then .none else .err

/-- `impl TryParse for PCOffset` (`&string['^'.len_utf8()..]` is a slice at byte 1). -/
def tryParsePCOffset (string : List Char) : PR Int :=
  match string with
  | [] => .none
  | c :: _ =>
    if c ≠ '^' then .none else
    match dropBytes string 1 with
    | none => .panic "parse/mod.rs: &string['^'.len_utf8()..]"
    | some offsetStr =>
      if offsetStr.isEmpty then .ok 0 else offsetOf (parseInteger offsetStr)

/-- `impl TryParse for MemoryLocation` -/
def tryParseMemLoc (argument : List Char) : PR MemLoc :=
  match tryParsePCOffset argument with
  | .ok off => .ok (.pcOffset off)
  | .err => .err
  | .panic s => .panic s
  | .none =>
    match parseInteger argument with
    | .ok v => match asU16 v with
      | some a => .ok (.address a)
      | none => .err
    | .err => .err
    | .panic s => .panic s
    | .none =>
      match tryParseLabel argument with
      | .ok (name, off) => .ok (.label name off)
      | .err => .err
      | .panic s => .panic s
      | .none => .none

/-- `impl TryParse for Location` -/
def tryParseLoc (string : List Char) : PR Loc :=
  match tryParseRegister string with
  | .ok r => .ok (.reg r)
  | .err => .err
  | .panic s => .panic s
  | .none =>
    match tryParseMemLoc string with
    | .ok l => .ok (.mem l)
    | .err => .err
    | .panic s => .panic s
    | .none => .none

/-! ## `naive.rs` -/

inductive NaiveType where
  | integer | register | label | pcOffset
  deriving DecidableEq, Repr

/-- `NaiveType::is_str_integer` -/
def isStrInteger (string : List Char) : Bool :=
  match string with
  | [] => false
  | c :: rest =>
    if c = '-' ∨ c = '+' ∨ c = '#' ∨ (48 ≤ c.toNat ∧ c.toNat ≤ 57) then true else
    let radix? : Option Radix :=
      if c = 'b' ∨ c = 'B' then some .binary
      else if c = 'o' ∨ c = 'O' then some .octal
      else if c = 'x' ∨ c = 'X' then some .hex
      else none
    match radix? with
    | none => false
    | some radix =>
      -- `chars.next_if(|ch| matches!(ch, '-' | '+'))`: skip one sign character
      let rest := (takeSign rest).2
      if rest.isEmpty then false else rest.all (fun ch => (radix.parseDigit ch).isSome)

/-- `NaiveType::is_str_register` -/
def isStrRegister (string : List Char) : Bool :=
  match string with
  | c0 :: c1 :: rest =>
    (c0 = 'r' ∨ c0 = 'R') && (48 ≤ c1.toNat ∧ c1.toNat ≤ 55) &&
      !(match rest with | ch :: _ => canContain ch | [] => false)
  | _ => false

def isStrLabel (string : List Char) : Bool :=
  match string with | c :: _ => canStartWith c | [] => false

def isStrPCOffset (string : List Char) : Bool :=
  match string with | c :: _ => c = '^' | [] => false

/-- `impl TryFrom<&str> for NaiveType` (`none` = `Err(())`) -/
def naiveType (string : List Char) : Option NaiveType :=
  if isStrPCOffset string then some .pcOffset
  else if isStrRegister string then some .register
  else if isStrInteger string then some .integer
  else if isStrLabel string then some .label
  else none

/-! ## `Arguments` -/

/-- `struct Arguments<'a> { buffer, cursor /* byte index */, arg_count: u8 }` -/
structure Arguments where
  buffer : List Char
  cursor : Nat
  argCount : Nat
  deriving DecidableEq, Repr

def Arguments.from (buffer : List Char) : Arguments :=
  { buffer := buffer, cursor := 0, argCount := 0 }

/-- Result of the `for ch in self.buffer[self.cursor..].chars()` loop of `next_token_str`. -/
inductive Scan where
  | done (start length : Nat)
  | panic
  deriving DecidableEq, Repr

/-- The loop of `next_token_str`, including its `debug_assert!`. -/
def scanToken : List Char → Nat → Nat → Bool → Scan
  | [], start, length, _ => .done start length
  | ch :: rest, start, length, isStart =>
    if ch = ';' ∨ ch = '\n' then .panic
    else if isStart = true ∧ ch = ' ' then scanToken rest (start + ch.utf8Size) length true
    else if ch = ' ' then .done start length            -- `break`
    else scanToken rest start (length + ch.utf8Size) false

/-- `Option<&str>` with the updated iterator, or a panic. -/
inductive Tok where
  | some (tok : List Char) (it : Arguments)
  | none (it : Arguments)
  | panic (site : String)
  deriving DecidableEq, Repr

/-- `Arguments::next_token_str` -/
def Arguments.nextTokenStr (it : Arguments) : Tok :=
  match dropBytes it.buffer it.cursor with
  | none => .panic "parse/mod.rs: self.buffer[self.cursor..]"
  | some rest =>
    match scanToken rest it.cursor 0 true with
    | .panic => .panic "parse/mod.rs: debug_assert!(!matches!(ch, ';' | '\\n'))"
    | .done start length =>
      let end_ := start + length
      if start = end_ then .none it else
      match slice it.buffer start end_ with
      | none => .panic "parse/mod.rs: &self.buffer[start..end]"
      | some argument => .some argument { it with cursor := end_ }

/-- `Arguments::next_argument_str` (`arg_count: u8 += 1` is overflow-checked). -/
def Arguments.nextArgumentStr (it : Arguments) : Tok :=
  match it.nextTokenStr with
  | .some tok it' =>
    if it'.argCount + 1 > 255 then .panic "parse/mod.rs: self.arg_count += 1"
    else .some tok { it' with argCount := it'.argCount + 1 }
  | r => r

/-- `Arguments::get_rest`: `(rest, iterator)`; `none` = slice panic. -/
def Arguments.getRest (it : Arguments) : Option (List Char × Arguments) :=
  match dropBytes it.buffer it.cursor with
  | none => none
  | some rest => some (trim rest, { it with cursor := utf8Len it.buffer })

/-- `Result<T, error::Argument>` with the advanced iterator, or a panic. -/
inductive AR (α : Type) where
  | ok (a : α) (it : Arguments)
  | err
  | panic (site : String)

/-- `Arguments::expect_end` -/
def Arguments.expectEnd (it : Arguments) : AR Unit :=
  match it.nextArgumentStr with
  | .none it' => .ok () it'
  | .some _ _ => .err
  | .panic s => .panic s

/-- `Arguments::check_naive_type`: `true` = `Ok(())`, `false` = `Err(MismatchedType)`. -/
def checkNaiveType (accepted : List NaiveType) (argument : List Char) : Bool :=
  match naiveType argument with
  | none => true
  | some t => accepted.contains t

/-- `Arguments::next_integer_or` (`default = none` stands for `Err(MissingArgument)`). -/
def Arguments.nextIntegerOr (it : Arguments) (default : Option Word) : AR Word :=
  match it.nextArgumentStr with
  | .panic s => .panic s
  | .none it' => match default with
    | some d => .ok d it'
    | none => .err
  | .some argument it' =>
    if ¬ checkNaiveType [.integer] argument then .err else
    match parseInteger argument with
    | .err => .err
    | .panic s => .panic s
    | .none => .err
    | .ok v => match asU16Cast v with
      | some w => .ok w it'
      | none => .err

/-- `Arguments::next_integer` -/
def Arguments.nextInteger (it : Arguments) : AR Word := it.nextIntegerOr none

/-- `Arguments::next_positive_integer_or_default`: `.map(|value| value.max(1))` -/
def Arguments.nextPositiveIntegerOrDefault (it : Arguments) : AR Word :=
  match it.nextIntegerOr (some 1#16) with
  | .ok v it' => .ok (if v.toNat < 1 then 1#16 else v) it'
  | r => r

/-- `Arguments::next_memory_location_or` -/
def Arguments.nextMemoryLocationOr (it : Arguments) (default : Option MemLoc) : AR MemLoc :=
  match it.nextArgumentStr with
  | .panic s => .panic s
  | .none it' => match default with
    | some d => .ok d it'
    | none => .err
  | .some argument it' =>
    if ¬ checkNaiveType [.integer, .label, .pcOffset] argument then .err else
    match tryParseMemLoc argument with
    | .ok l => .ok l it'
    | .none => .err
    | .err => .err
    | .panic s => .panic s

def Arguments.nextMemoryLocation (it : Arguments) : AR MemLoc := it.nextMemoryLocationOr none
def Arguments.nextMemoryLocationOrDefault (it : Arguments) : AR MemLoc :=
  it.nextMemoryLocationOr (some (.pcOffset 0))

/-- `Arguments::next_location_or` (`default = none` stands for `Err(MissingArgument)`). -/
def Arguments.nextLocationOr (it : Arguments) (default : Option Loc) : AR Loc :=
  match it.nextArgumentStr with
  | .panic s => .panic s
  | .none it' => match default with
    | some d => .ok d it'
    | none => .err
  | .some argument it' =>
    match tryParseLoc argument with
    | .ok l => .ok l it'
    | .none => .err
    | .err => .err
    | .panic s => .panic s

/-- `Arguments::next_location` -/
def Arguments.nextLocation (it : Arguments) : AR Loc := it.nextLocationOr none
/-- `Arguments::next_location_or_default`: the program counter, `^0`. -/
def Arguments.nextLocationOrDefault (it : Arguments) : AR Loc :=
  it.nextLocationOr (some (.mem (.pcOffset 0)))

/-! ## `name.rs` -/

/-- `CommandNameEntry { name, candidates, misspellings }` -/
structure NameEntry where
  name : CommandName
  candidates : List String
  misspellings : List String

/-- `const COMMANDS` -/
def COMMANDS : List NameEntry := [
  ⟨.help, ["h", "help", "--help", "-h", ":h", "man", "info", "wtf"], []⟩,
  ⟨.continue_, ["c", "continue", "cont"], ["con", "proceed"]⟩,
  ⟨.print, ["p", "print"], ["get", "show", "display", "put", "puts", "out"]⟩,
  ⟨.move, ["m", "move"], ["set", "mov", "mv", "assign"]⟩,
  ⟨.registers, ["r", "registers", "reg"], ["dump", "register", "regs"]⟩,
  ⟨.goto, ["g", "goto"],
    ["jump", "call", "go", "go-to", "jsr", "jsrr", "br", "brn", "brz", "brp", "brnz", "brnp",
     "brzp", "brnzp"]⟩,
  ⟨.assembly, ["a", "assembly", "asm"], ["source", "src", "ass", "inspect"]⟩,
  ⟨.eval, ["e", "eval", "evil", "evaluate"],
    ["run", "exec", "execute", "sim", "simulate", "instruction", "instr"]⟩,
  ⟨.reset, ["z", "reset"], ["restart", "refresh", "reboot"]⟩,
  ⟨.echo, ["echo"], []⟩,
  ⟨.quit, ["q", "quit"], []⟩,
  ⟨.exit, ["x", "exit", ":q", ":wq", "^C"], ["halt", "end", "stop"]⟩,
  ⟨.stepOver, [], ["next", "step-over", "stepover"]⟩,
  ⟨.stepInto, ["si", "stepinto"],
    ["into", "in", "stepin", "step-into", "step-in", "stepi", "step-i", "sin"]⟩,
  ⟨.stepOut, ["so", "stepout"],
    ["finish", "fin", "out", "step-out", "stepo", "step-o", "sout"]⟩,
  ⟨.breakList, ["bl", "breaklist"],
    ["break-list", "break-ls", "blist", "bls", "bp", "breakpoint", "breakpointlist",
     "breakpoint-list"]⟩,
  ⟨.breakAdd, ["ba", "breakadd"], ["break-add", "badd", "breakpointadd", "breakpoint-add"]⟩,
  ⟨.breakRemove, ["br", "breakremove"],
    ["break-remove", "break-rm", "bremove", "brm", "breakpointremove", "breakpoint-remove"]⟩ ]

def COMMAND_STEP : List String := ["step", "s"]
def SUBCOMMANDS_STEP : List NameEntry := [
  ⟨.stepOver, [], ["next"]⟩,
  ⟨.stepInto, ["i", "into"], ["in"]⟩,
  ⟨.stepOut, ["o", "out"], ["finish", "fin"]⟩ ]

def COMMAND_BREAK : List String := ["b", "break"]
def SUBCOMMANDS_BREAK : List NameEntry := [
  ⟨.breakList, ["l", "list"], ["print", "show", "display", "dump", "ls"]⟩,
  ⟨.breakAdd, ["a", "add"], ["set", "move"]⟩,
  ⟨.breakRemove, ["r", "remove"], ["delete", "rm"]⟩ ]

/-- `name_matches` -/
def nameMatches (provided : List Char) (candidates : List String) : Bool :=
  candidates.any (fun candidate => eqIgnoreAsciiCase provided candidate.toList)

/-- `find_name_match`: `Ok(name)` / `Err(suggested)`. -/
def findNameMatch (provided : List Char) (entries : List NameEntry) :
    Except (Option CommandName) CommandName :=
  match entries.find? (fun e => nameMatches provided e.candidates) with
  | some e => .ok e.name
  | none =>
    match entries.find? (fun e => nameMatches provided e.misspellings) with
    | some e => .error (some e.name)
    | none => .error none

/-- Outcome of `get_command_name`. -/
inductive NameOutcome where
  | ok (name : CommandName) (it : Arguments)
  | err (suggested : Option CommandName)
  | exit (code : Nat)
  | panic (site : String)

/-- `name_matches_with_subcommand`: `none` = `Ok(None)` (the name is not this command). -/
def Arguments.nameMatchesWithSubcommand (it : Arguments) (commandName : List Char)
    (commands : List String) (subcommands : List NameEntry) (default : Option CommandName) :
    Option NameOutcome :=
  if ¬ nameMatches commandName commands then none else
  match it.nextTokenStr with
  | .panic s => some (.panic s)
  | .none it' => match default with
    | some command => some (.ok command it')
    | none => some (.err none)                       -- `MissingSubcommand`
  | .some subcommandName it' =>
    match findNameMatch subcommandName subcommands with
    | .ok command => some (.ok command it')
    | .error suggested => some (.err suggested)     -- `InvalidSubcommand`

/-- `Arguments::get_command_name` -/
def Arguments.getCommandName (it : Arguments) : NameOutcome :=
  if it.cursor ≠ 0 then .panic "name.rs: assert!(self.cursor == 0)" else
  match it.nextTokenStr with
  | .panic s => .panic s
  | .none _ => .panic "name.rs: expect(\"missing command name\")"
  | .some commandName it =>
    match it.nameMatchesWithSubcommand commandName COMMAND_STEP SUBCOMMANDS_STEP
        (some .stepOver) with
    | some r => r
    | none =>
    match it.nameMatchesWithSubcommand commandName COMMAND_BREAK SUBCOMMANDS_BREAK none with
    | some r => r
    | none =>
    match findNameMatch commandName COMMANDS with
    | .ok command => .ok command it
    | .error suggested =>
      if commandName = "sudo".toList then .exit 0        -- `println!("Goodbye"); exit(0)`
      else .err suggested

end Lace.Cmd
