/-
  Types of the debugger command language (`src/debugger/command/mod.rs`): the parsed command
  and the outcome classes of the parser.  Import-free apart from the basic vocabulary, so the
  compiled driver can link it and the debugger model can consume it.
-/
import Lace.Basic.Machine
namespace Lace.Cmd

/-- `MemoryLocation<'a>`: `PCOffset(i16)`, `Address(u16)`, `Label(Label { name, offset: i16 })`.
`off` is always within the `i16` range (theorem `Lace.C14.parse_offsets_in_range`). -/
inductive MemLoc where
  | pcOffset (off : Int)
  | address (a : Word)
  | label (name : List Char) (off : Int)
  deriving DecidableEq, Repr, Inhabited

/-- `Location<'a>`: a register or a memory location. -/
inductive Loc where
  | reg (r : BitVec 3)
  | mem (l : MemLoc)
  deriving DecidableEq, Repr, Inhabited

/-- `Command<'a>` -/
inductive Command where
  | help | stepOver | stepInto (count : Word) | stepOut | continue_ | registers
  | print (l : Loc) | move (l : Loc) (v : Word) | goto (l : MemLoc) | assembly (l : MemLoc)
  | eval (instr : List Char) | echo (s : List Char) | reset | quit | exit
  | breakList | breakAdd (l : MemLoc) | breakRemove (l : MemLoc)
  deriving DecidableEq, Repr, Inhabited

/-- `CommandName` (`pub(super) enum` in `command/mod.rs`). -/
inductive CommandName where
  | help | stepOver | stepInto | stepOut | continue_ | registers | print | move | goto
  | assembly | eval | echo | reset | quit | exit | breakList | breakAdd | breakRemove
  deriving DecidableEq, Repr, Inhabited

/-- `Result<Option<α>, error::Value>` plus the panic outcome of the dev profile.
`none` = "not a value of this type (try the next type)", `err` = "malformed token". -/
inductive PR (α : Type) where
  | ok (a : α)
  | none
  | err
  | panic (site : String)
  deriving DecidableEq, Repr

/-- Outcome of `Command::try_from(line)`: a command, an error report (`Err(error::Command)`,
the wording is not modelled), `std::process::exit(code)` (the `sudo` easter egg), or a panic. -/
inductive ParseOutcome where
  | ok (c : Command)
  | err
  | exit (code : Nat)
  | panic (site : String)
  deriving DecidableEq, Repr, Inhabited

end Lace.Cmd
