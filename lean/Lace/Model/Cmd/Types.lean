/-
  Parsed debugger commands (`Command`, `Location`, `MemoryLocation`, `Label` of
  `src/debugger/command/mod.rs`).
-/
import Lace.Basic.Machine
namespace Lace

inductive MemLoc where
  | pcOffset (off : Int)                       -- `i16`
  | address (a : Word)
  | label (name : List Char) (off : Int)       -- `i16` offset
  deriving Repr, DecidableEq

inductive Loc where
  | reg (r : BitVec 3)
  | mem (l : MemLoc)
  deriving Repr, DecidableEq

inductive Command where
  | help | stepOver | stepInto (count : Word) | stepOut | continue_ | registers
  | print (l : Loc) | move (l : Loc) (v : Word) | goto (l : MemLoc) | assembly (l : MemLoc)
  | eval (instr : List Char) | echo (s : List Char) | reset | quit | exit
  | breakList | breakAdd (l : MemLoc) | breakRemove (l : MemLoc)
  deriving Repr, DecidableEq

end Lace
