/-
  Model of `src/debugger/command/parse/integer.rs` (after the D24 fix: checked multiply / add).
  `IntegerValue = i32` is an `Int` with every overflow check explicit.
-/
import Lace.Model.Cmd.Types
namespace Lace.Cmd

def I32_MAX : Int := 2147483647
def I32_MIN : Int := -2147483648
def inI32 (v : Int) : Prop := I32_MIN ≤ v ∧ v ≤ I32_MAX
instance (v : Int) : Decidable (inI32 v) := by unfold inI32; exact inferInstance

/-- `enum Sign { Positive = 1, Negative = -1 }` -/
inductive Sign where
  | positive | negative
  deriving DecidableEq, Repr

def Sign.toInt : Sign → Int
  | .positive => 1
  | .negative => -1

/-- `enum Radix { Binary = 2, Octal = 8, Decimal = 10, Hex = 16 }` -/
inductive Radix where
  | binary | octal | decimal | hex
  deriving DecidableEq, Repr

def Radix.toNat : Radix → Nat
  | .binary => 2 | .octal => 8 | .decimal => 10 | .hex => 16

/-- `Radix::parse_digit`.  The `ch as u8 - b'0'` subtractions are guarded by the match arm
(lemma `parseDigit_lt`). -/
def Radix.parseDigit (r : Radix) (ch : Char) : Option Nat :=
  let n := ch.toNat
  match r with
  | .binary => if n = 48 then some 0 else if n = 49 then some 1 else none
  | .octal => if 48 ≤ n ∧ n ≤ 55 then some (n - 48) else none
  | .decimal => if 48 ≤ n ∧ n ≤ 57 then some (n - 48) else none
  | .hex =>
    if 48 ≤ n ∧ n ≤ 57 then some (n - 48)
    else if 97 ≤ n ∧ n ≤ 102 then some (n - 97 + 10)
    else if 65 ≤ n ∧ n ≤ 70 then some (n - 65 + 10)
    else none

/-- `take_sign`: consume one `+` / `-` if it is next. -/
def takeSign : List Char → Option Sign × List Char
  | '+' :: rest => (some .positive, rest)
  | '-' :: rest => (some .negative, rest)
  | chars => (none, chars)

/-- `PrefixResult` (with the two fields of `Prefix` inlined). -/
inductive PrefixResult where
  | integer (radix : Radix) (leadingZeros : Bool)
  | singleZero
  | nonInteger
  deriving DecidableEq, Repr

/-- `Result<PrefixResult, error::Value>` together with the advanced iterator. -/
inductive TakePrefix where
  | ok (p : PrefixResult) (rest : List Char)
  | err
  deriving DecidableEq, Repr

/-- `take_prefix`, after `leading_zeros` has been determined. -/
def takePrefixAfterZero (leadingZeros : Bool) (chars : List Char) : TakePrefix :=
  match chars with
  | [] => if leadingZeros then .ok .singleZero [] else .ok .nonInteger []
  | c :: rest =>
    if c = 'b' ∨ c = 'B' then .ok (.integer .binary leadingZeros) rest
    else if c = 'o' ∨ c = 'O' then .ok (.integer .octal leadingZeros) rest
    else if c = 'x' ∨ c = 'X' then .ok (.integer .hex leadingZeros) rest
    else if c = '#' then
      if leadingZeros then .err else .ok (.integer .decimal leadingZeros) rest
    else if 48 ≤ c.toNat ∧ c.toNat ≤ 57 then
      .ok (.integer .decimal leadingZeros) (c :: rest)      -- `consume_char = false`
    else if c = '-' ∨ c = '+' then .err
    else if leadingZeros then .err
    else .ok .nonInteger (c :: rest)

/-- `take_prefix`: `chars.next_if_eq(&'0').is_some()`, then the rest. -/
def takePrefix (chars : List Char) : TakePrefix :=
  match chars with
  | c :: rest => if c = '0' then takePrefixAfterZero true rest else takePrefixAfterZero false chars
  | [] => takePrefixAfterZero false chars

/-- The closure `end_of_integer_result`. -/
def endOfInteger (sign : Option Sign) (leadingZeros : Bool) (radix : Radix) : PR Int :=
  if sign.isSome ∨ leadingZeros = true ∨ radix = .decimal then .err else .none

/-- Result of the `for ch in chars.by_ref()` loop: it either runs to the end of the iterator
(`finished`, with what is left in the iterator) or returns early from the function. -/
inductive DigitLoop where
  | finished (rest : List Char) (v : Int)
  | early (r : PR Int)

/-- The digit loop.  `checked_mul` then `checked_add`, each `None` ↦ `IntegerTooLarge`. -/
def digitLoop (radix : Radix) (eoi : PR Int) : List Char → Int → DigitLoop
  | [], v => .finished [] v
  | ch :: rest, v =>
    match radix.parseDigit ch with
    | none => .early eoi
    | some d =>
      let shifted := v * (radix.toNat : Int)
      if ¬ inI32 shifted then .early .err else
      let next := shifted + (d : Int)
      if ¬ inI32 next then .early .err else
      digitLoop radix eoi rest next

/-- `parse_integer`, last part: from "Check if anything follows prefix" to the end. -/
def parseDigits (sign : Option Sign) (leadingZeros : Bool) (radix : Radix) (chars : List Char) :
    PR Int :=
  let eoi := endOfInteger sign leadingZeros radix
  if chars.isEmpty then eoi else
  match digitLoop radix eoi chars 0 with
  | .early r => r
  | .finished rest v =>
    if ¬ rest.isEmpty then .panic "integer.rs: assert!(chars.next().is_none())" else
    match sign with
    | none => .ok v
    | some s =>
      let r := v * s.toInt
      if ¬ inI32 r then .panic "integer.rs: integer *= sign overflow" else .ok r

/-- `parse_integer`, middle part: what is done with the result of `take_prefix`, up to the
reconciliation of the two signs. -/
def afterPrefix (firstSign : Option Sign) (p : TakePrefix) : PR Int :=
  match p with
  | .err => .err
  | .ok .singleZero _ => .ok 0
  | .ok .nonInteger _ => if firstSign.isSome then .err else .none
  | .ok (.integer radix leadingZeros) chars =>
    let (secondSign, chars) := takeSign chars
    match firstSign, secondSign with
    | some _, some _ => .err
    | some s, none => parseDigits (some s) leadingZeros radix chars
    | none, secondSign => parseDigits secondSign leadingZeros radix chars

def parseAfterSign (firstSign : Option Sign) (chars : List Char) : PR Int :=
  afterPrefix firstSign (takePrefix chars)

/-- `parse_integer(string, require_sign)` -/
def parseIntegerWith (string : List Char) (requireSign : Bool) : PR Int :=
  if string.isEmpty then .none else
  let (firstSign, chars) := takeSign string
  if requireSign = true ∧ firstSign.isNone then .err else
  parseAfterSign firstSign chars

/-- `Integer::try_parse` -/
def parseInteger (s : List Char) : PR Int := parseIntegerWith s false
/-- `Integer::try_parse_signed` -/
def parseIntegerSigned (s : List Char) : PR Int := parseIntegerWith s true

/-- `Integer::as_i16` (`None` = `Err(IntegerTooLarge)`) -/
def asI16 (v : Int) : Option Int :=
  if -32768 ≤ v ∧ v ≤ 32767 then some v else none

/-- `Integer::as_u16` -/
def asU16 (v : Int) : Option Word :=
  if 0 ≤ v ∧ v ≤ 65535 then some (BitVec.ofInt 16 v) else none

/-- `Integer::as_u16_cast`: negative values go through `i16` and are cast. -/
def asU16Cast (v : Int) : Option Word :=
  if v < 0 then (asI16 v).map (BitVec.ofInt 16) else asU16 v

end Lace.Cmd
