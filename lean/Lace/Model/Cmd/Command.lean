/-
  Model of `Command::parse_arguments` and `Command::try_from` (`src/debugger/command/mod.rs`).
-/
import Lace.Model.Cmd.Parse
namespace Lace.Cmd

/-- The tail of `parse_arguments`: `iter.expect_end(expected_args, iter.arg_count() + 1)?`
(`arg_count() + 1` is an overflow-checked `u8` addition evaluated before the call). -/
def finish (command : Command) (it : Arguments) : ParseOutcome :=
  if it.argCount + 1 > 255 then .panic "command/mod.rs: iter.arg_count() + 1" else
  match it.expectEnd with
  | .ok _ _ => .ok command
  | .err => .err
  | .panic s => .panic s

/-- `eval` / `echo`: `get_rest`, non-empty check, `debug_assert!(iter.expect_end(0, 0).is_ok())`. -/
def restCommand (mk : List Char → Command) (it : Arguments) : ParseOutcome :=
  match it.getRest with
  | none => .panic "parse/mod.rs: self.buffer[start..]"
  | some (rest, it') =>
    if rest.isEmpty then .err else
    match it'.expectEnd with
    | .ok _ _ => .ok (mk rest)
    | .err => .panic "command/mod.rs: debug_assert!(iter.expect_end(0, 0).is_ok())"
    | .panic s => .panic s

/-- `Command::parse_arguments` -/
def parseArguments (name : CommandName) (it : Arguments) : ParseOutcome :=
  match name with
  | .help => .ok .help                              -- trailing arguments allowed
  | .stepOver => finish .stepOver it
  | .continue_ => finish .continue_ it
  | .stepOut => finish .stepOut it
  | .registers => finish .registers it
  | .reset => finish .reset it
  | .quit => finish .quit it
  | .exit => finish .exit it
  | .stepInto =>
    match it.nextPositiveIntegerOrDefault with
    | .ok count it' => finish (.stepInto count) it'
    | .err => .err
    | .panic s => .panic s
  | .print =>
    match it.nextLocationOrDefault with
    | .ok location it' => finish (.print location) it'
    | .err => .err
    | .panic s => .panic s
  | .move =>
    match it.nextLocation with
    | .ok location it' =>
      match it'.nextInteger with
      | .ok value it'' => finish (.move location value) it''
      | .err => .err
      | .panic s => .panic s
    | .err => .err
    | .panic s => .panic s
  | .goto =>
    match it.nextMemoryLocation with
    | .ok location it' => finish (.goto location) it'
    | .err => .err
    | .panic s => .panic s
  | .assembly =>
    match it.nextMemoryLocationOrDefault with
    | .ok location it' => finish (.assembly location) it'
    | .err => .err
    | .panic s => .panic s
  | .breakList => finish .breakList it
  | .breakAdd =>
    match it.nextMemoryLocation with
    | .ok location it' => finish (.breakAdd location) it'
    | .err => .err
    | .panic s => .panic s
  | .breakRemove =>
    match it.nextMemoryLocation with
    | .ok location it' => finish (.breakRemove location) it'
    | .err => .err
    | .panic s => .panic s
  | .eval => restCommand .eval it
  | .echo => restCommand .echo it

/-- `Command::try_from(line)`: one already-split, already-trimmed, non-empty line. -/
def parseLine (line : List Char) : ParseOutcome :=
  match (Arguments.from line).getCommandName with
  | .ok name it => parseArguments name it
  | .err _ => .err
  | .exit code => .exit code
  | .panic s => .panic s

end Lace.Cmd
