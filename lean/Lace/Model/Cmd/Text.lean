/-
  Text primitives the command parser relies on: UTF-8 byte offsets into a `List Char`
  (Rust `&str` slicing, which panics off a char boundary), `str::trim` (Unicode `White_Space`),
  `eq_ignore_ascii_case`.
-/
namespace Lace.Cmd

/-- `s.len()` of a Rust `&str`: length in UTF-8 bytes. -/
def utf8Len : List Char → Nat
  | [] => 0
  | c :: cs => c.utf8Size + utf8Len cs

/-- `&s[n..]`; `none` = panic (`n` past the end or inside a character). -/
def dropBytes : List Char → Nat → Option (List Char)
  | s, 0 => some s
  | [], _ + 1 => none
  | c :: cs, n + 1 => if c.utf8Size ≤ n + 1 then dropBytes cs (n + 1 - c.utf8Size) else none

/-- `&s[..n]`; `none` = panic. -/
def takeBytes : List Char → Nat → Option (List Char)
  | _, 0 => some []
  | [], _ + 1 => none
  | c :: cs, n + 1 =>
    if c.utf8Size ≤ n + 1 then (takeBytes cs (n + 1 - c.utf8Size)).map (c :: ·) else none

/-- `&s[a..b]` (also `s.get(a..b)`); `none` = panic / `None`. -/
def slice (s : List Char) (a b : Nat) : Option (List Char) :=
  if a ≤ b then (dropBytes s a).bind (fun t => takeBytes t (b - a)) else none

/-- `s.split_at(n)`; `none` = panic. -/
def splitAtBytes (s : List Char) (n : Nat) : Option (List Char × List Char) :=
  match takeBytes s n, dropBytes s n with
  | some a, some b => some (a, b)
  | _, _ => none

/-- `char::is_whitespace`: the Unicode `White_Space` property (25 code points), transcribed
from `core::unicode::unicode_data::white_space`. -/
def isWhitespace (c : Char) : Bool :=
  let n := c.toNat
  (0x09 ≤ n && n ≤ 0x0D) || n == 0x20 || n == 0x85 || n == 0xA0 || n == 0x1680 ||
  (0x2000 ≤ n && n ≤ 0x200A) || n == 0x2028 || n == 0x2029 || n == 0x202F || n == 0x205F ||
  n == 0x3000

def trimStart (s : List Char) : List Char := s.dropWhile isWhitespace
def trimEnd (s : List Char) : List Char := (s.reverse.dropWhile isWhitespace).reverse
/-- `str::trim` -/
def trim (s : List Char) : List Char := trimEnd (trimStart s)

/-- `char::to_ascii_lowercase` -/
def toAsciiLower (c : Char) : Char :=
  if 65 ≤ c.toNat ∧ c.toNat ≤ 90 then Char.ofNat (c.toNat + 32) else c

/-- `str::eq_ignore_ascii_case` (byte-wise in Rust; the same relation on code points because
only ASCII bytes are changed and UTF-8 is self-synchronising). -/
def eqIgnoreAsciiCase (a b : List Char) : Bool :=
  a.map toAsciiLower == b.map toAsciiLower

end Lace.Cmd
