/-
  Model of `src/debugger/command/reader/{mod,argument,stdin}.rs` and of `Command::read_from`:
  the `--command` argument reader, the piped-stdin reader (byte-wise UTF-8 decoding),
  `CommandReader::read` (argument first, then the stream) and the read–trim–parse loop.
  The interactive terminal reader (`terminal.rs`) is not modelled (C20 covers the editor).
-/
import Lace.Model.Cmd.Command
namespace Lace.Cmd

/-! ## `argument.rs` -/

/-- `struct Argument { buffer: String, cursor: usize /* byte index */ }` -/
structure Argument where
  buffer : List Char
  cursor : Nat
  deriving DecidableEq, Repr

def Argument.from (source : List Char) : Argument := { buffer := source, cursor := 0 }

def isDelimiter (ch : Char) : Bool := ch = '\n' || ch = ';'

/-- One `Read::read`. -/
inductive ArgRead where
  | line (l : List Char) (a : Argument)
  | eof
  | panic (site : String)
  deriving DecidableEq, Repr

/-- `impl Read for Argument` -/
def Argument.read (a : Argument) : ArgRead :=
  if a.cursor ≥ utf8Len a.buffer then .eof else
  match dropBytes a.buffer a.cursor with
  | none => .panic "argument.rs: self.buffer[self.cursor..]"
  | some rest =>
    let start := a.cursor
    -- `while let Some(ch) = chars.next().filter(..) { self.cursor += ch.len_utf8() }`
    let end_ := a.cursor + utf8Len (rest.takeWhile (fun ch => !isDelimiter ch))
    match slice a.buffer start end_ with
    | none => .panic "argument.rs: expect(\"calculated incorrect character indexes\")"
    | some command => .line command { a with cursor := end_ + 1 }

/-! ## `stdin.rs` -/

/-- `enum Utf8Position` -/
inductive Utf8Position where
  | begin4 | begin3 | begin2 | begin1 | continuation
  deriving DecidableEq, Repr

/-- `Utf8Position::from(byte)` -/
def Utf8Position.from (byte : UInt8) : Utf8Position :=
  if byte &&& 0xF0 = 0xF0 then .begin4
  else if byte &&& 0xE0 = 0xE0 then .begin3
  else if byte &&& 0xC0 = 0xC0 then .begin2
  else if byte &&& 0x80 = 0x80 then .continuation
  else .begin1

def Utf8Position.len : Utf8Position → Option Nat
  | .begin4 => some 4 | .begin3 => some 3 | .begin2 => some 2 | .begin1 => some 1
  | .continuation => none

def Utf8Position.isContinuation : Utf8Position → Bool
  | .continuation => true
  | _ => false

/-- `std::str::from_utf8(bytes)` succeeds and the string is exactly one `char`.  The decoder is
Lean core's `ByteArray.utf8DecodeChar?` (strict: no overlong forms, no surrogates, ≤ U+10FFFF),
for which core proves the round trip with `String.utf8EncodeChar`. -/
def fromUtf8One (bytes : List UInt8) : Option Char :=
  match bytes.toByteArray.utf8DecodeChar? 0 with
  | some c => if c.utf8Size = bytes.length then some c else none
  | none => none

/-- The `for i in 1..utf8_len` loop: `n` continuation bytes. -/
def takeContinuation : Nat → List UInt8 → Option (List UInt8 × List UInt8)
  | 0, bytes => some ([], bytes)
  | _ + 1, [] => none
  | n + 1, byte :: rest =>
    if ¬ (Utf8Position.from byte).isContinuation then none else
    match takeContinuation n rest with
    | some (conts, rest') => some (byte :: conts, rest')
    | none => none

/-- `Result<Option<char>, ()>` and the remaining input. -/
inductive ReadChar where
  | char (c : Char) (rest : List UInt8)
  | eof
  | err
  deriving DecidableEq, Repr

/-- `read_char_from_bytes` applied to the byte stream. -/
def readCharFromBytes (bytes : List UInt8) : ReadChar :=
  match bytes with
  | [] => .eof
  | byte :: rest =>
    match (Utf8Position.from byte).len with
    | none => .err
    | some len =>
      match takeContinuation (len - 1) rest with
      | none => .err
      | some (conts, rest') =>
        match fromUtf8One (byte :: conts) with
        | some ch => .char ch rest'
        | none => .err

theorem takeContinuation_length {n : Nat} {bytes conts rest : List UInt8}
    (h : takeContinuation n bytes = some (conts, rest)) : rest.length ≤ bytes.length := by
  induction n generalizing bytes conts rest with
  | zero => simp [takeContinuation] at h; simp [h.2]
  | succ n ih =>
    cases bytes with
    | nil => simp [takeContinuation] at h
    | cons b bs =>
      simp only [takeContinuation] at h
      split at h
      · simp at h
      · split at h
        · rename_i c r hh
          simp at h
          have := ih hh
          simp [← h.2]; omega
        · simp at h

theorem readCharFromBytes_length {bytes rest : List UInt8} {c : Char}
    (h : readCharFromBytes bytes = .char c rest) : rest.length < bytes.length := by
  unfold readCharFromBytes at h
  split at h
  · simp at h
  · split at h
    · simp at h
    · split at h
      · simp at h
      · rename_i hh
        split at h
        · simp at h
          have := takeContinuation_length hh
          simp [← h.2]; omega
        · simp at h

/-- One `Stdin::read`. -/
inductive StdinRead where
  | line (l : List Char) (rest : List UInt8)
  | eof
  | panic (site : String)
  deriving DecidableEq, Repr

/-- The `loop` of `impl Read for Stdin` (`buffer` holds the characters pushed so far). -/
def stdinLoop (bytes : List UInt8) (buffer : List Char) : StdinRead :=
  match h : readCharFromBytes bytes with
  | .err => .panic "stdin.rs: expect(\"uh oh\")"
  | .eof => if buffer.isEmpty then .eof else .line buffer []
  | .char ch rest =>
    if ch = '\n' ∨ ch = ';' then .line buffer rest
    else stdinLoop rest (buffer ++ [ch])
termination_by bytes.length
decreasing_by exact readCharFromBytes_length h

/-- `impl Read for Stdin` (the buffer is cleared first). -/
def stdinRead (bytes : List UInt8) : StdinRead := stdinLoop bytes []

/-! ## `reader/mod.rs` -/

/-- `struct CommandReader { argument: Option<Argument>, stream }` with `stream = Stdin`:
the not-yet-consumed bytes of standard input. -/
structure Reader where
  argument : Option Argument
  stdin : List UInt8
  deriving DecidableEq, Repr

/-- `CommandReader::from(argument)` with piped standard input `stdin`. -/
def Reader.from (argument : Option (List Char)) (stdin : List UInt8) : Reader :=
  { argument := argument.map Argument.from, stdin := stdin }

/-- One `CommandReader::read`, all outcomes. -/
inductive Read where
  | line (l : List Char) (r : Reader)
  | eof (r : Reader)
  | panic (site : String)
  deriving DecidableEq, Repr

def Reader.readStream (r : Reader) : Read :=
  match stdinRead r.stdin with
  | .line l rest => .line l { r with stdin := rest }
  | .eof => .eof { r with stdin := [] }
  | .panic s => .panic s

/-- `impl Read for CommandReader`: argument first; when it is absent or exhausted, the stream. -/
def Reader.read (r : Reader) : Read :=
  match r.argument with
  | some argument =>
    match argument.read with
    | .line command a' => .line command { r with argument := some a' }
    | .panic s => .panic s
    | .eof => r.readStream
  | none => r.readStream

/-- One `CommandReader::read` as `Option line × new reader`.  A panic (only possible for
standard input that is not valid UTF-8, see `Lace.C14.read_no_panic`) is reported as end of
input with the reader unchanged; use `Reader.read` where the distinction matters. -/
def Reader.next (r : Reader) : Option (List Char) × Reader :=
  match r.read with
  | .line l r' => (some l, r')
  | .eof r' => (none, r')
  | .panic _ => (none, r)

/-- Bytes still to be consumed (termination measure of `readFrom`). -/
def Reader.size (r : Reader) : Nat :=
  (match r.argument with
   | some a => utf8Len a.buffer + 1 - a.cursor
   | none => 0) + r.stdin.length

/-- Outcome of `Command::read_from`: the command (`Some`), end of input (`None`), the process
exiting (`sudo`) or a panic; with the number of times `handle_error` was called. -/
inductive ReadFrom where
  | command (c : Command) (errors : Nat) (r : Reader)
  | eof (errors : Nat) (r : Reader)
  | exit (code : Nat) (errors : Nat)
  | panic (site : String) (errors : Nat)
  deriving DecidableEq, Repr

theorem stdinLoop_length {bytes rest : List UInt8} {buffer l : List Char}
    (h : stdinLoop bytes buffer = .line l rest) (hne : bytes ≠ []) :
    rest.length < bytes.length := by
  induction hn : bytes.length using Nat.strongRecOn generalizing bytes buffer with
  | _ n ih =>
    subst hn
    rw [stdinLoop] at h
    split at h
    · simp at h
    · rename_i heq
      unfold readCharFromBytes at heq
      split at heq
      · exact absurd rfl hne
      · split at heq
        · simp at heq
        · split at heq
          · simp at heq
          · split at heq <;> simp at heq
    · rename_i ch rest' heq
      have hlt := readCharFromBytes_length heq
      split at h
      · simp at h; rw [← h.2]; exact hlt
      · by_cases hr : rest' = []
        · subst hr
          rw [stdinLoop] at h
          simp [readCharFromBytes] at h
          rw [h.2]; exact hlt
        · have := ih _ hlt h hr rfl
          omega

theorem Reader.read_size {r r' : Reader} {l : List Char} (h : r.read = .line l r') :
    r'.size < r.size := by
  have stream : ∀ {r r' : Reader} {l}, r.readStream = .line l r' → r'.argument = r.argument ∧
      r'.stdin.length < r.stdin.length := by
    intro r r' l h
    unfold Reader.readStream stdinRead at h
    split at h
    · rename_i l' rest heq
      simp at h
      have hne : r.stdin ≠ [] := by
        intro h0; rw [h0, stdinLoop] at heq; simp [readCharFromBytes] at heq
      have := stdinLoop_length heq hne
      rw [← h.2]; exact ⟨rfl, this⟩
    · simp at h
    · simp at h
  unfold Reader.read at h
  split at h
  · rename_i argument harg
    split at h
    · rename_i command a' hread
      simp at h
      unfold Argument.read at hread
      split at hread
      · simp at hread
      · rename_i hcur
        split at hread
        · simp at hread
        · dsimp only at hread
          split at hread
          · simp at hread
          · simp at hread
            rw [← h.2]
            simp only [Reader.size, harg, ← hread.2]
            omega
    · simp at h
    · have := stream h
      simp only [Reader.size, this.1]; omega
  · have := stream h
    simp only [Reader.size, this.1]; omega

/-- `Command::read_from`: read a line, trim it, skip it when blank, try to parse it; report and
go on when it does not parse.  `errors` counts the calls of `handle_error` so far. -/
def readFromLoop (r : Reader) (errors : Nat) : ReadFrom :=
  match h : r.read with
  | .panic s => .panic s errors
  | .eof r' => .eof errors r'
  | .line l r' =>
    let line := trim l
    if line.isEmpty then readFromLoop r' errors else
    match parseLine line with
    | .ok command => .command command errors r'
    | .err => readFromLoop r' (errors + 1)
    | .exit code => .exit code errors
    | .panic s => .panic s errors
termination_by r.size
decreasing_by all_goals exact Reader.read_size h

/-- `Command::read_from(source, handle_error)` -/
def readFrom (r : Reader) : ReadFrom := readFromLoop r 0

theorem readFromLoop_size {r r' : Reader} {n n' : Nat} {c : Command}
    (h : readFromLoop r n = .command c n' r') : r'.size < r.size := by
  induction hs : r.size using Nat.strongRecOn generalizing r n with
  | _ k ih =>
    subst hs
    rw [readFromLoop] at h
    split at h
    · simp at h
    · simp at h
    · rename_i l r1 hread
      have hlt := Reader.read_size hread
      simp only at h
      split at h
      · have := ih _ hlt h rfl
        omega
      · split at h
        · simp at h; rw [← h.2.2]; exact hlt
        · have := ih _ hlt h rfl
          omega
        · simp at h
        · simp at h

/-- How a debugging session's command input ends. -/
inductive Ending where
  | eof
  | exit (code : Nat)
  | panic (site : String)
  deriving DecidableEq, Repr

/-- Everything the command reader yields until the end of input: each event is a command
(`some c`) or one call of `handle_error` (`none`), in order. -/
structure Session where
  events : List (Option Command)
  ending : Ending
  deriving DecidableEq, Repr

/-- Loop `Command::read_from` until it returns `None` (what the debugger does, ignoring that
`quit` / `exit` stop it earlier; `verif_read_all` in the hooks). -/
def session (r : Reader) : Session :=
  match h : readFrom r with
  | .command c n r' =>
    let s := session r'
    { events := List.replicate n none ++ some c :: s.events, ending := s.ending }
  | .eof n _ => { events := List.replicate n none, ending := .eof }
  | .exit code n => { events := List.replicate n none, ending := .exit code }
  | .panic site n => { events := List.replicate n none, ending := .panic site }
termination_by r.size
decreasing_by exact readFromLoop_size h

end Lace.Cmd
