/-
  MODEL of the command-line flows in `src/main.rs` that do not involve the assembler:
  the object-file format written by `lace compile`, the `.lc3`/`.obj` branch of `run()`,
  the status lines `message()` prints on stdout, and process exit statuses.
-/
import Lace.Model.Run
namespace Lace.Cli
open Lace

/-- `u16::to_be_bytes` -/
def be16 (w : Word) : List Nat := [w.toNat / 256, w.toNat % 256]

/-- What `lace compile` writes: origin (default x3000), then every emitted word, big-endian. -/
def objBytes (orig : Option Word) (words : List Word) : List Nat :=
  be16 (orig.getD 0x3000#16) ++ words.flatMap be16

/-- `buffer.chunks_exact(2).map(|w| u16::from_be_bytes([w[0], w[1]]))` (a trailing odd byte is
dropped by `chunks_exact`; the caller has already rejected odd lengths). -/
def wordsOfBytes : List Nat → List Word
  | hi :: lo :: rest => BitVec.ofNat 16 (hi * 256 + lo) :: wordsOfBytes rest
  | _ => []

/-- `println!("{left:>12} {right}")` -/
def message (left right : List Char) : List Char :=
  List.replicate (12 - left.length) ' ' ++ left ++ [' '] ++ right ++ ['\n']

/-- Result of a `lace` process: exit status and everything written to stdout. -/
structure ProcResult where
  status : Nat
  out : List Char
  deriving DecidableEq, Repr

inductive Proc where
  | finished (r : ProcResult)
  /-- a Rust panic: exit status 101 -/
  | panic (site : String)
  /-- the program is still running after the step budget -/
  | fuel

def withOut (w : World) (extra : List Char) : World := { w with outRev := extra.reverse ++ w.outRev }

/-- `program.run()` followed by the `Completed` line, from a loaded machine. -/
def runLoaded (so mi : Bool) (fuel : Nat) (name : List Char) (m : Machine) (w : World) : Proc :=
  let w := withOut w (message "Running".toList "emitted binary".toList)
  match Run.loop so mi fuel m w with
  | .done _ w => .finished { status := 0, out := (withOut w (message "Completed".toList ("target ".toList ++ name))).output }
  | .exit c _ w => .finished { status := c, out := w.output }
  | .panic s => .panic s
  | .fuel _ _ => .fuel

/-- `lace run <name>.lc3|.obj [--minimal] [-f stack]` on a file with these bytes. -/
def runObjFile (so mi : Bool) (fuel : Nat) (name : List Char) (bytes : List Nat) (inp : List Nat) : Proc :=
  let w : World := { inp := inp, outRev := [] }
  let w := withOut w (message "Assembling".toList ("target ".toList ++ name))
  if bytes.length % 2 != 0 then
    .finished { status := 1, out := w.output }          -- bail!("File is not aligned to 16 bits")
  else
    match Run.fromRaw (wordsOfBytes bytes) with
    | .exit c => .finished { status := c, out := w.output }
    | .panic s => .panic s
    | .ok m => runLoaded so mi fuel name m w

/-- `RunEnvironment::try_from(air)` + run, for a source that assembled to `(orig, words)`. -/
def runAssembled (so mi : Bool) (fuel : Nat) (name : List Char) (orig : Option Word) (words : List Word)
    (inp : List Nat) : Proc :=
  let w : World := { inp := inp, outRev := [] }
  let w := withOut w (message "Assembling".toList ("target ".toList ++ name))
  match Run.fromRaw (orig.getD 0x3000#16 :: words) with
  | .exit c => .finished { status := c, out := w.output }
  | .panic s => .panic s
  | .ok m => runLoaded so mi fuel name m w

end Lace.Cli
