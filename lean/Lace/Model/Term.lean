/-
  MODEL of `src/term.rs` as far as a running program's GETC / IN use it when standard input is a
  terminal: `impl TryFrom<KeyEvent> for Key`, `impl TryFrom<Event> for Key`, `read_key`,
  `read_char`, `read_byte` with its thread-local `BUFFERED_BYTE_COUNT`, `enable_raw_mode` /
  `disable_raw_mode` (their assertions), and the wrapper `runtime::read_char` (`src/runtime.rs`).

  The input is the list of `crossterm::event::Event`s that `event::read()` will return, one per
  call; how crossterm decodes terminal bytes into events is NOT modelled here (the driver derives
  events from typed text with the few rules of `crossterm/src/event/sys/unix/parse.rs` that matter:
  `Driver/CliH.lean`).  `event::read()` with nothing left to return waits for ever: `blocked`.

  What the code does with a key whose character has N UTF-8 bytes (read off `read_byte`):
    * N = 1, not U+0000 : `Some(byte)`             → that ASCII character;
    * U+0000            : every byte is filtered   → `Some(0)`;
    * N > 1             : the FIRST call returns `None` and sets the counter to N − 1; each of the
                          next N − 1 calls decrements the counter and returns `None` without
                          reading a key.  No byte of the encoding is ever handed out:
                          `runtime::read_char` turns every `None` into U+FFFD.  N calls in all —
                          the same N values a pipe carrying the N bytes gives (each byte ≥ 0x80).
  Core Lean only.
-/
import Lace.Basic.Keys
namespace Lace.Term
open Lace.Editor (Key)

/-- `crossterm::event::KeyCode`, as far as `Key::try_from` distinguishes codes: `other` stands for
every remaining code (`Home`, `End`, `PageUp`, `PageDown`, `Tab`, `BackTab`, `Insert`, `F(n)`,
`Null`, `Esc`, `CapsLock`, …, `Media(_)`, `Modifier(_)`), all of which reach `_ => return Err(())`. -/
inductive KeyCode where
  | backspace | enter | left | right | up | down | delete
  | char (c : Char)
  | other
  deriving Repr, DecidableEq, Inhabited

/-- `crossterm::event::KeyEventKind` -/
inductive KeyKind where
  | press | repeat_ | release
  deriving Repr, DecidableEq, Inhabited

/-- `crossterm::event::KeyModifiers` (bitflags over `u8`): the bit set as a number.  The code only
compares it with `NONE`, `SHIFT` and `CONTROL` (constant patterns: equality of the whole set). -/
abbrev Mods := Nat
def Mods.NONE : Mods := 0
def Mods.SHIFT : Mods := 1
def Mods.CONTROL : Mods := 2
def Mods.ALT : Mods := 4

/-- `crossterm::event::Event`: a key event (`KeyEvent { code, modifiers, kind, state }`; `state` is
never looked at) or anything else (`FocusGained`, `FocusLost`, `Mouse(_)`, `Paste(_)`, `Resize(_, _)`). -/
inductive Event where
  | key (mods : Mods) (code : KeyCode) (kind : KeyKind)
  | other
  deriving Repr, DecidableEq, Inhabited

/-- Result of `Key::try_from`: `Ok(key)`, `Err(())`, or the `Ctrl+C` arm, which does not return
(`disable_raw_mode(); println!(); std::process::exit(0)`). -/
inductive Conv where
  | ok (k : Key)
  | err
  | ctrlC
  deriving Repr, DecidableEq

/-- `impl TryFrom<KeyEvent> for Key`.  The arms of the Rust `match (event.modifiers, event.code)`
are tried in order; written here per key code, which is the same function:
`(CONTROL, Char('c'))` first; then `(_, Backspace)`, `(_, Delete)`, `(_, Enter) | (_, Char('\n'))`
whatever the modifiers; arrows with `NONE`; Left/Right with `CONTROL`; `(NONE | SHIFT, Char(ch))`;
everything else `Err(())`. -/
def keyOfKeyEvent (mods : Mods) (code : KeyCode) (kind : KeyKind) : Conv :=
  if kind = .release then .err
  else if mods = Mods.CONTROL ∧ code = .char 'c' then .ctrlC
  else match code with
    | .backspace => .ok .backspace
    | .delete => .ok .delete
    | .enter => .ok .enter
    | .char ch =>
      if ch = '\n' then .ok .enter
      else if mods = Mods.NONE ∨ mods = Mods.SHIFT then .ok (.char ch)
      else .err
    | .left => if mods = Mods.NONE then .ok .left else if mods = Mods.CONTROL then .ok .ctrlLeft else .err
    | .right => if mods = Mods.NONE then .ok .right else if mods = Mods.CONTROL then .ok .ctrlRight else .err
    | .up => if mods = Mods.NONE then .ok .up else .err
    | .down => if mods = Mods.NONE then .ok .down else .err
    | .other => .err

/-- `impl TryFrom<Event> for Key` -/
def keyOfEvent : Event → Conv
  | .key mods code kind => keyOfKeyEvent mods code kind
  | .other => .err

/-- The two process-wide variables the functions below read and write:
`BUFFERED_BYTE_COUNT` (`thread_local!` `RefCell<u8>`, initially 0) and crossterm's raw-mode flag
(`terminal::is_raw_mode_enabled()`, initially off). -/
structure TermState where
  counter : Nat
  raw : Bool
  deriving Repr, DecidableEq, Inhabited

/-- State of a freshly started `lace`. -/
def TermState.init : TermState := { counter := 0, raw := false }

/-- Outcome of a function that reads events. -/
inductive Read (α : Type) where
  /-- returned `a`; state afterwards; events not yet read -/
  | val (a : α) (st : TermState) (rest : List Event)
  /-- `event::read()` has nothing to return: the process waits for the keyboard -/
  | blocked
  /-- `Ctrl+C`: raw mode switched off, `println!()` (one line feed on stdout), `exit(0)` -/
  | ctrlC
  /-- an assertion failed -/
  | panic (site : String)
  deriving Repr, DecidableEq

/-- The `loop` of `read_key`: events are consumed until one converts to a `Key`.
(`disable_raw_mode` in the `Ctrl+C` arm asserts, in the dev profile, that raw mode is on.) -/
def readKeyLoop (st : TermState) : List Event → Read Key
  | [] => .blocked
  | e :: rest =>
    match keyOfEvent e with
    | .ok k => .val k st rest
    | .err => readKeyLoop st rest
    | .ctrlC => if st.raw then .ctrlC else .panic "disable_raw_mode: terminal should already be in raw mode"

/-- `pub fn read_key() -> Key` -/
def readKey (st : TermState) (evs : List Event) : Read Key :=
  if !st.raw then .panic "read_key: terminal must be in raw mode to read key"
  else readKeyLoop st evs

/-- The `loop` of `read_char` with the loop of `read_key` inside it, fused into one recursion over
the events (`Lace.C03.readCharLoop_eq_readKey` is the unfused reading): keys other than `Char` and
`Enter` are skipped like events that are no keys. -/
def readCharLoop (st : TermState) : List Event → Read Char
  | [] => if !st.raw then .panic "read_key: terminal must be in raw mode to read key" else .blocked
  | e :: rest =>
    if !st.raw then .panic "read_key: terminal must be in raw mode to read key"
    else match keyOfEvent e with
      | .ok (.char ch) => .val ch st rest
      | .ok .enter => .val '\n' st rest
      | .ok _ => readCharLoop st rest
      | .err => readCharLoop st rest
      | .ctrlC => .ctrlC

/-- `fn read_char() -> char` of `term.rs`: `enable_raw_mode()` (asserts raw mode is off), the loop,
`disable_raw_mode()` (asserts it is on — it is). -/
def readChar (st : TermState) (evs : List Event) : Read Char :=
  if st.raw then .panic "enable_raw_mode: terminal should not be in raw mode"
  else match readCharLoop { st with raw := true } evs with
    | .val ch st' rest => .val ch { st' with raw := false } rest
    | .blocked => .blocked
    | .ctrlC => .ctrlC
    | .panic s => .panic s

/-- The UTF-8 encoding of a character as byte values (`char::encode_utf8`; Lean core's encoder,
for which core proves the round trip with its strict decoder). -/
def utf8Bytes (c : Char) : List Nat := (String.utf8EncodeChar c).map UInt8.toNat

/-- `let mut bytes = [0u8; 4]; ch.encode_utf8(&mut bytes);` -/
def encodeInto4 (c : Char) : List Nat :=
  let bs := utf8Bytes c
  bs ++ List.replicate (4 - bs.length) 0

/-- `pub fn read_byte() -> Option<u8>` -/
def readByte (st : TermState) (evs : List Event) : Read (Option Nat) :=
  -- `if *counter > 0 { *counter -= 1; return true }` … `return None`
  if st.counter > 0 then .val none { st with counter := st.counter - 1 } evs
  else match readChar st evs with
    | .val ch st rest =>
      -- `bytes.into_iter().filter(|byte| *byte != 0)`
      match (encodeInto4 ch).filter (· ≠ 0) with
      | [] => .val (some 0) st rest                  -- all zero: ASCII NUL
      | first :: more =>
        let count := more.length                     -- `bytes.count()`
        if count = 0 then .val (some first) st rest  -- single byte
        else
          -- `*counter = count as u8` (count ≤ 3: `readByte_counter_le`)
          .val none { st with counter := count % 256 } rest
    | .blocked => .blocked
    | .ctrlC => .ctrlC
    | .panic s => .panic s

/-- `fn read_char() -> char` of `runtime.rs` when `stdin.is_terminal()`:
`match byte { Some(byte) if byte.is_ascii() => byte as char, _ => '\u{FFFD}' }`. -/
def runtimeReadChar (st : TermState) (evs : List Event) : Read Char :=
  match readByte st evs with
  | .val (some byte) st rest =>
    if byte < 128 then .val (Char.ofNat byte) st rest else .val (Char.ofNat 0xFFFD) st rest
  | .val none st rest => .val (Char.ofNat 0xFFFD) st rest
  | .blocked => .blocked
  | .ctrlC => .ctrlC
  | .panic s => .panic s

/-- The event crossterm reports for a character key pressed on its own (`SHIFT` is set for
upper-case characters by `char_code_to_event`; `Key::try_from` treats both alike). -/
def typed (c : Char) : Event := .key Mods.NONE (.char c) .press

/-! ### What the events amount to for a reading program
(vocabulary of the statements in `Lace/Props/C03Term.lean`; `pipeBytes` is also the input of the
driver's specification line for terminal runs) -/

/-- The character an event delivers to `term::read_char`, if any. -/
def delivers (e : Event) : Option Char :=
  match keyOfEvent e with
  | .ok (.char ch) => some ch
  | .ok .enter => some '\n'
  | _ => none

/-- `Ctrl+C`: the one event on which `Key::try_from` does not return. -/
def isCtrlC (e : Event) : Prop := keyOfEvent e = .ctrlC

instance : DecidablePred isCtrlC := fun e => inferInstanceAs (Decidable (keyOfEvent e = .ctrlC))

def NoCtrlC (evs : List Event) : Prop := ∀ e ∈ evs, ¬ isCtrlC e

instance (evs : List Event) : Decidable (NoCtrlC evs) := by unfold NoCtrlC; infer_instance

/-- The bytes a pipe has to carry for a program to read what these events make it read. -/
def pipeBytes (evs : List Event) : List Nat :=
  evs.flatMap (fun e => match delivers e with
    | some ch => utf8Bytes ch
    | none => [])

end Lace.Term
