/-
  Model of `src/lexer/cursor.rs` and `src/lexer/mod.rs`.

  The Rust cursor is (`orig_size`, `len_remaining`, `chars`); between two tokens
  `pos_in_token() = 0`, so its state is the pair (`pos` = byte offset of the next character,
  `rest` = unread characters).  Inside `advance_token` the characters consumed so far are kept
  as a list `consumed`, so that
      `abs_pos()      = pos + utf8Len consumed`
      `pos_in_token() = utf8Len consumed`
  and every slice `get_range(a..b)` whose ends are cursor positions is a sub-list of `consumed`
  by construction.  The places where Rust computes a slice bound by `abs_pos() - 1` are explicit:
  the slice panics unless the last consumed character is one byte long.

  `take_while(p)` is `while p(first()) && !is_eof() { bump() }`; `first()` is the real next
  character (a literal NUL is an ordinary character) and the loop stops at the end of input, so
  it is `List.takeWhile p` / `List.dropWhile p` on the unread characters.

  The thread-local feature state is the argument `feat : Option Bool` (`none` = `features::init`
  has not been called; reading it is a panic).

  Import-free (core Lean only).
-/
import Lace.Model.Symbol
namespace Lace.Asm

/-- Result of `advance_token`: the token with the cursor after it, an error, or a panic. -/
inductive LexStep where
  | tok (t : Token) (pos : Nat) (rest : List Char)
  | diag (k : DiagKind) (offs len : Nat)
  | panic (site : String)
  deriving Repr

/-- `Token::new(kind, Span::new(start_pos, pos_in_token()))` followed by `reset_pos()`. -/
def mkTok (k : TokenKind) (pos : Nat) (consumed rest : List Char) : LexStep :=
  .tok { kind := k, span := ⟨pos, utf8Len consumed⟩, text := consumed } (pos + utf8Len consumed) rest

/-- `check_directive` (expects lower case) -/
def checkDirective (s : String) : Option DirKind :=
  match s with
  | ".orig" => some .orig
  | ".end" => some .end_
  | ".stringz" => some .stringz
  | ".blkw" => some .blkw
  | ".fill" => some .fill
  | ".break" => some .break_
  | _ => none

/-- the `matches!(ident, "pop" | "push" | "call" | "rets")` test of `check_instruction` -/
def isStackMnemonic (s : String) : Bool :=
  s == "pop" || s == "push" || s == "call" || s == "rets"

/-- the keyword table of `check_instruction` (`none` = `TokenKind::Label`) -/
def instrOfIdent (s : String) : Option InstrKind :=
  match s with
  | "add" => some .add
  | "and" => some .and
  | "br" => some (.br .nzp)
  | "brnzp" => some (.br .nzp)
  | "brnz" => some (.br .nz)
  | "brzp" => some (.br .zp)
  | "brnp" => some (.br .np)
  | "brn" => some (.br .n)
  | "brz" => some (.br .z)
  | "brp" => some (.br .p)
  | "jmp" => some .jmp
  | "jsr" => some .jsr
  | "jsrr" => some .jsrr
  | "ld" => some .ld
  | "ldi" => some .ldi
  | "ldr" => some .ldr
  | "lea" => some .lea
  | "not" => some .not
  | "ret" => some .ret
  | "rti" => some .rti
  | "st" => some .st
  | "sti" => some .sti
  | "str" => some .str
  | "pop" => some .pop
  | "push" => some .push
  | "call" => some .call
  | "rets" => some .rets
  | _ => none

/-- `check_trap` (`none` = `TokenKind::Label`) -/
def trapOfIdent (s : String) : Option TrapKind :=
  match s with
  | "trap" => some .generic
  | "getc" => some .getc
  | "out" => some .out
  | "puts" => some .puts
  | "in" => some .in_
  | "putsp" => some .putsp
  | "halt" => some .halt
  | "putn" => some .putn
  | "reg" => some .reg
  | _ => none

/-- `check_instruction` then, for a label, `check_trap`. -/
def identKind (s : String) : TokenKind :=
  match instrOfIdent s with
  | some k => .instr k
  | none =>
    match trapOfIdent s with
    | some k => .trap k
    | none => .label

/-- Body of `ident()` once the start of the identifier is known.
`consumed` = characters of the token consumed so far, `pre` = the part of them that belongs to
the identifier (`get_range(ident_start .. abs_pos())` before the `take_while`), `identStart` =
its byte offset. -/
def identFrom (feat : Option Bool) (pos : Nat) (consumed pre : List Char) (identStart : Nat)
    (rest : List Char) : LexStep :=
  let more := rest.takeWhile isId
  let rest' := rest.dropWhile isId
  let all := consumed ++ more
  let ident := String.ofList (lowerAll (pre ++ more))
  if isStackMnemonic ident then
    match feat with
    | none => .panic "features::stack before init"
    | some false => .diag .lexStack identStart (utf8Len all)
    | some true => mkTok (identKind ident) pos all rest'
  else mkTok (identKind ident) pos all rest'

/-- `ident()`: `ident_start = abs_pos() - 1`, then the slice `ident_start .. abs_pos()`. -/
def ident (feat : Option Bool) (pos : Nat) (consumed rest : List Char) : LexStep :=
  match consumed.getLast? with
  | none => .panic "ident: abs_pos() - 1 with nothing consumed"
  | some l =>
    if l.utf8Size = 1 then
      identFrom feat pos consumed [l] (pos + utf8Len consumed - 1) rest
    else .panic "ident: slice starts inside a multi-byte character"

/-- `hex()`; `pre` is the prefix `x` / `X` / `0x` / `0X` already consumed.
After the fix of D5 the fall-back re-reads the token as an identifier from the *start of the
token* (`ident_from(start - prefix)`); the original called `ident()`, whose `abs_pos() - 1`
lies inside the last character when that is multi-byte (`xé`). -/
def hex (feat : Option Bool) (pos : Nat) (pre rest : List Char) : LexStep :=
  let body := rest.takeWhile notWs
  let rest' := rest.dropWhile notWs
  let all := pre ++ body
  match fromStrRadix true 16 body with
  | .ok v => mkTok (.lit (.hex (BitVec.ofInt 16 v))) pos all rest'
  | .error _ =>
    match fromStrRadix false 16 body with
    | .ok v => mkTok (.lit (.hex (BitVec.ofInt 16 v))) pos all rest'
    | .error .posOverflow => .diag .lexBadLit pos (utf8Len all)
    | .error _ => identFrom feat pos all all pos rest'

/-- `dec()`; `pre = ['#']`. -/
def dec (pos : Nat) (pre rest : List Char) : LexStep :=
  let body := rest.takeWhile notWs
  let rest' := rest.dropWhile notWs
  let all := pre ++ body
  match fromStrRadix true 10 body with
  | .ok v => mkTok (.lit (.dec (BitVec.ofInt 16 v))) pos all rest'
  | .error _ =>
    match fromStrRadix false 10 body with
    | .ok v => mkTok (.lit (.dec (BitVec.ofInt 16 v))) pos all rest'
    | .error _ => .diag .lexBadLit pos (utf8Len all)

/-- The `while let Some(c) = self.bump()` loop of `str()`: returns (terminated, consumed
characters in reverse order, unread rest). -/
def strLoop : List Char → List Char → Bool × List Char × List Char
  | [], acc => (false, acc, [])
  | c :: cs, acc =>
    if c == '\n' then (false, c :: acc, cs)
    else if c == '"' then (true, c :: acc, cs)
    else if c == '\\' then
      match cs with
      | [] => (false, c :: acc, [])
      | d :: ds => strLoop ds (d :: c :: acc)
    else strLoop cs (c :: acc)

/-- `str()`; the opening quote has been consumed (`start = abs_pos() - 1 = pos`). -/
def str (pos : Nat) (rest : List Char) : LexStep :=
  match strLoop rest ['"'] with
  | (true, acc, rest') => mkTok (.lit .str) pos acc.reverse rest'
  | (false, acc, _) => .diag .lexStr pos (utf8Len acc)

/-- `dir()`; the `.` has been consumed (`start = abs_pos() - 1 = pos`). -/
def dir (pos : Nat) (rest : List Char) : LexStep :=
  let more := rest.takeWhile isId
  let rest' := rest.dropWhile isId
  let all := '.' :: more
  match checkDirective (String.ofList (lowerAll all)) with
  | some k => mkTok (.dir k) pos all rest'
  | none => .diag .lexDir pos (utf8Len all)

/-- the register number of `Register::from_str(&c.to_string()).unwrap()` for `c` in `0..=7` -/
def regOfChar (c : Char) : BitVec 3 := BitVec.ofNat 3 (c.toNat - 48)

/-- `advance_token` at byte offset `pos` with `rest` unread. -/
def advanceToken (feat : Option Bool) (pos : Nat) : List Char → LexStep
  | [] => .tok { kind := .eof, span := Span.dummy, text := [] } pos []
  | c :: rest =>
    if c == ';' then
      mkTok .comment pos (c :: rest.takeWhile (fun d => d != '\n')) (rest.dropWhile (fun d => d != '\n'))
    else if isWs c then
      mkTok .whitespace pos (c :: rest.takeWhile isWs) (rest.dropWhile isWs)
    else if c == 'x' || c == 'X' then hex feat pos [c] rest
    else if c == '0' then
      match rest with
      | d :: rest' =>
        if d == 'x' || d == 'X' then hex feat pos [c, d] rest' else ident feat pos [c] rest
      | [] => ident feat pos [c] rest
    else if c == 'r' || c == 'R' then
      match rest with
      | d :: _ =>
        if isRegNum d then
          let ds := rest.takeWhile isRegNum
          let rest' := rest.dropWhile isRegNum
          let follows : Bool :=
            match rest' with
            | [] => true                          -- `first()` is NUL at the end of input
            | e :: _ => isWs e || e == Char.ofNat 0
          if utf8Len (c :: ds) == 2 && follows then mkTok (.reg (regOfChar d)) pos (c :: ds) rest'
          else ident feat pos (c :: ds) rest'
        else ident feat pos [c] rest
      | [] => ident feat pos [c] rest
    else if isId c then ident feat pos [c] rest
    else if c == '#' then dec pos [c] rest
    else if c == '.' then dir pos rest
    else if c == '"' then str pos rest
    else
      -- `start = abs_pos() - 1` (only used in the span), `take_while(!is_whitespace)`
      let more := rest.takeWhile notWs
      .diag .lexUnknown (pos + c.utf8Size - 1) (utf8Len more + 1)

/-- The loop of `advance_real`.  Each round consumes at least one character, so the unread text
itself serves as fuel (one element per round; no length is computed): when the fuel is used up the
text is empty and `advance_token` answers `Eof` (`advanceRealLoop_real` in `Proofs/AsmLex.lean`:
the result is never white space or a comment). -/
def advanceRealLoop (feat : Option Bool) : List Char → Nat → List Char → LexStep
  | [], pos, rest => advanceToken feat pos rest
  | _ :: fuel, pos, rest =>
    match advanceToken feat pos rest with
    | .tok t pos' rest' =>
      if t.kind = .whitespace ∨ t.kind = .comment then advanceRealLoop feat fuel pos' rest'
      else .tok t pos' rest'
    | r => r

/-- `advance_real`: the next token that is neither white space nor a comment.  (Before the fix of
the C01 finding it skipped at most one white-space token and no comment: a comment between
`.fill` / `.blkw` / `.stringz` and its operand was a `preproc::bad_lit` error.) -/
def advanceReal (feat : Option Bool) (pos : Nat) (rest : List Char) : LexStep :=
  advanceRealLoop feat rest pos rest

end Lace.Asm
