/-
  MODEL of `src/debugger/asm.rs` as far as `--minimal` mode uses it: `AsmSource`,
  `get_source_statement`, `show_single_line` / `get_single_line` (a byte slice of the source at
  the statement's span), and of how `RunEnvironment::try_from` + `Debugger::new` hand the
  assembler's results (`Air`, thread-local symbol table) to the debugger.
-/
import Lace.Model.Assemble
import Lace.Model.Eval
namespace Lace.Dbg
open Lace

/-- `&s[n..]`: `none` = the index is past the end or inside a character (Rust panics). -/
def dropBytes : List Char → Nat → Option (List Char)
  | cs, 0 => some cs
  | [], _ + 1 => none
  | c :: cs, n + 1 => if c.utf8Size ≤ n + 1 then dropBytes cs (n + 1 - c.utf8Size) else none

/-- `&s[..n]`: `none` = the index is past the end or inside a character. -/
def takeBytes : List Char → Nat → Option (List Char)
  | _, 0 => some []
  | [], _ + 1 => none
  | c :: cs, n + 1 =>
    if c.utf8Size ≤ n + 1 then (takeBytes cs (n + 1 - c.utf8Size)).map (c :: ·) else none

/-- `&src[offs .. offs + len]` -/
def sliceBytes (src : List Char) (offs len : Nat) : Option (List Char) :=
  match dropBytes src offs with
  | none => none
  | some rest => takeBytes rest len

/-- `AsmSource { orig, ast, src }` (only the spans of `ast` are used in minimal mode) -/
structure AsmSource where
  orig : Word
  spans : List (Nat × Nat)
  src : List Char
  deriving DecidableEq

/-- `AsmSource::get_source_statement`: the span of the statement that produced the word at
`address`, if any. -/
def AsmSource.statementAt (s : AsmSource) (address : Word) : Option (Nat × Nat) :=
  if address < s.orig ∨ (address - s.orig).toNat ≥ s.spans.length then none
  else s.spans[(address - s.orig).toNat]?

/-- What `show_single_line` prints. -/
inductive ShownLine where
  | nothing
  | text (t : List Char)
  /-- `&self.src[range]` panics -/
  | panic
  deriving DecidableEq, Repr

/-- `AsmSource::show_single_line` -/
def AsmSource.showSingleLine (s : AsmSource) (address : Word) : ShownLine :=
  match s.statementAt address with
  | none => .nothing
  | some (o, l) =>
    match sliceBytes s.src o l with
    | some t => .text t
    | none => .panic

/-- The debugger's environment for a program assembled from `src` (stack feature `so`): symbol
table as the assembler left it, statement texts sliced from the source, `eval` through the
assembler's statement parser.  `orig` is the load address (`Air::orig().unwrap_or(0x3000)`). -/
def envOf (so : Bool) (src : List Char) (img : Asm.Image) (tbl : Asm.SymTab) : Env :=
  let orig : Word := img.orig.getD 0x3000#16
  { stackOn := so, minimal := true,
    symtab := tbl.map fun (n, k) => (n, BitVec.ofNat 16 k),
    stmtText := fun i =>
      match img.spans[i]? with
      | none => none
      | some (o, l) =>
        match sliceBytes src o l with
        | some t => some t
        | none => some "<slice-panic>".toList,
    stmtCount := img.spans.length,
    eval := fun m w text => evalInner so true tbl orig m w text }

end Lace.Dbg
