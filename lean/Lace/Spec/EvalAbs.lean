/-
  SPECIFICATION for C15 — what `eval <instruction>` must do, written from the property text and
  the ISA specification; nothing here looks at `eval.rs`, line numbers or the symbol table.

  An instruction is a `Lace.Spec.Instr` (`Spec/Encode.lean`): its label operand is the label's
  **absolute address**.  `execAbs` applies it to the machine *as it stands*: `m.pc` is the current
  program counter (under the debugger: the address of the next instruction the program would
  run); nothing is incremented.

  * register / immediate / base+offset forms, stack forms and traps: exactly `ISA.exec`;
  * `LD/LDI/LEA/ST/STI label`: the effective address is the label's address, whatever the PC;
  * the PC changes only for JMP/RET/JSR/JSRR/CALL/RETS (`isJump`);
  * the link value of JSR/JSRR/CALL is left open by the property (is the evaluated instruction
    "at" the PC or "before" it?); the specification records what lace does — the current PC — so
    that the statement is an equation, but nothing else depends on it;
  * BR*, RTI, HALT (`trap x25`) and trap vectors outside x20..x27 are off-limits (`offLimits`).
-/
import Lace.Spec.ISA
import Lace.Spec.Encode
namespace Lace.Spec
open Lace ISA

/-- The instructions the debugger declares off-limits, with the identifier it prints for each in
`--minimal` mode (DESIGN.md Appendix B).  Data words are not instructions. -/
def offLimits : Instr → Option String
  | .br _ _ => some "DisallowedInstruction::Branch"
  | .rti => some "DisallowedInstruction::Interrupt"
  | .trap v =>
    if v = 0x25#8 then some "DisallowedInstruction::Halt"
    else if v.toNat < 0x20 ∨ 0x27 < v.toNat then some "DisallowedInstruction::UnknownTrap"
    else none
  | _ => none

/-- Instructions that are themselves jumps: the only ones allowed to change the PC. -/
def isJump : Instr → Bool
  | .jmp _ | .ret | .jsr _ | .jsrr _ | .call _ | .rets => true
  | _ => false

/-- Stack-extension instructions (exist only with `-f stack`). -/
def isStack : Instr → Bool
  | .push _ | .pop _ | .call _ | .rets => true
  | _ => false

/-- `eval i` on machine `m` (current PC `m.pc`) and world `w`. -/
def execAbs (so mi : Bool) (i : Instr) (m : Machine) (w : World) : StepResult :=
  match i with
  | .addReg dr a b => exec so mi (.add dr a b) m w
  | .addImm dr a imm => exec so mi (.addi dr a imm) m w
  | .andReg dr a b => exec so mi (.and dr a b) m w
  | .andImm dr a imm => exec so mi (.andi dr a imm) m w
  | .not dr sr => exec so mi (.not dr sr) m w
  | .ldr dr base off => exec so mi (.ldr dr base off) m w
  | .str sr base off => exec so mi (.str sr base off) m w
  | .ld dr t => .ok (writeDR m dr (m.read t)) w
  | .ldi dr t => .ok (writeDR m dr (m.read (m.read t))) w
  | .lea dr t => .ok (writeDR m dr t) w
  | .st sr t => .ok (m.write t (m.getReg sr)) w
  | .sti sr t => .ok (m.write (m.read t) (m.getReg sr)) w
  | .jmp base => exec so mi (.jmp base) m w
  | .ret => exec so mi (.jmp 7#3) m w
  | .jsrr base => exec so mi (.jsrr base) m w
  | .jsr t => .ok ((m.setReg 7 m.pc).setPC t) w
  | .push sr => exec so mi (.push sr) m w
  | .pop dr => exec so mi (.pop dr) m w
  | .rets => exec so mi .rets m w
  | .call t => if so then .ok ((pushWord m m.pc).setPC t) w else .exit 1 w
  | .trap v => exec so mi (.trap v) m w
  -- off-limits or not an instruction: never consulted
  | .br _ _ | .rti | .fill _ => .ok m w

/-- The label operand can be encoded from the current PC (the n-bit PC-relative field holds
`target − pc`): an inherent limit of evaluating through the instruction encoding.  Always true
for instructions without a label operand. -/
def fitsAt (pc : Word) (i : Instr) : Bool := (encode i (pc - 1)).isSome

end Lace.Spec
