/-
  Abstract LC-3 assembly programs and the image the ISA (and lace's documented extensions) assign
  to them — the specification side of C01 and C04.  No text, no tokens, no line numbers, no symbol
  table: a program is a list of items, a label is an identity (`Nat`), every literal operand is a
  16-bit word (DESIGN.md I1: `#65535`, `#-1` and `xFFFF` are the same literal).

  `Prog.image flag P` is `some (origin, words)` exactly when the program is well formed (C04):

    * every operand fits its field — imm5 and offset6 read as *signed* 16-bit numbers lie in
      [−16,15] / [−32,31], a trap vector read *unsigned* lies in [0,255], every PC-relative
      distance `target − (addr + 1)` (label or literal offset) lies in the signed range of its 9-,
      10- (CALL) or 11-bit (JSR) field; `.orig` and `.fill` take any 16-bit word;
    * no label is defined twice, every referenced label is defined, `.orig` appears at most once;
    * the stack mnemonics are used only with the stack feature; at most 65,535 words;

  and then `words` is, for the statement at address `a = origin + (number of words before it)`,
  `Spec.encode` of the statement at `a` (bit-field concatenation, `Lace/Spec/Encode.lean`), with
  `.fill w` = `w`, `.blkw n` = `n` zero words, `.stringz s` = one word per character of `s` after
  the five escapes `\n \t \r \\ \"` (unknown escapes are kept verbatim, I2) and a final zero word.
  The default origin is x3000; the origin is reported as written (`none` = no `.orig`).

  Domain (`Prog.syntaxOk`): a label marks a statement of at least one word (lace's grammar has no
  way to attach a label to nothing: `lbl .blkw 0` labels whatever follows).

  Import-free (core Lean only): linked into the `lacemodel` driver.
-/
import Lace.Spec.Encode
namespace Lace.Spec

/-- An operand that names a location. -/
inductive Loc where
  /-- a label, by identity -/
  | label (id : Nat)
  /-- a literal PC offset: the target is `addr + 1 + off` -/
  | lit (off : Word)
  deriving DecidableEq, Repr

/-- A source statement.  Register operands are register numbers; every literal operand is an
arbitrary 16-bit word (whether it fits is the question C04 asks). -/
inductive SrcStmt where
  | addReg (dr sr1 sr2 : BitVec 3)
  | addImm (dr sr1 : BitVec 3) (imm : Word)
  | andReg (dr sr1 sr2 : BitVec 3)
  | andImm (dr sr1 : BitVec 3) (imm : Word)
  | br (nzp : BitVec 3) (l : Loc)
  | jmp (base : BitVec 3)
  | jsr (l : Loc)
  | jsrr (base : BitVec 3)
  | ld (dr : BitVec 3) (l : Loc)
  | ldi (dr : BitVec 3) (l : Loc)
  | ldr (dr base : BitVec 3) (off : Word)
  | lea (dr : BitVec 3) (l : Loc)
  | not (dr sr : BitVec 3)
  | ret
  | rti
  | st (sr : BitVec 3) (l : Loc)
  | sti (sr : BitVec 3) (l : Loc)
  | str (sr base : BitVec 3) (off : Word)
  | trap (vect : Word)
  /-- `getc out puts in putsp halt putn reg` = `trap x20 … x27` -/
  | namedTrap (k : BitVec 3)
  | push (sr : BitVec 3)
  | pop (dr : BitVec 3)
  | call (id : Nat)
  | rets
  | fill (w : Word)
  | blkw (n : Word)
  /-- the characters between the quotes, escapes not yet interpreted -/
  | stringz (body : List Char)
  deriving DecidableEq, Repr

inductive Item where
  | orig (w : Word)
  /-- `.break` (a debugger breakpoint; no word) -/
  | brk
  | stmt (label : Option Nat) (s : SrcStmt)
  deriving DecidableEq, Repr

structure Prog where
  items : List Item
  deriving DecidableEq, Repr

/-- the five escapes -/
def escapeChar (c : Char) : Option Char :=
  if c = 'n' then some '\n' else if c = 't' then some '\t' else if c = 'r' then some '\r'
  else if c = '\\' then some '\\' else if c = '"' then some '"' else none

/-- String contents after escape processing (unknown escapes are kept verbatim). -/
def unescape : List Char → List Char
  | [] => []
  | [c] => [c]
  | c :: d :: rest =>
    if c = '\\' then
      match escapeChar d with
      | some e => e :: unescape rest
      | none => c :: d :: unescape rest
    else c :: unescape (d :: rest)

/-- the data words of `.stringz`: code points truncated to 16 bits, then x0000 -/
def stringWords (body : List Char) : List Word :=
  (unescape body).map (fun c => BitVec.ofNat 16 c.toNat) ++ [0#16]

/-- number of words a statement occupies -/
def SrcStmt.size : SrcStmt → Nat
  | .blkw n => n.toNat
  | .stringz body => (unescape body).length + 1
  | _ => 1

def SrcStmt.isStack : SrcStmt → Bool
  | .push _ | .pop _ | .call _ | .rets => true
  | _ => false

/-- `w`, read as a signed number, lies in `[−2^(n−1), 2^(n−1))` -/
def fitsSigned (n : Nat) (w : Word) : Bool :=
  decide (-(2 : Int) ^ (n - 1) ≤ w.toInt) && decide (w.toInt < (2 : Int) ^ (n - 1))

/-- `w`, read as an unsigned number, lies in `[0, 2^n)` -/
def fitsUnsigned (n : Nat) (w : Word) : Bool := decide (w.toNat < 2 ^ n)

/-- The address an operand names, for the statement at `addr`. -/
def Loc.target (lab : Nat → Option Word) (addr : Word) : Loc → Option Word
  | .label id => lab id
  | .lit off => some (addr + 1 + off)

/-- one instruction word, if it can be encoded -/
def one (i : Option Instr) (addr : Word) : Option (List Word) :=
  match i with
  | some i => (encode i addr).map fun w => [w]
  | none => none

/-- The words of a statement placed at `addr` (`none`: an operand does not fit, or a label is not
defined). -/
def SrcStmt.words (lab : Nat → Option Word) (addr : Word) : SrcStmt → Option (List Word)
  | .addReg dr s1 s2 => one (some (.addReg dr s1 s2)) addr
  | .addImm dr s1 imm => if fitsSigned 5 imm then one (some (.addImm dr s1 (imm.setWidth 5))) addr else none
  | .andReg dr s1 s2 => one (some (.andReg dr s1 s2)) addr
  | .andImm dr s1 imm => if fitsSigned 5 imm then one (some (.andImm dr s1 (imm.setWidth 5))) addr else none
  | .br nzp l => one ((l.target lab addr).map (.br nzp)) addr
  | .jmp b => one (some (.jmp b)) addr
  | .jsr l => one ((l.target lab addr).map .jsr) addr
  | .jsrr b => one (some (.jsrr b)) addr
  | .ld dr l => one ((l.target lab addr).map (.ld dr)) addr
  | .ldi dr l => one ((l.target lab addr).map (.ldi dr)) addr
  | .ldr dr b off => if fitsSigned 6 off then one (some (.ldr dr b (off.setWidth 6))) addr else none
  | .lea dr l => one ((l.target lab addr).map (.lea dr)) addr
  | .not dr sr => one (some (.not dr sr)) addr
  | .ret => one (some .ret) addr
  | .rti => one (some .rti) addr
  | .st sr l => one ((l.target lab addr).map (.st sr)) addr
  | .sti sr l => one ((l.target lab addr).map (.sti sr)) addr
  | .str sr b off => if fitsSigned 6 off then one (some (.str sr b (off.setWidth 6))) addr else none
  | .trap v => if fitsUnsigned 8 v then one (some (.trap (v.setWidth 8))) addr else none
  | .namedTrap k => one (some (.trap (0b00100#5 ++ k))) addr
  | .push sr => one (some (.push sr)) addr
  | .pop dr => one (some (.pop dr)) addr
  | .call id => one ((lab id).map .call) addr
  | .rets => one (some .rets) addr
  | .fill w => some [w]
  | .blkw n => some (List.replicate n.toNat 0#16)
  | .stringz body => some (stringWords body)

abbrev LStmt := Option Nat × SrcStmt

/-- the statements of a program in order, each with its label -/
def Prog.stmts (P : Prog) : List LStmt :=
  P.items.filterMap fun | .stmt l s => some (l, s) | _ => none

/-- the operands of the `.orig` directives, in order -/
def Prog.origs (P : Prog) : List Word :=
  P.items.filterMap fun | .orig w => some w | _ => none

/-- label definitions: (label, number of words before the statement it marks) -/
def labelDefs : List LStmt → Nat → List (Nat × Nat)
  | [], _ => []
  | (some id, s) :: rest, k => (id, k) :: labelDefs rest (k + s.size)
  | (none, s) :: rest, k => labelDefs rest (k + s.size)

def totalSize : List LStmt → Nat
  | [] => 0
  | (_, s) :: rest => s.size + totalSize rest

/-- the words of the statements, the first of which sits `k` words after the origin `o` -/
def wordsFrom (lab : Nat → Option Word) (o : Word) : List LStmt → Nat → Option (List Word)
  | [], _ => some []
  | (_, s) :: rest, k =>
    match s.words lab (o + BitVec.ofNat 16 k), wordsFrom lab o rest (k + s.size) with
    | some w, some ws => some (w ++ ws)
    | _, _ => none

/-- Domain of the specification: a label marks at least one word. -/
def Prog.syntaxOk (P : Prog) : Bool :=
  P.stmts.all fun (l, s) => l.isNone || decide (s.size ≥ 1)

/-- The image of a program: the origin as written and the words; `none` = not well formed. -/
def Prog.image (flag : Bool) (P : Prog) : Option (Option Word × List Word) :=
  let ss := P.stmts
  let defs := labelDefs ss 0
  let o := P.origs.head?.getD 0x3000#16
  if P.origs.length ≤ 1 ∧ (flag ∨ ss.all (fun ls => !ls.2.isStack)) ∧ (defs.map (·.1)).Nodup ∧
      totalSize ss ≤ 65535 then
    (wordsFrom (fun id => (defs.lookup id).map fun k => o + BitVec.ofNat 16 k) o ss 0).map
      fun ws => (P.origs.head?, ws)
  else none

/-! ### `.break` (C11): a breakpoint declared in the source marks the next statement -/

/-- One entry per `.break` item: the number of image words the items in front of it produce — the
index (relative to the origin) of the first word of the next statement; `k` = words so far.
`.orig` and `.break` produce no word, `.blkw n` produces `n`, `.stringz` one per character and a
final zero; a `.break` behind the last statement gets the total number of words. -/
def breakIdx : List Item → Nat → List Nat
  | [], _ => []
  | .brk :: rest, k => k :: breakIdx rest k
  | .orig _ :: rest, k => breakIdx rest k
  | .stmt _ s :: rest, k => breakIdx rest (k + s.size)

/-- **The breakpoints a program declares**: the word indices marked by its `.break` items, in
increasing order, each once (several `.break`s in front of the same statement are one breakpoint).
A `.break` item carries no label: `Item.brk` has no label field, a label belongs to a statement
(`.break` / `lbl add …` is `[.brk, .stmt (some lbl) …]`; the text `lbl .break` is not in the range
of `render`). -/
def Prog.breaks (P : Prog) : List Nat := (breakIdx P.items 0).eraseDups

end Lace.Spec
