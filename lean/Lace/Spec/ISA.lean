/-
  SPECIFICATION — the LC-3 instruction set (Patt & Patel, App. A, with errata) and lace's
  documented PUSH/POP/CALL/RETS extension, written from the manual in terms of bit fields,
  sign extension and register-transfer statements.  Nothing here looks at `runtime.rs`.

  `exec` describes the *execute* phase: `m.pc` is the already incremented PC.
  Interpretation decisions (DESIGN.md §3): LEA sets the condition codes; TRAP is an atomic
  native routine that does not link through R7; GETC/IN store xFFFD for a non-ASCII byte and
  end of input is an emulator error (exit status 1); in `--minimal` mode a lone ESC written
  by OUT/PUTS/PUTSP/IN is dropped.
-/
import Lace.Basic.Machine
import Lace.Basic.Fmt
import Lace.Basic.Tables
namespace Lace.ISA

/-- Decoded instruction: fields have exactly the width the ISA gives them. -/
inductive Instr where
  | br   (nzp : BitVec 3) (off9 : BitVec 9)
  | add  (dr sr1 sr2 : BitVec 3)
  | addi (dr sr1 : BitVec 3) (imm5 : BitVec 5)
  | ld   (dr : BitVec 3) (off9 : BitVec 9)
  | st   (sr : BitVec 3) (off9 : BitVec 9)
  | jsr  (off11 : BitVec 11)
  | jsrr (base : BitVec 3)
  | and  (dr sr1 sr2 : BitVec 3)
  | andi (dr sr1 : BitVec 3) (imm5 : BitVec 5)
  | ldr  (dr base : BitVec 3) (off6 : BitVec 6)
  | str  (sr base : BitVec 3) (off6 : BitVec 6)
  | rti
  | not  (dr sr : BitVec 3)
  | ldi  (dr : BitVec 3) (off9 : BitVec 9)
  | sti  (sr : BitVec 3) (off9 : BitVec 9)
  | jmp  (base : BitVec 3)                 -- RET is JMP R7
  | push (sr : BitVec 3)                   -- 1101 0 1 xxx SR xxxxxx
  | pop  (dr : BitVec 3)                   -- 1101 0 0 xxx DR xxxxxx
  | call (off10 : BitVec 10)               -- 1101 1 1 off10
  | rets                                   -- 1101 1 0 …
  | lea  (dr : BitVec 3) (off9 : BitVec 9)
  | trap (vec : BitVec 8)
  deriving Repr, DecidableEq

/-- Field extraction by bit position. -/
def decode (w : Word) : Instr :=
  let dr   := w.extractLsb' 9 3
  let sr1  := w.extractLsb' 6 3
  let sr2  := w.extractLsb' 0 3
  let off9 := w.extractLsb' 0 9
  match (w.extractLsb' 12 4).toNat with
  | 0  => .br dr off9
  | 1  => if w.getLsbD 5 then .addi dr sr1 (w.extractLsb' 0 5) else .add dr sr1 sr2
  | 2  => .ld dr off9
  | 3  => .st dr off9
  | 4  => if w.getLsbD 11 then .jsr (w.extractLsb' 0 11) else .jsrr sr1
  | 5  => if w.getLsbD 5 then .andi dr sr1 (w.extractLsb' 0 5) else .and dr sr1 sr2
  | 6  => .ldr dr sr1 (w.extractLsb' 0 6)
  | 7  => .str dr sr1 (w.extractLsb' 0 6)
  | 8  => .rti
  | 9  => .not dr sr1
  | 10 => .ldi dr off9
  | 11 => .sti dr off9
  | 12 => .jmp sr1
  | 13 =>
    if w.getLsbD 11 then (if w.getLsbD 10 then .call (w.extractLsb' 0 10) else .rets)
    else (if w.getLsbD 10 then .push sr1 else .pop sr1)
  | 14 => .lea dr off9
  | _  => .trap (w.extractLsb' 0 8)

/-- SEXT -/
def sext {n : Nat} (x : BitVec n) : Word := x.signExtend 16

/-- setcc -/
def setcc (m : Machine) (v : Word) : Machine := m.setCC (CC.ofWord v)

/-- DR ← v; setcc -/
def writeDR (m : Machine) (dr : BitVec 3) (v : Word) : Machine := setcc (m.setReg dr v) v

/-! ### Console -/

def ESC : Char := Char.ofNat 0x1b

/-- One character to the console. -/
def putc (minimal : Bool) (w : World) (c : Char) : World :=
  if minimal && c == ESC then w else { w with outRev := c :: w.outRev }

def puts (minimal : Bool) (w : World) (cs : List Char) : World := cs.foldl (putc minimal) w

/-- Raw text (not subject to `--minimal` filtering). -/
def putRaw (w : World) (cs : List Char) : World := { w with outRev := cs.reverse ++ w.outRev }

/-- The character whose code is bits [7:0] of `v`. -/
def lowChar (v : Word) : Char := Char.ofNat (v.toNat % 256)
def highChar (v : Word) : Char := Char.ofNat (v.toNat / 256)

/-- The memory words `mem[a], mem[a+1], …` (addresses wrap), one full pass over memory. -/
def wordsFrom (m : Machine) (a : Word) : List Word :=
  (List.range 65536).map fun i => m.read (a + BitVec.ofNat 16 i)

/-- PUTS: one character per word (bits [7:0]) up to the terminating zero. -/
def stringAt (m : Machine) (a : Word) : List Char :=
  ((wordsFrom m a).map lowChar).takeWhile (· ≠ Char.ofNat 0)

/-- PUTSP: two characters per word, bits [7:0] first, then bits [15:8], up to the first zero. -/
def packedStringAt (m : Machine) (a : Word) : List Char :=
  ((wordsFrom m a).flatMap fun v => [lowChar v, highChar v]).takeWhile (· ≠ Char.ofNat 0)

/-- One byte from the keyboard: the value for R0, its echo, the remaining input. -/
def getc (w : World) : Option (Word × Char × World) :=
  match w.inp with
  | [] => none
  | b :: rest =>
    let w' := { w with inp := rest }
    if b < 128 then some (BitVec.ofNat 16 b, Char.ofNat b, w')
    else some (0xFFFD#16, Char.ofNat 0xFFFD, w')

/-- The REG trap's table in `--minimal` mode (the normal mode's table is `Tables.regTable`:
hex, signed, unsigned and character columns, as its header says). -/
def regDump (m : Machine) : List Char :=
  let regLine (i : Nat) (h : i < 8) : List Char :=
    ['R', Char.ofNat (48 + i), ' ', 'x'] ++ hex4 (m.reg[i]) ++ ['\n']
  regLine 0 (by omega) ++ regLine 1 (by omega) ++ regLine 2 (by omega) ++ regLine 3 (by omega)
  ++ regLine 4 (by omega) ++ regLine 5 (by omega) ++ regLine 6 (by omega) ++ regLine 7 (by omega)
  ++ "PC x".toList ++ hex4 m.pc ++ ['\n']
  ++ "CC ".toList ++ bin3 m.cc.bits ++ ['\n']

/-! ### Stack extension: R7 is the stack pointer -/

def SP : BitVec 3 := 7#3

/-- push: SP ← SP − 1; mem[SP] ← v -/
def pushWord (m : Machine) (v : Word) : Machine :=
  let sp := m.getReg SP - 1
  (m.setReg SP sp).write sp v

/-- pop: v ← mem[SP]; SP ← SP + 1 -/
def popWord (m : Machine) : Word × Machine :=
  let sp := m.getReg SP
  (m.read sp, m.setReg SP (sp + 1))

/-! ### Execute phase -/

def execTrap (minimal : Bool) (vec : BitVec 8) (m : Machine) (w : World) : StepResult :=
  match vec.toNat with
  | 0x20 => -- GETC
    match getc w with
    | none => .exit 1 w
    | some (v, _, w') => .ok (m.setReg 0 v) w'
  | 0x21 => .ok m (putc minimal w (lowChar (m.getReg 0)))                     -- OUT
  | 0x22 => .ok m (puts minimal w (stringAt m (m.getReg 0)))                  -- PUTS
  | 0x23 => -- IN
    match getc w with
    | none => .exit 1 w
    | some (v, c, w') => .ok (m.setReg 0 v) (putc minimal w' c)
  | 0x24 => .ok m (puts minimal w (packedStringAt m (m.getReg 0)))            -- PUTSP
  | 0x25 => .ok (m.setPC 0xFFFF#16) (putRaw w haltBanner)                     -- HALT
  | 0x26 => .ok m (puts minimal w (decI16 (m.getReg 0)))                      -- PUTN
  | 0x27 => .ok m (puts minimal w (if minimal then regDump m else Tables.regTable m))  -- REG
  | _    => .exit 0xEE w

def exec (stackOn minimal : Bool) (i : Instr) (m : Machine) (w : World) : StepResult :=
  match i with
  | .add dr sr1 sr2   => .ok (writeDR m dr (m.getReg sr1 + m.getReg sr2)) w
  | .addi dr sr1 imm  => .ok (writeDR m dr (m.getReg sr1 + sext imm)) w
  | .and dr sr1 sr2   => .ok (writeDR m dr (m.getReg sr1 &&& m.getReg sr2)) w
  | .andi dr sr1 imm  => .ok (writeDR m dr (m.getReg sr1 &&& sext imm)) w
  | .not dr sr        => .ok (writeDR m dr (~~~ m.getReg sr)) w
  | .br nzp off       =>
    if nzp &&& m.cc.bits ≠ 0 then .ok (m.setPC (m.pc + sext off)) w else .ok m w
  | .jmp base         => .ok (m.setPC (m.getReg base)) w
  | .jsr off          => .ok ((m.setReg 7 m.pc).setPC (m.pc + sext off)) w
  | .jsrr base        =>
    let target := m.getReg base                -- TEMP = PC; PC = BaseR; R7 = TEMP
    .ok ((m.setReg 7 m.pc).setPC target) w
  | .ld dr off        => .ok (writeDR m dr (m.read (m.pc + sext off))) w
  | .ldi dr off       => .ok (writeDR m dr (m.read (m.read (m.pc + sext off)))) w
  | .ldr dr base off  => .ok (writeDR m dr (m.read (m.getReg base + sext off))) w
  | .lea dr off       => .ok (writeDR m dr (m.pc + sext off)) w
  | .st sr off        => .ok (m.write (m.pc + sext off) (m.getReg sr)) w
  | .sti sr off       => .ok (m.write (m.read (m.pc + sext off)) (m.getReg sr)) w
  | .str sr base off  => .ok (m.write (m.getReg base + sext off) (m.getReg sr)) w
  | .trap vec         => execTrap minimal vec m w
  | .rti              => .panic "rti"          -- documented as unimplemented
  | .push sr          => if stackOn then .ok (pushWord m (m.getReg sr)) w else .exit 1 w
  | .pop dr           =>
    if stackOn then
      let (v, m') := popWord m
      .ok (m'.setReg dr v) w
    else .exit 1 w
  | .call off         =>
    if stackOn then .ok ((pushWord m m.pc).setPC (m.pc + sext off)) w else .exit 1 w
  | .rets             =>
    if stackOn then
      let (v, m') := popWord m
      .ok (m'.setPC v) w
    else .exit 1 w

end Lace.ISA
