/-
  Reference line editor for property C20: what "a plain reference editor holds after the same
  keys".  Written from the doc comments of `terminal.rs` and Vim's word motions, on lists of
  characters and character positions only (no bytes, no partial functions, nothing can panic).

  State: the new line being composed, the cursor (a character position in the *current* line),
  the history (oldest first) and the focused history index (`= history.length`: the new line).
  The current line is the focused history entry, or the new line.

  * typing a character inserts it at the cursor and moves the cursor right; ASCII control
    characters are ignored;
  * Backspace removes the character left of the cursor, Delete the one under it; at the
    respective end of the line they do nothing at all;
  * editing a history entry first copies it into the new line (the previous new line is
    replaced) and focuses the new line;
  * Left / Right move by one character and stop at the ends;
  * Ctrl+Right = Vim `w`: skip the rest of the word under the cursor, then skip blanks; the end
    of the line if there is no further word.  Ctrl+Left = Vim `b`: skip blanks to the left, then
    go to the first character of that word; the start of the line if there is none.
    A *word* is a maximal run of non-blank characters that are all alphanumeric or all not
    (`full_word = false` in lace);
  * Up / Down focus the previous / next history entry (Down from the last one: the new line) and
    put the cursor at the end of it;
  * Enter on a blank new line clears it and submits nothing; otherwise the current line is
    submitted.  A submitted line is appended to the history unless it equals the last entry,
    the new line becomes empty and focused, the cursor 0.
  * A submitted line is split at every `;` into commands.

  The character classification is a parameter, as in the model.
-/
import Lace.Basic.Keys
namespace Lace.RefEditor
open Lace.Editor (CharClass Key isAsciiControl)

structure State where
  /-- the new line -/
  line : List Char
  /-- character position in the current line -/
  cursor : Nat
  history : List (List Char)
  /-- focused history entry; `history.length` = the new line -/
  index : Nat
  deriving Repr, DecidableEq

/-- The line on display: the focused history entry, or the new line. -/
def State.current (s : State) : List Char :=
  match s.history[s.index]? with
  | some h => h
  | none => s.line

def blank (cls : Char → CharClass) (l : List Char) : Bool := l.all fun c => (cls c).ws

/-- Same word class: both non-blank and equally alphanumeric. -/
def sameWord (cls : Char → CharClass) (a b : Char) : Bool :=
  !(cls b).ws && (cls b).alnum == (cls a).alnum

/-- Vim `w` within one line. -/
def wordRight (cls : Char → CharClass) (line : List Char) (cursor : Nat) : Nat :=
  match line.drop cursor with
  | [] => line.length
  | first :: rest =>
    -- the rest of the word under the cursor (nothing if the cursor is on a blank) …
    let afterWord := if (cls first).ws then rest else rest.dropWhile (sameWord cls first)
    -- … then the blanks
    let next := afterWord.dropWhile fun c => (cls c).ws
    line.length - next.length

/-- Vim `b` within one line. -/
def wordLeft (cls : Char → CharClass) (line : List Char) (cursor : Nat) : Nat :=
  -- characters left of the cursor, nearest first; skip the blanks …
  match ((line.take cursor).reverse).dropWhile fun c => (cls c).ws with
  | [] => 0
  -- … then the word ending in `last`: what remains to its left is the answer
  | last :: more => (more.dropWhile (sameWord cls last)).length

/-- One key.  Returns the new state and whether the current line is submitted. -/
def key (cls : Char → CharClass) (s : State) : Key → State × Bool
  | .char ch =>
    if isAsciiControl ch then (s, false) else
    let cur := s.current
    ({ s with line := cur.take s.cursor ++ ch :: cur.drop s.cursor, cursor := s.cursor + 1,
              index := s.history.length }, false)
  | .backspace =>
    if s.cursor = 0 then (s, false) else
    ({ s with line := s.current.eraseIdx (s.cursor - 1), cursor := s.cursor - 1,
              index := s.history.length }, false)
  | .delete =>
    if s.cursor < s.current.length then
      ({ s with line := s.current.eraseIdx s.cursor, index := s.history.length }, false)
    else (s, false)
  | .left => ({ s with cursor := s.cursor - 1 }, false)
  | .right => ({ s with cursor := min (s.cursor + 1) s.current.length }, false)
  | .ctrlLeft => ({ s with cursor := wordLeft cls s.current s.cursor }, false)
  | .ctrlRight => ({ s with cursor := wordRight cls s.current s.cursor }, false)
  | .up =>
    if s.index = 0 then (s, false) else
    let s' := { s with index := s.index - 1 }
    ({ s' with cursor := s'.current.length }, false)
  | .down =>
    if s.index < s.history.length then
      let s' := { s with index := s.index + 1 }
      ({ s' with cursor := s'.current.length }, false)
    else (s, false)
  | .enter =>
    if s.index ≥ s.history.length ∧ blank cls s.line then ({ s with line := [], cursor := 0 }, false)
    else ({ s with line := s.current, index := s.history.length }, true)

/-- A submitted line enters the history (unless it repeats the last entry); a fresh empty new
line is focused. -/
def submit (s : State) : State :=
  let history := if s.history.getLast? = some s.line then s.history else s.history ++ [s.line]
  { line := [], cursor := 0, history := history, index := history.length }

/-- One key of a session: the state shown right after the key, the state in which the next key
is awaited, and the submitted line if any. -/
def feedKey (cls : Char → CharClass) (s : State) (k : Key) : State × State × Option (List Char) :=
  match key cls s k with
  | (s1, false) => (s1, s1, none)
  | (s1, true) => (s1, submit s1, some s1.line)

/-- A whole key sequence: final state and the submitted lines, oldest first. -/
def feed (cls : Char → CharClass) : State → List Key → State × List (List Char)
  | s, [] => (s, [])
  | s, k :: ks =>
    match feedKey cls s k with
    | (_, s', sub) =>
      match feed cls s' ks with
      | (sf, subs) => (sf, sub.toList ++ subs)

def init (history : List (List Char)) : State :=
  { line := [], cursor := 0, history := history, index := history.length }

def session (cls : Char → CharClass) (history : List (List Char)) (keys : List Key) :
    State × List (List Char) :=
  feed cls (init history) keys

/-- A submitted line split at every `;`. -/
def splitCommands : List Char → List (List Char)
  | [] => [[]]
  | c :: rest =>
    match splitCommands rest with
    | [] => [[]]                       -- unreachable: the result is never empty
    | cmd :: cmds => if c = ';' then [] :: cmd :: cmds else (c :: cmd) :: cmds

end Lace.RefEditor
