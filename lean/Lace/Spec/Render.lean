/-
  Concrete, executable rendering of abstract programs to source text (C01, text level).

      render : Layout → Prog → List Char

  A program is first turned into its abstract token sequence (`Prog.toks`: keyword, register,
  literal, label, string — no characters yet); a `Layout` then decides, **per token position**
  (`TokLay`), everything the grammar leaves open:

    * `sep`  — the text in front of the token: any mix of SPACE, TAB, LF, FF, CR, `,`, `:` and
      comments `;…` running to a line feed (so blank lines, a colon after a label, commas between
      operands are all just separators).  Between two tokens the separator is non-empty and begins
      with a white-space character (DESIGN.md I12: a `;` starts a comment only where a token could
      start); in front of the first token any closed gap (also the empty one) will do;
    * `caps` — for a mnemonic, directive or register: which characters are written in upper case;
    * `alt`  — `brnzp` instead of `br`;
    * `lit`  — for a literal: its spelling, any text the *specification* reads as that word
      (`readLit`: `#d  #+d  #-d  xH  XH  0xH  0XH  x-H  x+H`, any number of leading zeros, hex
      digits in either case; the value must lie in −32768 … 65535 and denotes itself modulo 2^16,
      DESIGN.md I1);
    * `Layout.names` — the name of every label (`validLabel`, DESIGN.md I13);
    * `Layout.trail` — what follows the last token: white space and comments (the last comment need
      not be closed by a line feed), optionally ended by `.end` (any letter case) followed by
      arbitrary text, which the assembler ignores.

  `stmtTextOf L P i` is the source text of the statement that produced word `i` of the image — what the
  debugger's `assembly` command must show for address `orig + i` (C17).

  `Layout.ok flag L P` is the decidable well-formedness predicate: separators are separators,
  literal spellings denote their words, label names are valid and pairwise distinct, and the
  program is *renderable* (`Prog.renderable`: every `br` has a mnemonic, string bodies can be
  written between quotes, and once 65,535 words have been laid out only `.blkw 0` follows).

  Import-free (core Lean only): linked into the `lacemodel` driver, which renders every abstract
  program of the C01 correspondence under the canonical layout `Layout.canon`.
-/
import Lace.Spec.Prog
namespace Lace.Spec

/-! ### characters -/

/-- token separators: ASCII white space, comma, colon -/
def isSepChar (c : Char) : Bool :=
  c == ' ' || c == '\t' || c == '\n' || c == Char.ofNat 12 || c == '\r' || c == ',' || c == ':'

/-- `[A-Za-z0-9_]` -/
def isIdChar (c : Char) : Bool :=
  (decide ('a' ≤ c) && decide (c ≤ 'z')) || (decide ('A' ≤ c) && decide (c ≤ 'Z')) ||
  (decide ('0' ≤ c) && decide (c ≤ '9')) || c == '_'

/-- ASCII lower case -/
def lowerChar (c : Char) : Char :=
  if 'A' ≤ c ∧ c ≤ 'Z' then Char.ofNat (c.toNat + 32) else c

/-- ASCII upper case of a lower-case letter (every other character is left alone) -/
def upperChar (c : Char) : Char :=
  match c with
  | 'a' => 'A' | 'b' => 'B' | 'c' => 'C' | 'd' => 'D' | 'e' => 'E' | 'f' => 'F' | 'g' => 'G'
  | 'h' => 'H' | 'i' => 'I' | 'j' => 'J' | 'k' => 'K' | 'l' => 'L' | 'm' => 'M' | 'n' => 'N'
  | 'o' => 'O' | 'p' => 'P' | 'q' => 'Q' | 'r' => 'R' | 's' => 'S' | 't' => 'T' | 'u' => 'U'
  | 'v' => 'V' | 'w' => 'W' | 'x' => 'X' | 'y' => 'Y' | 'z' => 'Z'
  | c => c

/-- write the characters selected by the mask in upper case -/
def applyCaps : List Bool → List Char → List Char
  | b :: bs, c :: cs => (if b then upperChar c else c) :: applyCaps bs cs
  | _, cs => cs

/-! ### literals (DESIGN.md I1) -/

/-- value of an alphanumeric character as a digit (`0-9`, then `a-z` / `A-Z` = 10 …) -/
def digitVal (c : Char) : Option Nat :=
  if '0' ≤ c ∧ c ≤ '9' then some (c.toNat - 48)
  else if 'a' ≤ c ∧ c ≤ 'z' then some (c.toNat - 87)
  else if 'A' ≤ c ∧ c ≤ 'Z' then some (c.toNat - 55)
  else none

/-- positional reading of a digit string, most significant digit first -/
def readNat (radix : Nat) : List Char → Nat → Option Nat
  | [], acc => some acc
  | c :: cs, acc =>
    match digitVal c with
    | some d => if d < radix then readNat radix cs (acc * radix + d) else none
    | none => none

/-- an optionally signed, non-empty digit string denoting a number in −32768 … 65535, as a word -/
def readSigned (radix : Nat) (body : List Char) : Option Word :=
  match body with
  | [] => none
  | c :: ds =>
    if c = '-' then
      if ds = [] then none
      else match readNat radix ds 0 with
        | some n => if n ≤ 32768 then some (BitVec.ofInt 16 (-(n : Int))) else none
        | none => none
    else if c = '+' then
      if ds = [] then none
      else match readNat radix ds 0 with
        | some n => if n ≤ 65535 then some (BitVec.ofNat 16 n) else none
        | none => none
    else match readNat radix (c :: ds) 0 with
      | some n => if n ≤ 65535 then some (BitVec.ofNat 16 n) else none
      | none => none

/-- The word a literal spelling denotes: `#` decimal, `x` / `X` / `0x` / `0X` hexadecimal. -/
def readLit (s : List Char) : Option Word :=
  match s with
  | '#' :: body => readSigned 10 body
  | 'x' :: body => readSigned 16 body
  | 'X' :: body => readSigned 16 body
  | '0' :: 'x' :: body => readSigned 16 body
  | '0' :: 'X' :: body => readSigned 16 body
  | _ => none

/-! ### labels (DESIGN.md I13) -/

/-- every mnemonic (instructions, traps, the stack extension) -/
def keywords : List (List Char) :=
  [['a','d','d'], ['a','n','d'], ['b','r'], ['b','r','n','z','p'], ['b','r','n','z'], ['b','r','z','p'],
   ['b','r','n','p'], ['b','r','n'], ['b','r','z'], ['b','r','p'], ['j','m','p'], ['j','s','r'],
   ['j','s','r','r'], ['l','d'], ['l','d','i'], ['l','d','r'], ['l','e','a'], ['n','o','t'], ['r','e','t'],
   ['r','t','i'], ['s','t'], ['s','t','i'], ['s','t','r'], ['p','o','p'], ['p','u','s','h'],
   ['c','a','l','l'], ['r','e','t','s'],
   ['t','r','a','p'], ['g','e','t','c'], ['o','u','t'], ['p','u','t','s'], ['i','n'],
   ['p','u','t','s','p'], ['h','a','l','t'], ['p','u','t','n'], ['r','e','g']]

/-- after an `x` / `0x` prefix: `true` = the rest is *not* read as a hexadecimal number, because a
character that is not a hex digit occurs before the accumulated value exceeds xFFFF -/
def hexScan : List Char → Nat → Bool
  | [], _ => false
  | c :: cs, acc =>
    match digitVal c with
    | some d =>
      if d < 16 then (if acc * 16 + d ≤ 65535 then hexScan cs (acc * 16 + d) else false) else true
    | none => true

/-- the text after an `x` / `0x` prefix leaves the whole token a label -/
def hexLabel (t : List Char) : Bool := t.isEmpty || hexScan t 0

/-- `[rR][0-7]` -/
def isRegName (s : List Char) : Bool :=
  match s with
  | [c, d] => (c == 'r' || c == 'R') && (decide ('0' ≤ d) && decide (d ≤ '7'))
  | _ => false

/-- A label name: non-empty over `[A-Za-z0-9_]`, not a mnemonic in any letter case, not a register
name, not read as a hexadecimal literal. -/
def validLabel (s : List Char) : Bool :=
  !s.isEmpty && s.all isIdChar && !(keywords.contains (s.map lowerChar)) && !isRegName s &&
  (match s with
   | 'x' :: t => hexLabel t
   | 'X' :: t => hexLabel t
   | '0' :: 'x' :: t => hexLabel t
   | '0' :: 'X' :: t => hexLabel t
   | _ => true)

/-! ### strings -/

/-- a string body that can be written between two quotes: no line feed and no quote outside an
escape, and the last backslash escapes something (else it would escape the closing quote) -/
def strBodyOk : List Char → Bool
  | [] => true
  | c :: cs =>
    if c == '\n' || c == '"' then false
    else if c == '\\' then
      match cs with
      | [] => false
      | _ :: ds => strBodyOk ds
    else strBodyOk cs

/-! ### separators (DESIGN.md I12) -/

/-- White space and comments.  State `false` = between tokens, `true` = inside a comment; `eof` =
the text ends here, so a last comment need not be closed by a line feed. -/
def gapAux (eof : Bool) : Bool → List Char → Bool
  | false, [] => true
  | true, [] => eof
  | true, c :: cs => if c == '\n' then gapAux eof false cs else gapAux eof true cs
  | false, c :: cs => if c == ';' then gapAux eof true cs else isSepChar c && gapAux eof false cs

/-- in front of the first token: white space and closed comments, possibly nothing -/
def leadOk (g : List Char) : Bool := gapAux false false g

/-- between two tokens: begins with a white-space character -/
def sepOk (g : List Char) : Bool :=
  (match g with | c :: _ => isSepChar c | [] => false) && gapAux false false g

/-- the text begins with `.end` in any mixture of letter cases, not followed by an identifier
character: everything from here on is ignored -/
def endAt : List Char → Bool
  | '.' :: e :: n :: d :: rest =>
    (e == 'e' || e == 'E') && (n == 'n' || n == 'N') && (d == 'd' || d == 'D') &&
    (match rest with | [] => true | c :: _ => !isIdChar c)
  | _ => false

/-- White space and comments up to the end of the text (the last comment may be open), or up to a
`.end` directive, after which anything may stand. -/
def trailAux : Bool → List Char → Bool
  | _, [] => true
  | true, c :: cs => if c == '\n' then trailAux false cs else trailAux true cs
  | false, c :: cs =>
    if c == ';' then trailAux true cs
    else if endAt (c :: cs) then true
    else isSepChar c && trailAux false cs

/-- after the last token: nothing, or white space and comments beginning with a white-space
character, ended by the end of the text or by `.end` and arbitrary ignored text -/
def trailOk (g : List Char) : Bool :=
  (match g with | c :: _ => isSepChar c | [] => true) && trailAux false g

/-! ### abstract tokens -/

/-- What a piece of source text is meant to be. -/
inductive Tok where
  /-- mnemonic or directive: canonical lower-case spelling and an alternative one (`br`/`brnzp`) -/
  | kw (s alt : List Char)
  | reg (r : BitVec 3)
  | lit (w : Word)
  | label (id : Nat)
  /-- a string literal: the characters between the quotes -/
  | str (body : List Char)
  deriving DecidableEq, Repr

def Tok.k (s : List Char) : Tok := .kw s s

def brName (nzp : BitVec 3) : List Char :=
  if nzp = 4#3 then ['b','r','n'] else if nzp = 2#3 then ['b','r','z']
  else if nzp = 1#3 then ['b','r','p'] else if nzp = 6#3 then ['b','r','n','z']
  else if nzp = 3#3 then ['b','r','z','p'] else if nzp = 5#3 then ['b','r','n','p']
  else ['b','r']

def brAlt (nzp : BitVec 3) : List Char :=
  if nzp = 7#3 then ['b','r','n','z','p'] else brName nzp

def trapName (k : BitVec 3) : List Char :=
  if k = 0#3 then ['g','e','t','c'] else if k = 1#3 then ['o','u','t']
  else if k = 2#3 then ['p','u','t','s'] else if k = 3#3 then ['i','n']
  else if k = 4#3 then ['p','u','t','s','p'] else if k = 5#3 then ['h','a','l','t']
  else if k = 6#3 then ['p','u','t','n'] else ['r','e','g']

def Loc.tok : Loc → Tok
  | .label id => .label id
  | .lit w => .lit w

/-- mnemonic and operands of a statement, in source order -/
def SrcStmt.toks : SrcStmt → List Tok
  | .addReg d s r => [.k ['a','d','d'], .reg d, .reg s, .reg r]
  | .addImm d s w => [.k ['a','d','d'], .reg d, .reg s, .lit w]
  | .andReg d s r => [.k ['a','n','d'], .reg d, .reg s, .reg r]
  | .andImm d s w => [.k ['a','n','d'], .reg d, .reg s, .lit w]
  | .br nzp l => [.kw (brName nzp) (brAlt nzp), l.tok]
  | .jmp b => [.k ['j','m','p'], .reg b]
  | .jsr l => [.k ['j','s','r'], l.tok]
  | .jsrr b => [.k ['j','s','r','r'], .reg b]
  | .ld d l => [.k ['l','d'], .reg d, l.tok]
  | .ldi d l => [.k ['l','d','i'], .reg d, l.tok]
  | .ldr d b w => [.k ['l','d','r'], .reg d, .reg b, .lit w]
  | .lea d l => [.k ['l','e','a'], .reg d, l.tok]
  | .not d s => [.k ['n','o','t'], .reg d, .reg s]
  | .ret => [.k ['r','e','t']]
  | .rti => [.k ['r','t','i']]
  | .st r l => [.k ['s','t'], .reg r, l.tok]
  | .sti r l => [.k ['s','t','i'], .reg r, l.tok]
  | .str r b w => [.k ['s','t','r'], .reg r, .reg b, .lit w]
  | .trap v => [.k ['t','r','a','p'], .lit v]
  | .namedTrap k => [.k (trapName k)]
  | .push r => [.k ['p','u','s','h'], .reg r]
  | .pop r => [.k ['p','o','p'], .reg r]
  | .call id => [.k ['c','a','l','l'], .label id]
  | .rets => [.k ['r','e','t','s']]
  | .fill w => [.k ['.','f','i','l','l'], .lit w]
  | .blkw n => [.k ['.','b','l','k','w'], .lit n]
  | .stringz b => [.k ['.','s','t','r','i','n','g','z'], .str b]

def Item.toks : Item → List Tok
  | .orig w => [.k ['.','o','r','i','g'], .lit w]
  | .brk => [.k ['.','b','r','e','a','k']]
  | .stmt (some id) s => .label id :: s.toks
  | .stmt none s => s.toks

def itemsToks : List Item → List Tok
  | [] => []
  | it :: rest => it.toks ++ itemsToks rest

/-- the abstract token sequence of a program -/
def Prog.toks (P : Prog) : List Tok := itemsToks P.items

/-! ### layouts -/

/-- How one token is written. -/
structure TokLay where
  /-- the text in front of the token -/
  sep : List Char := [' ']
  /-- mnemonic / directive / register: which characters are upper case -/
  caps : List Bool := []
  /-- the alternative mnemonic (`brnzp` for `br`) -/
  alt : Bool := false
  /-- literal: its spelling -/
  lit : List Char := []
  deriving Repr

structure Layout where
  /-- the name of each label -/
  names : Nat → List Char
  /-- one entry per token, in order (missing entries: one space, lower case, no spelling) -/
  toks : List TokLay
  /-- the text after the last token -/
  trail : List Char

def regText (r : BitVec 3) : List Char := ['r', Char.ofNat (48 + r.toNat)]

/-- the characters of one token -/
def Tok.spell (names : Nat → List Char) (l : TokLay) : Tok → List Char
  | .kw s alt => applyCaps l.caps (if l.alt then alt else s)
  | .reg r => applyCaps l.caps (regText r)
  | .lit _ => l.lit
  | .label id => names id
  | .str body => '"' :: (body ++ ['"'])

def renderToks (names : Nat → List Char) : List TokLay → List Tok → List Char
  | _, [] => []
  | ls, t :: ts => (ls.headD {}).sep ++ (t.spell names (ls.headD {}) ++ renderToks names ls.tail ts)

/-- **The source text of `P` under layout `L`.** -/
def render (L : Layout) (P : Prog) : List Char := renderToks L.names L.toks P.toks ++ L.trail

/-! ### the source text of a statement (C17) -/

/-- **The text of one statement** whose tokens are `toks` — the mnemonic or directive first, then its
operands — written with the token layouts `ls`: the spelling of the first token, then every further
token with the separator (white space, commas, comments) the layout puts in front of it.  The
separator in front of the first token — and with it any label and its colon — is not part of the
text, nor is anything behind the last operand. -/
def stmtText (names : Nat → List Char) (ls : List TokLay) : List Tok → List Char
  | [] => []
  | t :: ts => t.spell names (ls.headD {}) ++ renderToks names ls.tail ts

/-- per word an item occupies, the text of the statement that produced it: every word of a `.blkw` /
`.stringz` has the whole directive's text; a label is skipped; `.orig` / `.break` produce no word -/
def itemTexts (names : Nat → List Char) (ls : List TokLay) : Item → List (List Char)
  | .stmt (some _) s => List.replicate s.size (stmtText names ls.tail s.toks)
  | .stmt none s => List.replicate s.size (stmtText names ls s.toks)
  | _ => []

def itemsTexts (names : Nat → List Char) : List TokLay → List Item → List (List Char)
  | _, [] => []
  | ls, it :: rest => itemTexts names ls it ++ itemsTexts names (ls.drop it.toks.length) rest

/-- per word of the program's image, the source text of its statement in `render L P` -/
def stmtTexts (L : Layout) (P : Prog) : List (List Char) := itemsTexts L.names L.toks P.items

/-- **The source text of the statement that produced word `i`** of the image of `P`, in the text
`render L P`: mnemonic or directive through last operand, without label, without what follows.
`none`: the image has no word `i`. -/
def stmtTextOf (L : Layout) (P : Prog) (i : Nat) : Option (List Char) := (stmtTexts L P)[i]?

/-! ### well-formed layouts -/

/-- the token can be written as the layout says -/
def Tok.ok (names : Nat → List Char) (l : TokLay) : Tok → Bool
  | .kw _ _ => true
  | .reg _ => true
  | .lit w => readLit l.lit == some w
  | .label id => validLabel (names id)
  | .str body => strBodyOk body

def okToks (names : Nat → List Char) : Bool → List TokLay → List Tok → Bool
  | _, _, [] => true
  | first, ls, t :: ts =>
    (if first then leadOk (ls.headD {}).sep else sepOk (ls.headD {}).sep) && t.ok names (ls.headD {}) &&
    okToks names false ls.tail ts

def Loc.ids : Loc → List Nat
  | .label id => [id]
  | .lit _ => []

/-- the labels a statement refers to -/
def SrcStmt.ids : SrcStmt → List Nat
  | .br _ l | .jsr l | .ld _ l | .ldi _ l | .lea _ l | .st _ l | .sti _ l => l.ids
  | .call id => [id]
  | _ => []

/-- every label identity defined or used, with repetitions -/
def stmtsIds : List LStmt → List Nat
  | [] => []
  | (some id, s) :: rest => id :: (s.ids ++ stmtsIds rest)
  | (none, s) :: rest => s.ids ++ stmtsIds rest

/-- what can be written at all: every branch has a mnemonic, string bodies fit between quotes -/
def SrcStmt.renderable : SrcStmt → Bool
  | .br nzp _ => nzp != 0#3
  | .stringz b => strBodyOk b
  | _ => true

/-- number of words an item occupies -/
def Item.size : Item → Nat
  | .stmt _ s => s.size
  | _ => 0

/-- no source text reaches the parser: an unlabelled `.blkw 0` is the only item that the
preprocessor turns into nothing -/
def Item.silent : Item → Bool
  | .stmt none (.blkw n) => n == 0#16
  | _ => false

/-- once 65,535 words have been laid out (`k` = number of words before the item) nothing but
silent items may follow -/
def fullOk : List Item → Nat → Bool
  | [], _ => true
  | it :: rest, k => (decide (k < 65535) || it.silent) && fullOk rest (k + it.size)

/-- Programs in the range of `render`: every statement can be written, and after the 65,535th
word only `.blkw 0` may follow (lace's statement counter is 16 bits wide; once statement 65,535
has been added it rejects whatever token follows — a trailing `.break` / `.orig` too — with
`too many`, which `Prog.image` does not model).  Every program with fewer than 65,535 words
satisfies the second condition (`fullOk_of_lt`, `Proofs/ParseProg.lean`). -/
def Prog.renderable (P : Prog) : Bool :=
  P.stmts.all (fun ls => ls.2.renderable) && fullOk P.items 0

/-- distinct label identities have distinct names -/
def namesInjOn (names : Nat → List Char) (ids : List Nat) : Bool :=
  ids.all fun i => ids.all fun j => names i != names j || i == j

/-- **Well-formed layout of `P`.** -/
def Layout.ok (L : Layout) (P : Prog) : Bool :=
  P.renderable && okToks L.names true L.toks P.toks && trailOk L.trail &&
  namesInjOn L.names (stmtsIds P.stmts)

/-! ### the canonical layout -/

def hexDigitChar (n : Nat) : Char :=
  if n < 10 then Char.ofNat (48 + n) else Char.ofNat (55 + n)

/-- `xHHHH` -/
def canonLit (w : Word) : List Char :=
  ['x', hexDigitChar (w.toNat / 4096 % 16), hexDigitChar (w.toNat / 256 % 16),
   hexDigitChar (w.toNat / 16 % 16), hexDigitChar (w.toNat % 16)]

/-- `L<decimal id>` -/
def canonName (id : Nat) : List Char := 'L' :: Nat.toDigits 10 id

def canonTokLay : Tok → TokLay
  | .lit w => { sep := [' '], lit := canonLit w }
  | _ => { sep := [' '] }

/-- the tokens of one item: the first on a new line, the others after one space -/
def canonItemLays (toks : List Tok) : List TokLay :=
  match toks with
  | [] => []
  | t :: ts => { canonTokLay t with sep := ['\n'] } :: ts.map canonTokLay

def canonLays : List Item → List TokLay
  | [] => []
  | it :: rest => canonItemLays it.toks ++ canonLays rest

/-- Canonical layout: one item per line, one space between tokens, lower case, literals as
`xHHHH`, labels `L<id>`, a final line feed. -/
def Layout.canon (P : Prog) : Layout :=
  { names := canonName, toks := canonLays P.items, trail := ['\n'] }

end Lace.Spec
