/-
  SPECIFICATION — the reference debugger of C10 (big-step).

  "`step into N` executes exactly N instructions (a count of 0 means 1); `step` executes the next
  instruction, or the whole subroutine when it is JSR/JSRR/CALL, and pauses at the following
  address; `step out` runs until a RET/RETS has executed; `continue` runs on — each pausing earlier
  only at a breakpoint, at HALT (never executed while the debugger is attached) or when PC leaves
  user space."

  The reference works on the reference machine of C03 (`Spec/RefRun.lean`): one instruction cycle
  is fetch / increment / `ISA.exec (ISA.decode word)`.  A paused session is a machine, a world and
  a set of breakpoint addresses.  Every resuming command is one loop, `runUntil`: execute an
  instruction, then pause if the command's own stop condition holds or `interrupt` holds
  (breakpoint at PC, HALT at PC, PC outside user space), else go on.  Interpretation decisions:
    I5  `step` on a call pauses the first time PC = address after the call; not frame aware;
    I6  the breakpoint at the address where a command is issued does not stop that command's
        first instruction (the user is already paused there); every later arrival pauses;
        HALT or a PC outside user space at that address refuse the command (0 instructions);
    I7  `step out` exists only with the stack feature; without it the command is refused.
  No status machine, no counters, no messages.  `fuel` bounds the instructions ONE command may
  execute (the only unbounded loop); theorems quantify over all fuel.
-/
import Lace.Spec.ISA
namespace Lace.RefDebug
open Lace ISA

/-! ### Breakpoints: a set of addresses -/

abbrev BpSet := Word → Bool

def BpSet.empty : BpSet := fun _ => false
def BpSet.add (s : BpSet) (a : Word) : BpSet := fun x => x == a || s x
def BpSet.remove (s : BpSet) (a : Word) : BpSet := fun x => x != a && s x
def BpSet.ofList (l : List Word) : BpSet := fun x => l.contains x

/-! ### Instruction classes and the stop predicate -/

/-- JSR, JSRR or CALL -/
def isCall (x : Word) : Bool :=
  match decode x with
  | .jsr _ | .jsrr _ | .call _ => true
  | _ => false

/-- RET (= JMP R7) or RETS -/
def isRet (x : Word) : Bool :=
  match decode x with
  | .jmp base => base == 7#3
  | .rets => true
  | _ => false

/-- TRAP x25 -/
def isHalt (x : Word) : Bool :=
  match decode x with
  | .trap vec => vec == 0x25#8
  | _ => false

/-- PC inside `[origin, xFE00)` (so not xFFFF either). -/
def inUser (m : Machine) : Bool := decide (m.orig ≤ m.pc) && decide (m.pc < 0xFE00#16)

/-- Execution never goes past a state in which this holds. -/
def interrupt (bps : BpSet) (m : Machine) : Bool :=
  bps m.pc || isHalt (m.read m.pc) || !inUser m

/-! ### Running -/

/-- One instruction cycle of the reference machine (the body of `Ref.run`). -/
def step (so mi : Bool) (m : Machine) (w : World) : StepResult :=
  exec so mi (decode (m.read m.pc)) (m.setPC (m.pc + 1)) w

/-- What one command did. `n` = number of instructions it executed. -/
inductive Out where
  /-- paused again, showing this machine -/
  | paused (n : Nat) (m : Machine) (w : World)
  /-- the `n`-th instruction ended the process with this exit status -/
  | ended (n : Nat) (code : Nat) (m : Machine) (w : World)
  | panic (n : Nat) (site : String)
  /-- still running after `n` = fuel instructions -/
  | fuel (n : Nat) (m : Machine) (w : World)

/-- Execute instructions; after each one pause if `stop instr n m'` (the word just executed, the
number executed so far, the machine reached) or `interrupt` holds.  `n` counts from the command. -/
def runUntil (so mi : Bool) (stop : Word → Nat → Machine → Bool) (bps : BpSet) :
    Nat → Nat → Machine → World → Out
  | 0, n, m, w => .fuel n m w
  | f + 1, n, m, w =>
    match step so mi m w with
    | .ok m' w' =>
      if stop (m.read m.pc) (n + 1) m' || interrupt bps m' then .paused (n + 1) m' w'
      else runUntil so mi stop bps f (n + 1) m' w'
    | .exit c w' => .ended (n + 1) c (m.setPC (m.pc + 1)) w'
    | .panic s => .panic (n + 1) s

/-- A resuming command issued at `m`: refused (nothing executed) at HALT or outside user space;
otherwise the first instruction is executed whatever the breakpoints say (I6). -/
def resume (so mi : Bool) (stop : Word → Nat → Machine → Bool) (bps : BpSet) (fuel : Nat)
    (m : Machine) (w : World) : Out :=
  if isHalt (m.read m.pc) || !inUser m then .paused 0 m w
  else runUntil so mi stop bps fuel 0 m w

/-! ### Commands -/

/-- Where a breakpoint command points, resolved against the paused machine (absolute address,
label, PC ± k; lace accepts only user-space addresses — C13). `none`: refused. -/
abbrev Target := Machine → Option Word

inductive Cmd where
  | step
  | stepInto (k : Word)
  | stepOut
  | continue_
  | breakAdd (t : Target)
  | breakRemove (t : Target)

def stepIntoStop (k : Word) : Word → Nat → Machine → Bool := fun _ n _ => n == max k.toNat 1
def stepOverStop (ret : Word) : Word → Nat → Machine → Bool := fun _ _ m' => m'.pc == ret
def stepOutStop : Word → Nat → Machine → Bool := fun instr _ _ => isRet instr
def continueStop : Word → Nat → Machine → Bool := fun _ _ _ => false

/-- The four resuming commands. -/
def run (so mi : Bool) (bps : BpSet) (fuel : Nat) (m : Machine) (w : World) : Cmd → Out
  | .stepInto k => resume so mi (stepIntoStop k) bps fuel m w
  | .step =>
    if isCall (m.read m.pc) then resume so mi (stepOverStop (m.pc + 1)) bps fuel m w
    else resume so mi (stepIntoStop 1) bps fuel m w
  | .stepOut => if so then resume so mi stepOutStop bps fuel m w else .paused 0 m w
  | .continue_ => resume so mi continueStop bps fuel m w
  | _ => .paused 0 m w

/-- What a breakpoint command does to the set. -/
def updateBps (bps : BpSet) (m : Machine) : Cmd → BpSet
  | .breakAdd t => match t m with | some a => bps.add a | none => bps
  | .breakRemove t => match t m with | some a => bps.remove a | none => bps
  | _ => bps

/-! ### Sessions -/

/-- What the user sees when the debugger asks for a command: the number of instructions executed
since the session began, and the machine. -/
structure Entry where
  executed : Nat
  m : Machine
  w : World

inductive Final where
  /-- the script was run to its end and `exit` was given: the session ends paused on this machine -/
  | exited (m : Machine) (w : World)
  /-- an instruction ended the process -/
  | ended (code : Nat) (m : Machine) (w : World)
  | panic (site : String)
  /-- a command ran out of fuel -/
  | fuel (m : Machine) (w : World)

structure Result where
  /-- one entry per command read, in order (the last one is the read of `exit`) -/
  log : List Entry
  /-- instructions executed in the whole session -/
  executed : Nat
  final : Final

def Result.cons (e : Entry) (r : Result) : Result := { r with log := e :: r.log }

/-- Run a script from a paused state; `k` = instructions executed so far. The script is followed
by `exit`. -/
def runScript (so mi : Bool) (fuel : Nat) : Nat → List Cmd → BpSet → Machine → World → Result
  | k, [], _, m, w => ⟨[⟨k, m, w⟩], k, .exited m w⟩
  | k, c :: rest, bps, m, w =>
    Result.cons ⟨k, m, w⟩ <|
      match run so mi bps fuel m w c with
      | .paused n m' w' => runScript so mi fuel (k + n) rest (updateBps bps m c) m' w'
      | .ended n code m' w' => ⟨[], k + n, .ended code m' w'⟩
      | .panic n s => ⟨[], k + n, .panic s⟩
      | .fuel n m' w' => ⟨[], k + n, .fuel m' w'⟩

end Lace.RefDebug
