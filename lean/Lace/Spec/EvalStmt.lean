/-
  Bridge between the specification of `eval` (`Spec/EvalAbs.lean`) and parsed statements: a
  statement of the assembler's intermediate representation read as an instruction whose label
  operand is an absolute address, and the resulting specification-level `eval`.
-/
import Lace.Spec.EvalAbs
import Lace.Model.Air
import Lace.Model.Eval
namespace Lace.Spec
open Lace

/-- A parsed statement as an instruction with absolute operands; `res` gives the address a label
operand denotes (`none` = it names no label).  The `u8` immediates are the 5- / 6-bit fields the
parser's range check let through.  A branch is off-limits whatever its operand, so an
unresolvable one is still a branch. -/
def absOf (res : Asm.Label → Option Word) : Asm.Stmt → Option Instr
  | .add d s (.reg r) => some (.addReg d s r)
  | .add d s (.imm5 v) => some (.addImm d s (v.setWidth 5))
  | .and d s (.reg r) => some (.andReg d s r)
  | .and d s (.imm5 v) => some (.andImm d s (v.setWidth 5))
  | .branch f l => some (.br (f.bits.setWidth 3) ((res l).getD 0))
  | .jump s => some (.jmp s)
  | .jumpSub l => (res l).map .jsr
  | .jumpSubReg s => some (.jsrr s)
  | .load d l => (res l).map (.ld d)
  | .loadInd d l => (res l).map (.ldi d)
  | .loadOffs d s off => some (.ldr d s (off.setWidth 6))
  | .loadEAddr d l => (res l).map (.lea d)
  | .not d s => some (.not d s)
  | .ret => some .ret
  | .interrupt => some .rti
  | .store s l => (res l).map (.st s)
  | .storeInd s l => (res l).map (.sti s)
  | .storeOffs s d off => some (.str s d (off.setWidth 6))
  | .push s => some (.push s)
  | .pop d => some (.pop d)
  | .call l => (res l).map .call
  | .rets => some .rets
  | .rawWord _ => none
  | .trap v => some (.trap v)

/-- the debugger's view of a step result -/
def toEval : StepResult → Dbg.EvalResult
  | .ok m w => .ok m w
  | .exit c w => .exit c w
  | .panic s => .panic s

/-- What `eval` of a well-formed statement must do: refuse off-limits instructions (identifier
line), refuse operands that name no label or cannot be encoded from here (diagnostic), otherwise
`execAbs`. -/
def evalSpec (so mi : Bool) (res : Asm.Label → Option Word) (m : Machine) (w : World)
    (stmt : Asm.Stmt) : Dbg.EvalResult :=
  match absOf res stmt with
  | none => .refused Dbg.evalMsg
  | some i =>
    match offLimits i with
    | some ident => .refused [ident.toList]
    | none => if fitsAt m.pc i then toEval (execAbs so mi i m w) else .refused Dbg.evalMsg

/-- address of the statement with 1-based number `line` in a program loaded at `orig` -/
def addrOfLine (orig : Word) (line : Nat) : Word := orig + BitVec.ofNat 16 line - 1

/-- Label resolution through the assembler's symbol table: label ↦ line ↦ address. -/
def resolveIn (tbl : Asm.SymTab) (orig : Word) : Asm.Label → Option Word
  | .ref line => some (addrOfLine orig line)
  | .unfilled name => (tbl.get? name).map (addrOfLine orig)

end Lace.Spec
