/-
  SPECIFICATION — loading an image and the reference machine's run loop (C03, C06).

  An image is the origin word followed by the program words.  Loading puts the words at the
  origin, an implicit HALT after the last word, PC = origin, R0–R6 = 0, R7 = xFDFF, no
  condition code.  Running repeats fetch / increment / execute until PC = xFFFF (normal end)
  or PC leaves [origin, xFE00) (exception, exit status xEE).
-/
import Lace.Spec.ISA
namespace Lace.Ref
open Lace ISA

def HALT_WORD : Word := 0xF025#16
def USER_END : Word := 0xFE00#16
def HALT_ADDR : Word := 0xFFFF#16

/-- An image fits iff its words plus the HALT sentinel end at or below the top of memory. -/
def fits (orig : Word) (n : Nat) : Prop := orig.toNat + n + 1 ≤ 65536
instance (orig : Word) (n : Nat) : Decidable (fits orig n) := by unfold fits; infer_instance

/-- Memory after loading `words` at `orig`. -/
def loadedMem (orig : Word) (words : List Word) : Vector Word 65536 :=
  Vector.ofFn fun a =>
    if a.val < orig.toNat then 0#16
    else if h : a.val - orig.toNat < words.length then words[a.val - orig.toNat]
    else if a.val - orig.toNat = words.length then HALT_WORD
    else 0#16

def initRegs : Vector Word 8 := #v[0, 0, 0, 0, 0, 0, 0, 0xFDFF#16]

/-- `none` = the loader refuses the image. -/
def load : List Word → Option Machine
  | [] => none
  | orig :: words =>
    if fits orig words.length then
      some { mem := loadedMem orig words, reg := initRegs, pc := orig, cc := .none, orig := orig }
    else none

inductive RunResult where
  /-- normal end: PC reached xFFFF (HALT executed or a jump there); process exit status 0 -/
  | done (m : Machine) (w : World)
  /-- the machine stopped with this exit status (xEE: exception; 1: emulator error) -/
  | exit (code : Nat) (m : Machine) (w : World)
  | panic (site : String)
  /-- step budget exhausted (the run is still going) -/
  | fuel (m : Machine) (w : World)

def inUserSpace (m : Machine) : Prop := m.orig ≤ m.pc ∧ m.pc < USER_END
instance (m : Machine) : Decidable (inUserSpace m) := by unfold inUserSpace; infer_instance

/-- The reference run loop; `n` bounds the number of instruction cycles. -/
def run (so mi : Bool) : Nat → Machine → World → RunResult
  | 0, m, w => .fuel m w
  | n + 1, m, w =>
    if m.pc = HALT_ADDR then .done m w
    else if ¬ inUserSpace m then .exit 0xEE m w
    else
      let m1 := m.setPC (m.pc + 1)
      match exec so mi (decode (m.read m.pc)) m1 w with
      | .ok m' w' => run so mi n m' w'
      | .exit c w' => .exit c m1 w'
      | .panic s => .panic s

end Lace.Ref
