/-
  The LC-3 instruction encoding (Patt & Patel, App. A) and lace's documented stack extension, as
  bit-field concatenation over *addresses*.  No line numbers, no symbol table, no masks.

  A statement sits at address `addr`; an operand that names a location is given as the target
  *address*.  A PC-relative field of `n` bits holds `target − (addr + 1)`; addresses are 16-bit words
  and their arithmetic wraps modulo 2^16 (as the machine's does), the difference is read as a
  signed number and must lie in `[−2^(n−1), 2^(n−1))`; `encode` is `none` when it does not.
-/
import Lace.Basic.Machine
namespace Lace.Spec

/-- An instruction or data word with all operands resolved. -/
inductive Instr where
  | addReg (dr sr1 sr2 : BitVec 3)
  | addImm (dr sr1 : BitVec 3) (imm5 : BitVec 5)
  | andReg (dr sr1 sr2 : BitVec 3)
  | andImm (dr sr1 : BitVec 3) (imm5 : BitVec 5)
  | br (nzp : BitVec 3) (target : Word)
  | jmp (base : BitVec 3)
  | jsr (target : Word)
  | jsrr (base : BitVec 3)
  | ld (dr : BitVec 3) (target : Word)
  | ldi (dr : BitVec 3) (target : Word)
  | ldr (dr base : BitVec 3) (off6 : BitVec 6)
  | lea (dr : BitVec 3) (target : Word)
  | not (dr sr : BitVec 3)
  | ret
  | rti
  | st (sr : BitVec 3) (target : Word)
  | sti (sr : BitVec 3) (target : Word)
  | str (sr base : BitVec 3) (off6 : BitVec 6)
  | trap (vect : BitVec 8)
  -- stack extension (README): opcode 1101, bit 11 = call/rets, bit 10 = push/call
  | push (sr : BitVec 3)
  | pop (dr : BitVec 3)
  | call (target : Word)
  | rets
  -- data
  | fill (w : Word)
  deriving DecidableEq, Repr

/-- `target − (addr + 1)` in 16-bit address arithmetic, read as a signed number. -/
def pcDistance (addr target : Word) : Int := (target - (addr + 1)).toInt

/-- The `n`-bit PC-relative field, if the distance fits. -/
def pcField (n : Nat) (addr target : Word) : Option (BitVec n) :=
  let d := pcDistance addr target
  if -(2 : Int) ^ (n - 1) ≤ d ∧ d < (2 : Int) ^ (n - 1) then some (BitVec.ofInt n d) else none

/-- The word of an instruction placed at address `addr`. -/
def encode (i : Instr) (addr : Word) : Option Word :=
  match i with
  | .addReg dr sr1 sr2 => some (0b0001#4 ++ dr ++ sr1 ++ 0b000#3 ++ sr2)
  | .addImm dr sr1 imm => some (0b0001#4 ++ dr ++ sr1 ++ 0b1#1 ++ imm)
  | .andReg dr sr1 sr2 => some (0b0101#4 ++ dr ++ sr1 ++ 0b000#3 ++ sr2)
  | .andImm dr sr1 imm => some (0b0101#4 ++ dr ++ sr1 ++ 0b1#1 ++ imm)
  | .br nzp t => (pcField 9 addr t).map fun f => 0b0000#4 ++ nzp ++ f
  | .jmp base => some (0b1100#4 ++ 0b000#3 ++ base ++ 0b000000#6)
  | .jsr t => (pcField 11 addr t).map fun f => 0b0100#4 ++ 0b1#1 ++ f
  | .jsrr base => some (0b0100#4 ++ 0b000#3 ++ base ++ 0b000000#6)
  | .ld dr t => (pcField 9 addr t).map fun f => 0b0010#4 ++ dr ++ f
  | .ldi dr t => (pcField 9 addr t).map fun f => 0b1010#4 ++ dr ++ f
  | .ldr dr base off => some (0b0110#4 ++ dr ++ base ++ off)
  | .lea dr t => (pcField 9 addr t).map fun f => 0b1110#4 ++ dr ++ f
  | .not dr sr => some (0b1001#4 ++ dr ++ sr ++ 0b111111#6)
  | .ret => some (0b1100#4 ++ 0b000#3 ++ 0b111#3 ++ 0b000000#6)
  | .rti => some (0b1000#4 ++ 0b000000000000#12)
  | .st sr t => (pcField 9 addr t).map fun f => 0b0011#4 ++ sr ++ f
  | .sti sr t => (pcField 9 addr t).map fun f => 0b1011#4 ++ sr ++ f
  | .str sr base off => some (0b0111#4 ++ sr ++ base ++ off)
  | .trap v => some (0b1111#4 ++ 0b0000#4 ++ v)
  | .push sr => some (0b1101#4 ++ 0b01#2 ++ 0b0#1 ++ sr ++ 0b000000#6)
  | .pop dr => some (0b1101#4 ++ 0b00#2 ++ 0b0#1 ++ dr ++ 0b000000#6)
  | .call t => (pcField 10 addr t).map fun f => 0b1101#4 ++ 0b11#2 ++ f
  | .rets => some (0b1101#4 ++ 0b10#2 ++ 0b0000000000#10)
  | .fill w => some w

end Lace.Spec
