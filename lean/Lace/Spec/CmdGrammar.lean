/-
  Grammar of the debugger command language, written from the documentation:
  the doc comments of `parse/integer.rs` (accepted integer syntax) and `parse/naive.rs`
  (which shapes are integers / registers / labels / PC offsets), `src/debugger/help.txt`
  (commands, arguments, defaults) and the text of property C14.

  Nothing here mentions byte offsets, cursors or iterators: a line is a list of characters, its
  *words* are the maximal runs of characters other than the space U+0020, and every argument is
  classified by its shape.

  Result classes of a token read as a value of some type (`Cmd.PR`):
    `ok v`  — the token is a value of that type;
    `none`  — the token is not of that type at all (another type may still claim it);
    `err`   — the token is malformed: no type may claim it.
  The fourth constructor `panic` of `Cmd.PR` is never produced by the grammar
  (`integer_ne_panic`, `parseLine_ne_panic`).
-/
import Lace.Model.Cmd.Types
import Lace.Model.Cmd.Text
namespace Lace.CmdGrammar
open Lace.Cmd (PR MemLoc Loc Command CommandName ParseOutcome trim)

/-! ## Integers -/

/-- Largest magnitude of an integer literal (`i32::MAX`): "Absolute value out of bounds for
`i32`" is an error. -/
def maxMagnitude : Nat := 2147483647

/-- Value of `c` as a digit (`0-9`, `a-f`, `A-F`), irrespective of radix. -/
def hexDigitValue (c : Char) : Option Nat :=
  let n := c.toNat
  if '0'.toNat ≤ n ∧ n ≤ '9'.toNat then some (n - '0'.toNat)
  else if 'a'.toNat ≤ n ∧ n ≤ 'f'.toNat then some (n - 'a'.toNat + 10)
  else if 'A'.toNat ≤ n ∧ n ≤ 'F'.toNat then some (n - 'A'.toNat + 10)
  else none

/-- `c` as a digit of radix `r`: its value must be below the radix. -/
def digitValue (r : Nat) (c : Char) : Option Nat :=
  match hexDigitValue c with
  | some d => if d < r then some d else none
  | none => none

def isDigit (r : Nat) (c : Char) : Bool := (digitValue r c).isSome

/-- Value of a digit string, most significant digit first. -/
def valueOf (r : Nat) (digits : List Char) : Nat :=
  digits.foldl (fun acc c => acc * r + (digitValue r c).getD 0) 0

/-- An optional sign character: its factor and the remaining characters. -/
def optSign : List Char → Option Int × List Char
  | '+' :: rest => (some 1, rest)
  | '-' :: rest => (some (-1), rest)
  | s => (none, s)

/-- Radix announced by a prefix character: `b` / `o` / `x` in either case, or `#`. -/
def radixOfPrefix (c : Char) : Option Nat :=
  if c = 'b' ∨ c = 'B' then some 2
  else if c = 'o' ∨ c = 'O' then some 8
  else if c = 'x' ∨ c = 'X' then some 16
  else if c = '#' then some 10
  else none

/-- The digits of a literal, once sign(s), zero and prefix are known.

`definite`: the token can only be an integer (it has a sign, a zero before the prefix, or is
decimal), so anything wrong with it is an error; otherwise (`x…`, `o…`, `b…` without sign or
zero) it may still be a label, and is merely "not an integer".

The magnitude is checked while the digits are read: a digit run that already exceeds `i32` is an
error even when a non-digit follows (so `xfffffffffg` is malformed, while `xfg` is a label). -/
def number (sign : Option Int) (definite : Bool) (r : Nat) (body : List Char) : PR Int :=
  let run := body.takeWhile (isDigit r)
  let notThisType : PR Int := if definite then .err else .none
  if body = [] then notThisType                          -- no digits at all: "x", "#", "-"
  else if valueOf r run > maxMagnitude then .err         -- magnitude outside i32
  else if run.length < body.length then notThisType      -- a character that is not a digit
  else .ok (sign.getD 1 * (valueOf r run : Int))

/-- An integer literal after its optional leading sign `sign₁` and the optional single zero
(`zero`): `( [bBoOxX] | '#' )? sign? digit+`. -/
def afterZero (sign₁ : Option Int) (zero : Bool) (s₂ : List Char) : PR Int :=
  match s₂ with
  | [] => if sign₁.isSome then .err else .none            -- a lone sign
  | c :: rest =>
    match radixOfPrefix c with
    | some r =>
      if c = '#' ∧ zero = true then .err else              -- "0#…"
      let (sign₂, body) := optSign rest
      if sign₁.isSome ∧ sign₂.isSome then .err else        -- two signs
      let sign := if sign₁.isSome then sign₁ else sign₂
      number sign (sign.isSome || zero || r == 10) r body
    | none =>
      if isDigit 10 c then number sign₁ true 10 (c :: rest)     -- bare decimal
      else if c = '+' ∨ c = '-' then .err                       -- "--1", "0-1"
      else if zero = true ∨ sign₁.isSome then .err             -- "0_", "-foo"
      else .none                                                -- not an integer: "foo", "^3"

/-- An integer literal after its optional leading sign `sign₁`:
`( '0'? [bBoOxX] | '#' )? sign? digit+`, or `0` alone. -/
def unsignedPart (sign₁ : Option Int) (s₁ : List Char) : PR Int :=
  if s₁ = ['0'] then .ok 0 else
  match s₁ with
  | c :: rest =>
    if c = '0' then afterZero sign₁ true rest      -- a single zero before the prefix
    else afterZero sign₁ false s₁
  | [] => afterZero sign₁ false s₁

/-- **Integer literal.**  `sign? ( '0'? [bBoOxX] | '#' )? sign? digit+`, where
* at most one of the two signs is present ("sign before XOR after the prefix");
* a single zero may precede `b`/`o`/`x` but not `#`; more zeros make the token a bare decimal
  (`00x4` is malformed, `007` is seven);
* without a prefix the digits are decimal;
* the digits are those of the radix and the magnitude is at most `i32::MAX`;
* `0` alone (also `+0`, `-0`) is zero. -/
def integer (s : List Char) : PR Int :=
  if s = [] then .none else
  let (sign₁, s₁) := optSign s
  unsignedPart sign₁ s₁

/-- An integer that must be introduced by a sign (label offsets: `Foo+4`, `Foo-x10`). -/
def signedInteger (s : List Char) : PR Int :=
  if s = [] then .none
  else if (optSign s).1.isNone then .err
  else integer s

/-- `as_i16`: the value must lie in `[-32768, 32767]`. -/
def asI16 (v : Int) : Option Int := if -32768 ≤ v ∧ v ≤ 32767 then some v else none
/-- `as_u16`: the value must lie in `[0, 65535]`. -/
def asU16 (v : Int) : Option Word := if 0 ≤ v ∧ v ≤ 65535 then some (BitVec.ofInt 16 v) else none
/-- `as_u16_cast`: `[-32768, 65535]`, negative values in two's complement. -/
def asU16Cast (v : Int) : Option Word :=
  if -32768 ≤ v ∧ v ≤ 65535 then some (BitVec.ofInt 16 v) else none

/-! ## Registers, labels, PC offsets, locations -/

def isLabelStart (c : Char) : Bool :=
  let n := c.toNat
  ('a'.toNat ≤ n && n ≤ 'z'.toNat) || ('A'.toNat ≤ n && n ≤ 'Z'.toNat) || c == '_'

def isLabelChar (c : Char) : Bool :=
  isLabelStart c || ('0'.toNat ≤ c.toNat && c.toNat ≤ '9'.toNat)

/-- `[rR][0-7]` at the start of a token, not continued by a label character: the register number
and what follows it. -/
def registerLike (t : List Char) : Option (BitVec 3 × List Char) :=
  match t with
  | c :: d :: rest =>
    if (c = 'r' ∨ c = 'R') ∧ '0'.toNat ≤ d.toNat ∧ d.toNat ≤ '7'.toNat ∧
        (rest.head?.all (fun x => !isLabelChar x)) = true
    then some (BitVec.ofNat 3 (d.toNat - '0'.toNat), rest) else none
  | _ => none

/-- A value that must be an integer within `i16`. -/
def offset (r : PR Int) : PR Int :=
  match r with
  | .ok v => match asI16 v with
    | some o => .ok o
    | none => .err
  | _ => .err

/-- **Memory location** ("Address+" of `help.txt`):
1. `^` or `^integer` — an offset from the program counter, within `i16`;
2. an integer — an absolute address, within `u16`;
3. `[A-Za-z_][A-Za-z0-9_]*` optionally followed by a signed integer within `i16` — a label with
   offset.
Shapes that `naive.rs` reads as integers (`x1F`, `b101`, `o17`, anything starting with a digit,
sign or `#`) are integers, never labels. -/
def memLoc (t : List Char) : PR MemLoc :=
  match t with
  | [] => .none
  | c :: rest =>
    if c = '^' then
      if rest = [] then .ok (.pcOffset 0) else
      match offset (integer rest) with
      | .ok o => .ok (.pcOffset o)
      | _ => .err
    else
    match integer t with
    | .ok v => match asU16 v with
      | some a => .ok (.address a)
      | none => .err
    | .none =>
      if ¬ isLabelStart c then .none else
      let name := c :: rest.takeWhile isLabelChar
      let off := rest.dropWhile isLabelChar
      if off = [] then .ok (.label name 0) else
      match offset (signedInteger off) with
      | .ok o => .ok (.label name o)
      | _ => .err
    | _ => .err                                        -- a malformed integer

/-- A memory-location argument (`goto`, `break add`, `break remove`, `assembly`): register names
are not memory locations, everything unrecognised is an error. -/
def memLocArg (t : List Char) : Option MemLoc :=
  if (registerLike t).isSome then none else
  match memLoc t with
  | .ok l => some l
  | _ => none

/-- A location argument (`print`, `move`): a register or a memory location. -/
def locArg (t : List Char) : Option Loc :=
  match registerLike t with
  | some (r, []) => some (.reg r)
  | some (_, _ :: _) => none                         -- `r1+2`, `r1@`: malformed register
  | none =>
    match memLoc t with
    | .ok l => some (.mem l)
    | _ => none

/-- An integer argument (`move … VALUE`, `step into COUNT`): within `[-32768, 65535]`. -/
def intArg (t : List Char) : Option Word :=
  match integer t with
  | .ok v => asU16Cast v
  | _ => none

/-! ## Words -/

/-- The first word of a line: skip spaces, take up to the next space. -/
def firstWord (s : List Char) : List Char :=
  (s.dropWhile (· = ' ')).takeWhile (· ≠ ' ')

/-- The line after its first word. -/
def afterWord (s : List Char) : List Char :=
  (s.dropWhile (· = ' ')).dropWhile (· ≠ ' ')

/-- No further word. -/
def noMoreWords (s : List Char) : Bool := firstWord s = []

/-! ## Command names -/

def toLower (c : Char) : Char :=
  if 'A'.toNat ≤ c.toNat ∧ c.toNat ≤ 'Z'.toNat then Char.ofNat (c.toNat + 32) else c

/-- Names are matched irrespective of (ASCII) letter case. -/
def sameName (word : List Char) (name : String) : Bool :=
  word.map toLower == name.toList.map toLower

/-- Names and aliases of each command (`help.txt`, `name.rs`).  Documented misspellings
(`mov`, `jump`, `next`, …) are *not* here: they are rejected (with a suggestion in the message). -/
def commandTable : List (CommandName × List String) := [
  (.help, ["h", "help", "--help", "-h", ":h", "man", "info", "wtf"]),
  (.continue_, ["c", "continue", "cont"]),
  (.print, ["p", "print"]),
  (.move, ["m", "move"]),
  (.registers, ["r", "registers", "reg"]),
  (.goto, ["g", "goto"]),
  (.assembly, ["a", "assembly", "asm"]),
  (.eval, ["e", "eval", "evil", "evaluate"]),
  (.reset, ["z", "reset"]),
  (.echo, ["echo"]),
  (.quit, ["q", "quit"]),
  (.exit, ["x", "exit", ":q", ":wq", "^C"]),
  (.stepInto, ["si", "stepinto"]),
  (.stepOut, ["so", "stepout"]),
  (.breakList, ["bl", "breaklist"]),
  (.breakAdd, ["ba", "breakadd"]),
  (.breakRemove, ["br", "breakremove"]) ]

/-- `step` / `s` and its sub-commands (no sub-command: step over). -/
def stepNames : List String := ["step", "s"]
def stepTable : List (CommandName × List String) := [
  (.stepInto, ["i", "into"]),
  (.stepOut, ["o", "out"]) ]

/-- `break` / `b` and its sub-commands (a sub-command is required). -/
def breakNames : List String := ["b", "break"]
def breakTable : List (CommandName × List String) := [
  (.breakList, ["l", "list"]),
  (.breakAdd, ["a", "add"]),
  (.breakRemove, ["r", "remove"]) ]

/-- The command a word names in a table, if any (tables have no overlaps, see
`commandTable_unambiguous`). -/
def lookup (word : List Char) (table : List (CommandName × List String)) : Option CommandName :=
  (table.find? (fun e => e.2.any (sameName word))).map (·.1)

/-- The command named at the start of a line and the rest of the line (its arguments). -/
def commandName (line : List Char) : Option (CommandName × List Char) :=
  let w := firstWord line
  let rest := afterWord line
  if stepNames.any (sameName w) then
    let sub := firstWord rest
    if sub = [] then some (.stepOver, rest)
    else (lookup sub stepTable).map (·, afterWord rest)
  else if breakNames.any (sameName w) then
    let sub := firstWord rest
    if sub = [] then none
    else (lookup sub breakTable).map (·, afterWord rest)
  else (lookup w commandTable).map (·, rest)

/-! ## Commands -/

/-- Exactly zero further words. -/
def done (c : Command) (rest : List Char) : ParseOutcome :=
  if noMoreWords rest then .ok c else .err

/-- One required memory-location argument. -/
def oneMemLoc (mk : MemLoc → Command) (rest : List Char) : ParseOutcome :=
  match memLocArg (firstWord rest) with
  | some l => done (mk l) (afterWord rest)
  | none => .err                                 -- missing or malformed

/-- Arguments of each command (`help.txt`):
`help` ignores its arguments; `step`, `step out`, `continue`, `registers`, `reset`, `quit`,
`exit`, `break list` take none; `step into COUNT?` (default 1, and 0 means 1);
`print LOCATION?` (default: the program counter, `^0`);
`move LOCATION VALUE`; `goto` / `break add` / `break remove` `LOCATION` (a memory location);
`assembly LOCATION?` (default: the program counter, `^0`); `eval` / `echo` take the rest of the
line, trimmed, which must not be empty. -/
def arguments (name : CommandName) (rest : List Char) : ParseOutcome :=
  match name with
  | .help => .ok .help
  | .stepOver => done .stepOver rest
  | .stepOut => done .stepOut rest
  | .continue_ => done .continue_ rest
  | .registers => done .registers rest
  | .reset => done .reset rest
  | .quit => done .quit rest
  | .exit => done .exit rest
  | .breakList => done .breakList rest
  | .stepInto =>
    if noMoreWords rest then .ok (.stepInto 1#16) else
    match intArg (firstWord rest) with
    | some k => done (.stepInto (if k = 0#16 then 1#16 else k)) (afterWord rest)
    | none => .err
  | .print =>
    if noMoreWords rest then .ok (.print (.mem (.pcOffset 0))) else
    match locArg (firstWord rest) with
    | some l => done (.print l) (afterWord rest)
    | none => .err
  | .move =>
    match locArg (firstWord rest) with
    | some l =>
      match intArg (firstWord (afterWord rest)) with
      | some v => done (.move l v) (afterWord (afterWord rest))
      | none => .err
    | none => .err
  | .goto => oneMemLoc .goto rest
  | .breakAdd => oneMemLoc .breakAdd rest
  | .breakRemove => oneMemLoc .breakRemove rest
  | .assembly =>
    if noMoreWords rest then .ok (.assembly (.pcOffset 0)) else oneMemLoc .assembly rest
  | .eval => if trim rest = [] then .err else .ok (.eval (trim rest))
  | .echo => if trim rest = [] then .err else .ok (.echo (trim rest))

/-- **One command line** (already separated from its neighbours and trimmed): it names exactly
one command with exactly the documented argument values, or it is rejected (`err`). -/
def parseLine (line : List Char) : ParseOutcome :=
  match commandName line with
  | some (name, rest) => arguments name rest
  | none => .err

/-! ## Scripts -/

def isSeparator (c : Char) : Bool := c = '\n' || c = ';'

/-- The lines of a script: the maximal runs of characters other than `;` and newline. -/
def splitLines : List Char → List (List Char)
  | [] => [[]]
  | c :: cs =>
    if isSeparator c then [] :: splitLines cs
    else match splitLines cs with
      | l :: ls => (c :: l) :: ls
      | [] => [[c]]

/-- What a script means: each non-blank line, trimmed, is one command or one rejected line
(`none`), in order.  (Execution stops at the first `quit`/`exit`; that is the debugger's
business, not the grammar's.) -/
def script (s : List Char) : List (Option Command) :=
  ((splitLines s).map trim).filter (· ≠ []) |>.map fun line =>
    match parseLine line with
    | .ok c => some c
    | _ => none

/-- The script delivered by `--command a` followed by standard input `b`. -/
def combined (a : Option (List Char)) (b : List Char) : List Char :=
  match a with
  | some a => a ++ '\n' :: b
  | none => b

end Lace.CmdGrammar
