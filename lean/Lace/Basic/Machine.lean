/-
  Basic vocabulary shared by the ISA specification and by the model of `src/runtime.rs`:
  16-bit words, the machine state, the outside world (program input / output), and the
  result of executing one instruction.

  Import-free (core Lean only) so that the compiled driver can link it.
-/
namespace Lace

abbrev Word := BitVec 16

/-- Condition code (`RunFlag` in `runtime.rs`): `none` is the state after loading. -/
inductive CC where
  | n | z | p | none
  deriving DecidableEq, Repr, Inhabited

/-- The 3-bit `nzp` pattern of a condition code (`RunFlag as u16`). -/
def CC.bits : CC → BitVec 3
  | .n => 0b100#3
  | .z => 0b010#3
  | .p => 0b001#3
  | .none => 0b000#3

/-- Condition code of a result word, read as a signed 16-bit integer. -/
def CC.ofWord (v : Word) : CC :=
  if v.toInt < 0 then .n else if v = 0 then .z else .p

/-- The complete machine state (`RunState`). -/
structure Machine where
  mem  : Vector Word 65536
  reg  : Vector Word 8
  pc   : Word
  cc   : CC
  orig : Word

namespace Machine

@[inline] def read (m : Machine) (a : Word) : Word := m.mem[a.toNat]'a.isLt
@[inline] def write (m : Machine) (a : Word) (v : Word) : Machine :=
  { m with mem := m.mem.set a.toNat v a.isLt }
@[inline] def getReg (m : Machine) (r : BitVec 3) : Word := m.reg[r.toNat]'r.isLt
@[inline] def setReg (m : Machine) (r : BitVec 3) (v : Word) : Machine :=
  { m with reg := m.reg.set r.toNat v r.isLt }
@[inline] def setPC (m : Machine) (v : Word) : Machine := { m with pc := v }
@[inline] def setCC (m : Machine) (c : CC) : Machine := { m with cc := c }

end Machine

/-- What the program can observe of / do to the outside: the bytes still to be read from its
standard input and everything it has written to standard output so far. -/
structure World where
  inp : List Nat      -- remaining input bytes (each < 256)
  outRev : List Char  -- characters written so far, NEWEST first (so that writing is O(1))
  deriving Repr, DecidableEq

/-- Everything written to standard output so far, in order. -/
def World.output (w : World) : List Char := w.outRev.reverse

/-- Result of executing one instruction. -/
inductive StepResult where
  /-- executed; new machine and world -/
  | ok (m : Machine) (w : World)
  /-- `std::process::exit(code)`; the world as it was when the process ended -/
  | exit (code : Nat) (w : World)
  /-- a Rust panic (overflow check, `todo!`, failed assertion, …) at the named site -/
  | panic (site : String)

end Lace
