/-
  The tables lace prints in the normal (non `--minimal`) output mode: the register table of the
  REG trap and of the debugger's `registers`, the one-value table of `print`, the breakpoint table
  of `break list` (`src/output.rs`: `print_registers`, `print_integer`, `print_integer_inner`,
  `print_char_display`, `print_breakpoint_table`).  The literal pieces are copied from the source;
  the columns are what the tables' own header says: hex, signed, unsigned, character.
-/
import Lace.Basic.Machine
import Lace.Basic.Fmt
namespace Lace.Tables
open Lace

/-- `{:>n}` -/
def padLeft (n : Nat) (s : List Char) : List Char := List.replicate (n - s.length) ' ' ++ s

/-- `print_char_display` -/
def charDisplay (v : Word) : List Char :=
  match v.toNat with
  | 0x00 => "ɴᴜʟ".toList
  | 0x08 => " ʙꜱ".toList
  | 0x09 => " ʜᴛ".toList
  | 0x0a => " ʟꜰ".toList
  | 0x0b => " ᴠᴛ".toList
  | 0x0c => " ꜰꜰ".toList
  | 0x0d => " ᴄʀ".toList
  | 0x1b => "ᴇꜱᴄ".toList
  | 0x7f => "ᴅᴇʟ".toList
  | 0x20 => "[_]".toList
  | n => if 0x21 ≤ n ∧ n ≤ 0x7e then [' ', Char.ofNat n, ' '] else "\x1b[2m───\x1b[0m".toList

/-- `print_integer_inner` (normal mode): hex, signed (`int`), unsigned (`uint`), character -/
def integerInner (v : Word) : List Char :=
  "0x".toList ++ hex4 v ++ "  ".toList ++ padLeft 6 (decI16 v) ++ "  ".toList ++
    padLeft 6 (decNat v.toNat) ++ "    ".toList ++ charDisplay v

/-- one row of the register table -/
def regRow (i : Nat) (v : Word) : List Char :=
  "\x1b[2m│\x1b[0m".toList ++ " \x1b[1mR\x1b[1m".toList ++ decNat i ++ "\x1b[0m  ".toList ++ integerInner v ++
    " \x1b[2m│\x1b[0m\n".toList

/-- `print_registers` (normal mode) -/
def regTable (m : Machine) : List Char :=
  "\x1b[2m┌───────────────────────────────────┐\x1b[0m\n".toList ++ "\x1b[2m│        \x1b[3mhex     int    uint    chr\x1b[0m\x1b[2m │\x1b[0m\n".toList ++
  ((List.range 8).map fun i => regRow i (m.reg.toArray.getD i 0)).flatten ++
  "\x1b[2m├─────────────────┬─────────────────┤\x1b[0m\n".toList ++ "\x1b[2m│\x1b[0m".toList ++ "    \x1b[1mPC\x1b[0m".toList ++ " 0x".toList ++ hex4 m.pc ++
  "\x1b[2m    │    \x1b[0m".toList ++ " \x1b[1mCC\x1b[0m".toList ++ "  ".toList ++ bin3 m.cc.bits ++ "     \x1b[2m│\x1b[0m\n".toList ++
  "\x1b[2m└─────────────────┴─────────────────┘\x1b[0m\n".toList

/-- `print_integer` (normal mode) -/
def intTable (v : Word) : List Char :=
  "\x1b[2m┌───────────────────────────────┐\x1b[0m\n".toList ++ "\x1b[2m│    \x1b[3mhex     int    uint    chr\x1b[0m\x1b[2m │\x1b[0m\n".toList ++ "\x1b[2m│\x1b[0m ".toList ++ integerInner v ++
  " \x1b[2m│\x1b[0m\n".toList ++ "\x1b[2m└───────────────────────────────┘\x1b[0m\n".toList

/-- `print_cell`: at most `width − 2` characters, then `…`; padded to `width − 1` -/
def bpCell (text : List Char) (width : Nat) : List Char :=
  if text.length ≤ width - 2 then text ++ List.replicate (width - 1 - text.length) ' '
  else text.take (width - 2) ++ ['…']

def bpRule (l mid r : Char) : List Char :=
  [l] ++ List.replicate 8 '─' ++ [mid] ++ List.replicate 14 '─' ++ [mid] ++ List.replicate 28 '─' ++ [r, '\n']

def bpRow (address : Word) (label line : List Char) : List Char :=
  "│ \x1b[0;1m".toList ++ "0x".toList ++ hex4 address ++ "\x1b[0;2m │ \x1b[0m".toList ++ bpCell label 14 ++
    "\x1b[2m│ \x1b[0m".toList ++ bpCell line 28 ++ "\x1b[2m│".toList ++ ['\n']

def bpRows : List (Word × List Char × List Char) → Bool → List Char
  | [], _ => []
  | (a, lab, line) :: rest, first =>
    (if first then [] else bpRule '├' '┼' '┤') ++ bpRow a lab line ++ bpRows rest false

/-- `print_breakpoint_table` -/
def bpTable (rows : List (Word × List Char × List Char)) : List Char :=
  "\x1b[2m".toList ++ bpRule '┌' '┬' '┐' ++ bpRows rows true ++ bpRule '└' '┴' '┘' ++ "\x1b[0m".toList

/-- remove `ESC [ … <final byte>` sequences; state 0 = text, 1 = after ESC, 2 = inside a sequence -/
def stripAnsiAux : Nat → List Char → List Char
  | _, [] => []
  | 0, c :: r => if c = Char.ofNat 0x1b then stripAnsiAux 1 r else c :: stripAnsiAux 0 r
  | 1, c :: r =>
    if c = '[' then stripAnsiAux 2 r
    else if c = Char.ofNat 0x1b then Char.ofNat 0x1b :: stripAnsiAux 1 r
    else Char.ofNat 0x1b :: c :: stripAnsiAux 0 r
  | _, c :: r => if 0x40 ≤ c.toNat ∧ c.toNat ≤ 0x7e then stripAnsiAux 0 r else stripAnsiAux 2 r

def stripAnsi (s : List Char) : List Char := stripAnsiAux 0 s

end Lace.Tables
