/-
  Vocabulary shared by the model of the debugger's line editor (`Lace/Model/Editor.lean`) and
  the reference editor (`Lace/Spec/RefEditor.lean`): keys and the character classification.
  Core Lean only.
-/
namespace Lace.Editor

/-- Rust's classification of one character. -/
structure CharClass where
  /-- `char::is_whitespace` -/
  ws : Bool
  /-- `char::is_alphanumeric` -/
  alnum : Bool
  deriving Repr, DecidableEq, Inhabited

/-- `term::Key` -/
inductive Key where
  | enter | backspace | delete | left | right | up | down | ctrlLeft | ctrlRight
  | char (c : Char)
  deriving Repr, DecidableEq, Inhabited

/-- ASCII control characters (`'\x00'..='\x1f' | '\x7f'`), which the editor ignores. -/
def isAsciiControl (ch : Char) : Bool := ch.toNat ≤ 0x1f || ch.toNat = 0x7f

end Lace.Editor
