/-
  Lean-side re-implementations of the Rust formatting the VM relies on
  (`{}` of an `i16`, `{:04x}`, `{:03b}`).  These are part of the trusted base: both the
  specification and the model call them, and the correspondence check compares their output
  with what the Rust code prints.
-/
import Lace.Basic.Machine
namespace Lace

def hexDigit (n : Nat) : Char :=
  if n < 10 then Char.ofNat (48 + n) else Char.ofNat (87 + n)   -- '0'.. / 'a'..

/-- `format!("{:04x}", w)` -/
def hex4 (w : Word) : List Char :=
  let n := w.toNat
  [hexDigit (n / 4096 % 16), hexDigit (n / 256 % 16), hexDigit (n / 16 % 16), hexDigit (n % 16)]

/-- `format!("{:03b}", x)` for a 3-bit value -/
def bin3 (x : BitVec 3) : List Char :=
  let n := x.toNat
  [hexDigit (n / 4 % 2), hexDigit (n / 2 % 2), hexDigit (n % 2)]

/-- `format!("{}", n)` for a natural number -/
def decNat (n : Nat) : List Char := (Nat.toDigits 10 n)

/-- `format!("{}", w as i16)` -/
def decI16 (w : Word) : List Char :=
  let i := w.toInt
  if i < 0 then '-' :: decNat i.natAbs else decNat i.natAbs

/-- `println!("\n{:>12}", "Halted")` (no colour when stdout is not a terminal) -/
def haltBanner : List Char :=
  ['\n', ' ', ' ', ' ', ' ', ' ', ' ', 'H', 'a', 'l', 't', 'e', 'd', '\n']

end Lace
