/-
  C14: lines delivered by the readers are in the domain of `Command::try_from`; nothing panics.
-/
import Lace.Proofs.CmdLine
import Lace.Proofs.CmdTransport
namespace Lace.C14
open Lace.Cmd Lace.CmdGrammar

/-- The domain of `Command::try_from`: no separator, and a first word. -/
def ValidLine (line : List Char) : Prop := NoSep line ∧ firstWord line ≠ []

theorem done_noPanic (c : Command) (rest : List Char) (s : String) : done c rest ≠ .panic s := by
  unfold done; split <;> simp

theorem oneMemLoc_noPanic (mk : MemLoc → Command) (rest : List Char) (s : String) :
    oneMemLoc mk rest ≠ .panic s := by
  unfold oneMemLoc; split
  · exact done_noPanic _ _ s
  · simp

/-- The grammar never says "panic". -/
theorem grammar_parseLine_noPanic (line : List Char) (s : String) :
    CmdGrammar.parseLine line ≠ .panic s := by
  unfold CmdGrammar.parseLine
  split
  · rename_i name rest _
    cases name <;> simp only [arguments] <;>
      first
      | exact done_noPanic _ _ s
      | exact oneMemLoc_noPanic _ _ s
      | (repeat' split) <;> first | exact done_noPanic _ _ s | exact oneMemLoc_noPanic _ _ s | simp
  · simp

theorem trimEnd_prefix (s : List Char) : ∃ t, s = trimEnd s ++ t := by
  refine ⟨(s.reverse.takeWhile isWhitespace).reverse, ?_⟩
  unfold trimEnd
  rw [← List.reverse_append, List.takeWhile_append_dropWhile, List.reverse_reverse]

theorem trim_sublist (s : List Char) : List.Sublist (trim s) s := by
  unfold trim
  obtain ⟨t, ht⟩ := trimEnd_prefix (trimStart s)
  have h1 : List.Sublist (trimEnd (trimStart s)) (trimStart s) := by
    conv => rhs; rw [ht]
    exact List.sublist_append_left _ _
  exact h1.trans (List.dropWhile_sublist _)

theorem trim_head_not_space {s : List Char} (h : trim s ≠ []) : firstWord (trim s) ≠ [] := by
  unfold trim at h ⊢
  obtain ⟨t, ht⟩ := trimEnd_prefix (trimStart s)
  cases hte : trimEnd (trimStart s) with
  | nil => exact absurd hte h
  | cons c cs =>
    rw [hte] at ht
    have hhead : (trimStart s).head? = some c := by rw [ht]; rfl
    have hws : isWhitespace c = false := by
      have := List.head?_dropWhile_not isWhitespace s
      unfold trimStart at hhead
      rw [hhead] at this
      simpa using this
    have hsp : c ≠ ' ' := by intro e; subst e; revert hws; decide
    simp [firstWord, List.dropWhile, List.takeWhile, hsp]

/-- Every line a reader delivers is, once trimmed and if not blank, a valid line. -/
theorem valid_of_textLines {t l : List Char} (hl : l ∈ textLines t) (hne : trim l ≠ []) :
    ValidLine (trim l) := by
  constructor
  · have hnd := linesAux_no_delim t [] (by simp) l hl
    intro c hc
    have := hnd c ((trim_sublist l).subset hc)
    simp only [isDelimiter, Bool.or_eq_false_iff, decide_eq_false_iff_not] at this
    exact ⟨this.2, this.1⟩
  · exact trim_head_not_space hne

theorem parseLine_noPanic {line : List Char} (h : ValidLine line) (s : String) :
    Cmd.parseLine line ≠ .panic s := by
  rw [parseLine_eq line h.1 h.2]
  split
  · simp
  · exact grammar_parseLine_noPanic line s

theorem sessionL_noPanic (L : List (List Char))
    (h : ∀ l ∈ L, trim l ≠ [] → ∀ s, Cmd.parseLine (trim l) ≠ .panic s) (s : String) :
    (sessionL L).ending ≠ .panic s := by
  induction L with
  | nil => simp [sessionL]
  | cons l L ih =>
    have ih' := ih (fun l' hl' => h l' (List.mem_cons_of_mem _ hl'))
    simp only [sessionL]
    by_cases he : (trim l).isEmpty = true
    · simp only [he, if_true]; exact ih'
    · simp only [he, if_false, Bool.false_eq_true]
      have hne : trim l ≠ [] := by simpa using he
      have hp := h l (List.mem_cons_self ..) hne
      cases hr : Cmd.parseLine (trim l) with
      | ok c => exact ih'
      | err => exact ih'
      | exit code => simp
      | panic s' => exact absurd hr (hp s')

end Lace.C14
