/-
  Helper lemmas for C20: the byte-indexed string primitives of the editor model
  (`count_chars_bytes`, `String::insert`, `String::remove`) do what the corresponding
  character-indexed list operations do.
-/
import Lace.Model.Editor
namespace Lace.Editor

theorem utf8Len_take_succ (c : Char) (rest : List Char) (k : Nat) :
    utf8Len ((c :: rest).take (k + 1)) = c.utf8Size + utf8Len (rest.take k) := by
  simp [utf8Len]

/-- Once the character index is passed, `byte_index` no longer changes. -/
theorem countCharsBytesGo_past (k : Nat) : ∀ (l : List Char) (i j bi cc : Nat), k < i →
    countCharsBytesGo k l i j bi cc = (bi, cc + l.length)
  | [], _, _, _, _, _ => by simp [countCharsBytesGo]
  | ch :: rest, i, j, bi, cc, h => by
    have hne : ¬ i = k := by omega
    rw [countCharsBytesGo, countCharsBytesGo_past k rest (i + 1) _ _ _ (by omega)]
    simp [hne]; omega

theorem countCharsBytesGo_eq (k : Nat) : ∀ (l : List Char) (i j bi cc : Nat), i ≤ k →
    countCharsBytesGo k l i j bi cc =
      (if k - i < l.length then j + utf8Len (l.take (k - i)) else bi, cc + l.length)
  | [], _, _, _, _, _ => by simp [countCharsBytesGo]
  | ch :: rest, i, j, bi, cc, h => by
    rw [countCharsBytesGo]
    by_cases hik : i = k
    · subst hik
      rw [countCharsBytesGo_past i rest (i + 1) _ _ _ (by omega)]
      simp [utf8Len]; omega
    · have h1 : i + 1 ≤ k := by omega
      rw [countCharsBytesGo_eq k rest (i + 1) _ _ _ h1]
      have hk : k - i = (k - (i + 1)) + 1 := by omega
      rw [hk, utf8Len_take_succ]
      simp [hik]
      constructor
      · split <;> omega
      · omega

/-- `count_chars_bytes` returns the byte length of the first `k` characters and the character
count. -/
theorem countCharsBytes_eq (s : List Char) (k : Nat) :
    countCharsBytes s k = (utf8Len (s.take k), s.length) := by
  unfold countCharsBytes
  rw [countCharsBytesGo_eq k s 0 0 _ 0 (Nat.zero_le _)]
  by_cases h : k < s.length
  · simp [h]
  · simp [h, List.take_of_length_le (Nat.le_of_not_lt h)]

theorem strInsert_cons (c : Char) (rest : List Char) (n : Nat) (ch : Char) :
    strInsert (c :: rest) n ch =
      if n = 0 then some (ch :: c :: rest)
      else if c.utf8Size ≤ n then (strInsert rest (n - c.utf8Size) ch).map (c :: ·) else none := by
  cases n <;> simp [strInsert]

/-- `String::insert` at the byte offset of character position `k` inserts at position `k`. -/
theorem strInsert_take (ch : Char) : ∀ (s : List Char) (k : Nat),
    strInsert s (utf8Len (s.take k)) ch = some (s.take k ++ ch :: s.drop k)
  | [], k => by simp [utf8Len, strInsert]
  | c :: rest, 0 => by simp [utf8Len, strInsert]
  | c :: rest, k + 1 => by
    have hpos := Char.utf8Size_pos c
    rw [utf8Len_take_succ, strInsert_cons]
    have h0 : ¬ (c.utf8Size + utf8Len (rest.take k) = 0) := by omega
    have h1 : c.utf8Size ≤ c.utf8Size + utf8Len (rest.take k) := by omega
    simp only [h0, h1, if_true, if_false, Nat.add_sub_cancel_left]
    rw [strInsert_take ch rest k]
    simp

theorem strRemove_cons (c : Char) (rest : List Char) (n : Nat) :
    strRemove (c :: rest) n =
      if n = 0 then some rest
      else if c.utf8Size ≤ n then (strRemove rest (n - c.utf8Size)).map (c :: ·) else none := by
  cases n <;> simp [strRemove]

/-- `String::remove` at the byte offset of character position `k` removes character `k`. -/
theorem strRemove_take : ∀ (s : List Char) (k : Nat), k < s.length →
    strRemove s (utf8Len (s.take k)) = some (s.eraseIdx k)
  | [], k, h => by simp at h
  | c :: rest, 0, _ => by simp [utf8Len, strRemove]
  | c :: rest, k + 1, h => by
    have hpos := Char.utf8Size_pos c
    rw [utf8Len_take_succ, strRemove_cons]
    have h0 : ¬ (c.utf8Size + utf8Len (rest.take k) = 0) := by omega
    have h1 : c.utf8Size ≤ c.utf8Size + utf8Len (rest.take k) := by omega
    simp only [h0, h1, if_true, if_false, Nat.add_sub_cancel_left]
    rw [strRemove_take rest k (by simpa using h)]
    simp

/-- `insert_char_index` inside the line: no panic, inserts at the character position. -/
theorem insertCharIndex_eq (s : List Char) (k : Nat) (ch : Char) (h : k ≤ s.length) :
    insertCharIndex s k ch = .ok (s.take k ++ ch :: s.drop k) := by
  simp [insertCharIndex, countCharsBytes_eq, h, strInsert_take]

/-- `remove_char_index` on an existing character: no panic, erases that character. -/
theorem removeCharIndex_eq (s : List Char) (k : Nat) (h : k < s.length) :
    removeCharIndex s k = .ok (s.eraseIdx k) := by
  simp [removeCharIndex, countCharsBytes_eq, h, strRemove_take]

end Lace.Editor
