/-
  C09 with a shared standard input: scripts written as lines with their separators, scripts that
  execute nothing, and what the pre-parsed debugger does with them (it reads them all and
  detaches in the very iteration in which it was entered).
-/
import Lace.Proofs.DbgIOSim
namespace Lace.C09IO
open Lace Lace.Dbg Lace.Cmd Lace.DbgIO Lace.DbgProofs Lace.C14

/-! ### script text -/

/-- A script as its lines, each with the separator (`;` or newline) that ends it. -/
def scriptText (ls : List (List Char × Char)) : List Char := ls.flatMap (fun p => p.1 ++ [p.2])

/-- No line holds a separator; every line is ended by one. -/
def WellFormed (ls : List (List Char × Char)) : Prop :=
  ∀ p ∈ ls, (∀ c ∈ p.1, isDelimiter c = false) ∧ isDelimiter p.2 = true

theorem linesAux_line (l : List Char) (d : Char) (rest cur : List Char)
    (hl : ∀ c ∈ l, isDelimiter c = false) (hd : isDelimiter d = true) :
    linesAux (l ++ d :: rest) cur = (cur ++ l) :: linesAux rest [] := by
  induction l generalizing cur with
  | nil => simp [linesAux, hd]
  | cons c cs ih =>
    have hc : isDelimiter c = false := hl c (by simp)
    simp only [List.cons_append, linesAux, hc, Bool.false_eq_true, if_false]
    rw [ih _ (fun x hx => hl x (by simp [hx]))]
    simp

theorem textLines_script (ls : List (List Char × Char)) (T : List Char) (h : WellFormed ls) :
    textLines (scriptText ls ++ T) = ls.map (·.1) ++ textLines T := by
  induction ls with
  | nil => rfl
  | cons p ps ih =>
    obtain ⟨h1, h2⟩ := h p (by simp)
    have ih := ih (fun q hq => h q (by simp [hq]))
    simp only [scriptText, List.flatMap_cons, List.append_assoc, List.cons_append, List.nil_append,
      List.map_cons] at ih ⊢
    unfold textLines at ih ⊢
    rw [linesAux_line p.1 p.2 _ [] h1 h2, ih]
    simp

theorem textLines_last (q : List Char) (d : Char) (hq : ∀ c ∈ q, isDelimiter c = false)
    (hd : isDelimiter d = true) : textLines (q ++ [d]) = [q] := by
  unfold textLines
  rw [linesAux_line q d [] [] hq hd]
  simp [linesAux]

theorem endsDelim_script (ls : List (List Char × Char)) (q : List Char) (d : Char)
    (hd : isDelimiter d = true) : EndsDelim (scriptText ls ++ (q ++ [d])) :=
  .inr ⟨scriptText ls ++ q, d, by simp, hd⟩

/-! ### lines that execute nothing -/

/-- Inspection and breakpoint commands: they neither touch the machine nor resume it. -/
def Inspect : Command → Bool
  | .help | .registers | .print _ | .assembly _ | .echo _ | .breakList | .breakAdd _
  | .breakRemove _ => true
  | _ => false

/-- A line after which the debugger is where it was: blank, rejected by the parser (an error
report), or an inspection / breakpoint command. -/
def NonExecLine (l : List Char) : Prop :=
  (trim l).isEmpty = true ∨ parseLine (trim l) = .err ∨
    ∃ c, parseLine (trim l) = .ok c ∧ Inspect c = true

/-- A line that reads as `quit` (any spelling, any white space around it). -/
def QuitLine (q : List Char) : Prop := parseLine (trim q) = .ok .quit

theorem parseLine_nil_ne_quit : parseLine [] ≠ .ok .quit := by decide

theorem quitLine_not_blank {q : List Char} (h : QuitLine q) : (trim q).isEmpty = false := by
  cases ht : trim q with
  | nil => unfold QuitLine at h; rw [ht] at h; exact absurd h parseLine_nil_ne_quit
  | cons c cs => rfl

theorem inspect_stays {c : Command} (h : Inspect c = true) : Stays c = true := by
  cases c <;> simp_all [Inspect, Stays]

/-- Such a script, followed by a `quit` line, ends the session itself. -/
theorem good_nonexec (P : Prop) (ls : List (List Char)) (q : List Char)
    (h : ∀ l ∈ ls, NonExecLine l) (hq : QuitLine q) : Good P (ls ++ [q]) := by
  induction ls with
  | nil =>
    simp only [List.nil_append, Good, quitLine_not_blank hq, Bool.false_eq_true, if_false]
    rw [hq]
    simp [Stays, Ends]
  | cons l ls ih =>
    have ih := ih (fun x hx => h x (by simp [hx]))
    simp only [List.cons_append, Good]
    by_cases he : (trim l).isEmpty = true
    · simp only [he, if_true]; exact ih
    · simp only [he, if_false, Bool.false_eq_true]
      rcases h l (by simp) with h1 | h1 | ⟨c, h1, h2⟩
      · exact absurd h1 he
      · rw [h1]; exact ih
      · rw [h1]; simp only [inspect_stays h2, if_true]; exact ih

theorem cmdsL_cons (l : List Char) (L : List (List Char)) :
    cmdsL (l :: L) =
      if (trim l).isEmpty then cmdsL L else
      match parseLine (trim l) with
      | .ok c => c :: cmdsL L
      | .err => cmdsL L
      | .exit _ => []
      | .panic _ => [] := by
  simp only [cmdsL, sessionL]
  by_cases he : (trim l).isEmpty = true
  · simp only [he, if_true]
  · simp only [he, if_false, Bool.false_eq_true]
    cases parseLine (trim l) <;> simp

/-- The commands of such a script: inspection commands only, then `quit`. -/
theorem cmdsL_nonexec (ls : List (List Char)) (q : List Char)
    (h : ∀ l ∈ ls, NonExecLine l) (hq : QuitLine q) :
    ∃ cs, cmdsL (ls ++ [q]) = cs ++ [.quit] ∧ ∀ c ∈ cs, Inspect c = true := by
  induction ls with
  | nil =>
    refine ⟨[], ?_, by simp⟩
    rw [List.nil_append, cmdsL_cons]
    simp only [quitLine_not_blank hq, Bool.false_eq_true, if_false]
    rw [hq]
    rfl
  | cons l ls ih =>
    obtain ⟨cs, h1, h2⟩ := ih (fun x hx => h x (by simp [hx]))
    rw [List.cons_append, cmdsL_cons]
    by_cases he : (trim l).isEmpty = true
    · simp only [he, if_true]; exact ⟨cs, h1, h2⟩
    · simp only [he, if_false, Bool.false_eq_true]
      rcases h l (by simp) with g | g | ⟨c, g1, g2⟩
      · exact absurd g he
      · rw [g]; exact ⟨cs, h1, h2⟩
      · rw [g1]
        refine ⟨c :: cs, by simp [h1], ?_⟩
        intro x hx
        simp only [List.mem_cons] at hx
        rcases hx with hx | hx
        · rw [hx]; exact g2
        · exact h2 x hx

/-! ### the pre-parsed debugger on such a script -/

/-- An inspection / breakpoint command leaves machine, world, status and the commands still to
come as they were. -/
theorem runCommand_inspect (env : Env) (d : Dbg) (m : Machine) (w : World) (c : Command)
    (hc : Inspect c = true) :
    ∃ d1, runCommand env d m w c = .next d1 m w ∧ d1.status = d.status ∧ d1.cmds = d.cmds := by
  have hnm : NonMutating c = true := by cases c <;> simp_all [Inspect, NonMutating]
  have hupd := runCommand_upd env d m w c
  have hst : ∀ d1 m1 w1, runCommand env d m w c = .next d1 m1 w1 → d1.status = d.status := by
    intro d1 m1 w1 hr
    cases c <;> simp only [Inspect] at hc <;> try cases hc
    case help => simp only [runCommand] at hr; cases hr; rfl
    case registers =>
      simp only [runCommand] at hr; cases hr
      exact (printRegisters_same _ m).2.1
    case echo s => simp only [runCommand] at hr; cases hr; rfl
    case print l =>
      cases l with
      | reg r => simp only [runCommand] at hr; cases hr; rfl
      | mem l => simp only [runCommand] at hr; split at hr <;> (cases hr; rfl)
    case assembly l =>
      simp only [runCommand] at hr
      split at hr
      · cases hr; rfl
      · split at hr
        · cases hr; rfl
        · split at hr
          · cases hr; split <;> rfl
          · cases hr; rfl
    case breakAdd l =>
      simp only [runCommand] at hr
      split at hr
      · cases hr; rfl
      · split at hr <;> (cases hr; rfl)
    case breakRemove l =>
      simp only [runCommand] at hr
      split at hr
      · cases hr; rfl
      · split at hr <;> (cases hr; rfl)
    case breakList =>
      simp only [runCommand] at hr
      split at hr
      · cases hr; rfl
      · cases hr
        exact (foldl_same _ (fun d _ => sayL_same d _) _ _).2.1
  rcases runCommand_nonmut env d m w c hnm with ⟨d1, h1, _⟩ | ⟨d1, h1, _⟩
  · exact ⟨d1, h1, hst d1 m w h1, (hupd d1 (by rw [h1]; rfl)).2.1⟩
  · exfalso
    rcases runCommand_stays env d m w c (inspect_stays hc) with ⟨_, _, _, hr⟩ | ⟨_, hr⟩ <;>
      (rw [hr] at h1; cases h1)

/-- With inspection commands and then `quit` to read, the waiting debugger reads them all and
detaches, machine and world untouched. -/
theorem actionLoop_inspect (env : Env) (m : Machine) (w : World) (instr : Option Sig) :
    ∀ (cs : List Command) (n : Nat) (d : Dbg) (rest : List Command),
      (∀ c ∈ cs, Inspect c = true) → d.status = .wait → d.cmds = cs ++ .quit :: rest →
      cs.length + 1 ≤ n →
      ∃ d', actionLoop env n d m w instr = .action .stopDebugger d' m w
  | _, 0, _, _, _, _, _, hn => by omega
  | [], n + 1, d, rest, _, hs, hc, _ => by
    unfold actionLoop
    simp only [hs, hc, List.nil_append, runCommand]
    exact ⟨_, rfl⟩
  | c :: cs, n + 1, d, rest, hi, hs, hc, hn => by
    unfold actionLoop
    simp only [hs, hc, List.cons_append]
    obtain ⟨d1, h1, h2, h3⟩ := runCommand_inspect env
      { d with cmds := cs ++ .quit :: rest, status := Status.wait } m w c (hi c (by simp))
    rw [h1]
    simp only
    exact actionLoop_inspect env m w instr cs n d1 rest (fun x hx => hi x (by simp [hx]))
      h2 h3 (by simp at hn; omega)

theorem nextAction_inspect (env : Env) (m : Machine) (w : World) (d : Dbg) (cs rest : List Command)
    (hi : ∀ c ∈ cs, Inspect c = true) (hs : d.status = .wait) (hc : d.cmds = cs ++ .quit :: rest) :
    ∃ d', nextAction env d m w = .action .stopDebugger d' m w := by
  rw [nextAction_eq]
  have hp := preamble_facts d m
  have hst : (preamble d m).status = .wait := by
    unfold preamble
    cases Run.checkPcBounds m <;> simp only <;> exact checkInterrupts_wait _ _ _ (by simp [say, hs])
  apply actionLoop_inspect env m w _ cs _ _ rest hi hst (hp.2.2.1.trans hc)
  rw [hp.2.2.1, hc]
  simp
  omega

end Lace.C09IO
