/-
  Helper lemmas for C20: the word motions of the editor model (`find_word_next`,
  `find_word_back`, index loops over `chars().enumerate()` / `chars().nth(..)`) compute Vim's
  `w` / `b` as the reference editor defines them, and never leave the line.
-/
import Lace.Model.Editor
import Lace.Spec.RefEditor
set_option linter.unusedSimpArgs false
namespace Lace.Editor
open Lace.RefEditor (wordRight wordLeft sameWord)

theorem length_dropWhile_le {α : Type} (p : α → Bool) : ∀ l : List α, (l.dropWhile p).length ≤ l.length
  | [] => by simp
  | a :: l => by
    rw [List.dropWhile_cons]
    split
    · have := length_dropWhile_le p l; simp; omega
    · simp

/-! ### `find_word_next` -/

theorem firstNonWs_eq (cls : Char → CharClass) : ∀ (l : List Char) (i : Nat),
    (match firstNonWs cls l i with | some j => j | none => i + l.length) =
      i + l.length - (l.dropWhile fun c => (cls c).ws).length
  | [], i => by simp [firstNonWs]
  | ch :: rest, i => by
    rw [firstNonWs, List.dropWhile_cons]
    cases hws : (cls ch).ws
    · simp
    · have ih := firstNonWs_eq cls rest (i + 1)
      simp only [Bool.not_true, Bool.false_eq_true, if_false, if_true, List.length_cons]
      rw [show i + (rest.length + 1) = i + 1 + rest.length by omega]
      exact ih

theorem wordNextLoop_eq (cls : Char → CharClass) (first : Char) (total : Nat) :
    ∀ (l : List Char) (i : Nat), i + l.length = total →
    wordNextLoop cls false (cls first).alnum total l i =
      total - ((l.dropWhile (sameWord cls first)).dropWhile fun c => (cls c).ws).length
  | [], i, _ => by simp [wordNextLoop]
  | ch :: rest, i, h => by
    rw [wordNextLoop]
    simp only [List.length_cons] at h
    cases hws : (cls ch).ws
    · -- not a blank
      by_cases hal : (cls ch).alnum = (cls first).alnum
      · have ih := wordNextLoop_eq cls first total rest (i + 1) (by omega)
        simp [sameWord, hws, hal, List.dropWhile_cons, ih]
      · simp [sameWord, hws, hal, List.dropWhile_cons]
        omega
    · -- a blank: the word ends, skip the blanks
      have hf := firstNonWs_eq cls rest (i + 1)
      have ht : i + 1 + rest.length = total := by omega
      rw [ht] at hf
      simp only [if_true]
      have hd : ((ch :: rest).dropWhile (sameWord cls first)) = ch :: rest := by
        simp [List.dropWhile_cons, sameWord, hws]
      rw [hd, List.dropWhile_cons]
      simp only [hws, if_true]
      rw [← hf]
      cases firstNonWs cls rest (i + 1) <;> simp

/-- `find_word_next` (with `full_word = false`) is the reference `w` motion, for every cursor. -/
theorem findWordNext_eq (cls : Char → CharClass) (s : List Char) (c : Nat) :
    findWordNext cls s c false = wordRight cls s c := by
  unfold findWordNext wordRight
  cases hd : s.drop c with
  | nil => rfl
  | cons first rest =>
    have hlen : c + 1 + rest.length = s.length := by
      have := congrArg List.length hd
      simp at this; omega
    cases hws : (cls first).ws
    · simp only [hws, Bool.false_eq_true, if_false]
      exact wordNextLoop_eq cls first s.length rest (c + 1) hlen
    · have hf := firstNonWs_eq cls rest (c + 1)
      rw [hlen] at hf
      simp only [hws, if_true]
      rw [← hf]
      cases firstNonWs cls rest (c + 1) <;> simp

theorem wordRight_le (cls : Char → CharClass) (s : List Char) (c : Nat) :
    wordRight cls s c ≤ s.length := by
  unfold wordRight
  split
  · exact Nat.le_refl _
  · exact Nat.sub_le _ _

/-! ### `find_word_back` -/

/-- The characters left of position `n`, nearest first. -/
def leftOf (s : List Char) (n : Nat) : List Char := (s.take n).reverse

theorem leftOf_succ (s : List Char) (n : Nat) (h : n < s.length) :
    leftOf s (n + 1) = s[n] :: leftOf s n := by
  unfold leftOf
  rw [List.take_add_one, List.getElem?_eq_getElem h]
  simp

theorem leftOf_length (s : List Char) (n : Nat) (h : n ≤ s.length) : (leftOf s n).length = n := by
  simp [leftOf, List.length_take]; omega

theorem nthChar_eq (s : List Char) (i : Nat) (h : i < s.length) : nthChar s i = .ok s[i] := by
  simp [nthChar, List.getElem?_eq_getElem h]

theorem skipWsBack_spec (cls : Char → CharClass) (s : List Char) : ∀ c, (hc : c < s.length) →
    ∃ q, ∃ hq : q < s.length, skipWsBack cls s c = .ok q ∧ q ≤ c ∧
      (leftOf s (c + 1)).dropWhile (fun x => (cls x).ws) = (leftOf s (q + 1)).dropWhile (fun x => (cls x).ws) ∧
      (q = 0 ∨ (cls s[q]).ws = false)
  | 0, hc => ⟨0, hc, by simp [skipWsBack]⟩
  | c + 1, hc => by
    rw [skipWsBack, nthChar_eq s (c + 1) hc]
    cases hws : (cls s[c + 1]).ws
    · exact ⟨c + 1, hc, by simp [hws], Nat.le_refl _, rfl, Or.inr hws⟩
    · obtain ⟨q, hq, h1, h2, h3, h4⟩ := skipWsBack_spec cls s c (by omega)
      refine ⟨q, hq, by simpa [hws] using h1, by omega, ?_, h4⟩
      rw [leftOf_succ s (c + 1) hc, List.dropWhile_cons]
      simp only [hws, if_true]
      exact h3

theorem wordBackLoop_eq (cls : Char → CharClass) (s : List Char) (last : Char) : ∀ q, q ≤ s.length →
    wordBackLoop cls s false (cls last).alnum q =
      .ok ((leftOf s q).dropWhile (sameWord cls last)).length
  | 0, _ => by simp [wordBackLoop, leftOf]
  | q + 1, h => by
    have hq : q < s.length := by omega
    rw [wordBackLoop, nthChar_eq s q hq, leftOf_succ s q hq, List.dropWhile_cons]
    cases hws : (cls s[q]).ws
    · by_cases hal : (cls s[q]).alnum = (cls last).alnum
      · simp [sameWord, hws, hal, wordBackLoop_eq cls s last q (by omega)]
      · simp [sameWord, hws, hal, leftOf_length s q (by omega)]
    · simp [sameWord, hws, leftOf_length s q (by omega)]

/-- Inside the line `find_word_back` (with `full_word = false`) does not panic and is the
reference `b` motion. -/
theorem findWordBack_eq (cls : Char → CharClass) (s : List Char) (c : Nat) (h : c ≤ s.length) :
    findWordBack cls s c false = .ok (wordLeft cls s c) := by
  unfold findWordBack wordLeft
  by_cases h1 : c ≤ 1
  · simp only [h1, if_true]
    change _ = Res.ok (match (leftOf s c).dropWhile (fun x => (cls x).ws) with
      | [] => 0 | last :: more => (more.dropWhile (sameWord cls last)).length)
    cases c with
    | zero => simp [leftOf]
    | succ c =>
      have hc : c = 0 := by omega
      subst hc
      rw [leftOf_succ s 0 (by omega)]
      simp only [leftOf, List.take_zero, List.reverse_nil, List.dropWhile_cons]
      cases hws : (cls s[0]).ws <;> simp [hws]
  · simp only [h1, if_false]
    change _ = Res.ok (match (leftOf s c).dropWhile (fun x => (cls x).ws) with
      | [] => 0 | last :: more => (more.dropWhile (sameWord cls last)).length)
    have hc : c - 1 < s.length := by omega
    obtain ⟨q, hq, e1, _, e3, e4⟩ := skipWsBack_spec cls s (c - 1) hc
    have hcc : c - 1 + 1 = c := by omega
    rw [hcc] at e3
    rw [e1, e3, leftOf_succ s q hq, List.dropWhile_cons]
    simp only [nthChar_eq s q hq]
    cases hws : (cls s[q]).ws
    · simp only [Bool.false_eq_true, if_false]
      exact wordBackLoop_eq cls s s[q] q (by omega)
    · have hq0 : q = 0 := by
        cases e4 with
        | inl h => exact h
        | inr h => rw [hws] at h; cases h
      subst hq0
      simp [leftOf, wordBackLoop]

theorem wordLeft_le (cls : Char → CharClass) (s : List Char) (c : Nat) : wordLeft cls s c ≤ c := by
  unfold wordLeft
  have hlen : ((s.take c).reverse).length ≤ c := by simp [List.length_take]; omega
  have h1 := length_dropWhile_le (fun x => (cls x).ws) (s.take c).reverse
  split
  · exact Nat.zero_le _
  · rename_i last more heq
    rw [heq] at h1
    have h2 := length_dropWhile_le (sameWord cls last) more
    simp at h1
    omega

end Lace.Editor
