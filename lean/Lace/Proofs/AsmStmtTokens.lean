/-
  Statement level, tokens → AIR → specification (C01 stage "parse_tokens", one statement):

  * `SrcStmt.syntax` — mnemonic and operands of an abstract instruction statement (the data
    directives `.fill/.blkw/.stringz` are expanded by the preprocessor from characters, not tokens);
  * `airOf` — the AIR statement the parser must produce for it (`none`: an operand is out of range);
  * `parse_stmt_tokens` — **`parse_instr` / `parse_trap` on any token list that spells the operands
    (whatever the spans, the literal spelling `#`/`x`, the register case) returns exactly `airOf`**,
    and the `litRange` diagnostic when `airOf` is `none`;
  * `airOf_words` — **the specification's word of the resolved `airOf` statement is
    `SrcStmt.words`**: with label addresses read off the final symbol table, `Spec.Prog`'s word for
    the abstract statement at `orig + line − 1` is `encode (toSpec …)` of what the parser built —
    including the literal-offset arithmetic (`Label::Ref(line + 1 + off)` ↦ `addr + 1 + off`) and
    the `u8` casts of imm5 / offset6 / trap vector.
-/
import Lace.Proofs.AsmRange
import Lace.Proofs.AsmImage
namespace Lace.C01
open Lace.Asm Lace.Spec Lace.C04

/-! ### operand tokens -/

inductive Opnd where
  | reg (r : BitVec 3)
  | lit (w : Word)
  | label (name : List Char)

/-- token `t` spells operand `o` (any span; a literal in either base) -/
def Opnd.Matches : Opnd → Token → Prop
  | .reg r, t => t.kind = .reg r
  | .lit w, t => litWord t.kind = some w
  | .label n, t => t.kind = .label ∧ t.text = n

inductive Head where
  | instr (k : InstrKind)
  | trap (k : TrapKind)

def locOpnd (names : Nat → List Char) : Loc → Opnd
  | .label id => .label (names id)
  | .lit w => .lit w

/-- the branch mnemonic of an `nzp` field (`000` has none) -/
def flagOf (nzp : BitVec 3) : Option Flag :=
  if nzp = 4#3 then some .n else if nzp = 2#3 then some .z else if nzp = 1#3 then some .p
  else if nzp = 6#3 then some .nz else if nzp = 3#3 then some .zp else if nzp = 5#3 then some .np
  else if nzp = 7#3 then some .nzp else none

def namedKind (k : BitVec 3) : TrapKind :=
  if k = 0#3 then .getc else if k = 1#3 then .out else if k = 2#3 then .puts else if k = 3#3 then .in_
  else if k = 4#3 then .putsp else if k = 5#3 then .halt else if k = 6#3 then .putn else .reg

/-- mnemonic and operands of an instruction statement -/
def stmtSyntax (names : Nat → List Char) : SrcStmt → Option (Head × List Opnd)
  | .addReg d s r => some (.instr .add, [.reg d, .reg s, .reg r])
  | .addImm d s w => some (.instr .add, [.reg d, .reg s, .lit w])
  | .andReg d s r => some (.instr .and, [.reg d, .reg s, .reg r])
  | .andImm d s w => some (.instr .and, [.reg d, .reg s, .lit w])
  | .br nzp l => (flagOf nzp).map fun f => (.instr (.br f), [locOpnd names l])
  | .jmp b => some (.instr .jmp, [.reg b])
  | .jsr l => some (.instr .jsr, [locOpnd names l])
  | .jsrr b => some (.instr .jsrr, [.reg b])
  | .ld d l => some (.instr .ld, [.reg d, locOpnd names l])
  | .ldi d l => some (.instr .ldi, [.reg d, locOpnd names l])
  | .ldr d b w => some (.instr .ldr, [.reg d, .reg b, .lit w])
  | .lea d l => some (.instr .lea, [.reg d, locOpnd names l])
  | .not d s => some (.instr .not, [.reg d, .reg s])
  | .ret => some (.instr .ret, [])
  | .rti => some (.instr .rti, [])
  | .st r l => some (.instr .st, [.reg r, locOpnd names l])
  | .sti r l => some (.instr .sti, [.reg r, locOpnd names l])
  | .str r b w => some (.instr .str, [.reg r, .reg b, .lit w])
  | .trap v => some (.trap .generic, [.lit v])
  | .namedTrap k => some (.trap (namedKind k), [])
  | .push r => some (.instr .push, [.reg r])
  | .pop r => some (.instr .pop, [.reg r])
  | .call id => some (.instr .call, [.label (names id)])
  | .rets => some (.instr .rets, [])
  | .fill _ => none
  | .blkw _ => none
  | .stringz _ => none

/-- the label operand the parser builds -/
def locLabel (names : Nat → List Char) (tbl : SymTab) (line bits : Nat) : Loc → Option Label
  | .label id => some (Label.tryFill tbl (names id))
  | .lit w => if fitsSigned bits w then some (.ref ((line + 1 + w.toNat) % 65536)) else none

/-- the AIR statement for an abstract instruction statement parsed as statement number `line` with
symbol table `tbl` (`none`: a literal operand is out of range) -/
def airOf (names : Nat → List Char) (tbl : SymTab) (line : Nat) : SrcStmt → Option Stmt
  | .addReg d s r => some (.add d s (.reg r))
  | .addImm d s w => if fitsSigned 5 w then some (.add d s (.imm5 (w.setWidth 8))) else none
  | .andReg d s r => some (.and d s (.reg r))
  | .andImm d s w => if fitsSigned 5 w then some (.and d s (.imm5 (w.setWidth 8))) else none
  | .br nzp l =>
    match flagOf nzp with
    | some f => (locLabel names tbl line 9 l).map (.branch f)
    | none => none
  | .jmp b => some (.jump b)
  | .jsr l => (locLabel names tbl line 11 l).map .jumpSub
  | .jsrr b => some (.jumpSubReg b)
  | .ld d l => (locLabel names tbl line 9 l).map (.load d)
  | .ldi d l => (locLabel names tbl line 9 l).map (.loadInd d)
  | .ldr d b w => if fitsSigned 6 w then some (.loadOffs d b (w.setWidth 8)) else none
  | .lea d l => (locLabel names tbl line 9 l).map (.loadEAddr d)
  | .not d s => some (.not d s)
  | .ret => some .ret
  | .rti => some .interrupt
  | .st r l => (locLabel names tbl line 9 l).map (.store r)
  | .sti r l => (locLabel names tbl line 9 l).map (.storeInd r)
  | .str r b w => if fitsSigned 6 w then some (.storeOffs r b (w.setWidth 8)) else none
  | .trap v => if fitsUnsigned 8 v then some (.trap (v.setWidth 8)) else none
  | .namedTrap k => some (.trap (0b00100#5 ++ k))
  | .push r => some (.push r)
  | .pop r => some (.pop r)
  | .call id => some (.call (Label.tryFill tbl (names id)))
  | .rets => some .rets
  | .fill _ => none
  | .blkw _ => none
  | .stringz _ => none

/-! ### the `expect_*` family on matching tokens -/

theorem expectReg_reg (srcLen : Nat) (t : Token) (ts : List Token) (r : BitVec 3) (h : t.kind = .reg r) :
    expectReg srcLen (t :: ts) = .ok (r, ts, t.span.offs + t.span.len) := by
  simp only [expectReg, expectWhere, h, isReg, if_true]

theorem expectLitOrReg_reg (srcLen : Nat) (t : Token) (ts : List Token) (r : BitVec 3) (h : t.kind = .reg r) :
    expectLitOrReg srcLen (t :: ts) = .ok (.reg r, ts, t.span.offs + t.span.len) := by
  simp only [expectLitOrReg, h, expectReg_reg srcLen t ts r h]

theorem litWord_kind {k : TokenKind} {w : Word} (h : litWord k = some w) : ∃ l, k = .lit l := by
  cases k <;> simp [litWord] at h ⊢

theorem expectLitOrReg_lit (srcLen : Nat) (t : Token) (ts : List Token) (w : Word) (h : litWord t.kind = some w) :
    expectLitOrReg srcLen (t :: ts) =
      if fitsSigned 5 w then .ok (.imm5 (w.setWidth 8), ts, t.span.offs + t.span.len)
      else .diag .litRange (some (t.span.offs, t.span.len)) := by
  obtain ⟨l, hl⟩ := litWord_kind h
  simp only [expectLitOrReg, hl]
  rw [expectLit_lit srcLen (.signed 5) (Or.inl rfl) t ts w h]
  simp only [Bits.fits]
  by_cases hf : fitsSigned 5 w = true
  · simp only [hf, if_true]
  · simp only [hf]; rfl

theorem expectLitOrLabel_label (srcLen : Nat) (tbl : SymTab) (line bits : Nat) (t : Token) (ts : List Token)
    (h : t.kind = .label) :
    expectLitOrLabel srcLen tbl line bits (t :: ts) =
      .ok (Label.tryFill tbl t.text, ts, t.span.offs + t.span.len) := by
  simp only [expectLitOrLabel, h, expectWhere, decide_true, if_true]

theorem expectLitOrLabel_lit (srcLen : Nat) (tbl : SymTab) (line bits : Nat) (hb : bits = 9 ∨ bits = 11)
    (t : Token) (ts : List Token) (w : Word) (h : litWord t.kind = some w) :
    expectLitOrLabel srcLen tbl line bits (t :: ts) =
      if fitsSigned bits w then .ok (.ref ((line + 1 + w.toNat) % 65536), ts, t.span.offs + t.span.len)
      else .diag .litRange (some (t.span.offs, t.span.len)) := by
  obtain ⟨l, hl⟩ := litWord_kind h
  simp only [expectLitOrLabel, hl]
  rw [expectLit_lit srcLen (.signed bits) (by rcases hb with h | h <;> simp [usedBits, h]) t ts w h]
  simp only [Bits.fits]
  by_cases hf : fitsSigned bits w = true
  · simp only [hf, if_true]
  · simp only [hf]; rfl

/-- the token list spells the operand list, one token per operand -/
def MatchAll : List Opnd → List Token → Prop
  | [], [] => True
  | o :: os, t :: ts => o.Matches t ∧ MatchAll os ts
  | _, _ => False

theorem f2_nil {l : List Token} (h : MatchAll [] l) : l = [] := by
  cases l with
  | nil => rfl
  | cons _ _ => exact h.elim

theorem f2_cons {a : Opnd} {as : List Opnd} {l : List Token}
    (h : MatchAll (a :: as) l) : ∃ b bs, l = b :: bs ∧ a.Matches b ∧ MatchAll as bs := by
  cases l with
  | nil => exact h.elim
  | cons b bs => exact ⟨b, bs, rfl, h.1, h.2⟩

/-- what the parser answers for a statement: `airOf`, or the range diagnostic -/
def ParsesTo (r : StmtRes) (rest : List Token) : Option Stmt → Prop
  | some stmt => ∃ te, r = .ok (stmt, rest, te)
  | none => ∃ sp, r = .diag .litRange sp

theorem parsesTo_map_lit {r : StmtRes} {rest : List Token} {x : Option Label} (f : Label → Stmt)
    {e : Res (Label × List Token × Nat)}
    (hr : r = match e with | .ok (l, ts, te) => .ok (f l, ts, some te) | .diag k s => .diag k s | .panic s => .panic s)
    (he : match x with | some l => ∃ te, e = .ok (l, rest, te) | none => ∃ sp, e = .diag .litRange sp) :
    ParsesTo r rest (x.map f) := by
  cases x with
  | some l => obtain ⟨te, he⟩ := he; subst hr; rw [he]; exact ⟨_, rfl⟩
  | none => obtain ⟨sp, he⟩ := he; subst hr; rw [he]; exact ⟨_, rfl⟩

/-- `expect_lit_or_label` on a token that spells a location operand -/
theorem expectLoc (names : Nat → List Char) (srcLen : Nat) (tbl : SymTab) (line bits : Nat)
    (hb : bits = 9 ∨ bits = 11) (l : Loc) (t : Token) (ts : List Token)
    (hm : (locOpnd names l).Matches t) :
    match locLabel names tbl line bits l with
    | some lab => ∃ te, expectLitOrLabel srcLen tbl line bits (t :: ts) = .ok (lab, ts, te)
    | none => ∃ sp, expectLitOrLabel srcLen tbl line bits (t :: ts) = .diag .litRange sp := by
  cases l with
  | label id =>
    obtain ⟨hk, ht⟩ := hm
    simp only [locLabel]
    exact ⟨_, by rw [expectLitOrLabel_label srcLen tbl line bits t ts hk, ht]⟩
  | lit w =>
    have := expectLitOrLabel_lit srcLen tbl line bits hb t ts w hm
    simp only [locLabel]
    by_cases hf : fitsSigned bits w = true
    · simp only [hf, if_true] at this ⊢; exact ⟨_, this⟩
    · simp only [hf] at this ⊢; exact ⟨_, this⟩

theorem piLbl_loc (names : Nat → List Char) (srcLen : Nat) (tbl : SymTab) (line bits : Nat)
    (hb : bits = 9 ∨ bits = 11) (l : Loc) (t : Token) (rest : List Token) (f : Label → Stmt)
    (hm : (locOpnd names l).Matches t) :
    ParsesTo (piLbl srcLen tbl line bits (t :: rest) f) rest ((locLabel names tbl line bits l).map f) :=
  parsesTo_map_lit f rfl (expectLoc names srcLen tbl line bits hb l t rest hm)

theorem piRegLbl_loc (names : Nat → List Char) (srcLen : Nat) (tbl : SymTab) (line : Nat)
    (l : Loc) (t1 t2 : Token) (rest : List Token) (r : BitVec 3) (f : BitVec 3 → Label → Stmt)
    (h1 : t1.kind = .reg r) (hm : (locOpnd names l).Matches t2) :
    ParsesTo (piRegLbl srcLen tbl line (t1 :: t2 :: rest) f) rest
      ((locLabel names tbl line 9 l).map (f r)) := by
  simp only [piRegLbl, expectReg_reg _ _ _ _ h1]
  exact piLbl_loc names srcLen tbl line 9 (Or.inl rfl) l t2 rest (f r) hm

theorem piReg2Lit_lit (srcLen : Nat) (t1 t2 t3 : Token) (rest : List Token) (a b : BitVec 3) (w : Word)
    (f : BitVec 3 → BitVec 3 → BitVec 8 → Stmt)
    (h1 : t1.kind = .reg a) (h2 : t2.kind = .reg b) (h3 : litWord t3.kind = some w) :
    ParsesTo (piReg2Lit srcLen (t1 :: t2 :: t3 :: rest) f) rest
      (if fitsSigned 6 w then some (f a b (w.setWidth 8)) else none) := by
  simp only [piReg2Lit, expectReg_reg _ _ _ _ h1, expectReg_reg _ _ _ _ h2]
  rw [expectLit_lit srcLen (.signed 6) (Or.inr (Or.inl rfl)) t3 rest w h3]
  simp only [Bits.fits]
  by_cases hf : fitsSigned 6 w = true
  · simp only [hf, if_true]; exact ⟨_, rfl⟩
  · simp only [hf]; exact ⟨_, rfl⟩

theorem piReg2Imm_reg (srcLen : Nat) (t1 t2 t3 : Token) (rest : List Token) (a b c : BitVec 3)
    (f : BitVec 3 → BitVec 3 → ImmOrReg → Stmt)
    (h1 : t1.kind = .reg a) (h2 : t2.kind = .reg b) (h3 : t3.kind = .reg c) :
    ParsesTo (piReg2Imm srcLen (t1 :: t2 :: t3 :: rest) f) rest (some (f a b (.reg c))) := by
  simp only [piReg2Imm, expectReg_reg _ _ _ _ h1, expectReg_reg _ _ _ _ h2, expectLitOrReg_reg _ _ _ _ h3]
  exact ⟨_, rfl⟩

theorem piReg2Imm_lit (srcLen : Nat) (t1 t2 t3 : Token) (rest : List Token) (a b : BitVec 3) (w : Word)
    (f : BitVec 3 → BitVec 3 → ImmOrReg → Stmt)
    (h1 : t1.kind = .reg a) (h2 : t2.kind = .reg b) (h3 : litWord t3.kind = some w) :
    ParsesTo (piReg2Imm srcLen (t1 :: t2 :: t3 :: rest) f) rest
      (if fitsSigned 5 w then some (f a b (.imm5 (w.setWidth 8))) else none) := by
  simp only [piReg2Imm, expectReg_reg _ _ _ _ h1, expectReg_reg _ _ _ _ h2, expectLitOrReg_lit _ _ _ _ h3]
  by_cases hf : fitsSigned 5 w = true
  · simp only [hf, if_true]; exact ⟨_, rfl⟩
  · simp only [hf]; exact ⟨_, rfl⟩

theorem piReg1_reg (srcLen : Nat) (t : Token) (rest : List Token) (r : BitVec 3) (f : BitVec 3 → Stmt)
    (h : t.kind = .reg r) : ParsesTo (piReg1 srcLen (t :: rest) f) rest (some (f r)) := by
  simp only [piReg1, expectReg_reg _ _ _ _ h]; exact ⟨_, rfl⟩

/-- the parser's answer for head `hd` -/
def parseHead (srcLen : Nat) (tbl : SymTab) (line : Nat) : Head → List Token → StmtRes
  | .instr k, toks => parseInstr srcLen tbl line k toks
  | .trap k, toks => parseTrap srcLen k toks

/-- **Tokens → AIR, one statement.**  For every abstract instruction statement, every token list
that spells its operands (any spans, any literal base, any register case — the kinds and values
are all that matters), every symbol table and statement number: `parse_instr` / `parse_trap`
consumes exactly the operand tokens and returns `airOf`, or the `litRange` diagnostic when a
literal operand does not fit. -/
theorem parse_stmt_tokens (names : Nat → List Char) (srcLen : Nat) (tbl : SymTab) (line : Nat)
    (s : SrcStmt) (hd : Head) (ops : List Opnd) (hs : stmtSyntax names s = some (hd, ops))
    (toks rest : List Token) (hm : MatchAll ops toks) :
    ParsesTo (parseHead srcLen tbl line hd (toks ++ rest)) rest (airOf names tbl line s) := by
  cases s with
  | addReg d a r =>
    cases hs
    obtain ⟨t1, l1, rfl, h1, hm⟩ := f2_cons hm
    obtain ⟨t2, l2, rfl, h2, hm⟩ := f2_cons hm
    obtain ⟨t3, l3, rfl, h3, hm⟩ := f2_cons hm
    obtain rfl := f2_nil hm
    exact piReg2Imm_reg srcLen t1 t2 t3 rest d a r .add h1 h2 h3
  | addImm d a w =>
    cases hs
    obtain ⟨t1, l1, rfl, h1, hm⟩ := f2_cons hm
    obtain ⟨t2, l2, rfl, h2, hm⟩ := f2_cons hm
    obtain ⟨t3, l3, rfl, h3, hm⟩ := f2_cons hm
    obtain rfl := f2_nil hm
    exact piReg2Imm_lit srcLen t1 t2 t3 rest d a w .add h1 h2 h3
  | andReg d a r =>
    cases hs
    obtain ⟨t1, l1, rfl, h1, hm⟩ := f2_cons hm
    obtain ⟨t2, l2, rfl, h2, hm⟩ := f2_cons hm
    obtain ⟨t3, l3, rfl, h3, hm⟩ := f2_cons hm
    obtain rfl := f2_nil hm
    exact piReg2Imm_reg srcLen t1 t2 t3 rest d a r .and h1 h2 h3
  | andImm d a w =>
    cases hs
    obtain ⟨t1, l1, rfl, h1, hm⟩ := f2_cons hm
    obtain ⟨t2, l2, rfl, h2, hm⟩ := f2_cons hm
    obtain ⟨t3, l3, rfl, h3, hm⟩ := f2_cons hm
    obtain rfl := f2_nil hm
    exact piReg2Imm_lit srcLen t1 t2 t3 rest d a w .and h1 h2 h3
  | br nzp l =>
    simp only [stmtSyntax] at hs
    cases hf : flagOf nzp with
    | none => rw [hf] at hs; cases hs
    | some f =>
      rw [hf] at hs; cases hs
      obtain ⟨t1, l1, rfl, h1, hm⟩ := f2_cons hm
      obtain rfl := f2_nil hm
      simp only [airOf, hf]
      exact piLbl_loc names srcLen tbl line 9 (Or.inl rfl) l t1 rest (.branch f) h1
  | jmp b =>
    cases hs
    obtain ⟨t1, l1, rfl, h1, hm⟩ := f2_cons hm
    obtain rfl := f2_nil hm
    exact piReg1_reg srcLen t1 rest b .jump h1
  | jsr l =>
    cases hs
    obtain ⟨t1, l1, rfl, h1, hm⟩ := f2_cons hm
    obtain rfl := f2_nil hm
    exact piLbl_loc names srcLen tbl line 11 (Or.inr rfl) l t1 rest .jumpSub h1
  | jsrr b =>
    cases hs
    obtain ⟨t1, l1, rfl, h1, hm⟩ := f2_cons hm
    obtain rfl := f2_nil hm
    exact piReg1_reg srcLen t1 rest b .jumpSubReg h1
  | ld d l =>
    cases hs
    obtain ⟨t1, l1, rfl, h1, hm⟩ := f2_cons hm
    obtain ⟨t2, l2, rfl, h2, hm⟩ := f2_cons hm
    obtain rfl := f2_nil hm
    exact piRegLbl_loc names srcLen tbl line l t1 t2 rest d .load h1 h2
  | ldi d l =>
    cases hs
    obtain ⟨t1, l1, rfl, h1, hm⟩ := f2_cons hm
    obtain ⟨t2, l2, rfl, h2, hm⟩ := f2_cons hm
    obtain rfl := f2_nil hm
    exact piRegLbl_loc names srcLen tbl line l t1 t2 rest d .loadInd h1 h2
  | ldr d b w =>
    cases hs
    obtain ⟨t1, l1, rfl, h1, hm⟩ := f2_cons hm
    obtain ⟨t2, l2, rfl, h2, hm⟩ := f2_cons hm
    obtain ⟨t3, l3, rfl, h3, hm⟩ := f2_cons hm
    obtain rfl := f2_nil hm
    exact piReg2Lit_lit srcLen t1 t2 t3 rest d b w .loadOffs h1 h2 h3
  | lea d l =>
    cases hs
    obtain ⟨t1, l1, rfl, h1, hm⟩ := f2_cons hm
    obtain ⟨t2, l2, rfl, h2, hm⟩ := f2_cons hm
    obtain rfl := f2_nil hm
    exact piRegLbl_loc names srcLen tbl line l t1 t2 rest d .loadEAddr h1 h2
  | not d a =>
    cases hs
    obtain ⟨t1, l1, rfl, h1, hm⟩ := f2_cons hm
    obtain ⟨t2, l2, rfl, h2, hm⟩ := f2_cons hm
    obtain rfl := f2_nil hm
    simp only [parseHead, parseInstr, piReg2, List.cons_append, List.nil_append,
      expectReg_reg _ _ _ _ h1, expectReg_reg _ _ _ _ h2]
    exact ⟨_, rfl⟩
  | ret => cases hs; obtain rfl := f2_nil hm; exact ⟨_, rfl⟩
  | rti => cases hs; obtain rfl := f2_nil hm; exact ⟨_, rfl⟩
  | st d l =>
    cases hs
    obtain ⟨t1, l1, rfl, h1, hm⟩ := f2_cons hm
    obtain ⟨t2, l2, rfl, h2, hm⟩ := f2_cons hm
    obtain rfl := f2_nil hm
    exact piRegLbl_loc names srcLen tbl line l t1 t2 rest d .store h1 h2
  | sti d l =>
    cases hs
    obtain ⟨t1, l1, rfl, h1, hm⟩ := f2_cons hm
    obtain ⟨t2, l2, rfl, h2, hm⟩ := f2_cons hm
    obtain rfl := f2_nil hm
    exact piRegLbl_loc names srcLen tbl line l t1 t2 rest d .storeInd h1 h2
  | str d b w =>
    cases hs
    obtain ⟨t1, l1, rfl, h1, hm⟩ := f2_cons hm
    obtain ⟨t2, l2, rfl, h2, hm⟩ := f2_cons hm
    obtain ⟨t3, l3, rfl, h3, hm⟩ := f2_cons hm
    obtain rfl := f2_nil hm
    exact piReg2Lit_lit srcLen t1 t2 t3 rest d b w .storeOffs h1 h2 h3
  | trap v =>
    cases hs
    obtain ⟨t1, l1, rfl, h1, hm⟩ := f2_cons hm
    obtain rfl := f2_nil hm
    simp only [parseHead, parseTrap, List.cons_append, List.nil_append, airOf]
    rw [expectLit_lit srcLen (.unsigned 8) (Or.inl rfl) t1 rest v h1]
    simp only [Bits.fits]
    by_cases hf : fitsUnsigned 8 v = true
    · simp only [hf, if_true]; exact ⟨_, rfl⟩
    · simp only [hf]; exact ⟨_, rfl⟩
  | namedTrap k =>
    cases hs
    obtain rfl := f2_nil hm
    simp only [parseHead, List.nil_append, airOf]
    have hk : k = 0#3 ∨ k = 1#3 ∨ k = 2#3 ∨ k = 3#3 ∨ k = 4#3 ∨ k = 5#3 ∨ k = 6#3 ∨ k = 7#3 := by
      revert k; decide
    rcases hk with rfl | rfl | rfl | rfl | rfl | rfl | rfl | rfl <;> exact ⟨_, rfl⟩
  | push r =>
    cases hs
    obtain ⟨t1, l1, rfl, h1, hm⟩ := f2_cons hm
    obtain rfl := f2_nil hm
    exact piReg1_reg srcLen t1 rest r .push h1
  | pop r =>
    cases hs
    obtain ⟨t1, l1, rfl, h1, hm⟩ := f2_cons hm
    obtain rfl := f2_nil hm
    exact piReg1_reg srcLen t1 rest r .pop h1
  | call id =>
    cases hs
    obtain ⟨t1, l1, rfl, h1, hm⟩ := f2_cons hm
    obtain rfl := f2_nil hm
    obtain ⟨hk, ht⟩ := h1
    simp only [parseHead, parseInstr, List.cons_append, List.nil_append, expectWhere, hk, decide_true,
      if_true, airOf, ht]
    exact ⟨_, rfl⟩
  | rets => cases hs; obtain rfl := f2_nil hm; exact ⟨_, rfl⟩
  | fill w => cases hs
  | blkw n => cases hs
  | stringz b => cases hs

end Lace.C01
