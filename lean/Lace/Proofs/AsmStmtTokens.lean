/-
  Statement level, tokens → AIR → specification (C01 stage "parse_tokens", one statement):

  * `SrcStmt.syntax` — mnemonic and operands of an abstract instruction statement (the data
    directives `.fill/.blkw/.stringz` are expanded by the preprocessor from characters, not tokens);
  * `airOf` — the AIR statement the parser must produce for it (`none`: an operand is out of range);
  * `parse_stmt_tokens` — **`parse_instr` / `parse_trap` on any token list that spells the operands
    (whatever the spans, the literal spelling `#`/`x`, the register case) returns exactly `airOf`**,
    and the `litRange` diagnostic when `airOf` is `none`;
  * `airOf_words` — **the specification's word of the resolved `airOf` statement is
    `SrcStmt.words`**: with label addresses read off the final symbol table, `Spec.Prog`'s word for
    the abstract statement at `orig + line − 1` is `encode (toSpec …)` of what the parser built —
    including the literal-offset arithmetic (`Label::Ref(line + 1 + off)` ↦ `addr + 1 + off`) and
    the `u8` casts of imm5 / offset6 / trap vector.
-/
import Lace.Proofs.AsmRange
import Lace.Proofs.AsmImage
namespace Lace.C01
open Lace.Asm Lace.Spec Lace.C04

/-! ### operand tokens -/

inductive Opnd where
  | reg (r : BitVec 3)
  | lit (w : Word)
  | label (name : List Char)

/-- token `t` spells operand `o` (any span; a literal in either base) -/
def Opnd.Matches : Opnd → Token → Prop
  | .reg r, t => t.kind = .reg r
  | .lit w, t => litWord t.kind = some w
  | .label n, t => t.kind = .label ∧ t.text = n

inductive Head where
  | instr (k : InstrKind)
  | trap (k : TrapKind)

def locOpnd (names : Nat → List Char) : Loc → Opnd
  | .label id => .label (names id)
  | .lit w => .lit w

/-- the branch mnemonic of an `nzp` field (`000` has none) -/
def flagOf (nzp : BitVec 3) : Option Flag :=
  if nzp = 4#3 then some .n else if nzp = 2#3 then some .z else if nzp = 1#3 then some .p
  else if nzp = 6#3 then some .nz else if nzp = 3#3 then some .zp else if nzp = 5#3 then some .np
  else if nzp = 7#3 then some .nzp else none

def namedKind (k : BitVec 3) : TrapKind :=
  if k = 0#3 then .getc else if k = 1#3 then .out else if k = 2#3 then .puts else if k = 3#3 then .in_
  else if k = 4#3 then .putsp else if k = 5#3 then .halt else if k = 6#3 then .putn else .reg

/-- mnemonic and operands of an instruction statement -/
def stmtSyntax (names : Nat → List Char) : SrcStmt → Option (Head × List Opnd)
  | .addReg d s r => some (.instr .add, [.reg d, .reg s, .reg r])
  | .addImm d s w => some (.instr .add, [.reg d, .reg s, .lit w])
  | .andReg d s r => some (.instr .and, [.reg d, .reg s, .reg r])
  | .andImm d s w => some (.instr .and, [.reg d, .reg s, .lit w])
  | .br nzp l => (flagOf nzp).map fun f => (.instr (.br f), [locOpnd names l])
  | .jmp b => some (.instr .jmp, [.reg b])
  | .jsr l => some (.instr .jsr, [locOpnd names l])
  | .jsrr b => some (.instr .jsrr, [.reg b])
  | .ld d l => some (.instr .ld, [.reg d, locOpnd names l])
  | .ldi d l => some (.instr .ldi, [.reg d, locOpnd names l])
  | .ldr d b w => some (.instr .ldr, [.reg d, .reg b, .lit w])
  | .lea d l => some (.instr .lea, [.reg d, locOpnd names l])
  | .not d s => some (.instr .not, [.reg d, .reg s])
  | .ret => some (.instr .ret, [])
  | .rti => some (.instr .rti, [])
  | .st r l => some (.instr .st, [.reg r, locOpnd names l])
  | .sti r l => some (.instr .sti, [.reg r, locOpnd names l])
  | .str r b w => some (.instr .str, [.reg r, .reg b, .lit w])
  | .trap v => some (.trap .generic, [.lit v])
  | .namedTrap k => some (.trap (namedKind k), [])
  | .push r => some (.instr .push, [.reg r])
  | .pop r => some (.instr .pop, [.reg r])
  | .call id => some (.instr .call, [.label (names id)])
  | .rets => some (.instr .rets, [])
  | .fill _ => none
  | .blkw _ => none
  | .stringz _ => none

/-- the label operand the parser builds -/
def locLabel (names : Nat → List Char) (tbl : SymTab) (line bits : Nat) : Loc → Option Label
  | .label id => some (Label.tryFill tbl (names id))
  | .lit w => if fitsSigned bits w then some (.ref ((line + 1 + w.toNat) % 65536)) else none

/-- the AIR statement for an abstract instruction statement parsed as statement number `line` with
symbol table `tbl` (`none`: a literal operand is out of range) -/
def airOf (names : Nat → List Char) (tbl : SymTab) (line : Nat) : SrcStmt → Option Stmt
  | .addReg d s r => some (.add d s (.reg r))
  | .addImm d s w => if fitsSigned 5 w then some (.add d s (.imm5 (w.setWidth 8))) else none
  | .andReg d s r => some (.and d s (.reg r))
  | .andImm d s w => if fitsSigned 5 w then some (.and d s (.imm5 (w.setWidth 8))) else none
  | .br nzp l =>
    match flagOf nzp with
    | some f => (locLabel names tbl line 9 l).map (.branch f)
    | none => none
  | .jmp b => some (.jump b)
  | .jsr l => (locLabel names tbl line 11 l).map .jumpSub
  | .jsrr b => some (.jumpSubReg b)
  | .ld d l => (locLabel names tbl line 9 l).map (.load d)
  | .ldi d l => (locLabel names tbl line 9 l).map (.loadInd d)
  | .ldr d b w => if fitsSigned 6 w then some (.loadOffs d b (w.setWidth 8)) else none
  | .lea d l => (locLabel names tbl line 9 l).map (.loadEAddr d)
  | .not d s => some (.not d s)
  | .ret => some .ret
  | .rti => some .interrupt
  | .st r l => (locLabel names tbl line 9 l).map (.store r)
  | .sti r l => (locLabel names tbl line 9 l).map (.storeInd r)
  | .str r b w => if fitsSigned 6 w then some (.storeOffs r b (w.setWidth 8)) else none
  | .trap v => if fitsUnsigned 8 v then some (.trap (v.setWidth 8)) else none
  | .namedTrap k => some (.trap (0b00100#5 ++ k))
  | .push r => some (.push r)
  | .pop r => some (.pop r)
  | .call id => some (.call (Label.tryFill tbl (names id)))
  | .rets => some .rets
  | .fill _ => none
  | .blkw _ => none
  | .stringz _ => none

/-! ### the `expect_*` family on matching tokens -/

theorem expectReg_reg (srcLen : Nat) (t : Token) (ts : List Token) (r : BitVec 3) (h : t.kind = .reg r) :
    expectReg srcLen (t :: ts) = .ok (r, ts, t.span.offs + t.span.len) := by
  simp only [expectReg, expectWhere, h, isReg, if_true]

theorem expectLitOrReg_reg (srcLen : Nat) (t : Token) (ts : List Token) (r : BitVec 3) (h : t.kind = .reg r) :
    expectLitOrReg srcLen (t :: ts) = .ok (.reg r, ts, t.span.offs + t.span.len) := by
  simp only [expectLitOrReg, h, expectReg_reg srcLen t ts r h]

theorem litWord_kind {k : TokenKind} {w : Word} (h : litWord k = some w) : ∃ l, k = .lit l := by
  cases k <;> simp [litWord] at h ⊢

theorem expectLitOrReg_lit (srcLen : Nat) (t : Token) (ts : List Token) (w : Word) (h : litWord t.kind = some w) :
    expectLitOrReg srcLen (t :: ts) =
      if fitsSigned 5 w then .ok (.imm5 (w.setWidth 8), ts, t.span.offs + t.span.len)
      else .diag .litRange (some (t.span.offs, t.span.len)) := by
  obtain ⟨l, hl⟩ := litWord_kind h
  simp only [expectLitOrReg, hl]
  rw [expectLit_lit srcLen (.signed 5) (Or.inl rfl) t ts w h]
  simp only [Bits.fits]
  by_cases hf : fitsSigned 5 w = true
  · simp only [hf, if_true]
  · simp only [hf]; rfl

theorem expectLitOrLabel_label (srcLen : Nat) (tbl : SymTab) (line bits : Nat) (t : Token) (ts : List Token)
    (h : t.kind = .label) :
    expectLitOrLabel srcLen tbl line bits (t :: ts) =
      .ok (Label.tryFill tbl t.text, ts, t.span.offs + t.span.len) := by
  simp only [expectLitOrLabel, h, expectWhere, decide_true, if_true]

theorem expectLitOrLabel_lit (srcLen : Nat) (tbl : SymTab) (line bits : Nat) (hb : bits = 9 ∨ bits = 11)
    (t : Token) (ts : List Token) (w : Word) (h : litWord t.kind = some w) :
    expectLitOrLabel srcLen tbl line bits (t :: ts) =
      if fitsSigned bits w then .ok (.ref ((line + 1 + w.toNat) % 65536), ts, t.span.offs + t.span.len)
      else .diag .litRange (some (t.span.offs, t.span.len)) := by
  obtain ⟨l, hl⟩ := litWord_kind h
  simp only [expectLitOrLabel, hl]
  rw [expectLit_lit srcLen (.signed bits) (by rcases hb with h | h <;> simp [usedBits, h]) t ts w h]
  simp only [Bits.fits]
  by_cases hf : fitsSigned bits w = true
  · simp only [hf, if_true]
  · simp only [hf]; rfl

/-- the token list spells the operand list, one token per operand -/
def MatchAll : List Opnd → List Token → Prop
  | [], [] => True
  | o :: os, t :: ts => o.Matches t ∧ MatchAll os ts
  | _, _ => False

theorem f2_nil {l : List Token} (h : MatchAll [] l) : l = [] := by
  cases l with
  | nil => rfl
  | cons _ _ => exact h.elim

theorem f2_cons {a : Opnd} {as : List Opnd} {l : List Token}
    (h : MatchAll (a :: as) l) : ∃ b bs, l = b :: bs ∧ a.Matches b ∧ MatchAll as bs := by
  cases l with
  | nil => exact h.elim
  | cons b bs => exact ⟨b, bs, rfl, h.1, h.2⟩

/-- what the parser answers for a statement: `airOf`, or the range diagnostic -/
def ParsesTo (r : StmtRes) (rest : List Token) : Option Stmt → Prop
  | some stmt => ∃ te, r = .ok (stmt, rest, te)
  | none => ∃ sp, r = .diag .litRange sp

theorem parsesTo_map_lit {r : StmtRes} {rest : List Token} {x : Option Label} (f : Label → Stmt)
    {e : Res (Label × List Token × Nat)}
    (hr : r = match e with | .ok (l, ts, te) => .ok (f l, ts, some te) | .diag k s => .diag k s | .panic s => .panic s)
    (he : match x with | some l => ∃ te, e = .ok (l, rest, te) | none => ∃ sp, e = .diag .litRange sp) :
    ParsesTo r rest (x.map f) := by
  cases x with
  | some l => obtain ⟨te, he⟩ := he; subst hr; rw [he]; exact ⟨_, rfl⟩
  | none => obtain ⟨sp, he⟩ := he; subst hr; rw [he]; exact ⟨_, rfl⟩

/-- `expect_lit_or_label` on a token that spells a location operand -/
theorem expectLoc (names : Nat → List Char) (srcLen : Nat) (tbl : SymTab) (line bits : Nat)
    (hb : bits = 9 ∨ bits = 11) (l : Loc) (t : Token) (ts : List Token)
    (hm : (locOpnd names l).Matches t) :
    match locLabel names tbl line bits l with
    | some lab => ∃ te, expectLitOrLabel srcLen tbl line bits (t :: ts) = .ok (lab, ts, te)
    | none => ∃ sp, expectLitOrLabel srcLen tbl line bits (t :: ts) = .diag .litRange sp := by
  cases l with
  | label id =>
    obtain ⟨hk, ht⟩ := hm
    simp only [locLabel]
    exact ⟨_, by rw [expectLitOrLabel_label srcLen tbl line bits t ts hk, ht]⟩
  | lit w =>
    have := expectLitOrLabel_lit srcLen tbl line bits hb t ts w hm
    simp only [locLabel]
    by_cases hf : fitsSigned bits w = true
    · simp only [hf, if_true] at this ⊢; exact ⟨_, this⟩
    · simp only [hf] at this ⊢; exact ⟨_, this⟩

theorem piLbl_loc (names : Nat → List Char) (srcLen : Nat) (tbl : SymTab) (line bits : Nat)
    (hb : bits = 9 ∨ bits = 11) (l : Loc) (t : Token) (rest : List Token) (f : Label → Stmt)
    (hm : (locOpnd names l).Matches t) :
    ParsesTo (piLbl srcLen tbl line bits (t :: rest) f) rest ((locLabel names tbl line bits l).map f) :=
  parsesTo_map_lit f rfl (expectLoc names srcLen tbl line bits hb l t rest hm)

theorem piRegLbl_loc (names : Nat → List Char) (srcLen : Nat) (tbl : SymTab) (line : Nat)
    (l : Loc) (t1 t2 : Token) (rest : List Token) (r : BitVec 3) (f : BitVec 3 → Label → Stmt)
    (h1 : t1.kind = .reg r) (hm : (locOpnd names l).Matches t2) :
    ParsesTo (piRegLbl srcLen tbl line (t1 :: t2 :: rest) f) rest
      ((locLabel names tbl line 9 l).map (f r)) := by
  simp only [piRegLbl, expectReg_reg _ _ _ _ h1]
  exact piLbl_loc names srcLen tbl line 9 (Or.inl rfl) l t2 rest (f r) hm

theorem piReg2Lit_lit (srcLen : Nat) (t1 t2 t3 : Token) (rest : List Token) (a b : BitVec 3) (w : Word)
    (f : BitVec 3 → BitVec 3 → BitVec 8 → Stmt)
    (h1 : t1.kind = .reg a) (h2 : t2.kind = .reg b) (h3 : litWord t3.kind = some w) :
    ParsesTo (piReg2Lit srcLen (t1 :: t2 :: t3 :: rest) f) rest
      (if fitsSigned 6 w then some (f a b (w.setWidth 8)) else none) := by
  simp only [piReg2Lit, expectReg_reg _ _ _ _ h1, expectReg_reg _ _ _ _ h2]
  rw [expectLit_lit srcLen (.signed 6) (Or.inr (Or.inl rfl)) t3 rest w h3]
  simp only [Bits.fits]
  by_cases hf : fitsSigned 6 w = true
  · simp only [hf, if_true]; exact ⟨_, rfl⟩
  · simp only [hf]; exact ⟨_, rfl⟩

theorem piReg2Imm_reg (srcLen : Nat) (t1 t2 t3 : Token) (rest : List Token) (a b c : BitVec 3)
    (f : BitVec 3 → BitVec 3 → ImmOrReg → Stmt)
    (h1 : t1.kind = .reg a) (h2 : t2.kind = .reg b) (h3 : t3.kind = .reg c) :
    ParsesTo (piReg2Imm srcLen (t1 :: t2 :: t3 :: rest) f) rest (some (f a b (.reg c))) := by
  simp only [piReg2Imm, expectReg_reg _ _ _ _ h1, expectReg_reg _ _ _ _ h2, expectLitOrReg_reg _ _ _ _ h3]
  exact ⟨_, rfl⟩

theorem piReg2Imm_lit (srcLen : Nat) (t1 t2 t3 : Token) (rest : List Token) (a b : BitVec 3) (w : Word)
    (f : BitVec 3 → BitVec 3 → ImmOrReg → Stmt)
    (h1 : t1.kind = .reg a) (h2 : t2.kind = .reg b) (h3 : litWord t3.kind = some w) :
    ParsesTo (piReg2Imm srcLen (t1 :: t2 :: t3 :: rest) f) rest
      (if fitsSigned 5 w then some (f a b (.imm5 (w.setWidth 8))) else none) := by
  simp only [piReg2Imm, expectReg_reg _ _ _ _ h1, expectReg_reg _ _ _ _ h2, expectLitOrReg_lit _ _ _ _ h3]
  by_cases hf : fitsSigned 5 w = true
  · simp only [hf, if_true]; exact ⟨_, rfl⟩
  · simp only [hf]; exact ⟨_, rfl⟩

theorem piReg1_reg (srcLen : Nat) (t : Token) (rest : List Token) (r : BitVec 3) (f : BitVec 3 → Stmt)
    (h : t.kind = .reg r) : ParsesTo (piReg1 srcLen (t :: rest) f) rest (some (f r)) := by
  simp only [piReg1, expectReg_reg _ _ _ _ h]; exact ⟨_, rfl⟩

/-- the parser's answer for head `hd` -/
def parseHead (srcLen : Nat) (tbl : SymTab) (line : Nat) : Head → List Token → StmtRes
  | .instr k, toks => parseInstr srcLen tbl line k toks
  | .trap k, toks => parseTrap srcLen k toks

/-- **Tokens → AIR, one statement.**  For every abstract instruction statement, every token list
that spells its operands (any spans, any literal base, any register case — the kinds and values
are all that matters), every symbol table and statement number: `parse_instr` / `parse_trap`
consumes exactly the operand tokens and returns `airOf`, or the `litRange` diagnostic when a
literal operand does not fit. -/
theorem parse_stmt_tokens (names : Nat → List Char) (srcLen : Nat) (tbl : SymTab) (line : Nat)
    (s : SrcStmt) (hd : Head) (ops : List Opnd) (hs : stmtSyntax names s = some (hd, ops))
    (toks rest : List Token) (hm : MatchAll ops toks) :
    ParsesTo (parseHead srcLen tbl line hd (toks ++ rest)) rest (airOf names tbl line s) := by
  cases s with
  | addReg d a r =>
    cases hs
    obtain ⟨t1, l1, rfl, h1, hm⟩ := f2_cons hm
    obtain ⟨t2, l2, rfl, h2, hm⟩ := f2_cons hm
    obtain ⟨t3, l3, rfl, h3, hm⟩ := f2_cons hm
    obtain rfl := f2_nil hm
    exact piReg2Imm_reg srcLen t1 t2 t3 rest d a r .add h1 h2 h3
  | addImm d a w =>
    cases hs
    obtain ⟨t1, l1, rfl, h1, hm⟩ := f2_cons hm
    obtain ⟨t2, l2, rfl, h2, hm⟩ := f2_cons hm
    obtain ⟨t3, l3, rfl, h3, hm⟩ := f2_cons hm
    obtain rfl := f2_nil hm
    exact piReg2Imm_lit srcLen t1 t2 t3 rest d a w .add h1 h2 h3
  | andReg d a r =>
    cases hs
    obtain ⟨t1, l1, rfl, h1, hm⟩ := f2_cons hm
    obtain ⟨t2, l2, rfl, h2, hm⟩ := f2_cons hm
    obtain ⟨t3, l3, rfl, h3, hm⟩ := f2_cons hm
    obtain rfl := f2_nil hm
    exact piReg2Imm_reg srcLen t1 t2 t3 rest d a r .and h1 h2 h3
  | andImm d a w =>
    cases hs
    obtain ⟨t1, l1, rfl, h1, hm⟩ := f2_cons hm
    obtain ⟨t2, l2, rfl, h2, hm⟩ := f2_cons hm
    obtain ⟨t3, l3, rfl, h3, hm⟩ := f2_cons hm
    obtain rfl := f2_nil hm
    exact piReg2Imm_lit srcLen t1 t2 t3 rest d a w .and h1 h2 h3
  | br nzp l =>
    simp only [stmtSyntax] at hs
    cases hf : flagOf nzp with
    | none => rw [hf] at hs; cases hs
    | some f =>
      rw [hf] at hs; cases hs
      obtain ⟨t1, l1, rfl, h1, hm⟩ := f2_cons hm
      obtain rfl := f2_nil hm
      simp only [airOf, hf]
      exact piLbl_loc names srcLen tbl line 9 (Or.inl rfl) l t1 rest (.branch f) h1
  | jmp b =>
    cases hs
    obtain ⟨t1, l1, rfl, h1, hm⟩ := f2_cons hm
    obtain rfl := f2_nil hm
    exact piReg1_reg srcLen t1 rest b .jump h1
  | jsr l =>
    cases hs
    obtain ⟨t1, l1, rfl, h1, hm⟩ := f2_cons hm
    obtain rfl := f2_nil hm
    exact piLbl_loc names srcLen tbl line 11 (Or.inr rfl) l t1 rest .jumpSub h1
  | jsrr b =>
    cases hs
    obtain ⟨t1, l1, rfl, h1, hm⟩ := f2_cons hm
    obtain rfl := f2_nil hm
    exact piReg1_reg srcLen t1 rest b .jumpSubReg h1
  | ld d l =>
    cases hs
    obtain ⟨t1, l1, rfl, h1, hm⟩ := f2_cons hm
    obtain ⟨t2, l2, rfl, h2, hm⟩ := f2_cons hm
    obtain rfl := f2_nil hm
    exact piRegLbl_loc names srcLen tbl line l t1 t2 rest d .load h1 h2
  | ldi d l =>
    cases hs
    obtain ⟨t1, l1, rfl, h1, hm⟩ := f2_cons hm
    obtain ⟨t2, l2, rfl, h2, hm⟩ := f2_cons hm
    obtain rfl := f2_nil hm
    exact piRegLbl_loc names srcLen tbl line l t1 t2 rest d .loadInd h1 h2
  | ldr d b w =>
    cases hs
    obtain ⟨t1, l1, rfl, h1, hm⟩ := f2_cons hm
    obtain ⟨t2, l2, rfl, h2, hm⟩ := f2_cons hm
    obtain ⟨t3, l3, rfl, h3, hm⟩ := f2_cons hm
    obtain rfl := f2_nil hm
    exact piReg2Lit_lit srcLen t1 t2 t3 rest d b w .loadOffs h1 h2 h3
  | lea d l =>
    cases hs
    obtain ⟨t1, l1, rfl, h1, hm⟩ := f2_cons hm
    obtain ⟨t2, l2, rfl, h2, hm⟩ := f2_cons hm
    obtain rfl := f2_nil hm
    exact piRegLbl_loc names srcLen tbl line l t1 t2 rest d .loadEAddr h1 h2
  | not d a =>
    cases hs
    obtain ⟨t1, l1, rfl, h1, hm⟩ := f2_cons hm
    obtain ⟨t2, l2, rfl, h2, hm⟩ := f2_cons hm
    obtain rfl := f2_nil hm
    simp only [parseHead, parseInstr, piReg2, List.cons_append, List.nil_append,
      expectReg_reg _ _ _ _ h1, expectReg_reg _ _ _ _ h2]
    exact ⟨_, rfl⟩
  | ret => cases hs; obtain rfl := f2_nil hm; exact ⟨_, rfl⟩
  | rti => cases hs; obtain rfl := f2_nil hm; exact ⟨_, rfl⟩
  | st d l =>
    cases hs
    obtain ⟨t1, l1, rfl, h1, hm⟩ := f2_cons hm
    obtain ⟨t2, l2, rfl, h2, hm⟩ := f2_cons hm
    obtain rfl := f2_nil hm
    exact piRegLbl_loc names srcLen tbl line l t1 t2 rest d .store h1 h2
  | sti d l =>
    cases hs
    obtain ⟨t1, l1, rfl, h1, hm⟩ := f2_cons hm
    obtain ⟨t2, l2, rfl, h2, hm⟩ := f2_cons hm
    obtain rfl := f2_nil hm
    exact piRegLbl_loc names srcLen tbl line l t1 t2 rest d .storeInd h1 h2
  | str d b w =>
    cases hs
    obtain ⟨t1, l1, rfl, h1, hm⟩ := f2_cons hm
    obtain ⟨t2, l2, rfl, h2, hm⟩ := f2_cons hm
    obtain ⟨t3, l3, rfl, h3, hm⟩ := f2_cons hm
    obtain rfl := f2_nil hm
    exact piReg2Lit_lit srcLen t1 t2 t3 rest d b w .storeOffs h1 h2 h3
  | trap v =>
    cases hs
    obtain ⟨t1, l1, rfl, h1, hm⟩ := f2_cons hm
    obtain rfl := f2_nil hm
    simp only [parseHead, parseTrap, List.cons_append, List.nil_append, airOf]
    rw [expectLit_lit srcLen (.unsigned 8) (Or.inl rfl) t1 rest v h1]
    simp only [Bits.fits]
    by_cases hf : fitsUnsigned 8 v = true
    · simp only [hf, if_true]; exact ⟨_, rfl⟩
    · simp only [hf]; exact ⟨_, rfl⟩
  | namedTrap k =>
    cases hs
    obtain rfl := f2_nil hm
    simp only [parseHead, List.nil_append, airOf]
    have hk : k = 0#3 ∨ k = 1#3 ∨ k = 2#3 ∨ k = 3#3 ∨ k = 4#3 ∨ k = 5#3 ∨ k = 6#3 ∨ k = 7#3 := by
      revert k; decide
    rcases hk with rfl | rfl | rfl | rfl | rfl | rfl | rfl | rfl <;> exact ⟨_, rfl⟩
  | push r =>
    cases hs
    obtain ⟨t1, l1, rfl, h1, hm⟩ := f2_cons hm
    obtain rfl := f2_nil hm
    exact piReg1_reg srcLen t1 rest r .push h1
  | pop r =>
    cases hs
    obtain ⟨t1, l1, rfl, h1, hm⟩ := f2_cons hm
    obtain rfl := f2_nil hm
    exact piReg1_reg srcLen t1 rest r .pop h1
  | call id =>
    cases hs
    obtain ⟨t1, l1, rfl, h1, hm⟩ := f2_cons hm
    obtain rfl := f2_nil hm
    obtain ⟨hk, ht⟩ := h1
    simp only [parseHead, parseInstr, List.cons_append, List.nil_append, expectWhere, hk, decide_true,
      if_true, airOf, ht]
    exact ⟨_, rfl⟩
  | rets => cases hs; obtain rfl := f2_nil hm; exact ⟨_, rfl⟩
  | fill w => cases hs
  | blkw n => cases hs
  | stringz b => cases hs

/-! ### AIR → specification -/

theorem sw85 (w : Word) : (w.setWidth 8).setWidth 5 = w.setWidth 5 := by
  apply BitVec.eq_of_toNat_eq
  simp only [BitVec.toNat_setWidth]
  omega

theorem sw86 (w : Word) : (w.setWidth 8).setWidth 6 = w.setWidth 6 := by
  apply BitVec.eq_of_toNat_eq
  simp only [BitVec.toNat_setWidth]
  omega

theorem lit_target (orig : Word) (line : Nat) (w : Word) :
    addrOf orig ((line + 1 + w.toNat) % 65536) = addrOf orig line + 1 + w := by
  unfold addrOf
  have : BitVec.ofNat 16 ((line + 1 + w.toNat) % 65536) = BitVec.ofNat 16 line + 1 + w := by
    apply BitVec.eq_of_toNat_eq
    simp [BitVec.toNat_add, BitVec.toNat_ofNat]
  rw [this]
  grind

theorem lit_distance (a w : Word) : pcDistance a (a + 1 + w) = w.toInt := by
  unfold pcDistance
  have : a + 1 + w - (a + 1) = w := by grind
  rw [this]

theorem flagOf_bits {nzp : BitVec 3} {f : Flag} (h : flagOf nzp = some f) : f.bits.setWidth 3 = nzp := by
  revert nzp f; decide

/-- a literal offset can be encoded iff it fits the field -/
theorem pcField_lit_isSome (bits : Nat) (a w : Word) :
    (pcField bits a (a + 1 + w)).isSome = fitsSigned bits w := by
  unfold pcField fitsSigned
  simp only [lit_distance]
  by_cases h : -(2 : Int) ^ (bits - 1) ≤ w.toInt ∧ w.toInt < (2 : Int) ^ (bits - 1)
  · simp [h]
  · rw [if_neg h]
    simp only [Option.isSome_none]
    symm
    rw [Bool.and_eq_false_iff]
    by_cases h1 : -(2 : Int) ^ (bits - 1) ≤ w.toInt
    · right; exact decide_eq_false (fun h2 => h ⟨h1, h2⟩)
    · left; exact decide_eq_false h1

/-- the rest of the pipeline after parsing one statement: resolve against the final table, then
the specification's word -/
def finish (tbl' : SymTab) (orig : Word) (line : Nat) (sp : Span) (stmt : Stmt) : Option (List Word) :=
  ((AsmLine.mk line stmt sp).backpatch tbl').bind fun a' => (specWord orig a').map fun w => [w]

theorem finish_plain (tbl' : SymTab) (orig : Word) (line : Nat) (sp : Span) (stmt : Stmt) (i : Instr)
    (h1 : stmt.label? = none) (h2 : toSpec orig stmt = some i) :
    finish tbl' orig line sp stmt = one (some i) (addrOf orig line) := by
  simp only [finish, AsmLine.backpatch, h1, Option.bind_some, specWord, h2, one]

theorem finish_ref (tbl' : SymTab) (orig : Word) (line : Nat) (sp : Span) (f : Label → Stmt) (g : Word → Instr)
    (h1 : ∀ l, (f l).label? = some l) (h2 : ∀ l l', (f l).setLabel l' = f l')
    (h3 : ∀ t, toSpec orig (f (.ref t)) = some (g (addrOf orig t))) (t : Nat) :
    finish tbl' orig line sp (f (.ref t)) = one (some (g (addrOf orig t))) (addrOf orig line) := by
  simp only [finish, AsmLine.backpatch, h1, Label.filled, h2, Option.bind_some, specWord, h3, one]

theorem finish_unfilled (tbl' : SymTab) (orig : Word) (line : Nat) (sp : Span) (f : Label → Stmt) (g : Word → Instr)
    (h1 : ∀ l, (f l).label? = some l) (h2 : ∀ l l', (f l).setLabel l' = f l')
    (h3 : ∀ t, toSpec orig (f (.ref t)) = some (g (addrOf orig t))) (nm : List Char) :
    finish tbl' orig line sp (f (.unfilled nm)) =
      one (((tbl'.get? nm).map (addrOf orig)).map g) (addrOf orig line) := by
  cases hg : tbl'.get? nm with
  | none => simp only [finish, AsmLine.backpatch, h1, Label.filled, hg, Option.bind_none, Option.map_none, one]
  | some v =>
    simp only [finish, AsmLine.backpatch, h1, Label.filled, hg, h2, Option.bind_some, specWord, h3,
      Option.map_some, one]

theorem loc_words (names : Nat → List Char) (tbl tbl' : SymTab) (line : Nat) (orig : Word) (sp : Span)
    (hmono : ∀ n v, tbl.get? n = some v → tbl'.get? n = some v)
    (lab : Nat → Option Word) (hlab : ∀ id, lab id = (tbl'.get? (names id)).map (addrOf orig))
    (bits : Nat) (f : Label → Stmt) (g : Word → Instr)
    (h1 : ∀ l, (f l).label? = some l) (h2 : ∀ l l', (f l).setLabel l' = f l')
    (h3 : ∀ t, toSpec orig (f (.ref t)) = some (g (addrOf orig t)))
    (hfit : ∀ a w, (encode (g (a + 1 + w)) a).isSome = fitsSigned bits w) (l : Loc) :
    one ((l.target lab (addrOf orig line)).map g) (addrOf orig line) =
      ((locLabel names tbl line bits l).map f).bind (finish tbl' orig line sp) := by
  cases l with
  | lit w =>
    simp only [Loc.target, locLabel, Option.map_some]
    by_cases hf : fitsSigned bits w = true
    · simp only [hf, if_true, Option.map_some, Option.bind_some]
      rw [finish_ref tbl' orig line sp f g h1 h2 h3, lit_target]
    · simp only [hf, Option.map_none, Option.bind_none, Bool.false_eq_true, if_false]
      have := hfit (addrOf orig line) w
      simp only [Bool.not_eq_true] at hf
      rw [hf] at this
      simp only [one]
      cases he : encode (g (addrOf orig line + 1 + w)) (addrOf orig line) with
      | none => rfl
      | some x => rw [he] at this; simp at this
  | label id =>
    simp only [Loc.target, locLabel, Option.map_some, Option.bind_some, hlab, Label.tryFill]
    cases hg : tbl.get? (names id) with
    | none => simp only []; rw [finish_unfilled tbl' orig line sp f g h1 h2 h3]
    | some v =>
      simp only []
      rw [finish_ref tbl' orig line sp f g h1 h2 h3, hmono _ _ hg]
      rfl
/-- **AIR → specification, one statement.**  Parse an abstract instruction statement as statement
number `line` with the symbol table `tbl` of that moment, resolve it against the final table
`tbl'` (which extends `tbl`), take the specification's word of the result: that is exactly
`SrcStmt.words` at address `orig + line − 1` with label addresses read off the final table —
`none` on both sides when an operand does not fit or a label is undefined. -/
theorem airOf_words (names : Nat → List Char) (tbl tbl' : SymTab) (line : Nat) (orig : Word) (sp : Span)
    (hmono : ∀ n v, tbl.get? n = some v → tbl'.get? n = some v)
    (lab : Nat → Option Word) (hlab : ∀ id, lab id = (tbl'.get? (names id)).map (addrOf orig))
    (s : SrcStmt) (hsyn : (stmtSyntax names s).isSome = true) :
    s.words lab (addrOf orig line) = (airOf names tbl line s).bind (finish tbl' orig line sp) := by
  have L := loc_words names tbl tbl' line orig sp hmono lab hlab
  cases s with
  | addReg d a r => exact (finish_plain tbl' orig line sp (.add d a (.reg r)) (.addReg d a r) rfl rfl).symm
  | andReg d a r => exact (finish_plain tbl' orig line sp (.and d a (.reg r)) (.andReg d a r) rfl rfl).symm
  | addImm d a w =>
    simp only [SrcStmt.words, airOf]
    by_cases hf : fitsSigned 5 w = true
    · simp only [hf, if_true, Option.bind_some]
      rw [finish_plain tbl' orig line sp _ (.addImm d a ((w.setWidth 8).setWidth 5)) rfl rfl, sw85]
    · simp only [hf, Bool.false_eq_true, if_false, Option.bind_none]
  | andImm d a w =>
    simp only [SrcStmt.words, airOf]
    by_cases hf : fitsSigned 5 w = true
    · simp only [hf, if_true, Option.bind_some]
      rw [finish_plain tbl' orig line sp _ (.andImm d a ((w.setWidth 8).setWidth 5)) rfl rfl, sw85]
    · simp only [hf, Bool.false_eq_true, if_false, Option.bind_none]
  | br nzp l =>
    simp only [stmtSyntax] at hsyn
    cases hf : flagOf nzp with
    | none => rw [hf] at hsyn; simp at hsyn
    | some f =>
      simp only [SrcStmt.words, airOf, hf]
      have := L 9 (.branch f) (.br (f.bits.setWidth 3)) (fun _ => rfl) (fun _ _ => rfl) (fun _ => rfl)
        (by intro a w; simp only [encode, Option.isSome_map, pcField_lit_isSome]) l
      rw [flagOf_bits hf] at this
      exact this
  | jmp b => exact (finish_plain tbl' orig line sp (.jump b) (.jmp b) rfl rfl).symm
  | jsr l =>
    exact L 11 .jumpSub .jsr (fun _ => rfl) (fun _ _ => rfl) (fun _ => rfl)
      (by intro a w; simp only [encode, Option.isSome_map, pcField_lit_isSome]) l
  | jsrr b => exact (finish_plain tbl' orig line sp (.jumpSubReg b) (.jsrr b) rfl rfl).symm
  | ld d l =>
    exact L 9 (.load d) (.ld d) (fun _ => rfl) (fun _ _ => rfl) (fun _ => rfl)
      (by intro a w; simp only [encode, Option.isSome_map, pcField_lit_isSome]) l
  | ldi d l =>
    exact L 9 (.loadInd d) (.ldi d) (fun _ => rfl) (fun _ _ => rfl) (fun _ => rfl)
      (by intro a w; simp only [encode, Option.isSome_map, pcField_lit_isSome]) l
  | lea d l =>
    exact L 9 (.loadEAddr d) (.lea d) (fun _ => rfl) (fun _ _ => rfl) (fun _ => rfl)
      (by intro a w; simp only [encode, Option.isSome_map, pcField_lit_isSome]) l
  | st d l =>
    exact L 9 (.store d) (.st d) (fun _ => rfl) (fun _ _ => rfl) (fun _ => rfl)
      (by intro a w; simp only [encode, Option.isSome_map, pcField_lit_isSome]) l
  | sti d l =>
    exact L 9 (.storeInd d) (.sti d) (fun _ => rfl) (fun _ _ => rfl) (fun _ => rfl)
      (by intro a w; simp only [encode, Option.isSome_map, pcField_lit_isSome]) l
  | ldr d b w =>
    simp only [SrcStmt.words, airOf]
    by_cases hf : fitsSigned 6 w = true
    · simp only [hf, if_true, Option.bind_some]
      rw [finish_plain tbl' orig line sp _ (.ldr d b ((w.setWidth 8).setWidth 6)) rfl rfl, sw86]
    · simp only [hf, Bool.false_eq_true, if_false, Option.bind_none]
  | str d b w =>
    simp only [SrcStmt.words, airOf]
    by_cases hf : fitsSigned 6 w = true
    · simp only [hf, if_true, Option.bind_some]
      rw [finish_plain tbl' orig line sp _ (.str d b ((w.setWidth 8).setWidth 6)) rfl rfl, sw86]
    · simp only [hf, Bool.false_eq_true, if_false, Option.bind_none]
  | not d a => exact (finish_plain tbl' orig line sp (.not d a) (.not d a) rfl rfl).symm
  | ret => exact (finish_plain tbl' orig line sp .ret .ret rfl rfl).symm
  | rti => exact (finish_plain tbl' orig line sp .interrupt .rti rfl rfl).symm
  | trap v =>
    simp only [SrcStmt.words, airOf]
    by_cases hf : fitsUnsigned 8 v = true
    · simp only [hf, if_true, Option.bind_some]
      rw [finish_plain tbl' orig line sp _ (.trap (v.setWidth 8)) rfl rfl]
    · simp only [hf, Bool.false_eq_true, if_false, Option.bind_none]
  | namedTrap k => exact (finish_plain tbl' orig line sp (.trap (0b00100#5 ++ k)) (.trap (0b00100#5 ++ k)) rfl rfl).symm
  | push r => exact (finish_plain tbl' orig line sp (.push r) (.push r) rfl rfl).symm
  | pop r => exact (finish_plain tbl' orig line sp (.pop r) (.pop r) rfl rfl).symm
  | call id =>
    exact L 10 .call .call (fun _ => rfl) (fun _ _ => rfl) (fun _ => rfl)
      (by intro a w; simp only [encode, Option.isSome_map, pcField_lit_isSome]) (.label id)
  | rets => exact (finish_plain tbl' orig line sp .rets .rets rfl rfl).symm
  | fill w => simp [stmtSyntax] at hsyn
  | blkw n => simp [stmtSyntax] at hsyn
  | stringz b => simp [stmtSyntax] at hsyn


end Lace.C01
