/-
  C15 helpers: `eval` of a statement with a label operand — from `withOffs` / `VM.execute` to the
  ISA execution of the instruction whose PC-relative field holds `target − pc`.
-/
import Lace.Model.Eval
import Lace.Spec.EvalStmt
import Lace.Props.C02
import Lace.Proofs.EvalDecode
import Lace.Proofs.EvalField9
import Lace.Proofs.EvalField10
import Lace.Proofs.EvalField11
namespace Lace.Dbg
open Lace Lace.Asm Lace.Spec Lace.ISA

/-- the line a label operand refers to, if it names one -/
def resolveLine (tbl : SymTab) : Label → Option Nat
  | .ref v => some v
  | .unfilled n => tbl.get? n

theorem resolveIn_eq (tbl : SymTab) (orig : Word) (l : Label) :
    resolveIn tbl orig l = (resolveLine tbl l).map (addrOfLine orig) := by
  cases l <;> simp [resolveIn, resolveLine]

theorem backpatch_label (tbl : SymTab) (L : Nat) (s : Stmt) (l : Label) (hs : s.label? = some l) :
    AsmLine.backpatch tbl { line := L, stmt := s, span := Span.dummy } =
      (resolveLine tbl l).map fun t => { line := L, stmt := s.setLabel (.ref t), span := Span.dummy } := by
  unfold AsmLine.backpatch
  simp only [hs]
  cases l with
  | ref v => simp [Label.filled, resolveLine]
  | unfilled n =>
    simp only [Label.filled, resolveLine]
    cases tbl.get? n <;> simp

theorem backpatch_nolabel (tbl : SymTab) (L : Nat) (s : Stmt) (hs : s.label? = none) :
    AsmLine.backpatch tbl { line := L, stmt := s, span := Span.dummy } =
      some { line := L, stmt := s, span := Span.dummy } := by
  unfold AsmLine.backpatch
  simp only [hs]

theorem ofNat_evalLine (orig : Word) (m : Machine) :
    BitVec.ofNat 16 (evalLine orig m) = m.pc - orig := by
  simp only [evalLine, BitVec.ofNat_toNat, BitVec.setWidth_eq]

/-- the tail of `evalStmt` -/
def runWord (so mi : Bool) (m : Machine) (w : World) (r : Res Word) : EvalResult :=
  match r with
  | .diag _ _ => .refused evalMsg
  | .panic s => .panic s
  | .ok instr =>
    match VM.execute so mi instr m w with
    | .ok m' w' => .ok m' w'
    | .exit c w' => .exit c w'
    | .panic s => .panic s

theorem runWord_ok (so mi : Bool) (m : Machine) (w : World) (instr : Word) :
    runWord so mi m w (.ok instr) = toEval (exec so mi (decode instr) m w) := by
  simp only [runWord, C02.execute_eq_isa]
  cases exec so mi (decode instr) m w <;> rfl

theorem evalStmt_eq (so mi : Bool) (tbl : SymTab) (L : Nat) (m : Machine) (w : World) (s : Stmt) :
    evalStmt so mi tbl L m w s =
      match refusalOf s with
      | some ident => .refused [ident.toList]
      | none =>
        if isRawWord s then .panic "unreachable: tried to simulate raw word"
        else
          match AsmLine.backpatch tbl { line := L, stmt := s, span := Span.dummy } with
          | none => .refused evalMsg
          | some a => runWord so mi m w a.emit := by
  unfold evalStmt runWord
  rfl

theorem dist_eq (orig pc : Word) (t : Nat) :
    BitVec.ofNat 16 t - (pc - orig) - 1 = addrOfLine orig t - (pc - 1 + 1) := by
  unfold addrOfLine; grind

/-- **Label operands.**  For an `n`-bit PC-relative form whose emitted word is `raw ||| field`
and decodes to `mk field`: evaluating it at the current PC either is refused (the distance
`target − pc` does not fit `n` bits) or executes `mk x` with `pc + SEXT(x) = target`, the label's
absolute address. -/
theorem label_form (so mi : Bool) (orig : Word) (m : Machine) (w : World) (n : Nat)
    (hn : ∀ d, fieldAgrees n d = true) (raw : Word) (mk : BitVec n → ISA.Instr)
    (hdec : ∀ x : BitVec n, decode (raw ||| x.setWidth 16) = mk x) (t : Nat) :
    runWord so mi m w (withOffs raw (evalLine orig m) (.ref t) n) =
      match pcField n (m.pc - 1) (addrOfLine orig t) with
      | none => .refused evalMsg
      | some x => toEval (exec so mi (mk x) m w) := by
  have hd := dist_eq orig m.pc t
  have hs := fieldAgrees_spec (hn (BitVec.ofNat 16 t - (m.pc - orig)))
  simp only [] at hs
  rw [hd] at hs
  unfold withOffs
  rw [bitOffs_ref_eq, ofNat_evalLine]
  unfold pcField pcDistance
  simp only []
  by_cases hfit : (-(2 : Int) ^ (n - 1) ≤ (addrOfLine orig t - (m.pc - 1 + 1)).toInt ∧
      (addrOfLine orig t - (m.pc - 1 + 1)).toInt < (2 : Int) ^ (n - 1))
  · obtain ⟨h1, _⟩ := hs.1 hfit
    rw [h1, if_pos hfit]
    simp only []
    rw [runWord_ok, hdec]
  · rw [hs.2 hfit, if_neg hfit]
    rfl

/-- … and then `pc + SEXT(field) = target`. -/
theorem field_target {n : Nat} (hn : ∀ d, fieldAgrees n d = true) (pc target : Word) (x : BitVec n)
    (h : pcField n (pc - 1) target = some x) : pc + sext x = target := by
  have hs := fieldAgrees_spec (hn (target - pc + 1))
  simp only [] at hs
  have he : target - pc + 1 - 1 = target - (pc - 1 + 1) := by grind
  rw [he] at hs
  unfold pcField pcDistance at h
  simp only [] at h
  split at h
  · rename_i hfit
    obtain ⟨_, h2⟩ := hs.1 hfit
    cases h
    unfold sext
    rw [h2]
    grind
  · cases h

end Lace.Dbg
