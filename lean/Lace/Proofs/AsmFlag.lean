/-
  How the stack-feature flag enters the assembler model (C18, assembler side): the flag is read in
  exactly one place (`identFrom`, the model of `check_instruction`), and turning it off can only
  turn a result into the `lex::stack_extension_not_enabled` diagnostic.
-/
import Lace.Model.Assemble
namespace Lace.Asm

/-- the four mnemonics of the stack extension -/
def TokenKind.isStack : TokenKind → Bool
  | .instr .push => true
  | .instr .pop => true
  | .instr .call => true
  | .instr .rets => true
  | _ => false

/-- How one lexer step with the flag off relates to the same step with the flag on: identical, or
the flag-off step is the "stack extension not enabled" diagnostic where the flag-on step produced
one of the four mnemonics. -/
def FlagRel (a b : LexStep) : Prop :=
  a = b ∨ ((∃ o l, a = .diag .lexStack o l) ∧ ∃ t p r, b = .tok t p r ∧ t.kind.isStack = true)

theorem identKind_stack {s : String} (h : isStackMnemonic s = true) : (identKind s).isStack = true := by
  simp only [isStackMnemonic, Bool.or_eq_true, beq_iff_eq] at h
  rcases h with ((h | h) | h) | h <;> subst h <;> decide

theorem identFrom_rel (pos : Nat) (consumed pre : List Char) (identStart : Nat) (rest : List Char) :
    FlagRel (identFrom (some false) pos consumed pre identStart rest)
      (identFrom (some true) pos consumed pre identStart rest) := by
  unfold identFrom
  simp only []
  split
  · rename_i hs
    exact Or.inr ⟨⟨_, _, rfl⟩, _, _, _, rfl, identKind_stack hs⟩
  · exact Or.inl rfl

theorem ident_rel (pos : Nat) (consumed rest : List Char) :
    FlagRel (ident (some false) pos consumed rest) (ident (some true) pos consumed rest) := by
  unfold ident
  split
  · exact Or.inl rfl
  · split
    · exact identFrom_rel _ _ _ _ _
    · exact Or.inl rfl

theorem hex_rel (pos : Nat) (pre rest : List Char) :
    FlagRel (hex (some false) pos pre rest) (hex (some true) pos pre rest) := by
  unfold hex
  simp only []
  split
  · exact Or.inl rfl
  · split
    · exact Or.inl rfl
    · exact Or.inl rfl
    · exact identFrom_rel _ _ _ _ _

theorem advanceToken_rel (pos : Nat) (rest : List Char) :
    FlagRel (advanceToken (some false) pos rest) (advanceToken (some true) pos rest) := by
  cases rest with
  | nil => exact Or.inl rfl
  | cons c rest =>
    simp only [advanceToken]
    repeat' split
    all_goals first
      | exact hex_rel _ _ _
      | exact ident_rel _ _ _
      | exact Or.inl rfl

theorem advanceRealLoop_rel : ∀ (fuel : List Char) (pos : Nat) (rest : List Char),
    FlagRel (advanceRealLoop (some false) fuel pos rest) (advanceRealLoop (some true) fuel pos rest) := by
  intro fuel
  induction fuel with
  | nil => intro pos rest; exact advanceToken_rel pos rest
  | cons _ fuel ih =>
    intro pos rest
    unfold advanceRealLoop
    rcases advanceToken_rel pos rest with h | ⟨⟨o, l, h1⟩, t, p, r, h2, h3⟩
    · rw [h]
      split
      · split
        · exact ih _ _
        · exact Or.inl rfl
      · exact Or.inl rfl
    · rw [h1, h2]
      have : ¬ (t.kind = .whitespace ∨ t.kind = .comment) := by
        rintro (hk | hk) <;> (rw [hk] at h3; simp [TokenKind.isStack] at h3)
      simp only [this, if_false]
      exact Or.inr ⟨⟨o, l, rfl⟩, t, p, r, rfl, h3⟩

theorem advanceReal_rel (pos : Nat) (rest : List Char) :
    FlagRel (advanceReal (some false) pos rest) (advanceReal (some true) pos rest) :=
  advanceRealLoop_rel _ pos rest
end Lace.Asm

namespace Lace.Asm

theorem preprocessStep_rel (pos : Nat) (rest : List Char) (acc : List Token) :
    preprocessStep (some false) pos rest acc = preprocessStep (some true) pos rest acc ∨
    ∃ sp, preprocessStep (some false) pos rest acc = .done (.diag .lexStack sp) := by
  unfold preprocessStep
  rcases advanceReal_rel pos rest with h | ⟨⟨o, l, h1⟩, _⟩
  · rw [h]
    generalize advanceReal (some true) pos rest = r1
    cases r1 with
    | panic s => exact Or.inl rfl
    | diag k o l => exact Or.inl rfl
    | tok d pos1 rest1 =>
      simp only []
      split
      · rcases advanceReal_rel pos1 rest1 with h2 | ⟨⟨o, l, h3⟩, _⟩
        · rw [h2]; exact Or.inl rfl
        · rw [h3]; exact Or.inr ⟨_, rfl⟩
      · rcases advanceReal_rel pos1 rest1 with h2 | ⟨⟨o, l, h3⟩, _⟩
        · rw [h2]; exact Or.inl rfl
        · rw [h3]; exact Or.inr ⟨_, rfl⟩
      · rcases advanceReal_rel pos1 rest1 with h2 | ⟨⟨o, l, h3⟩, _⟩
        · rw [h2]; exact Or.inl rfl
        · rw [h3]; exact Or.inr ⟨_, rfl⟩
      all_goals exact Or.inl rfl
  · rw [h1]; exact Or.inr ⟨_, rfl⟩

theorem preprocessLoop_rel : ∀ (fuel pos : Nat) (rest : List Char) (acc : List Token),
    preprocessLoop (some false) fuel pos rest acc = preprocessLoop (some true) fuel pos rest acc ∨
    ∃ sp, preprocessLoop (some false) fuel pos rest acc = .diag .lexStack sp := by
  intro fuel
  induction fuel with
  | zero => intro pos rest acc; exact Or.inl rfl
  | succ fuel ih =>
    intro pos rest acc
    unfold preprocessLoop
    rcases preprocessStep_rel pos rest acc with h | ⟨sp, h⟩
    · rw [h]
      generalize preprocessStep (some true) pos rest acc = r
      cases r with
      | done r => exact Or.inl rfl
      | more p r a => exact ih p r a
    · rw [h]; exact Or.inr ⟨sp, rfl⟩

theorem parse_rel (tbl : SymTab) (src : List Char) :
    parse (some false) tbl src = parse (some true) tbl src ∨
    ∃ sp, parse (some false) tbl src = (.diag .lexStack sp, tbl) := by
  unfold parse preprocess
  rcases preprocessLoop_rel (src.length + 1) 0 src [] with h | ⟨sp, h⟩
  · rw [h]; exact Or.inl rfl
  · rw [h]; exact Or.inr ⟨sp, rfl⟩
end Lace.Asm

namespace Lace.Asm

theorem identKind_not_stack {s : String} (h : isStackMnemonic s = false) :
    (identKind s).isStack = false := by
  unfold identKind
  split
  · rename_i k hk
    unfold instrOfIdent at hk
    split at hk <;> simp at hk <;> subst hk <;> first | rfl | simp_all [isStackMnemonic]
  · split <;> rfl

/-- a lexer step with the flag off never yields one of the four mnemonics -/
def NoStackTok : LexStep → Prop
  | .tok t _ _ => t.kind.isStack = false
  | _ => True

theorem mkTok_ns {k : TokenKind} (h : k.isStack = false) (pos : Nat) (c r : List Char) :
    NoStackTok (mkTok k pos c r) := h

theorem identFrom_ns (pos : Nat) (consumed pre : List Char) (identStart : Nat) (rest : List Char) :
    NoStackTok (identFrom (some false) pos consumed pre identStart rest) := by
  unfold identFrom
  simp only []
  split
  · trivial
  · rename_i hs
    exact mkTok_ns (identKind_not_stack (by simpa using hs)) _ _ _

theorem ident_ns (pos : Nat) (consumed rest : List Char) :
    NoStackTok (ident (some false) pos consumed rest) := by
  unfold ident
  split
  · trivial
  · split
    · exact identFrom_ns _ _ _ _ _
    · trivial

theorem hex_ns (pos : Nat) (pre rest : List Char) : NoStackTok (hex (some false) pos pre rest) := by
  unfold hex
  simp only []
  split
  · exact mkTok_ns rfl _ _ _
  · split
    · exact mkTok_ns rfl _ _ _
    · trivial
    · exact identFrom_ns _ _ _ _ _

theorem dec_ns (pos : Nat) (pre rest : List Char) : NoStackTok (dec pos pre rest) := by
  unfold dec
  simp only []
  split
  · exact mkTok_ns rfl _ _ _
  · split
    · exact mkTok_ns rfl _ _ _
    · trivial

theorem dir_ns (pos : Nat) (rest : List Char) : NoStackTok (dir pos rest) := by
  unfold dir
  simp only []
  split
  · exact mkTok_ns rfl _ _ _
  · trivial

theorem str_ns (pos : Nat) (rest : List Char) : NoStackTok (str pos rest) := by
  unfold str
  split
  · exact mkTok_ns rfl _ _ _
  · trivial

theorem advanceToken_ns (pos : Nat) (rest : List Char) :
    NoStackTok (advanceToken (some false) pos rest) := by
  cases rest with
  | nil => rfl
  | cons c rest =>
    simp only [advanceToken]
    repeat' split
    all_goals first
      | exact hex_ns _ _ _
      | exact ident_ns _ _ _
      | exact dec_ns _ _ _
      | exact dir_ns _ _
      | exact str_ns _ _
      | exact mkTok_ns rfl _ _ _
      | trivial

theorem advanceRealLoop_ns : ∀ (fuel : List Char) (pos : Nat) (rest : List Char),
    NoStackTok (advanceRealLoop (some false) fuel pos rest) := by
  intro fuel
  induction fuel with
  | nil => intro pos rest; exact advanceToken_ns pos rest
  | cons _ fuel ih =>
    intro pos rest
    unfold advanceRealLoop
    have h := advanceToken_ns pos rest
    split
    · split
      · exact ih _ _
      · rename_i heq _; rw [heq] at h; exact h
    · exact h

theorem advanceReal_ns (pos : Nat) (rest : List Char) :
    NoStackTok (advanceReal (some false) pos rest) :=
  advanceRealLoop_ns _ pos rest
end Lace.Asm

namespace Lace.Asm

def NoStackList (l : List Token) : Prop := ∀ t ∈ l, t.kind.isStack = false

def PreNoStack : PreStep → Prop
  | .done (.ok toks) => NoStackList toks
  | .done _ => True
  | .more _ _ acc => NoStackList acc

theorem NoStackList.cons {t : Token} {l : List Token} (ht : t.kind.isStack = false)
    (hl : NoStackList l) : NoStackList (t :: l) := by
  intro x hx
  rcases List.mem_cons.mp hx with rfl | hx
  · exact ht
  · exact hl x hx

theorem NoStackList.append {a b : List Token} (ha : NoStackList a) (hb : NoStackList b) :
    NoStackList (a ++ b) := by
  intro x hx
  rcases List.mem_append.mp hx with hx | hx
  · exact ha x hx
  · exact hb x hx

theorem preprocessStep_ns (pos : Nat) (rest : List Char) (acc : List Token) (hacc : NoStackList acc) :
    PreNoStack (preprocessStep (some false) pos rest acc) := by
  have h1 := advanceReal_ns pos rest
  unfold preprocessStep
  generalize advanceReal (some false) pos rest = r1 at h1 ⊢
  cases r1 with
  | panic s => trivial
  | diag k o l => trivial
  | tok d pos1 rest1 =>
    simp only []
    have hrev : NoStackList acc.reverse := fun t ht => hacc t (List.mem_reverse.mp ht)
    split
    · generalize advanceReal (some false) pos1 rest1 = r2
      cases r2 with
      | panic s => trivial
      | diag k o l => trivial
      | tok val pos2 rest2 =>
        simp only []
        split
        · trivial
        · split
          · exact hacc.cons rfl
          · exact hacc.cons rfl
          · trivial
    · generalize advanceReal (some false) pos1 rest1 = r2
      cases r2 with
      | panic s => trivial
      | diag k o l => trivial
      | tok val pos2 rest2 =>
        simp only []
        split
        · trivial
        · split
          · exact NoStackList.append (fun t ht => by rw [List.eq_of_mem_replicate ht]; rfl) hacc
          · exact NoStackList.append (fun t ht => by rw [List.eq_of_mem_replicate ht]; rfl) hacc
          · trivial
    · generalize advanceReal (some false) pos1 rest1 = r2
      cases r2 with
      | panic s => trivial
      | diag k o l => trivial
      | tok val pos2 rest2 =>
        simp only []
        split
        · split
          · trivial
          · split
            · trivial
            · refine NoStackList.cons rfl (NoStackList.append ?_ hacc)
              intro t ht
              rw [List.mem_reverse, List.mem_map] at ht
              obtain ⟨c, _, rfl⟩ := ht
              rfl
        · trivial
    · exact hacc.cons rfl
    · exact hacc
    · exact hacc
    · exact hrev
    · exact hrev
    · exact hacc.cons h1

theorem preprocessLoop_ns : ∀ (fuel pos : Nat) (rest : List Char) (acc : List Token),
    NoStackList acc → ∀ toks, preprocessLoop (some false) fuel pos rest acc = .ok toks →
    NoStackList toks := by
  intro fuel
  induction fuel with
  | zero => intro pos rest acc _ toks h; simp [preprocessLoop] at h
  | succ fuel ih =>
    intro pos rest acc hacc toks h
    have hs := preprocessStep_ns pos rest acc hacc
    unfold preprocessLoop at h
    generalize preprocessStep (some false) pos rest acc = r at hs h
    cases r with
    | done r => simp only [] at h; subst h; exact hs
    | more p r a => exact ih p r a hs toks h

theorem preprocess_off_no_stack {src : List Char} {toks : List Token}
    (h : preprocess (some false) src = .ok toks) : NoStackList toks :=
  preprocessLoop_ns _ _ _ _ (by intro t ht; simp at ht) toks h
end Lace.Asm
