/-
  The arithmetic bridge between `AsmLine::bit_offs` (statement numbers, `i16`/`i32` arithmetic, an
  `abs()` range test, a mask) and the specification's PC-relative field (`target − (addr + 1)` over
  16-bit addresses, truncated to `n` bits when it fits):

      bitOffs line (.ref t) n = ok (field zero-extended)   if  pcField n (addrOf o line) (addrOf o t) = some field
                              = diag offsetTooLarge        if  it is none

  for the three field widths the assembler uses (9, 10, 11).  The word identity is closed by
  `grind` (commutative-ring normalisation; `omega` on the nested `% 65536` of the `toNat` form does
  not terminate in reasonable time), the range equivalence by `omega` on one level of `%`.
-/
import Lace.Proofs.EncodeBits
namespace Lace.C01
open Lace.Asm Lace.Spec

/-- address of the statement with 1-based number `line` in a program loaded at `orig` -/
def addrOf (orig : Word) (line : Nat) : Word := orig + BitVec.ofNat 16 line - 1

theorem word_bridge (o a b : Word) : (o + b - 1) - ((o + a - 1) + 1) = (b - a) - 1 := by
  grind

theorem int_bridge (x y : Nat) (hx : x < 65536) (P : Int) (hP0 : 0 < P) (hP : P ≤ 16384)
    (dI sI : Int) (hy : y = (x + 65535) % 65536)
    (hd : (2 * x < 65536 ∧ dI = x) ∨ (2 * x ≥ 65536 ∧ dI = x - 65536))
    (hs : (2 * y < 65536 ∧ sI = y) ∨ (2 * y ≥ 65536 ∧ sI = y - 65536)) :
    (¬ (((dI - 1).natAbs : Int) > P - (if dI - 1 > 0 then 1 else 0)) ↔ (-P ≤ sI ∧ sI < P)) ∧
    ((-P ≤ sI ∧ sI < P) → dI - 1 = sI) := by
  split <;> omega

theorem toInt_cases (w : Word) :
    (2 * w.toNat < 65536 ∧ w.toInt = w.toNat) ∨ (2 * w.toNat ≥ 65536 ∧ w.toInt = w.toNat - 65536) := by
  rw [BitVec.toInt_eq_toNat_cond]
  have : (2:Nat)^16 = 65536 := by decide
  rw [this]
  split <;> omega

theorem toNat_sub_one (w : Word) : (w - 1).toNat = (w.toNat + 65535) % 65536 := by
  rw [BitVec.toNat_sub]
  have : (2:Nat)^16 = 65536 := by decide
  rw [this]
  have : (1 : Word).toNat = 1 := by decide
  rw [this]
  omega

/-- The arithmetic bridge: with `d = t − line` (16-bit), the model's `d.toInt − 1` fits `n` bits iff
the specification's `(target − (addr + 1)).toInt` does, and then they are equal. -/
theorem offs_bridge (orig : Word) (line t : Nat) (P : Int) (hP0 : 0 < P) (hP : P ≤ 16384) :
    let o : Int := (BitVec.ofNat 16 t - BitVec.ofNat 16 line : Word).toInt - 1
    let s : Int := pcDistance (addrOf orig line) (addrOf orig t)
    (¬ ((o.natAbs : Int) > P - (if o > 0 then 1 else 0)) ↔ (-P ≤ s ∧ s < P)) ∧
    ((-P ≤ s ∧ s < P) → o = s) := by
  intro o s
  have hs : s = ((BitVec.ofNat 16 t - BitVec.ofNat 16 line : Word) - 1).toInt := by
    show (addrOf orig t - (addrOf orig line + 1)).toInt = _
    unfold addrOf
    rw [word_bridge]
  exact int_bridge _ _ (BitVec.isLt _) P hP0 hP _ _ (toNat_sub_one _) (toInt_cases _) (hs ▸ toInt_cases _)

/-- what `bitOffs` must return given the specification's field -/
def offsExpected {n : Nat} : Option (BitVec n) → Res Word
  | some f => .ok (f.setWidth 16)
  | none => .diag .offsetTooLarge none

theorem ofInt_toInt_fit (n : Nat) (s : Int) (P : Nat) (hP : 2 ^ n = 2 * P)
    (h : -(P : Int) ≤ s ∧ s < P) : (BitVec.ofInt n s).toInt = s := by
  rw [BitVec.toInt_ofInt, hP]
  apply Int.bmod_eq_of_le <;> omega

theorem bitOffs_eq_pcField (orig : Word) (line t n : Nat) (hn : n = 9 ∨ n = 10 ∨ n = 11) :
    bitOffs line (.ref t) n = offsExpected (pcField n (addrOf orig line) (addrOf orig t)) := by
  have key : ∀ (P : Nat), 0 < P → P ≤ 16384 → (2:Int) ^ (n - 1) = (P : Int) → 2 ^ n = 2 * P →
      (∀ x : BitVec n, (BitVec.ofInt 16 x.toInt &&& BitVec.ofNat 16 (2 ^ n - 1)) = x.setWidth 16) →
      bitOffs line (.ref t) n = offsExpected (pcField n (addrOf orig line) (addrOf orig t)) := by
    intro P hP0 hP hpow h2 hfield
    have hb := offs_bridge orig line t (P : Int) (by omega) (by omega)
    simp only at hb
    unfold bitOffs pcField
    simp only [hpow]
    by_cases hfit : (-(P:Int) ≤ pcDistance (addrOf orig line) (addrOf orig t) ∧
        pcDistance (addrOf orig line) (addrOf orig t) < (P:Int))
    · rw [if_neg (hb.1.mpr hfit), if_pos hfit, hb.2 hfit]
      unfold offsExpected
      simp only
      rw [← hfield, ofInt_toInt_fit n _ P h2 hfit]
    · rw [if_pos (by
        have := hb.1
        exact Classical.not_not.mp (fun hc => hfit (this.mp hc))), if_neg hfit]
      rfl
  rcases hn with h | h | h <;> subst h
  · exact key 256 (by decide) (by decide) (by decide) (by decide) field9
  · exact key 512 (by decide) (by decide) (by decide) (by decide) field10
  · exact key 1024 (by decide) (by decide) (by decide) (by decide) field11

theorem withOffs_eq (orig : Word) (raw : Word) (line t n : Nat) (hn : n = 9 ∨ n = 10 ∨ n = 11) :
    withOffs raw line (.ref t) n =
      match pcField n (addrOf orig line) (addrOf orig t) with
      | some f => .ok (raw ||| f.setWidth 16)
      | none => .diag .offsetTooLarge none := by
  unfold withOffs
  rw [bitOffs_eq_pcField orig line t n hn]
  cases pcField n (addrOf orig line) (addrOf orig t) <;> rfl

theorem ret_word : (0xC1C0#16 : Word) = 0b1100#4 ++ 0b000#3 ++ 0b111#3 ++ 0b000000#6 := by decide
theorem rti_word : (0x8000#16 : Word) = 0b1000#4 ++ 0b000000000000#12 := by decide
theorem rets_word : (0xD000#16 ||| 0x0800#16 : Word) = 0b1101#4 ++ 0b10#2 ++ 0b0000000000#10 := by decide

/-- the PC-relative forms: `emit` is `withOffs raw line l n`, the specification maps the field -/
theorem emit_pc (orig raw : Word) (line t n : Nat) (hn : n = 9 ∨ n = 10 ∨ n = 11)
    (g : BitVec n → Word) (hg : ∀ x : BitVec n, raw ||| x.setWidth 16 = g x) :
    withOffs raw line (.ref t) n =
      match (pcField n (addrOf orig line) (addrOf orig t)).map g with
      | some w => .ok w
      | none => .diag .offsetTooLarge none := by
  rw [withOffs_eq orig raw line t n hn]
  cases pcField n (addrOf orig line) (addrOf orig t) with
  | none => rfl
  | some x => exact congrArg Res.ok (hg x)

end Lace.C01
