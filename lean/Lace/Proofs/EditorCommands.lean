/-
  C20: `get_next_command` (byte cursor, `str::find(';')`, byte slices) yields exactly the pieces
  of the submitted line between its `;`s, never slices off a character boundary, and ends with
  the byte cursor back at 0 (so that the next `Read::read` reads a new line).
-/
import Lace.Model.Editor
import Lace.Spec.RefEditor
namespace Lace.Editor
open Lace.RefEditor (splitCommands)

/-- The text before the first `;`, and the text after it if there is one. -/
def untilSemi : List Char → List Char × Option (List Char)
  | [] => ([], none)
  | c :: r => if c = ';' then ([], some r) else ((untilSemi r).1.cons c, (untilSemi r).2)

theorem utf8Len_append (a b : List Char) : utf8Len (a ++ b) = utf8Len a + utf8Len b := by
  induction a with
  | nil => simp [utf8Len]
  | cons c a ih => simp [utf8Len, ih]; omega

theorem sliceFrom_cons (c : Char) (rest : List Char) (n : Nat) :
    sliceFrom (c :: rest) n =
      if n = 0 then some (c :: rest)
      else if c.utf8Size ≤ n then sliceFrom rest (n - c.utf8Size) else none := by
  cases n <;> simp [sliceFrom]

theorem sliceFrom_append (rest : List Char) : ∀ pre : List Char,
    sliceFrom (pre ++ rest) (utf8Len pre) = some rest
  | [] => by cases rest <;> simp [utf8Len, sliceFrom]
  | c :: pre => by
    have hpos := Char.utf8Size_pos c
    have h0 : ¬ (c.utf8Size + utf8Len pre = 0) := by omega
    have h1 : c.utf8Size ≤ c.utf8Size + utf8Len pre := by omega
    simp only [List.cons_append, utf8Len, sliceFrom_cons, h0, h1, if_true, if_false,
      Nat.add_sub_cancel_left]
    exact sliceFrom_append rest pre

theorem sliceTo_cons (c : Char) (rest : List Char) (n : Nat) :
    sliceTo (c :: rest) n =
      if n = 0 then some []
      else if c.utf8Size ≤ n then (sliceTo rest (n - c.utf8Size)).map (c :: ·) else none := by
  cases n <;> simp [sliceTo]

theorem sliceTo_append (b : List Char) : ∀ a : List Char, sliceTo (a ++ b) (utf8Len a) = some a
  | [] => by cases b <;> simp [utf8Len, sliceTo]
  | c :: a => by
    have hpos := Char.utf8Size_pos c
    have h0 : ¬ (c.utf8Size + utf8Len a = 0) := by omega
    have h1 : c.utf8Size ≤ c.utf8Size + utf8Len a := by omega
    simp only [List.cons_append, utf8Len, sliceTo_cons, h0, h1, if_true, if_false,
      Nat.add_sub_cancel_left]
    rw [sliceTo_append b a]; rfl

theorem findSemi_eq : ∀ l : List Char,
    findSemi l = (untilSemi l).2.map fun _ => utf8Len (untilSemi l).1
  | [] => rfl
  | c :: r => by
    by_cases h : c = ';'
    · simp [findSemi, untilSemi, h, utf8Len]
    · simp only [findSemi, untilSemi, h, if_false, findSemi_eq r]
      cases (untilSemi r).2 <;> simp [utf8Len]; omega

theorem untilSemi_append : ∀ l : List Char,
    l = (untilSemi l).1 ++ (match (untilSemi l).2 with | none => [] | some b => ';' :: b)
  | [] => rfl
  | c :: r => by
    by_cases h : c = ';'
    · simp [untilSemi, h]
    · have ih := untilSemi_append r
      simp only [untilSemi, h, if_false, List.cons_append]
      exact congrArg (c :: ·) ih

theorem untilSemi_length : ∀ l : List Char, ∀ b, (untilSemi l).2 = some b → b.length < l.length
  | [], b, h => by simp [untilSemi] at h
  | c :: r, b, h => by
    by_cases hc : c = ';'
    · simp [untilSemi, hc] at h; subst h; simp
    · simp only [untilSemi, hc, if_false] at h
      have := untilSemi_length r b h
      simp; omega

theorem splitCommands_ne_nil : ∀ l : List Char, splitCommands l ≠ []
  | [] => by simp [splitCommands]
  | c :: r => by
    have := splitCommands_ne_nil r
    rw [splitCommands]
    split
    · contradiction
    · split <;> simp

theorem splitCommands_eq : ∀ l : List Char,
    splitCommands l = match (untilSemi l).2 with
      | none => [(untilSemi l).1]
      | some b => (untilSemi l).1 :: splitCommands b
  | [] => rfl
  | c :: r => by
    have ih := splitCommands_eq r
    have hne := splitCommands_ne_nil r
    rw [splitCommands]
    by_cases hc : c = ';'
    · simp only [untilSemi, hc, if_true]
      split
      · contradiction
      · rename_i cmd cmds heq; rw [heq]
    · simp only [untilSemi, hc, if_false]
      split
      · contradiction
      · rename_i cmd cmds heq
        rw [heq] at ih
        cases hb : (untilSemi r).2 with
        | none => rw [hb] at ih; simp at ih; simp [ih.1, ih.2]
        | some b => rw [hb] at ih; simp at ih; simp [ih.1, ih.2]

/-- Reading the commands of a line from byte position `utf8Len pre` on (there: at a character
boundary) yields the reference split of the rest and leaves the cursor at 0, given enough fuel. -/
theorem drainCommands_eq : ∀ (fuel : Nat) (pre rest : List Char) (v : Nat) (hs : List (List Char)) (ix : Nat),
    rest.length < fuel →
    drainCommands fuel { buffer := pre ++ rest, cursor := utf8Len pre, vcursor := v, hist := hs, index := ix } =
      .ok (splitCommands rest, { buffer := pre ++ rest, cursor := 0, vcursor := v, hist := hs, index := ix })
  | 0, _, _, _, _, _, h => by omega
  | fuel + 1, pre, rest, v, hs, ix, h => by
    rw [drainCommands, getNextCommand]
    simp only [sliceFrom_append, findSemi_eq]
    have happ := untilSemi_append rest
    rw [splitCommands_eq rest]
    cases hb : (untilSemi rest).2 with
    | none =>
      rw [hb] at happ
      simp only [Option.map_none, List.append_nil] at happ ⊢
      simp [← happ]
    | some b =>
      rw [hb] at happ
      have hlen := untilSemi_length rest b hb
      simp only [Option.map_some]
      have hto : sliceTo rest (utf8Len (untilSemi rest).1) = some (untilSemi rest).1 := by
        conv => lhs; arg 1; rw [happ]
        exact sliceTo_append _ _
      rw [hto]
      simp only []
      have hcur : utf8Len pre + (utf8Len (untilSemi rest).1 + 1) =
          utf8Len (pre ++ ((untilSemi rest).1 ++ [';'])) := by
        simp [utf8Len_append, utf8Len]; rfl
      have hbuf : pre ++ rest = (pre ++ ((untilSemi rest).1 ++ [';'])) ++ b := by
        conv => lhs; rw [happ]
        simp
      have hne : ¬ (utf8Len pre + (utf8Len (untilSemi rest).1 + 1) = 0) := by omega
      simp only [hne, if_false]
      rw [hcur, hbuf, drainCommands_eq fuel _ b v hs ix (by omega)]

/-- `Read::read` on a freshly read line: no panic, the commands are the pieces between the `;`s. -/
theorem commands_eq (line : List Char) : commands line = .ok (splitCommands line) := by
  unfold commands
  have := drainCommands_eq (line.length + 1) [] line 0 [] 0 (by omega)
  simp only [List.nil_append, utf8Len] at this
  rw [this]

end Lace.Editor
