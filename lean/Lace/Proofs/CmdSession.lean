/-
  C14: a session (every command `read_from` yields until end of input) is a function of the
  sequence of pending lines alone — whichever reader delivers them.
-/
import Lace.Proofs.CmdReader
namespace Lace.C14
open Lace.Cmd

theorem nextLine_eq_none {t : List Char} : nextLine t = none ↔ t = [] := by
  unfold nextLine
  rw [readAux_takeWhile]
  by_cases h : t = [] <;> simp [h]

/-- What a `CommandReader` has still to deliver: `ta` from the argument, then `tb` from
standard input (as UTF-8 bytes). -/
def RView (r : Reader) (ta tb : List Char) : Prop :=
  r.stdin = encode tb ∧
  match r.argument with
  | none => ta = []
  | some a => ArgView a ta

theorem rview_from (a : Option (List Char)) (b : List Char) :
    RView (Reader.from a (encode b)) (a.getD []) b := by
  cases a with
  | none => exact ⟨rfl, rfl⟩
  | some a => exact ⟨rfl, argView_from a⟩

/-- The lines still to come. -/
def pendingLines (ta tb : List Char) : List (List Char) := textLines ta ++ textLines tb

theorem readStream_view {r : Reader} {tb : List Char} (hs : r.stdin = encode tb) :
    match textLines tb with
    | [] => ∃ r', r.readStream = .eof r'
    | l :: L => ∃ r' tb', r.readStream = .line l r' ∧ r'.argument = r.argument ∧
        r'.stdin = encode tb' ∧ textLines tb' = L := by
  rw [textLines_eq]
  unfold Reader.readStream
  rw [hs, stdinRead_encode]
  cases h : nextLine tb with
  | none => exact ⟨_, rfl⟩
  | some p =>
    obtain ⟨l, rest⟩ := p
    exact ⟨_, rest, rfl, rfl, rfl, rfl⟩

/-- One `CommandReader::read` delivers the first pending line; it never panics. -/
theorem read_view {r : Reader} {ta tb : List Char} (hv : RView r ta tb) :
    match pendingLines ta tb with
    | [] => ∃ r', r.read = .eof r'
    | l :: L => ∃ r' ta' tb', r.read = .line l r' ∧ RView r' ta' tb' ∧ pendingLines ta' tb' = L := by
  obtain ⟨hs, ha⟩ := hv
  unfold Reader.read
  cases harg : r.argument with
  | none =>
    rw [harg] at ha
    subst ha
    have := readStream_view hs
    simp only [pendingLines, textLines, linesAux, if_true, List.nil_append] at this ⊢
    cases hL : linesAux tb [] with
    | nil => rw [hL] at this; exact this
    | cons l L =>
      rw [hL] at this
      obtain ⟨r', tb', h1, h2, h3, h4⟩ := this
      refine ⟨r', [], tb', h1, ⟨h3, ?_⟩, ?_⟩
      · rw [h2, harg]
      · simpa [pendingLines, textLines, linesAux] using h4
  | some a =>
    rw [harg] at ha
    have hread := argRead_view ha
    cases hn : nextLine ta with
    | none =>
      rw [hn] at hread
      have hta : ta = [] := nextLine_eq_none.1 hn
      subst hta
      simp only [hread]
      have := readStream_view hs
      simp only [pendingLines, textLines, linesAux, if_true, List.nil_append] at this ⊢
      cases hL : linesAux tb [] with
      | nil => rw [hL] at this; exact this
      | cons l L =>
        rw [hL] at this
        obtain ⟨r', tb', h1, h2, h3, h4⟩ := this
        refine ⟨r', [], tb', h1, ⟨h3, ?_⟩, ?_⟩
        · rw [h2, harg]
          left
          rcases ha with ⟨_, h⟩ | ⟨pre, hb, hc⟩
          · exact ⟨rfl, h⟩
          · refine ⟨rfl, ?_⟩
            rw [hb, hc]; simp
        · simpa [pendingLines, textLines, linesAux] using h4
    | some p =>
      obtain ⟨l, ta'⟩ := p
      rw [hn] at hread
      obtain ⟨a', h1, h2⟩ := hread
      have ht : textLines ta = l :: textLines ta' := by rw [textLines_eq, hn]
      simp only [pendingLines, ht, List.cons_append, h1]
      exact ⟨_, ta', tb, rfl, ⟨hs, h2⟩, rfl⟩

/-! ### `read_from` on a sequence of lines -/

inductive LoopL where
  | command (c : Command) (errors : Nat) (rest : List (List Char))
  | eof (errors : Nat)
  | exit (code : Nat) (errors : Nat)
  | panic (site : String) (errors : Nat)

/-- `Command::read_from` as a function of the pending lines. -/
def loopL : List (List Char) → Nat → LoopL
  | [], n => .eof n
  | l :: L, n =>
    if (trim l).isEmpty then loopL L n else
    match parseLine (trim l) with
    | .ok c => .command c n L
    | .err => loopL L (n + 1)
    | .exit code => .exit code n
    | .panic s => .panic s n

def LoopRel : ReadFrom → LoopL → Prop
  | .command c k r', .command c' k' L' =>
    c = c' ∧ k = k' ∧ ∃ ta' tb', RView r' ta' tb' ∧ pendingLines ta' tb' = L'
  | .eof k _, .eof k' => k = k'
  | .exit c k, .exit c' k' => c = c' ∧ k = k'
  | .panic s k, .panic s' k' => s = s' ∧ k = k'
  | _, _ => False

theorem readFromLoop_lines {r : Reader} {ta tb : List Char} (hv : RView r ta tb) (n : Nat) :
    LoopRel (readFromLoop r n) (loopL (pendingLines ta tb) n) := by
  generalize hL : pendingLines ta tb = L
  induction L generalizing r ta tb n with
  | nil =>
    have := read_view hv
    rw [hL] at this
    obtain ⟨r', h⟩ := this
    rw [readFromLoop]
    split <;> simp_all [loopL, LoopRel]
  | cons l L ih =>
    have := read_view hv
    rw [hL] at this
    obtain ⟨r', ta', tb', h1, h2, h3⟩ := this
    rw [readFromLoop]
    split
    · simp_all
    · simp_all
    · rename_i l0 r0 hread
      rw [h1] at hread
      simp only [Read.line.injEq] at hread
      obtain ⟨e1, e2⟩ := hread
      subst e1 e2
      simp only [loopL]
      by_cases he : (trim l).isEmpty = true
      · simp only [he, if_true]
        exact ih h2 n h3
      · simp only [he, if_false, Bool.false_eq_true]
        cases hp : parseLine (trim l) with
        | ok c => exact ⟨rfl, rfl, ta', tb', h2, h3⟩
        | err => exact ih h2 (n + 1) h3
        | exit code => exact ⟨rfl, rfl⟩
        | panic s => exact ⟨rfl, rfl⟩

/-- A session as a function of the pending lines. -/
def sessionL : List (List Char) → Session
  | [] => { events := [], ending := .eof }
  | l :: L =>
    if (trim l).isEmpty then sessionL L else
    match parseLine (trim l) with
    | .ok c => { events := some c :: (sessionL L).events, ending := (sessionL L).ending }
    | .err => { events := none :: (sessionL L).events, ending := (sessionL L).ending }
    | .exit code => { events := [], ending := .exit code }
    | .panic s => { events := [], ending := .panic s }

theorem sessionL_loopL (L : List (List Char)) (n : Nat) :
    ({ events := List.replicate n none ++ (sessionL L).events, ending := (sessionL L).ending } : Session) =
      match loopL L n with
      | .command c k rest =>
        { events := List.replicate k none ++ some c :: (sessionL rest).events,
          ending := (sessionL rest).ending }
      | .eof k => { events := List.replicate k none, ending := .eof }
      | .exit code k => { events := List.replicate k none, ending := .exit code }
      | .panic s k => { events := List.replicate k none, ending := .panic s } := by
  induction L generalizing n with
  | nil => simp [sessionL, loopL]
  | cons l L ih =>
    simp only [sessionL, loopL]
    by_cases he : (trim l).isEmpty = true
    · simp only [he, if_true]; exact ih n
    · simp only [he, if_false, Bool.false_eq_true]
      cases hp : parseLine (trim l) with
      | ok c => simp
      | err =>
        simp only
        rw [← ih (n + 1)]
        simp [List.replicate_succ', List.append_assoc]
      | exit code => simp
      | panic s => simp

/-- **A session is determined by the pending lines.** -/
theorem session_lines {r : Reader} {ta tb : List Char} (hv : RView r ta tb) :
    session r = sessionL (pendingLines ta tb) := by
  induction hs : r.size using Nat.strongRecOn generalizing r ta tb with
  | _ k ih =>
    subst hs
    have hrel := readFromLoop_lines hv 0
    have hsl := sessionL_loopL (pendingLines ta tb) 0
    simp only [List.replicate_zero, List.nil_append] at hsl
    rw [session]
    split
    · rename_i c n r' hrf
      unfold readFrom at hrf
      rw [hrf] at hrel
      cases hl : loopL (pendingLines ta tb) 0 with
      | command c' k' L' =>
        rw [hl] at hrel hsl
        obtain ⟨e1, e2, ta', tb', hv', hL'⟩ := hrel
        subst e1 e2
        have := ih _ (readFromLoop_size hrf) hv' rfl
        rw [this, hL']
        exact hsl.symm
      | eof k' => rw [hl] at hrel; exact hrel.elim
      | exit c' k' => rw [hl] at hrel; exact hrel.elim
      | panic s' k' => rw [hl] at hrel; exact hrel.elim
    · rename_i n r' hrf
      unfold readFrom at hrf
      rw [hrf] at hrel
      cases hl : loopL (pendingLines ta tb) 0 with
      | command c' k' L' => rw [hl] at hrel; exact hrel.elim
      | eof k' =>
        rw [hl] at hrel hsl
        simp only [LoopRel] at hrel
        subst hrel
        exact hsl.symm
      | exit c' k' => rw [hl] at hrel; exact hrel.elim
      | panic s' k' => rw [hl] at hrel; exact hrel.elim
    · rename_i code n hrf
      unfold readFrom at hrf
      rw [hrf] at hrel
      cases hl : loopL (pendingLines ta tb) 0 with
      | command c' k' L' => rw [hl] at hrel; exact hrel.elim
      | eof k' => rw [hl] at hrel; exact hrel.elim
      | exit c' k' =>
        rw [hl] at hrel hsl
        obtain ⟨e1, e2⟩ := hrel
        subst e1 e2
        exact hsl.symm
      | panic s' k' => rw [hl] at hrel; exact hrel.elim
    · rename_i site n hrf
      unfold readFrom at hrf
      rw [hrf] at hrel
      cases hl : loopL (pendingLines ta tb) 0 with
      | command c' k' L' => rw [hl] at hrel; exact hrel.elim
      | eof k' => rw [hl] at hrel; exact hrel.elim
      | exit c' k' => rw [hl] at hrel; exact hrel.elim
      | panic s' k' =>
        rw [hl] at hrel hsl
        obtain ⟨e1, e2⟩ := hrel
        subst e1 e2
        exact hsl.symm

end Lace.C14
