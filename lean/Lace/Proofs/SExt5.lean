/- `s_ext(instr, 5)` (mask / `!sign + 1` trick) is sign extension of the low 5 bits:
   exhaustive kernel evaluation over all 65,536 words. -/
import Lace.Proofs.AllRange
import Lace.Spec.ISA
import Lace.Model.VM
namespace Lace
theorem sExt_5 (w : Word) : VM.sExt w 5 = ISA.sext (w.extractLsb' 0 5) := by
  have := forall_word_of_allRange (fun w => VM.sExt w 5 == ISA.sext (w.extractLsb' 0 5))
    (by decide +kernel) w
  simpa using this
end Lace
