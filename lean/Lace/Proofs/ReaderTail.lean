/-
  C09 / C14 with a SHARED standard input: what `Stdin::read` leaves unread.

  `Proofs/CmdReader.lean` describes the readers on a standard input that holds the UTF-8 bytes
  of a text and nothing else.  Here standard input is `encode tb ++ R`: a text `tb` (commands)
  followed by arbitrary bytes `R` (the program's input, not necessarily UTF-8).  As long as the
  command text ends with a separator, every read delivers the next line of `tb` and leaves
  exactly the bytes after that line's separator — in particular all of `R`.
-/
import Lace.Proofs.CmdSession
namespace Lace.C09IO
open Lace.Cmd Lace.C14

/-! ### one `Stdin::read` -/

/-- Reading the line `cmd` (no separator in it) ended by the separator `d`: the characters are
appended to the buffer, the separator is consumed, and `R` — whatever bytes it holds — is left. -/
theorem stdinLoop_line (cmd : List Char) (d : Char) (R : List UInt8) (buf : List Char)
    (hcmd : ∀ c ∈ cmd, isDelimiter c = false) (hd : isDelimiter d = true) :
    stdinLoop (encode cmd ++ (encode [d] ++ R)) buf = .line (buf ++ cmd) R := by
  induction cmd generalizing buf with
  | nil =>
    have hd' : d = '\n' ∨ d = ';' := by simpa [isDelimiter] using hd
    have hrc : readCharFromBytes (encode [] ++ (encode [d] ++ R)) = .char d R := by
      simp only [encode_nil, List.nil_append, encode_cons, List.append_nil]
      exact readChar_encode d R
    rw [stdinLoop]
    split
    · rename_i heq; rw [hrc] at heq; cases heq
    · rename_i heq; rw [hrc] at heq; cases heq
    · rename_i ch rest heq
      rw [hrc] at heq
      simp only [ReadChar.char.injEq] at heq
      obtain ⟨h1, h2⟩ := heq
      subst h1 h2
      simp [hd']
  | cons c cs ih =>
    have hc : isDelimiter c = false := hcmd c (by simp)
    have hc' : ¬ (c = '\n' ∨ c = ';') := by simpa [isDelimiter] using hc
    have hrc : readCharFromBytes (encode (c :: cs) ++ (encode [d] ++ R)) =
        .char c (encode cs ++ (encode [d] ++ R)) := by
      rw [encode_cons, List.append_assoc]
      exact readChar_encode c _
    rw [stdinLoop]
    split
    · rename_i heq; rw [hrc] at heq; cases heq
    · rename_i heq; rw [hrc] at heq; cases heq
    · rename_i ch rest heq
      rw [hrc] at heq
      simp only [ReadChar.char.injEq] at heq
      obtain ⟨h1, h2⟩ := heq
      subst h1 h2
      simp only [hc', if_false]
      have := ih (buf ++ [c]) (fun x hx => hcmd x (by simp [hx]))
      simpa [List.append_assoc] using this

theorem not_delim_of_mem_takeWhile {t : List Char} {c : Char}
    (h : c ∈ t.takeWhile (fun ch => !isDelimiter ch)) : isDelimiter c = false := by
  induction t with
  | nil => simp at h
  | cons x xs ih =>
    simp only [List.takeWhile] at h
    cases hx : isDelimiter x with
    | true => simp [hx] at h
    | false =>
      simp only [hx, Bool.not_false, List.mem_cons] at h
      rcases h with h | h
      · rw [h]; exact hx
      · exact ih h

/-- The text `t` holds a separator. -/
def HasDelim (t : List Char) : Prop := ∃ c ∈ t, isDelimiter c = true

theorem split_at_delim {t : List Char} (h : HasDelim t) :
    ∃ l d rest, t = l ++ d :: rest ∧ (∀ c ∈ l, isDelimiter c = false) ∧ isDelimiter d = true ∧
      readAux t [] = some (l, rest) := by
  generalize hseg : t.takeWhile (fun ch => !isDelimiter ch) = seg
  generalize htail : t.dropWhile (fun ch => !isDelimiter ch) = tail
  have hsplit : t = seg ++ tail := by rw [← hseg, ← htail, List.takeWhile_append_dropWhile]
  have hseg' : ∀ c ∈ seg, isDelimiter c = false := by
    intro c hc
    rw [← hseg] at hc
    exact not_delim_of_mem_takeWhile hc
  cases tail with
  | nil =>
    exfalso
    obtain ⟨c, hc, hcd⟩ := h
    rw [hsplit, List.append_nil] at hc
    rw [hseg' c hc] at hcd
    cases hcd
  | cons d rest =>
    have hdel : isDelimiter d = true := by
      have h' := List.head?_dropWhile_not (fun ch => !isDelimiter ch) t
      rw [htail] at h'
      simpa using h'
    refine ⟨seg, d, rest, hsplit, hseg', hdel, ?_⟩
    rw [readAux_takeWhile]
    have hne : t ≠ [] := by
      intro h0; rw [h0] at hsplit; cases seg <;> simp at hsplit
    simp [hne, hseg, htail]

/-- **One read on a text followed by arbitrary bytes.**  When the command text `t` still holds
a separator, `Stdin::read` on `encode t ++ R` delivers the first line of `t` and leaves the
bytes of the rest of `t` followed by all of `R`. -/
theorem stdinRead_tail (t : List Char) (R : List UInt8) (h : HasDelim t) :
    ∃ l rest, nextLine t = some (l, rest) ∧ stdinRead (encode t ++ R) = .line l (encode rest ++ R) ∧
      ∃ pre, t = pre ++ rest := by
  obtain ⟨l, d, rest, ht, hl, hd, hr⟩ := split_at_delim h
  refine ⟨l, rest, hr, ?_, l ++ [d], by simp [ht]⟩
  have := stdinLoop_line l d (encode rest ++ R) [] hl hd
  unfold stdinRead
  rw [ht, encode_append, encode_cons, List.append_assoc]
  simpa [encode_cons, List.append_assoc] using this

/-! ### views with a tail -/

/-- The text is empty or ends with a separator. -/
def EndsDelim (t : List Char) : Prop := t = [] ∨ ∃ t0 d, t = t0 ++ [d] ∧ isDelimiter d = true

theorem EndsDelim.hasDelim {t : List Char} (h : EndsDelim t) (hne : t ≠ []) : HasDelim t := by
  rcases h with h | ⟨t0, d, h, hd⟩
  · exact absurd h hne
  · exact ⟨d, by simp [h], hd⟩

theorem EndsDelim.suffix {pre rest : List Char} (h : EndsDelim (pre ++ rest)) (hp : EndsDelim pre ∨ rest ≠ []) :
    EndsDelim rest := by
  rcases List.eq_nil_or_concat rest with h0 | ⟨r0, x, hx⟩
  · exact .inl h0
  · rw [List.concat_eq_append] at hx
    rcases h with h | ⟨t0, d, h, hd⟩
    · subst hx; simp at h
    · right
      refine ⟨r0, x, hx, ?_⟩
      subst hx
      rw [← List.append_assoc] at h
      have := List.append_inj_right' h rfl
      simp at this
      rw [this]; exact hd

/-- What a `CommandReader` has still to deliver when standard input is shared: `ta` from the
argument, then `tb` from standard input, after which standard input goes on with the bytes `R`
(the program's input).  Unless `R` is empty the command text on standard input ends with a
separator (otherwise its last line would run into `R`). -/
def TView (r : Reader) (ta tb : List Char) (R : List UInt8) : Prop :=
  r.stdin = encode tb ++ R ∧ (EndsDelim tb ∨ R = []) ∧
  match r.argument with
  | none => ta = []
  | some a => ArgView a ta

theorem tview_from (a : Option (List Char)) (b : List Char) (R : List UInt8) (h : EndsDelim b ∨ R = []) :
    TView (Reader.from a (encode b ++ R)) (a.getD []) b R := by
  cases a with
  | none => exact ⟨rfl, h, rfl⟩
  | some a => exact ⟨rfl, h, argView_from a⟩

theorem textLines_eq_nil {t : List Char} : textLines t = [] ↔ t = [] := by
  rw [textLines_eq]
  constructor
  · intro h
    cases hn : nextLine t with
    | none => exact nextLine_eq_none.1 hn
    | some p => rw [hn] at h; simp at h
  · intro h; subst h; rfl

/-- The stream part of one `CommandReader::read` with a tail. -/
theorem readStream_tview {r : Reader} {tb : List Char} {R : List UInt8} {l : List Char}
    {L : List (List Char)} (hs : r.stdin = encode tb ++ R) (he : EndsDelim tb ∨ R = [])
    (hL : textLines tb = l :: L) :
    ∃ tb', r.readStream = .line l { r with stdin := encode tb' ++ R } ∧ (EndsDelim tb' ∨ R = []) ∧
      textLines tb' = L ∧ ∃ pre, tb = pre ++ tb' := by
  have hne : tb ≠ [] := by intro h; rw [h] at hL; simp [textLines, linesAux] at hL
  rw [textLines_eq] at hL
  rcases he with he | hR
  · obtain ⟨l', rest, hn, hread, pre, hpre⟩ := stdinRead_tail tb R (he.hasDelim hne)
    rw [hn] at hL
    simp only [List.cons.injEq] at hL
    obtain ⟨e1, e2⟩ := hL
    subst e1
    refine ⟨rest, ?_, .inl ?_, e2, pre, hpre⟩
    · unfold Reader.readStream; rw [hs, hread]
    · rw [hpre] at he
      by_cases hr : rest = []
      · exact .inl hr
      · exact he.suffix (.inr hr)
  · subst hR
    cases hn : nextLine tb with
    | none => rw [hn] at hL; simp at hL
    | some p =>
      obtain ⟨l', rest⟩ := p
      rw [hn] at hL
      simp only [List.cons.injEq] at hL
      obtain ⟨e1, e2⟩ := hL
      subst e1
      have hread := stdinRead_encode tb
      rw [hn] at hread
      refine ⟨rest, ?_, .inr rfl, e2, ?_⟩
      · unfold Reader.readStream
        rw [hs, List.append_nil, hread, List.append_nil]
      · unfold nextLine at hn
        rw [readAux_takeWhile] at hn
        simp only [hne, false_and, if_false, List.nil_append, Option.some.injEq, Prod.mk.injEq] at hn
        refine ⟨tb.takeWhile (fun ch => !isDelimiter ch) ++ (tb.dropWhile (fun ch => !isDelimiter ch)).take 1, ?_⟩
        rw [← hn.2, List.append_assoc, List.take_append_drop, List.takeWhile_append_dropWhile]

/-- **One `CommandReader::read` on a shared standard input** delivers the first pending line and
leaves the bytes of the remaining command text followed by the untouched tail `R`. -/
theorem read_tview {r : Reader} {ta tb : List Char} {R : List UInt8} {l : List Char}
    {L : List (List Char)} (hv : TView r ta tb R) (hL : pendingLines ta tb = l :: L) :
    ∃ r' ta' tb', r.read = .line l r' ∧ TView r' ta' tb' R ∧ pendingLines ta' tb' = L ∧
      ∃ pre, tb = pre ++ tb' := by
  obtain ⟨hs, he, ha⟩ := hv
  unfold Reader.read
  cases harg : r.argument with
  | none =>
    rw [harg] at ha
    subst ha
    simp only [pendingLines, textLines, linesAux, if_true, List.nil_append] at hL
    obtain ⟨tb', h1, h2, h3, h4⟩ := readStream_tview hs he hL
    refine ⟨_, [], tb', h1, ⟨rfl, h2, ?_⟩, ?_, h4⟩
    · simp only [harg]
    · simpa [pendingLines, textLines, linesAux] using h3
  | some a =>
    rw [harg] at ha
    have hread := argRead_view ha
    cases hn : nextLine ta with
    | none =>
      rw [hn] at hread
      have hta : ta = [] := nextLine_eq_none.1 hn
      subst hta
      simp only [hread]
      simp only [pendingLines, textLines, linesAux, if_true, List.nil_append] at hL
      obtain ⟨tb', h1, h2, h3, h4⟩ := readStream_tview hs he hL
      refine ⟨_, [], tb', h1, ⟨rfl, h2, ?_⟩, ?_, h4⟩
      · simp only [harg]
        left
        rcases ha with ⟨_, h⟩ | ⟨pre, hb, hc⟩
        · exact ⟨rfl, h⟩
        · refine ⟨rfl, ?_⟩
          rw [hb, hc]; simp
      · simpa [pendingLines, textLines, linesAux] using h3
    | some p =>
      obtain ⟨l', ta'⟩ := p
      rw [hn] at hread
      obtain ⟨a', h1, h2⟩ := hread
      have ht : textLines ta = l' :: textLines ta' := by rw [textLines_eq, hn]
      simp only [pendingLines, ht, List.cons_append, List.cons.injEq] at hL
      obtain ⟨e1, e2⟩ := hL
      subst e1
      simp only [h1]
      exact ⟨_, ta', tb, rfl, ⟨hs, he, h2⟩, e2, [], rfl⟩

/-- At the end of the pending lines, with nothing behind them, the read reports end of input
and standard input is empty. -/
theorem read_tview_eof {r : Reader} {ta tb : List Char} (hv : TView r ta tb [])
    (hL : pendingLines ta tb = []) : ∃ r', r.read = .eof r' ∧ r'.stdin = [] := by
  obtain ⟨hs, _, ha⟩ := hv
  simp only [pendingLines, List.append_eq_nil_iff, textLines_eq_nil] at hL
  obtain ⟨h1, h2⟩ := hL
  subst h1 h2
  have hstream : r.readStream = .eof { r with stdin := [] } := by
    unfold Reader.readStream stdinRead
    rw [hs, stdinLoop]
    simp [readCharFromBytes]
  unfold Reader.read
  cases harg : r.argument with
  | none => exact ⟨_, hstream, rfl⟩
  | some a =>
    rw [harg] at ha
    have := argRead_view ha
    simp only [nextLine, readAux, if_true] at this
    simp only [this]
    exact ⟨_, hstream, rfl⟩

/-! ### `Command::read_from` on a shared standard input -/

/-- `Command::read_from` on a shared standard input follows the pending lines (`loopL`): the
command it returns is the first one the lines hold, the reader then stands after that line,
with the tail `R` untouched.  End of the pending lines is end of input only when nothing
follows them. -/
theorem readFromLoop_tview {r : Reader} {ta tb : List Char} {R : List UInt8}
    (hv : TView r ta tb R) (n : Nat) :
    match loopL (pendingLines ta tb) n with
    | .command c k L' => ∃ r' ta' tb', readFromLoop r n = .command c k r' ∧ TView r' ta' tb' R ∧
        pendingLines ta' tb' = L' ∧ ∃ pre, tb = pre ++ tb'
    | .eof k => R = [] → ∃ r', readFromLoop r n = .eof k r' ∧ r'.stdin = []
    | .exit code k => readFromLoop r n = .exit code k
    | .panic s k => readFromLoop r n = .panic s k := by
  generalize hL : pendingLines ta tb = L
  induction L generalizing r ta tb n with
  | nil =>
    simp only [loopL]
    intro hR
    subst hR
    obtain ⟨r', h1, h2⟩ := read_tview_eof hv hL
    refine ⟨r', ?_, h2⟩
    rw [readFromLoop]
    split <;> simp_all
  | cons l L ih =>
    obtain ⟨r', ta', tb', h1, h2, h3, pre, h4⟩ := read_tview hv hL
    have key : readFromLoop r n =
        (if (trim l).isEmpty then readFromLoop r' n else
          match parseLine (trim l) with
          | .ok command => .command command n r'
          | .err => readFromLoop r' (n + 1)
          | .exit code => .exit code n
          | .panic s => .panic s n) := by
      rw [readFromLoop]
      split
      · simp_all
      · simp_all
      · rename_i l0 r0 hread
        rw [h1] at hread
        simp only [Read.line.injEq] at hread
        obtain ⟨e1, e2⟩ := hread
        subst e1 e2
        rfl
    rw [key]
    simp only [loopL]
    by_cases he : (trim l).isEmpty = true
    · simp only [he, if_true]
      have := ih h2 n h3
      split at this
      · obtain ⟨r2, ta2, tb2, g1, g2, g3, pre2, g4⟩ := this
        exact ⟨r2, ta2, tb2, g1, g2, g3, pre ++ pre2, by rw [h4, g4, List.append_assoc]⟩
      · exact this
      · exact this
      · exact this
    · simp only [he, if_false, Bool.false_eq_true]
      cases hp : parseLine (trim l) with
      | ok c => exact ⟨r', ta', tb', rfl, h2, h3, pre, h4⟩
      | err =>
        simp only
        have := ih h2 (n + 1) h3
        split at this
        · obtain ⟨r2, ta2, tb2, g1, g2, g3, pre2, g4⟩ := this
          exact ⟨r2, ta2, tb2, g1, g2, g3, pre ++ pre2, by rw [h4, g4, List.append_assoc]⟩
        · exact this
        · exact this
        · exact this
      | exit code => rfl
      | panic s => rfl

end Lace.C09IO
