/- `s_ext(instr, 9)` (mask / `!sign + 1` trick) is sign extension of the low 9 bits:
   exhaustive kernel evaluation over all 65,536 words. -/
import Lace.Proofs.AllRange
import Lace.Spec.ISA
import Lace.Model.VM
namespace Lace
theorem sExt_9 (w : Word) : VM.sExt w 9 = ISA.sext (w.extractLsb' 0 9) := by
  have := forall_word_of_allRange (fun w => VM.sExt w 9 == ISA.sext (w.extractLsb' 0 9))
    (by decide +kernel) w
  simpa using this
end Lace
