/-
  C14: the `Arguments` iterator (byte cursor) walks through the words of the line.
-/
import Lace.Proofs.CmdText
import Lace.Model.Cmd.Parse
import Lace.Spec.CmdGrammar
namespace Lace.C14
open Lace.Cmd Lace.CmdGrammar

/-- No `;` and no newline (true of every line the readers deliver). -/
def NoSep (s : List Char) : Prop := ∀ c ∈ s, c ≠ ';' ∧ c ≠ '\n'

theorem NoSep.tail {c : Char} {cs : List Char} (h : NoSep (c :: cs)) : NoSep cs :=
  fun x hx => h x (List.mem_cons_of_mem _ hx)

theorem NoSep.of_sublist {a b : List Char} (hs : List.Sublist a b) (h : NoSep b) : NoSep a :=
  fun x hx => h x (hs.subset hx)

/-- The iterator has consumed `pre` and `rest` is still to come. -/
def ArgsView (it : Arguments) (rest : List Char) : Prop :=
  ∃ pre, it.buffer = pre ++ rest ∧ it.cursor = utf8Len pre

theorem scan_false (rest : List Char) (start len : Nat) (h : NoSep rest) :
    scanToken rest start len false = .done start (len + utf8Len (rest.takeWhile (· ≠ ' '))) := by
  induction rest generalizing len with
  | nil => simp [scanToken]
  | cons c cs ih =>
    have hc := h c (List.mem_cons_self ..)
    simp only [scanToken, hc.1, hc.2, or_self, if_false, Bool.false_eq_true, false_and]
    by_cases hsp : c = ' '
    · simp [hsp]
    · simp only [hsp, if_false]
      rw [ih _ h.tail]
      have : (c :: cs).takeWhile (· ≠ ' ') = c :: cs.takeWhile (· ≠ ' ') := by
        simp [List.takeWhile, hsp]
      rw [this]
      simp only [utf8Len_cons]
      congr 1
      omega

theorem scan_true (rest : List Char) (start len : Nat) (h : NoSep rest) :
    scanToken rest start len true =
      .done (start + utf8Len (rest.takeWhile (· = ' '))) (len + utf8Len (firstWord rest)) := by
  induction rest generalizing start with
  | nil => simp [scanToken, firstWord]
  | cons c cs ih =>
    have hc := h c (List.mem_cons_self ..)
    simp only [scanToken, hc.1, hc.2, or_self, if_false, true_and]
    by_cases hsp : c = ' '
    · simp only [hsp, if_true, List.takeWhile, decide_true, firstWord, List.dropWhile]
      rw [ih _ h.tail]
      simp only [utf8Len_cons, firstWord]
      congr 1
      omega
    · simp only [hsp, if_false]
      rw [scan_false _ _ _ h.tail]
      simp [List.takeWhile, hsp, firstWord, List.dropWhile]
      omega

theorem words_split (rest : List Char) :
    rest = rest.takeWhile (· = ' ') ++ (firstWord rest ++ afterWord rest) := by
  unfold firstWord afterWord
  rw [List.takeWhile_append_dropWhile, List.takeWhile_append_dropWhile]

theorem afterWord_sublist (rest : List Char) : List.Sublist (afterWord rest) rest := by
  unfold afterWord
  exact (List.dropWhile_sublist _).trans (List.dropWhile_sublist _)

/-- `next_token_str` returns the first word of what is left and moves behind it; it cannot
panic on a line without separators. -/
theorem nextTokenStr_view {it : Arguments} {rest : List Char} (hv : ArgsView it rest)
    (hs : NoSep rest) :
    (firstWord rest = [] → it.nextTokenStr = .none it) ∧
    (firstWord rest ≠ [] → ∃ it', it.nextTokenStr = .some (firstWord rest) it' ∧
        ArgsView it' (afterWord rest) ∧ it'.argCount = it.argCount) := by
  obtain ⟨pre, hb, hc⟩ := hv
  have hdrop : dropBytes it.buffer it.cursor = some rest := by rw [hb, hc, dropBytes_append]
  have hscan := scan_true rest it.cursor 0 hs
  generalize hsp : rest.takeWhile (· = ' ') = spaces at hscan
  have hsplit := words_split rest
  rw [hsp] at hsplit
  constructor
  · intro hw
    simp [Arguments.nextTokenStr, hdrop, hscan, hw]
  · intro hw
    have hpos : 0 < utf8Len (firstWord rest) := by
      cases h : firstWord rest with
      | nil => exact absurd h hw
      | cons c cs => have := utf8Size_pos' c; simp; omega
    have hne : ¬ (it.cursor + utf8Len spaces = it.cursor + utf8Len spaces + (0 + utf8Len (firstWord rest))) := by
      omega
    have hslice : slice it.buffer (it.cursor + utf8Len spaces)
        (it.cursor + utf8Len spaces + (0 + utf8Len (firstWord rest))) = some (firstWord rest) := by
      have e : it.buffer = (pre ++ spaces) ++ firstWord rest ++ afterWord rest := by
        rw [hb]; conv => lhs; rw [hsplit]
        simp [List.append_assoc]
      have e2 : it.cursor + utf8Len spaces = utf8Len (pre ++ spaces) := by
        rw [utf8Len_append, hc]
      rw [e, e2, Nat.zero_add]
      exact slice_append _ _ _
    refine ⟨{ it with cursor := it.cursor + utf8Len spaces + (0 + utf8Len (firstWord rest)) }, ?_, ?_, rfl⟩
    · simp only [Arguments.nextTokenStr, hdrop, hscan, hne, if_false, hslice]
    · refine ⟨pre ++ spaces ++ firstWord rest, ?_, ?_⟩
      · simp only [hb]; conv => lhs; rw [hsplit]
        simp [List.append_assoc]
      · simp only [utf8Len_append, hc]; omega

end Lace.C14
