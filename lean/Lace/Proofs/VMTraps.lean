/-
  The trap routines of `runtime.rs` (model: explicit loops, `Output::Normal` filtering) equal the
  specification's console semantics.
-/
import Lace.Proofs.VMHandlers
namespace Lace
open ISA

theorem char_ofNat_toNat (b : Nat) (hb : b < 0xd800) : (Char.ofNat b).toNat = b := by
  unfold Char.ofNat
  have h : b.isValidChar := Or.inl hb
  rw [dif_pos h]
  simp [Char.ofNatAux, Char.toNat]

theorem printChar_eq (mi : Bool) (w : World) (c : Char) : VM.printChar mi w c = putc mi w c := by
  unfold VM.printChar putc ESC
  cases mi <;> simp

theorem printStr_eq (mi : Bool) (w : World) (cs : List Char) : VM.printStr mi w cs = puts mi w cs := by
  unfold VM.printStr puts
  have : VM.printChar mi = putc mi := by funext w c; exact printChar_eq mi w c
  rw [this]

theorem puts_append (mi : Bool) (w : World) (a b : List Char) :
    puts mi w (a ++ b) = puts mi (puts mi w a) b := by
  simp [puts, List.foldl_append]

theorem puts_cons (mi : Bool) (w : World) (c : Char) (cs : List Char) :
    puts mi w (c :: cs) = puts mi (putc mi w c) cs := by
  simp [puts]

theorem decNat_digit (i : Nat) (h : i < 8) : decNat i = [Char.ofNat (48 + i)] := by
  have : ∀ x : Fin 8, decNat x.val = [Char.ofNat (48 + x.val)] := by decide
  exact this ⟨i, h⟩

theorem flagBits_setWidth (c : CC) : (VM.flagBits c).setWidth 3 = c.bits := by
  cases c <;> decide

theorem printIntegerInner_eq (mi : Bool) (w : World) (v : Word) :
    VM.printIntegerInner mi w v = puts mi w (Tables.integerInner v) := by
  unfold VM.printIntegerInner Tables.integerInner
  simp only [printStr_eq, ← puts_append, List.append_assoc]

theorem printRegisters_eq (mi : Bool) (m : Machine) (w : World) :
    VM.printRegisters mi m w = puts mi w (if mi then regDump m else Tables.regTable m) := by
  cases mi with
  | true =>
    unfold VM.printRegisters regDump
    simp only [if_true, printStr_eq, flagBits_setWidth]
    have hr : List.range 8 = [0,1,2,3,4,5,6,7] := by decide
    rw [hr]
    simp only [List.foldl_cons, List.foldl_nil, ← puts_append]
    simp [decNat_digit, VM.reg, Machine.getReg]
  | false =>
    unfold VM.printRegisters Tables.regTable Tables.regRow
    simp only [Bool.false_eq_true, if_false, printStr_eq, printIntegerInner_eq, flagBits_setWidth]
    have hr : List.range 8 = [0,1,2,3,4,5,6,7] := by decide
    rw [hr]
    simp only [List.foldl_cons, List.foldl_nil, List.map_cons, List.map_nil, List.flatten_cons,
      List.flatten_nil, ← puts_append, List.append_assoc, List.append_nil]
    simp [VM.reg, Machine.getReg]

theorem asciiOf_eq (x : Word) : VM.asciiOf x = lowChar x := by
  unfold VM.asciiOf lowChar
  congr 1
  simp [BitVec.toNat_and]
  have : (255:Nat) = 2^8 - 1 := by decide
  rw [this, Nat.and_two_pow_sub_one_eq_mod]

theorem asciiOf_lo (x : Word) : VM.asciiOf (x &&& 0xFF#16) = lowChar x := by
  rw [asciiOf_eq]; unfold lowChar; congr 1
  simp [BitVec.toNat_and]
  have : (255:Nat) = 2^8 - 1 := by decide
  rw [this, Nat.and_two_pow_sub_one_eq_mod]; omega

theorem asciiOf_hi (x : Word) : VM.asciiOf (x >>> 8) = highChar x := by
  rw [asciiOf_eq]; unfold lowChar highChar; congr 1
  simp [BitVec.toNat_ushiftRight, Nat.shiftRight_eq_div_pow]
  have := x.isLt
  omega

/-- the `n` memory words starting at address `a` (addresses wrap) -/
def wordsN (m : Machine) (a : Word) (n : Nat) : List Word :=
  (List.range n).map fun i => m.read (a + BitVec.ofNat 16 i)

theorem wordsFrom_eq (m : Machine) (a : Word) : wordsFrom m a = wordsN m a 65536 := rfl

theorem wordsN_succ (m : Machine) (a : Word) (n : Nat) :
    wordsN m a (n + 1) = m.read a :: wordsN m (a + 1) n := by
  unfold wordsN
  rw [List.range_succ_eq_map]
  simp only [List.map_cons, List.map_map]
  congr 1
  · simp
  · apply List.map_congr_left
    intro i _
    simp only [Function.comp]
    congr 1
    rw [BitVec.add_assoc]; congr 1
    apply BitVec.eq_of_toNat_eq; simp [BitVec.toNat_add]; omega

theorem putsLoop_eq (mi : Bool) (m : Machine) : ∀ (n : Nat) (a : Word) (w : World),
    VM.putsLoop mi m n a w = puts mi w (((wordsN m a n).map lowChar).takeWhile (· ≠ Char.ofNat 0))
  | 0, a, w => by simp [VM.putsLoop, wordsN, puts]
  | n + 1, a, w => by
    rw [VM.putsLoop, wordsN_succ]
    simp only [List.map_cons, asciiOf_eq]
    by_cases h : lowChar (m.read a) = Char.ofNat 0
    · simp [h, puts]
    · simp [h, puts, printChar_eq]
      rw [putsLoop_eq mi m n]; simp [puts]

theorem putspLoop_eq (mi : Bool) (m : Machine) : ∀ (n : Nat) (a : Word) (w : World),
    VM.putspLoop mi m n a w =
      puts mi w (((wordsN m a n).flatMap fun v => [lowChar v, highChar v]).takeWhile (· ≠ Char.ofNat 0))
  | 0, a, w => by simp [VM.putspLoop, wordsN, puts]
  | n + 1, a, w => by
    rw [VM.putspLoop, wordsN_succ]
    simp only [List.flatMap_cons, asciiOf_lo, asciiOf_hi]
    by_cases h : lowChar (m.read a) = Char.ofNat 0
    · simp [h, puts]
    · by_cases h2 : highChar (m.read a) = Char.ofNat 0
      · simp [h, h2, puts, printChar_eq]
      · simp [h, h2, puts, printChar_eq]
        rw [putspLoop_eq mi m n]; simp [puts]

theorem readChar_none (w : World) (h : getc w = none) : VM.readChar w = none := by
  unfold getc at h; unfold VM.readChar
  cases hi : w.inp with
  | nil => rfl
  | cons b rest => rw [hi] at h; by_cases hb : b < 128 <;> simp [hb] at h

theorem readChar_some (w : World) (v : Word) (c : Char) (w' : World) (h : getc w = some (v, c, w')) :
    VM.readChar w = some (c, w') ∧ VM.charAsU16 c = v := by
  unfold getc at h; unfold VM.readChar VM.charAsU16
  cases hi : w.inp with
  | nil => rw [hi] at h; simp at h
  | cons b rest =>
    rw [hi] at h
    by_cases hb : b < 128
    · simp [hb] at h ⊢
      obtain ⟨h1, h2, h3⟩ := h
      subst h1 h2 h3
      simp [char_ofNat_toNat b (by omega)]
    · simp [hb] at h ⊢
      obtain ⟨h1, h2, h3⟩ := h
      subst h1 h2 h3
      exact ⟨⟨rfl, rfl⟩, by decide⟩

end Lace
