/-
  Parser-side range checks and the three "at most once / must exist" rules of C04, on the model's
  step functions:

  * `lit_range_iff` — the `check_range` closure of `expect_lit` accepts a literal word iff it fits
    the field (signed: two's-complement range of `n` bits; unsigned: `[0, 2^n)`), for every width
    the parser uses; `expectLit_lit` lifts it to `expect_lit` on a literal token;
  * `parseStep_dup_label` — a label that is already in the symbol table is a diagnostic;
  * `parseLine_second_orig` — a second `.orig` is a diagnostic;
  * (undefined labels: `backpatchAll_none_iff` in `Proofs/AsmImage.lean`).
-/
import Lace.Model.Assemble
import Lace.Spec.Prog
namespace Lace.C04
open Lace.Asm Lace.Spec

/-- **The range check is the field's range**: signed fields of 1…15 bits. -/
theorem lit_range_signed (n : Nat) (h1 : 1 ≤ n) (h2 : n ≤ 15) (v : Word) :
    checkRange (.signed n) v = some (fitsSigned n v) := by
  unfold checkRange fitsSigned
  simp only []
  rw [if_neg (by omega)]

/-- **The range check is the field's range**: unsigned fields of up to 31 bits. -/
theorem lit_range_unsigned (n : Nat) (h : n ≤ 31) (v : Word) :
    checkRange (.unsigned n) v = some (fitsUnsigned n v) := by
  unfold checkRange fitsUnsigned
  simp only []
  rw [if_neg (by omega)]

/-- a 16-bit field takes every literal (`.orig`, and `.fill` which is not range-checked at all) -/
theorem fitsUnsigned_16 (v : Word) : fitsUnsigned 16 v = true := by
  unfold fitsUnsigned
  have := v.isLt
  simpa using this

/-- the widths `expect_lit` is called with: imm5, offset6, PC offsets 9 / 11 (signed); trap
vector 8, `.orig` 16 (unsigned) -/
def usedBits : Bits → Prop
  | .signed n => n = 5 ∨ n = 6 ∨ n = 9 ∨ n = 10 ∨ n = 11
  | .unsigned n => n = 8 ∨ n = 16

def _root_.Lace.Asm.Bits.fits : Bits → Word → Bool
  | .signed n, v => fitsSigned n v
  | .unsigned n, v => fitsUnsigned n v

theorem lit_range_iff (bits : Bits) (hb : usedBits bits) (v : Word) :
    checkRange bits v = some (bits.fits v) := by
  cases bits with
  | signed n =>
    have : 1 ≤ n ∧ n ≤ 15 := by rcases hb with h | h | h | h | h <;> omega
    exact lit_range_signed n this.1 this.2 v
  | unsigned n =>
    have : n ≤ 31 := by rcases hb with h | h <;> omega
    exact lit_range_unsigned n this v

/-- the word a literal token denotes -/
def litWord : TokenKind → Option Word
  | .lit (.dec v) => some v
  | .lit (.hex v) => some v
  | _ => none

/-- **`expect_lit` accepts a literal iff its word fits the field**, and then returns that word
unchanged; otherwise the answer is the `litRange` diagnostic on the literal (never a truncated
value, never a panic). -/
theorem expectLit_lit (srcLen : Nat) (bits : Bits) (hb : usedBits bits) (t : Token) (ts : List Token)
    (v : Word) (hv : litWord t.kind = some v) :
    expectLit srcLen bits (t :: ts) =
      if bits.fits v then .ok (v, ts, t.span.offs + t.span.len)
      else .diag .litRange (some (t.span.offs, t.span.len)) := by
  have hr := lit_range_iff bits hb v
  unfold expectLit expectWhere
  cases hk : t.kind with
  | lit k =>
    cases k with
    | dec w =>
      rw [hk] at hv; cases hv
      simp only [isNumLit, if_true, hk, hr]
      cases bits.fits v <;> rfl
    | hex w =>
      rw [hk] at hv; cases hv
      simp only [isNumLit, if_true, hk, hr]
      cases bits.fits v <;> rfl
    | str => rw [hk] at hv; cases hv
  | _ => rw [hk] at hv; cases hv

/-! ### duplicate labels -/

theorem insert_snd_isSome (tbl : SymTab) (name : List Char) (line : Nat) :
    (tbl.insert name line).2.isSome = (tbl.get? name).isSome := by
  induction tbl with
  | nil => rfl
  | cons p rest ih =>
    obtain ⟨k, old⟩ := p
    unfold SymTab.insert SymTab.get?
    by_cases hk : k = name
    · simp [hk]
    · simp only [hk, if_false]
      exact ih

/-- **A label that is already defined is a diagnostic** (`dupLabel`, on the second definition). -/
theorem parseStep_dup_label (srcLen : Nat) (t : Token) (ts : List Token) (st : PState) (tbl : SymTab)
    (hk : t.kind = .label) (line : Nat) (hdef : tbl.get? t.text = some line) :
    (parseStep srcLen (t :: ts) st tbl).1 = .done (.diag .dupLabel (some (t.span.offs, t.span.len))) := by
  unfold parseStep
  simp only [hk, if_true]
  have h := insert_snd_isSome tbl t.text st.line
  rw [hdef] at h
  unfold Label.insert
  generalize SymTab.insert tbl t.text st.line = r at h
  obtain ⟨t', o⟩ := r
  cases o with
  | none => simp at h
  | some _ => rfl

/-- a label that is not yet defined is entered into the table with the current statement number -/
theorem parseStep_new_label (srcLen : Nat) (t : Token) (ts : List Token) (st : PState) (tbl : SymTab)
    (hk : t.kind = .label) (hnew : tbl.get? t.text = none) :
    parseStep srcLen (t :: ts) st tbl =
      (parseLine srcLen true ts st (tbl.insert t.text st.line).1, (tbl.insert t.text st.line).1) := by
  unfold parseStep
  simp only [hk, if_true]
  have h := insert_snd_isSome tbl t.text st.line
  rw [hnew] at h
  unfold Label.insert
  generalize SymTab.insert tbl t.text st.line = r at h
  obtain ⟨t', o⟩ := r
  cases o with
  | none => rfl
  | some _ => simp at h

/-! ### `.orig` at most once -/

/-- **A second `.orig` is a diagnostic** (`origTwice`), whatever its operand. -/
theorem parseLine_second_orig (srcLen : Nat) (labeled : Bool) (tok lit : Token) (ts : List Token)
    (st : PState) (tbl : SymTab) (hk : tok.kind = .dir .orig) (v w : Word)
    (hlit : litWord lit.kind = some v) (hset : st.orig = some w) :
    parseLine srcLen labeled (tok :: lit :: ts) st tbl = .done (.diag .origTwice none) := by
  unfold parseLine
  simp only [hk, ne_eq, not_true_eq_false, if_false]
  rw [expectLit_lit srcLen (.unsigned 16) (Or.inr rfl) lit ts v hlit]
  simp only [Bits.fits, fitsUnsigned_16, if_true, hset]

/-- the first `.orig` sets the origin to the literal's word, whatever it is -/
theorem parseLine_first_orig (srcLen : Nat) (labeled : Bool) (tok lit : Token) (ts : List Token)
    (st : PState) (tbl : SymTab) (hk : tok.kind = .dir .orig) (v : Word)
    (hlit : litWord lit.kind = some v) (hset : st.orig = none) :
    parseLine srcLen labeled (tok :: lit :: ts) st tbl =
      .more ts { st with orig := some v, tokEnd := lit.span.offs + lit.span.len } := by
  unfold parseLine
  simp only [hk, ne_eq, not_true_eq_false, if_false]
  rw [expectLit_lit srcLen (.unsigned 16) (Or.inr rfl) lit ts v hlit]
  simp only [Bits.fits, fitsUnsigned_16, if_true, hset]

end Lace.C04
