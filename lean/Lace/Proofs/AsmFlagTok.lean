/-
  C18, assembler side, second half: when the flag-OFF preprocessor stops at one of the four
  mnemonics, the flag-ON preprocessor — which is identical up to that point — either fails or
  delivers a token stream that contains that mnemonic.  Hence "the flag-on token stream contains
  none of the four mnemonics" implies "the flag-off run does not raise the stack diagnostic".
-/
import Lace.Proofs.AsmFlag
namespace Lace.Asm

/-- the token list contains one of the four mnemonics -/
def HasStack (l : List Token) : Prop := ∃ t ∈ l, t.kind.isStack = true

/-- One iteration of `preprocess` only ever adds to the result so far. -/
def PreGrows (acc : List Token) : PreStep → Prop
  | .done (.ok toks) => ∀ t ∈ acc, t ∈ toks
  | .done _ => True
  | .more _ _ acc' => ∀ t ∈ acc, t ∈ acc'

theorem preprocessStep_grows (feat : Option Bool) (pos : Nat) (rest : List Char) (acc : List Token) :
    PreGrows acc (preprocessStep feat pos rest acc) := by
  unfold preprocessStep
  repeat' split
  all_goals first
    | trivial
    | (intro t ht; first
        | exact ht
        | exact List.mem_reverse.mpr ht
        | exact List.mem_cons_of_mem _ ht
        | exact List.mem_append_right _ ht
        | exact List.mem_cons_of_mem _ (List.mem_append_right _ ht))

theorem preprocessLoop_grows (feat : Option Bool) : ∀ (fuel pos : Nat) (rest : List Char)
    (acc toks : List Token), preprocessLoop feat fuel pos rest acc = .ok toks → ∀ t ∈ acc, t ∈ toks := by
  intro fuel
  induction fuel with
  | zero => intro pos rest acc toks h; simp [preprocessLoop] at h
  | succ fuel ih =>
    intro pos rest acc toks h
    have hs := preprocessStep_grows feat pos rest acc
    unfold preprocessLoop at h
    generalize preprocessStep feat pos rest acc = r at hs h
    cases r with
    | done r => simp only [] at h; subst h; exact hs
    | more p r a => intro t ht; exact ih p r a toks h t (hs t ht)

/-- What the flag-ON iteration looks like where the flag-OFF iteration raised the stack
diagnostic: it failed, or it went on with one of the four mnemonics in its result. -/
def SeenOn : PreStep → Prop
  | .done (.ok _) => False
  | .done _ => True
  | .more _ _ acc => HasStack acc

theorem isStack_cases {k : TokenKind} (h : k.isStack = true) :
    k = .instr .push ∨ k = .instr .pop ∨ k = .instr .call ∨ k = .instr .rets := by
  cases k <;> simp [TokenKind.isStack] at h
  rename_i i
  cases i <;> simp at h <;> simp

theorem preprocessStep_rel2 (pos : Nat) (rest : List Char) (acc : List Token) :
    preprocessStep (some false) pos rest acc = preprocessStep (some true) pos rest acc ∨
    ((∃ sp, preprocessStep (some false) pos rest acc = .done (.diag .lexStack sp)) ∧
      SeenOn (preprocessStep (some true) pos rest acc)) := by
  unfold preprocessStep
  rcases advanceReal_rel pos rest with h | ⟨⟨o, l, h1⟩, t, p, r, h2, h3⟩
  · rw [h]
    generalize advanceReal (some true) pos rest = r1
    cases r1 with
    | panic s => exact Or.inl rfl
    | diag k o l => exact Or.inl rfl
    | tok d pos1 rest1 =>
      simp only []
      rcases advanceReal_rel pos1 rest1 with h2 | ⟨⟨o, l, h3⟩, t, p, r, h4, h5⟩
      · rw [h2]; exact Or.inl rfl
      · rw [h3, h4]
        have hl : ∀ v, t.kind ≠ .lit v := by
          intro v hv; rw [hv] at h5; simp [TokenKind.isStack] at h5
        split
        · refine Or.inr ⟨⟨_, rfl⟩, ?_⟩
          simp only []
          split
          · trivial
          · split
            · rename_i hk; exact absurd hk (hl _)
            · rename_i hk; exact absurd hk (hl _)
            · trivial
        · refine Or.inr ⟨⟨_, rfl⟩, ?_⟩
          simp only []
          split
          · trivial
          · split
            · rename_i hk; exact absurd hk (hl _)
            · rename_i hk; exact absurd hk (hl _)
            · trivial
        · refine Or.inr ⟨⟨_, rfl⟩, ?_⟩
          simp only []
          split
          · rename_i hk; exact absurd hk (hl _)
          · trivial
        all_goals exact Or.inl rfl
  · rw [h1, h2]
    refine Or.inr ⟨⟨_, rfl⟩, ?_⟩
    simp only []
    rcases isStack_cases h3 with hk | hk | hk | hk <;> rw [hk] <;>
      exact ⟨t, List.mem_cons_self, h3⟩

theorem preprocessLoop_rel2 : ∀ (fuel pos : Nat) (rest : List Char) (acc : List Token),
    preprocessLoop (some false) fuel pos rest acc = preprocessLoop (some true) fuel pos rest acc ∨
    ((∃ sp, preprocessLoop (some false) fuel pos rest acc = .diag .lexStack sp) ∧
      ∀ toks, preprocessLoop (some true) fuel pos rest acc = .ok toks → HasStack toks) := by
  intro fuel
  induction fuel with
  | zero => intro pos rest acc; exact Or.inl rfl
  | succ fuel ih =>
    intro pos rest acc
    unfold preprocessLoop
    rcases preprocessStep_rel2 pos rest acc with h | ⟨⟨sp, h⟩, hs⟩
    · rw [h]
      generalize preprocessStep (some true) pos rest acc = r
      cases r with
      | done r => exact Or.inl rfl
      | more p r a => exact ih p r a
    · rw [h]
      refine Or.inr ⟨⟨sp, rfl⟩, ?_⟩
      generalize preprocessStep (some true) pos rest acc = r at hs
      cases r with
      | done r =>
        cases r with
        | ok toks => exact hs.elim
        | diag k s => intro toks h; cases h
        | panic s => intro toks h; cases h
      | more p r a =>
        intro toks h
        obtain ⟨t, ht, hst⟩ := hs
        exact ⟨t, preprocessLoop_grows (some true) fuel p r a toks h t ht, hst⟩

/-- If the flag-off preprocessor raises the stack diagnostic, the flag-on token stream (when
there is one) contains one of the four mnemonics. -/
theorem preprocess_rel2 (src : List Char) :
    preprocess (some false) src = preprocess (some true) src ∨
    ((∃ sp, preprocess (some false) src = .diag .lexStack sp) ∧
      ∀ toks, preprocess (some true) src = .ok toks → HasStack toks) :=
  preprocessLoop_rel2 _ _ _ _

end Lace.Asm
