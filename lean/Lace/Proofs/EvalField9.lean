/- `bit_offs` with 9 bits agrees with the specification's PC-relative field for every wrapped
   line difference: exhaustive kernel evaluation over all 65,536 words. -/
import Lace.Proofs.AllRange
import Lace.Proofs.EvalField
namespace Lace.Asm
theorem fieldAgrees_9 (d : Word) : fieldAgrees 9 d = true :=
  forall_word_of_allRange (fun d => fieldAgrees 9 d) (by decide +kernel) d
end Lace.Asm
