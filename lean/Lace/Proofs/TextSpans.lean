/-
  Byte offsets in rendered text (C17, text level): where `render` puts each token, and hence which
  span every token of the expected parser stream (`progETok`, `Proofs/TextTokens.lean`) must get.

    * `endPos names pos ls toks` — the byte offset behind `renderToks names ls toks` when that text
      begins at offset `pos`;
    * `tokSpans` — per token: (offset of its first byte, byte length of its spelling);
    * `stmtSpanAt` — the span of a statement: from the first byte of its first token to the end of its
      last token;
    * `stmtESpans` / `itemsESpans` / `progESpans` — parallel to `stmtETok` / `itemsETok` / `progETok`:
      the span of every expected token; the data words of one `.fill` / `.blkw` / `.stringz` all get
      the statement's span (directive through operand).
-/
import Lace.Proofs.TextTokens
import Lace.Proofs.AsmLex
namespace Lace.C01
open Lace.Asm Lace.Spec

/-- the byte offset behind `renderToks names ls toks`, which begins at offset `pos` -/
def endPos (names : Nat → List Char) : Nat → List TokLay → List Tok → Nat
  | pos, _, [] => pos
  | pos, ls, t :: ts =>
    endPos names (pos + utf8Len (ls.headD {}).sep + utf8Len (t.spell names (ls.headD {}))) ls.tail ts

/-- (offset, byte length) of every token of `renderToks names ls toks`, which begins at offset `pos` -/
def tokSpans (names : Nat → List Char) : Nat → List TokLay → List Tok → List Span
  | _, _, [] => []
  | pos, ls, t :: ts =>
    ⟨pos + utf8Len (ls.headD {}).sep, utf8Len (t.spell names (ls.headD {}))⟩ ::
      tokSpans names (pos + utf8Len (ls.headD {}).sep + utf8Len (t.spell names (ls.headD {}))) ls.tail ts

theorem endPos_eq (names : Nat → List Char) : ∀ (toks : List Tok) (pos : Nat) (ls : List TokLay),
    endPos names pos ls toks = pos + utf8Len (renderToks names ls toks) := by
  intro toks
  induction toks with
  | nil => intro pos ls; rfl
  | cons t ts ih =>
    intro pos ls
    simp only [endPos, renderToks, ih, utf8Len_append]
    omega

theorem endPos_append (names : Nat → List Char) : ∀ (a b : List Tok) (pos : Nat) (ls : List TokLay),
    endPos names pos ls (a ++ b) = endPos names (endPos names pos ls a) (ls.drop a.length) b := by
  intro a
  induction a with
  | nil => intro b pos ls; rfl
  | cons t ts ih =>
    intro b pos ls
    simp only [List.cons_append, endPos, ih, List.length_cons]
    congr 1
    cases ls <;> simp

theorem tokSpans_append (names : Nat → List Char) : ∀ (a b : List Tok) (pos : Nat) (ls : List TokLay),
    tokSpans names pos ls (a ++ b) =
      tokSpans names pos ls a ++ tokSpans names (endPos names pos ls a) (ls.drop a.length) b := by
  intro a
  induction a with
  | nil => intro b pos ls; rfl
  | cons t ts ih =>
    intro b pos ls
    simp only [List.cons_append, tokSpans, endPos, ih, List.length_cons]
    congr 2
    cases ls <;> simp

theorem tokSpans_length (names : Nat → List Char) : ∀ (toks : List Tok) (pos : Nat) (ls : List TokLay),
    (tokSpans names pos ls toks).length = toks.length := by
  intro toks
  induction toks with
  | nil => intro _ _; rfl
  | cons t ts ih => intro pos ls; simp only [tokSpans, List.length_cons, ih]

/-- the last token ends where the text ends -/
theorem tokSpans_getLast (names : Nat → List Char) : ∀ (toks : List Tok) (pos : Nat) (ls : List TokLay),
    toks ≠ [] → ∃ l, (tokSpans names pos ls toks).getLast? = some l ∧ l.offs + l.len = endPos names pos ls toks := by
  intro toks
  induction toks with
  | nil => intro _ _ h; exact (h rfl).elim
  | cons t ts ih =>
    intro pos ls _
    cases ts with
    | nil => exact ⟨_, rfl, rfl⟩
    | cons t' ts' =>
      obtain ⟨l, h1, h2⟩ := ih (pos + utf8Len (ls.headD {}).sep + utf8Len (t.spell names (ls.headD {}))) ls.tail
        (by simp)
      refine ⟨l, ?_, h2⟩
      rw [← h1]
      simp only [tokSpans, List.getLast?_cons_cons]

/-- **The span of a statement** whose tokens `toks` are rendered from offset `pos`: from the first
byte of the first token (behind its separator) to the end of the last token. -/
def stmtSpanAt (names : Nat → List Char) (pos : Nat) (ls : List TokLay) (toks : List Tok) : Span :=
  ⟨pos + utf8Len (ls.headD {}).sep, endPos names pos ls toks - (pos + utf8Len (ls.headD {}).sep)⟩

/-- the spans of the expected tokens of a statement (parallel to `stmtETok`) -/
def stmtESpans (names : Nat → List Char) (pos : Nat) (ls : List TokLay) (s : SrcStmt) : List Span :=
  match s with
  | .fill _ => [stmtSpanAt names pos ls s.toks]
  | .blkw n => List.replicate n.toNat (stmtSpanAt names pos ls s.toks)
  | .stringz b => List.replicate (Spec.unescape b).length.succ (stmtSpanAt names pos ls s.toks)
  | s => tokSpans names pos ls s.toks

/-- the spans of the expected tokens of an item (parallel to `itemETok`) -/
def itemESpans (names : Nat → List Char) (pos : Nat) (ls : List TokLay) : Item → List Span
  | .stmt (some id) s =>
    tokSpans names pos ls [.label id] ++ stmtESpans names (endPos names pos ls [.label id]) ls.tail s
  | .stmt none s => stmtESpans names pos ls s
  | it => tokSpans names pos ls it.toks

/-- the spans of the expected tokens of a list of items (parallel to `itemsETok`) -/
def itemsESpans (names : Nat → List Char) : Nat → List TokLay → List Item → List Span
  | _, _, [] => []
  | pos, ls, it :: rest =>
    itemESpans names pos ls it ++ itemsESpans names (endPos names pos ls it.toks) (ls.drop it.toks.length) rest

/-- the span of every token the parser receives for `render L P` -/
def progESpans (L : Layout) (P : Prog) : List Span := itemsESpans L.names 0 L.toks P.items

/-- a two-token statement (directive and operand): its span written out -/
theorem stmtSpanAt_two (names : Nat → List Char) (pos : Nat) (ls : List TokLay) (t0 t1 : Tok) :
    stmtSpanAt names pos ls [t0, t1] =
      ⟨pos + utf8Len (ls.headD {}).sep,
        utf8Len (t0.spell names (ls.headD {})) + utf8Len (ls.tail.headD {}).sep +
          utf8Len (t1.spell names (ls.tail.headD {}))⟩ := by
  simp only [stmtSpanAt, endPos]
  congr 1
  omega

theorem stmtESpans_syntax {names : Nat → List Char} {s : SrcStmt} {p : Head × List Opnd}
    (h : stmtSyntax names s = some p) (pos : Nat) (ls : List TokLay) :
    stmtESpans names pos ls s = tokSpans names pos ls s.toks := by
  cases s <;> first | rfl | cases h

end Lace.C01
