/-
  C14: the model of `parse_integer` agrees with the integer grammar on every string.
-/
import Lace.Model.Cmd.Integer
import Lace.Spec.CmdGrammar
namespace Lace.C14
open Lace.Cmd Lace.CmdGrammar

/-! ### digits -/

macro "digit_tac" : tactic => `(tactic| (
  have e0 : '0'.toNat = 48 := by decide
  have e9 : '9'.toNat = 57 := by decide
  have ea : 'a'.toNat = 97 := by decide
  have ef : 'f'.toNat = 102 := by decide
  have eA : 'A'.toNat = 65 := by decide
  have eF : 'F'.toNat = 70 := by decide
  simp only [Radix.parseDigit, digitValue, hexDigitValue, e0, e9, ea, ef, eA, eF]
  generalize Char.toNat _ = n
  by_cases h1 : 48 ≤ n ∧ n ≤ 57 <;> by_cases h2 : 97 ≤ n ∧ n ≤ 102 <;>
  by_cases h3 : 65 ≤ n ∧ n ≤ 70 <;>
  simp [h1, h2, h3] <;> (repeat' split) <;>
  first | rfl | omega | (exfalso; omega) | (simp; omega)))
theorem pd2 (c : Char) : Radix.binary.parseDigit c = digitValue 2 c := by digit_tac
theorem pd8 (c : Char) : Radix.octal.parseDigit c = digitValue 8 c := by digit_tac
theorem pd10 (c : Char) : Radix.decimal.parseDigit c = digitValue 10 c := by digit_tac
theorem pd16 (c : Char) : Radix.hex.parseDigit c = digitValue 16 c := by digit_tac
theorem parseDigit_eq (r : Radix) (c : Char) : r.parseDigit c = digitValue r.toNat c := by
  cases r
  · exact pd2 c
  · exact pd8 c
  · exact pd10 c
  · exact pd16 c

theorem parseDigit_lt {r : Radix} {c : Char} {d : Nat} (h : r.parseDigit c = some d) :
    d < r.toNat := by
  rw [parseDigit_eq] at h
  unfold digitValue at h
  split at h
  · split at h <;> simp_all
  · simp at h

/-- Accumulating version of `valueOf`. -/
def valueFrom (r : Nat) (acc : Nat) (digits : List Char) : Nat :=
  digits.foldl (fun acc c => acc * r + (digitValue r c).getD 0) acc

theorem valueOf_eq (r : Nat) (ds : List Char) : valueOf r ds = valueFrom r 0 ds := rfl

theorem valueFrom_ge (r : Nat) (hr : 1 ≤ r) (acc : Nat) (ds : List Char) :
    acc ≤ valueFrom r acc ds := by
  induction ds generalizing acc with
  | nil => simp [valueFrom]
  | cons c cs ih =>
    simp only [valueFrom, List.foldl_cons]
    have := ih (acc * r + (digitValue r c).getD 0)
    simp only [valueFrom] at this
    have h2 : acc ≤ acc * r := Nat.le_mul_of_pos_right acc hr
    omega

theorem radix_pos (r : Radix) : 1 ≤ r.toNat := by cases r <;> simp [Radix.toNat]

/-- The digit loop computes the value of the longest digit run, fails as soon as that value
leaves `i32`, and otherwise stops at the first non-digit. -/
theorem digitLoop_eq (radix : Radix) (eoi : PR Int) (body : List Char) (acc : Nat)
    (hacc : acc ≤ maxMagnitude) :
    digitLoop radix eoi body (acc : Int) =
      (let run := body.takeWhile (isDigit radix.toNat)
       if valueFrom radix.toNat acc run > maxMagnitude then .early .err
       else if run.length < body.length then .early eoi
       else .finished [] (valueFrom radix.toNat acc run : Nat)) := by
  induction body generalizing acc with
  | nil => simp [digitLoop, valueFrom]; unfold maxMagnitude at hacc ⊢; omega
  | cons c cs ih =>
    simp only [digitLoop, parseDigit_eq]
    cases hd : digitValue radix.toNat c with
    | none =>
      have : isDigit radix.toNat c = false := by simp [isDigit, hd]
      simp [List.takeWhile, this, valueFrom]
      unfold maxMagnitude at hacc ⊢; omega
    | some d =>
      have hdig : isDigit radix.toNat c = true := by simp [isDigit, hd]
      simp only [List.takeWhile, hdig, List.length_cons]
      have hstep : valueFrom radix.toNat acc (c :: cs.takeWhile (isDigit radix.toNat)) =
          valueFrom radix.toNat (acc * radix.toNat + d) (cs.takeWhile (isDigit radix.toNat)) := by
        simp [valueFrom, hd]
      rw [hstep]
      have hge := valueFrom_ge radix.toNat (radix_pos radix) (acc * radix.toNat + d)
        (cs.takeWhile (isDigit radix.toNat))
      have hcast : ((acc : Int) * (radix.toNat : Int)) = ((acc * radix.toNat : Nat) : Int) := by
        simp
      by_cases h1 : inI32 ((acc : Int) * (radix.toNat : Int))
      · simp only [h1, not_true_eq_false, if_false]
        by_cases h2 : inI32 ((acc : Int) * (radix.toNat : Int) + (d : Int))
        · simp only [h2, not_true_eq_false, if_false]
          have hle : acc * radix.toNat + d ≤ maxMagnitude := by
            unfold inI32 I32_MAX I32_MIN at h2; unfold maxMagnitude; omega
          have := ih (acc * radix.toNat + d) hle
          simp only [Int.natCast_add, Int.natCast_mul] at this
          rw [this]
          simp only [Nat.add_lt_add_iff_right]
        · simp only [h2, not_false_eq_true, if_true]
          have : valueFrom radix.toNat (acc * radix.toNat + d)
              (cs.takeWhile (isDigit radix.toNat)) > maxMagnitude := by
            unfold inI32 I32_MAX I32_MIN at h2; unfold maxMagnitude; omega
          simp [this]
      · simp only [h1, not_false_eq_true, if_true]
        have : valueFrom radix.toNat (acc * radix.toNat + d)
            (cs.takeWhile (isDigit radix.toNat)) > maxMagnitude := by
          unfold inI32 I32_MAX I32_MIN at h1; unfold maxMagnitude; omega
        simp [this]

/-! ### signs -/

def signInt (s : Option Sign) : Option Int := s.map Sign.toInt

theorem optSign_eq (s : List Char) : optSign s = (signInt (takeSign s).1, (takeSign s).2) := by
  unfold optSign takeSign
  split <;> simp [signInt, Sign.toInt]

/-! ### digits of a literal -/

theorem parseDigits_eq (sign : Option Sign) (lz : Bool) (radix : Radix) (body : List Char) :
    parseDigits sign lz radix body =
      number (signInt sign) (sign.isSome || lz || radix.toNat == 10) radix.toNat body := by
  have hdef : (if (sign.isSome || lz || radix.toNat == 10) = true then (PR.err : PR Int) else .none)
      = endOfInteger sign lz radix := by
    unfold endOfInteger
    cases sign <;> cases lz <;> cases radix <;> simp [Radix.toNat]
  unfold parseDigits number
  simp only [hdef]
  cases body with
  | nil => simp
  | cons c cs =>
    simp only [List.isEmpty_cons, Bool.false_eq_true, if_false, reduceCtorEq]
    have h0 : (0 : Nat) ≤ maxMagnitude := by unfold maxMagnitude; omega
    have := digitLoop_eq radix (endOfInteger sign lz radix) (c :: cs) 0 h0
    simp only [Int.natCast_zero] at this
    rw [this, valueOf_eq]
    generalize valueFrom radix.toNat 0 (List.takeWhile (isDigit radix.toNat) (c :: cs)) = V
    generalize (List.takeWhile (isDigit radix.toNat) (c :: cs)).length = L
    by_cases hmax : V > maxMagnitude
    · simp [hmax]
    · simp only [List.length_cons]
      by_cases hlen : L < cs.length + 1
      · simp [hmax, hlen]
      · simp only [hmax, hlen, if_false, List.isEmpty_nil, not_true_eq_false]
        cases sign with
        | none => simp [signInt]
        | some s =>
          have hin : inI32 ((V : Int) * s.toInt) := by
            unfold inI32 I32_MAX I32_MIN
            unfold maxMagnitude at hmax
            cases s <;> simp [Sign.toInt] <;> omega
          simp only [hin, not_true_eq_false, if_false, signInt, Option.map_some, Option.getD_some]
          rw [Int.mul_comm]

/-! ### prefix -/

theorem isDigit10_iff (c : Char) : isDigit 10 c = true ↔ (48 ≤ c.toNat ∧ c.toNat ≤ 57) := by
  unfold isDigit
  rw [← pd10]
  simp only [Radix.parseDigit]
  split <;> simp_all

theorem takeSign_of_not_sign (c : Char) (rest : List Char) (h1 : c ≠ '+') (h2 : c ≠ '-') :
    takeSign (c :: rest) = (none, c :: rest) := by
  unfold takeSign
  split <;> simp_all

/-- The two sign slots, reconciled. -/
theorem signs_eq (fs : Option Sign) (lz : Bool) (radix : Radix) (rest : List Char) :
    (match takeSign rest with
      | (secondSign, chars) =>
        match fs, secondSign with
        | some _, some _ => PR.err
        | some s, none => parseDigits (some s) lz radix chars
        | none, secondSign => parseDigits secondSign lz radix chars) =
    (match optSign rest with
      | (sign₂, body) =>
        if (signInt fs).isSome = true ∧ sign₂.isSome = true then PR.err
        else
          number (if (signInt fs).isSome = true then signInt fs else sign₂)
            ((if (signInt fs).isSome = true then signInt fs else sign₂).isSome || lz ||
              radix.toNat == 10) radix.toNat body) := by
  rw [optSign_eq]
  generalize takeSign rest = p
  obtain ⟨ss, chars⟩ := p
  cases fs <;> cases ss <;> simp [signInt, parseDigits_eq]

/-- `take_prefix` and what follows it, once the single leading zero has been looked at. -/
theorem afterZero_eq (fs : Option Sign) (zero : Bool) (c : Char) (rest : List Char) :
    afterPrefix fs (takePrefixAfterZero zero (c :: rest)) =
      afterZero (signInt fs) zero (c :: rest) := by
  unfold takePrefixAfterZero afterZero
  simp only
  by_cases hb : c = 'b' ∨ c = 'B'
  · have hr : radixOfPrefix c = some 2 := by simp [radixOfPrefix, hb]
    have hn : ¬ c = '#' := by rcases hb with h | h <;> simp [h]
    simp only [hb, if_true, hr, hn, false_and, if_false, afterPrefix]
    exact signs_eq fs zero .binary rest
  · by_cases ho : c = 'o' ∨ c = 'O'
    · have hr : radixOfPrefix c = some 8 := by simp [radixOfPrefix, hb, ho]
      have hn : ¬ c = '#' := by rcases ho with h | h <;> simp [h]
      simp only [hb, ho, if_true, hr, hn, false_and, if_false, afterPrefix]
      exact signs_eq fs zero .octal rest
    · by_cases hx : c = 'x' ∨ c = 'X'
      · have hr : radixOfPrefix c = some 16 := by simp [radixOfPrefix, hb, ho, hx]
        have hn : ¬ c = '#' := by rcases hx with h | h <;> simp [h]
        simp only [hb, ho, hx, if_true, hr, hn, false_and, if_false, afterPrefix]
        exact signs_eq fs zero .hex rest
      · by_cases hh : c = '#'
        · subst hh
          have hr : radixOfPrefix '#' = some 10 := by decide
          simp only [hr]
          cases zero
          · simp only [Bool.false_eq_true, and_false, if_false, afterPrefix]
            exact signs_eq fs false .decimal rest
          · simp [afterPrefix]
        · have hr : radixOfPrefix c = none := by simp [radixOfPrefix, hb, ho, hx, hh]
          simp only [hb, ho, hx, hh, if_false, hr]
          by_cases hd : 48 ≤ c.toNat ∧ c.toNat ≤ 57
          · have hd' : isDigit 10 c = true := (isDigit10_iff c).2 hd
            have h1 : c ≠ '+' := by intro h; subst h; simp at hd
            have h2 : c ≠ '-' := by intro h; subst h; simp at hd
            simp only [hd, hd', and_self, if_true, afterPrefix]
            rw [takeSign_of_not_sign c rest h1 h2]
            cases fs <;> simp [parseDigits_eq, signInt, Radix.toNat]
          · have hd' : ¬ isDigit 10 c = true := fun h => hd ((isDigit10_iff c).1 h)
            simp only [hd, hd', if_false]
            by_cases hs : c = '-' ∨ c = '+'
            · have hs' : c = '+' ∨ c = '-' := hs.symm
              simp [hs, hs', afterPrefix]
            · have hs' : ¬ (c = '+' ∨ c = '-') := fun h => hs h.symm
              simp only [hs, hs', if_false]
              cases zero <;> cases fs <;> simp [signInt, afterPrefix]

theorem parseAfterSign_eq (fs : Option Sign) (chars : List Char) :
    parseAfterSign fs chars = unsignedPart (signInt fs) chars := by
  unfold parseAfterSign unsignedPart takePrefix
  cases chars with
  | nil => cases fs <;> simp [signInt, takePrefixAfterZero, afterPrefix, afterZero]
  | cons c cs =>
    by_cases hc : c = '0'
    · subst hc
      cases cs with
      | nil => simp [takePrefixAfterZero, afterPrefix]
      | cons c2 rest =>
        simp only [List.cons.injEq, reduceCtorEq, and_false, if_false, if_true]
        exact afterZero_eq fs true c2 rest
    · have hne : ¬ (c :: cs = ['0']) := by simp [hc]
      simp only [hne, hc, if_false]
      exact afterZero_eq fs false c cs

/-- **The model of `parse_integer` is the integer grammar**, on every string. -/
theorem parseInteger_eq (s : List Char) : parseInteger s = integer s := by
  unfold parseInteger parseIntegerWith integer
  cases s with
  | nil => simp
  | cons c cs =>
    simp only [List.isEmpty_cons, Bool.false_eq_true, if_false, reduceCtorEq, false_and]
    rw [optSign_eq]
    exact parseAfterSign_eq _ _

/-- The signed variant (`try_parse_signed`, label offsets). -/
theorem parseIntegerSigned_eq (s : List Char) : parseIntegerSigned s = signedInteger s := by
  unfold parseIntegerSigned parseIntegerWith signedInteger integer
  cases s with
  | nil => simp
  | cons c cs =>
    simp only [List.isEmpty_cons, Bool.false_eq_true, if_false, reduceCtorEq, true_and]
    rw [optSign_eq]
    cases h : (takeSign (c :: cs)).1 <;> simp [signInt, h, parseAfterSign_eq]

end Lace.C14
