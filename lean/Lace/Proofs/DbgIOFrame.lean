/-
  Frame lemmas for the shared-stdin debugger model (`Model/DebuggerIO.lean`):

  * `run_command` neither looks at the list of pre-parsed commands (`Dbg.cmds`) nor — except for
    `eval` — at the world: the result is the same function of the rest of the state;
  * an instruction other than GETC / IN neither looks at standard input nor consumes it.
-/
import Lace.Model.DebuggerIO
import Lace.Proofs.DbgCommands
namespace Lace.C09IO
open Lace Lace.Dbg Lace.Cmd Lace.DbgIO Lace.DbgProofs

/-! ### `run_command` -/

def setCmds (x : List Command) (d : Dbg) : Dbg := { d with cmds := x }

@[simp] theorem origOf_setCmds (x : List Command) (d : Dbg) : origOf (setCmds x d) = origOf d := rfl
@[simp] theorem bps_setCmds (x : List Command) (d : Dbg) : (setCmds x d).bps = d.bps := rfl
@[simp] theorem initial_setCmds (x : List Command) (d : Dbg) : (setCmds x d).initial = d.initial := rfl
@[simp] theorem status_setCmds (x : List Command) (d : Dbg) : (setCmds x d).status = d.status := rfl
@[simp] theorem icount_setCmds (x : List Command) (d : Dbg) : (setCmds x d).icount = d.icount := rfl
@[simp] theorem cmds_setCmds (x : List Command) (d : Dbg) : (setCmds x d).cmds = x := rfl
@[simp] theorem setCmds_setCmds (x y : List Command) (d : Dbg) : setCmds x (setCmds y d) = setCmds x d := rfl
theorem setCmds_self (d : Dbg) : setCmds d.cmds d = d := rfl
theorem setCmds_eq_self {x : List Command} {d : Dbg} (h : d.cmds = x) : setCmds x d = d := by
  subst h; rfl

/-- The same result with other pre-parsed commands in the record and another world. -/
def mapRes (x : List Command) (w : World) : CmdResult → CmdResult
  | .next d m _ => .next (setCmds x d) m w
  | .action a d m _ => .action a (setCmds x d) m w
  | .exit c d m _ => .exit c (setCmds x d) m w
  | .panic s => .panic s

theorem foldl_setCmds {α : Type} (f : Dbg → α → Dbg)
    (hf : ∀ d a x, f (setCmds x d) a = setCmds x (f d a)) (l : List α) (d : Dbg) (x : List Command) :
    l.foldl f (setCmds x d) = setCmds x (l.foldl f d) := by
  induction l generalizing d with
  | nil => rfl
  | cons a as ih => simp only [List.foldl_cons, hf, ih]

theorem printRegisters_setCmds (x : List Command) (d : Dbg) (m : Machine) :
    printRegisters (setCmds x d) m = setCmds x (printRegisters d m) := by
  unfold printRegisters
  rw [foldl_setCmds _ (fun _ _ _ => rfl)]
  rfl

def NoEval : Command → Bool
  | .eval _ => false
  | _ => true

/-- **`run_command` is blind to `Dbg.cmds` and to the world** (every command but `eval`): the
world is handed back as it came, the record keeps whatever pre-parsed list it held. -/
theorem runCommand_frame (env : Env) (d : Dbg) (m : Machine) (w w0 : World) (c : Command)
    (x : List Command) (hc : NoEval c = true) :
    runCommand env (setCmds x d) m w c = mapRes x w (runCommand env d m w0 c) := by
  cases c <;> simp only [NoEval] at hc
  case eval t => cases hc
  case quit => rfl
  case exit => rfl
  case help => rfl
  case reset => rfl
  case registers =>
    show CmdResult.next (printRegisters (base (setCmds x d)) m) m w =
      CmdResult.next (setCmds x (printRegisters (base d) m)) m w
    rw [show base (setCmds x d) = setCmds x (base d) from rfl, printRegisters_setCmds]
  case echo s => rfl
  case continue_ => simp only [runCommand]; split <;> rfl
  case stepOver =>
    simp only [runCommand]
    split
    · rfl
    · split <;> rfl
  case stepInto k =>
    simp only [runCommand]
    split
    · rfl
    · split <;> rfl
  case stepOut =>
    simp only [runCommand]
    split
    · rfl
    · split <;> rfl
  case print l =>
    cases l with
    | reg r => rfl
    | mem l => simp only [runCommand, origOf, setCmds]; split <;> rfl
  case move l v =>
    cases l with
    | reg r => rfl
    | mem l => simp only [runCommand, origOf, setCmds]; split <;> rfl
  case goto l => simp only [runCommand, origOf, setCmds]; split <;> rfl
  case assembly l =>
    simp only [runCommand, origOf, setCmds]
    split
    · rfl
    · rename_i a _
      by_cases h1 : a < d.initial.pc
      · simp only [h1, if_true]; rfl
      · simp only [h1, if_false]
        split
        · rename_i t _
          by_cases h2 : t.isEmpty = true
          · simp only [h2, if_true]; rfl
          · simp only [h2, if_false]; rfl
        · rfl
  case breakAdd l =>
    simp only [runCommand, origOf, setCmds]
    split
    · rfl
    · rename_i a _
      by_cases h1 : (bpInsert d.bps { address := a, predefined := false }).2 = true
      · simp only [h1, if_true]; rfl
      · simp only [h1, if_false]; rfl
  case breakRemove l =>
    simp only [runCommand, origOf, setCmds]
    split
    · rfl
    · rename_i a _
      by_cases h1 : (bpRemove d.bps a).2 = true
      · simp only [h1, if_true]; rfl
      · simp only [h1, if_false]; rfl
  case breakList =>
    simp only [runCommand, setCmds]
    by_cases h1 : d.bps.isEmpty = true
    · simp only [h1, if_true]; rfl
    · simp only [h1, if_false, mapRes]
      have := foldl_setCmds (fun d (b : Breakpoint) => sayL d ('x' :: hex4 b.address))
        (fun _ _ _ => rfl) d.bps (base d) x
      simp only [setCmds, base] at this
      rw [this]
      rfl

/-! ### instructions that do not read standard input -/

def setInp (i : List Nat) (w : World) : World := { w with inp := i }

def stepSetInp (i : List Nat) : StepResult → StepResult
  | .ok m w => .ok m (setInp i w)
  | .exit c w => .exit c (setInp i w)
  | .panic s => .panic s

theorem printChar_setInp (mi : Bool) (i : List Nat) (w : World) (c : Char) :
    VM.printChar mi (setInp i w) c = setInp i (VM.printChar mi w c) := by
  unfold VM.printChar
  split
  · split <;> rfl
  · rfl

theorem foldl_setInp {α : Type} (f : World → α → World)
    (hf : ∀ w a i, f (setInp i w) a = setInp i (f w a)) (l : List α) (w : World) (i : List Nat) :
    l.foldl f (setInp i w) = setInp i (l.foldl f w) := by
  induction l generalizing w with
  | nil => rfl
  | cons a as ih => simp only [List.foldl_cons, hf, ih]

theorem printStr_setInp (mi : Bool) (i : List Nat) (w : World) (cs : List Char) :
    VM.printStr mi (setInp i w) cs = setInp i (VM.printStr mi w cs) :=
  foldl_setInp _ (fun w c i => printChar_setInp mi i w c) cs w i

theorem putsLoop_setInp (mi : Bool) (m : Machine) (i : List Nat) :
    ∀ (n : Nat) (a : Word) (w : World),
      VM.putsLoop mi m n a (setInp i w) = setInp i (VM.putsLoop mi m n a w)
  | 0, _, _ => rfl
  | n + 1, a, w => by
    simp only [VM.putsLoop]
    split
    · rfl
    · rw [printChar_setInp, putsLoop_setInp mi m i n]

theorem putspLoop_setInp (mi : Bool) (m : Machine) (i : List Nat) :
    ∀ (n : Nat) (a : Word) (w : World),
      VM.putspLoop mi m n a (setInp i w) = setInp i (VM.putspLoop mi m n a w)
  | 0, _, _ => rfl
  | n + 1, a, w => by
    simp only [VM.putspLoop]
    split
    · rfl
    · split
      · rw [printChar_setInp]
      · rw [printChar_setInp, printChar_setInp, putspLoop_setInp mi m i n]

theorem printIntegerInner_setInp (mi : Bool) (i : List Nat) (w : World) (v : Word) :
    VM.printIntegerInner mi (setInp i w) v = setInp i (VM.printIntegerInner mi w v) := by
  simp only [VM.printIntegerInner, printStr_setInp]

theorem printRegisters_setInp (mi : Bool) (m : Machine) (i : List Nat) (w : World) :
    VM.printRegisters mi m (setInp i w) = setInp i (VM.printRegisters mi m w) := by
  unfold VM.printRegisters
  split
  · dsimp only
    rw [foldl_setInp (fun w i => VM.printStr mi w (['R'] ++ decNat i ++ [' ', 'x'] ++
        hex4 (VM.reg m (BitVec.ofNat 16 i)) ++ ['\n'])) (fun w a i => printStr_setInp mi i w _)]
    simp only [printStr_setInp]
  · dsimp only
    simp only [printStr_setInp]
    rw [foldl_setInp (fun w i =>
        VM.printStr mi
          (VM.printIntegerInner mi
            (VM.printStr mi (VM.printStr mi w "\x1b[2m│\x1b[0m".toList)
              (" \x1b[1mR\x1b[1m".toList ++ decNat i ++ "\x1b[0m  ".toList))
            (VM.reg m (BitVec.ofNat 16 i)))
          " \x1b[2m│\x1b[0m\n".toList)
      (fun w a i => by simp only [printStr_setInp, printIntegerInner_setInp])]
    simp only [printStr_setInp]

theorem opcode_lt (instr : Word) : (instr >>> 12).toNat < 16 := by
  rw [BitVec.toNat_ushiftRight, Nat.shiftRight_eq_div_pow]
  have := instr.isLt
  omega

/-- **An instruction other than GETC / IN does not look at standard input**: with any other
input in the world it does the same thing, and the input is still there afterwards. -/
theorem execute_setInp (so mi : Bool) (instr : Word) (m : Machine) (w : World) (i : List Nat)
    (h : readsInput instr = false) :
    VM.execute so mi instr m (setInp i w) = stepSetInp i (VM.execute so mi instr m w) := by
  unfold VM.execute
  unfold readsInput at h
  have hlt := opcode_lt instr
  generalize (instr >>> 12).toNat = op at h hlt
  match op, hlt with
  | 0, _ => rfl
  | 1, _ => rfl
  | 2, _ => rfl
  | 3, _ => rfl
  | 4, _ => rfl
  | 5, _ => rfl
  | 6, _ => rfl
  | 7, _ => rfl
  | 8, _ => rfl
  | 9, _ => rfl
  | 10, _ => rfl
  | 11, _ => rfl
  | 12, _ => rfl
  | 13, _ =>
    simp only
    unfold VM.stack
    split
    · rfl
    · split
      · split <;> rfl
      · split <;> rfl
  | 14, _ => rfl
  | 15, _ =>
    simp only [beq_self_eq_true, Bool.true_and, Bool.or_eq_false_iff,
      beq_eq_false_iff_ne, ne_eq] at h
    simp only
    unfold VM.trap
    simp only
    split
    · exact absurd ‹_› h.1
    · simp only [stepSetInp, printChar_setInp]
    · simp only [stepSetInp, putsLoop_setInp]
    · exact absurd ‹_› h.2
    · simp only [stepSetInp, putspLoop_setInp]
    · rfl
    · simp only [stepSetInp, printStr_setInp]
    · simp only [stepSetInp, printRegisters_setInp]
    · rfl
  | n + 16, hn => omega

theorem setInp_self (w : World) : setInp w.inp w = w := rfl

theorem execute_inp_unchanged {so mi : Bool} {instr : Word} {m m' : Machine} {w w' : World}
    (h : readsInput instr = false) (hx : VM.execute so mi instr m w = .ok m' w') : w'.inp = w.inp := by
  have := execute_setInp so mi instr m w w.inp h
  rw [setInp_self, hx] at this
  simp only [stepSetInp, StepResult.ok.injEq, true_and] at this
  rw [this]; rfl

end Lace.C09IO
