/-
  From the spans of the tokens of a rendered program to the texts of its statements (C17, text
  level; pure list reasoning, no lexer, no parser).

    * `itemsStmtSpans names pos ls its` — per image word, the span of its statement in
      `renderToks names ls (itemsToks its)` when that text begins at byte offset `pos`
      (`stmtSpanAt`: first byte of the mnemonic / directive to the end of the last operand);
    * `itemsSpansOf_ESpans` — reading the statement spans off the spans of the expected token stream
      (`itemsSpansOf`, what the parser does, `Proofs/ParseSpans.lean`; `itemsESpans`, what the
      preprocessor delivers, `Proofs/RenderRel.lean`) gives exactly `itemsStmtSpans`;
    * `slice_itemsStmtSpans` — slicing the rendered text at these spans gives the specification's
      statement texts (`Spec.itemsTexts`).
-/
import Lace.Proofs.RenderRel
import Lace.Proofs.ParseSpans
import Lace.Model.AsmSource
namespace Lace.C01
open Lace.Asm Lace.Spec Lace.C04 Lace.Dbg

/-! ### statement spans in rendered text -/

def itemStmtSpans (names : Nat → List Char) (pos : Nat) (ls : List TokLay) : Item → List (Nat × Nat)
  | .stmt (some id) s =>
    List.replicate s.size (spanPair (stmtSpanAt names (endPos names pos ls [.label id]) ls.tail s.toks))
  | .stmt none s => List.replicate s.size (spanPair (stmtSpanAt names pos ls s.toks))
  | _ => []

/-- per image word: the span of its statement -/
def itemsStmtSpans (names : Nat → List Char) : Nat → List TokLay → List Item → List (Nat × Nat)
  | _, _, [] => []
  | pos, ls, it :: rest =>
    itemStmtSpans names pos ls it ++
      itemsStmtSpans names (endPos names pos ls it.toks) (ls.drop it.toks.length) rest

/-! ### (A) the parser's reading of the token spans -/

theorem stmtESpans_length (names : Nat → List Char) (s : SrcStmt) (hren : s.renderable = true)
    (pos : Nat) (ls : List TokLay) : (stmtESpans names pos ls s).length = (stmtETok names s).length := by
  cases hs : stmtSyntax names s with
  | some p =>
    obtain ⟨hd, ops⟩ := p
    obtain ⟨name, alt, opToks, e1, _, _, hmap⟩ := stmt_kw true names s hd ops hs (Or.inl rfl)
    rw [stmtESpans_syntax hs, stmtETok_syntax hs, tokSpans_length, e1]
    have := congrArg List.length hmap
    simp only [List.length_map] at this
    simp only [List.length_cons, List.length_map, this]
  | none =>
    cases s with
    | fill w => rfl
    | blkw n => simp only [stmtESpans, stmtETok, List.length_replicate]
    | stringz b =>
      simp only [stmtESpans, stmtETok, List.length_replicate, List.length_append, List.length_map,
        List.length_cons, List.length_nil]
    | br nzp l =>
      exfalso
      simp only [stmtSyntax, Option.map_eq_none_iff] at hs
      have := flagOf_none hs
      subst this
      simp [SrcStmt.renderable] at hren
    | _ => simp [stmtSyntax] at hs

/-- one statement: what `stmtSpansOf` reads off the spans of its expected tokens -/
theorem stmtSpansOf_ESpans (names : Nat → List Char) (s : SrcStmt) (hren : s.renderable = true)
    (pos : Nat) (ls : List TokLay) :
    stmtSpansOf names s (stmtESpans names pos ls s) =
      List.replicate s.size (spanPair (stmtSpanAt names pos ls s.toks)) := by
  cases hs : stmtSyntax names s with
  | some p =>
    obtain ⟨hd, ops⟩ := p
    obtain ⟨name, alt, opToks, e1, _, _, _⟩ := stmt_kw true names s hd ops hs (Or.inl rfl)
    have hsz : s.size = 1 := by
      cases s <;> first | rfl | (cases hs; done)
    rw [stmtESpans_syntax hs, hsz, e1]
    simp only [stmtSpansOf, hs, tokSpans, List.replicate_one, List.cons.injEq, and_true]
    simp only [stmtSpanOf, spanPair, stmtSpanAt, endPos, Prod.mk.injEq, true_and]
    cases opToks with
    | nil =>
      simp only [tokSpans, List.getLast?_nil, endPos]
      omega
    | cons o os =>
      obtain ⟨l, h1, h2⟩ := tokSpans_getLast names (o :: os)
        (pos + utf8Len (ls.headD {}).sep + utf8Len ((Tok.kw name alt).spell names (ls.headD {}))) ls.tail (by simp)
      rw [h1]
      simp only []
      rw [h2]
  | none =>
    cases s with
    | fill w => simp only [stmtSpansOf, hs, stmtESpans, SrcStmt.size, List.map_cons, List.map_nil, List.replicate_one]
    | blkw n => simp only [stmtSpansOf, hs, stmtESpans, SrcStmt.size, List.map_replicate]
    | stringz b => simp only [stmtSpansOf, hs, stmtESpans, SrcStmt.size, List.map_replicate, Nat.succ_eq_add_one]
    | br nzp l =>
      exfalso
      simp only [stmtSyntax, Option.map_eq_none_iff] at hs
      have := flagOf_none hs
      subst this
      simp [SrcStmt.renderable] at hren
    | _ => simp [stmtSyntax] at hs

theorem itemESpans_length (names : Nat → List Char) (it : Item) (hit : ∀ l s, it = .stmt l s → s.renderable = true)
    (pos : Nat) (ls : List TokLay) : (itemESpans names pos ls it).length = (itemETok names it).length := by
  cases it with
  | orig w => rfl
  | brk => rfl
  | stmt l s =>
    have hren := hit l s rfl
    cases l with
    | none => exact stmtESpans_length names s hren pos ls
    | some id =>
      simp only [itemESpans, itemETok, List.length_append, List.length_cons, tokSpans, List.length_nil,
        stmtESpans_length names s hren]
      omega

theorem itemSpansOf_ESpans (names : Nat → List Char) (it : Item)
    (hit : ∀ l s, it = .stmt l s → s.renderable = true) (pos : Nat) (ls : List TokLay) :
    itemSpansOf names it (itemESpans names pos ls it) = itemStmtSpans names pos ls it := by
  cases it with
  | orig w => rfl
  | brk => rfl
  | stmt l s =>
    have hren := hit l s rfl
    cases l with
    | none => exact stmtSpansOf_ESpans names s hren pos ls
    | some id =>
      simp only [itemSpansOf, itemESpans, itemStmtSpans, tokSpans, List.cons_append, List.nil_append, List.tail_cons]
      exact stmtSpansOf_ESpans names s hren _ _

/-- **(A)** the statement spans the parser reads off the spans of the expected token stream of a
rendered program are the statements' spans in the rendered text -/
theorem itemsSpansOf_ESpans (names : Nat → List Char) : ∀ (its : List Item) (pos : Nat) (ls : List TokLay),
    (∀ ls ∈ itemsStmts its, ls.2.renderable = true) →
    itemsSpansOf names its (itemsESpans names pos ls its) = itemsStmtSpans names pos ls its := by
  intro its
  induction its with
  | nil => intro _ _ _; rfl
  | cons it rest ih =>
    intro pos ls hren
    have hit : ∀ l s, it = .stmt l s → s.renderable = true := by
      intro l s e
      subst e
      exact hren (l, s) List.mem_cons_self
    have hrest : ∀ x ∈ itemsStmts rest, x.2.renderable = true := by
      intro x hx
      apply hren x
      cases it with
      | orig w => exact hx
      | brk => exact hx
      | stmt l s => exact List.mem_cons_of_mem _ hx
    simp only [itemsESpans, itemsStmtSpans]
    rw [itemsSpansOf_cons names it rest _ _ (itemESpans_length names it hit pos ls),
      itemSpansOf_ESpans names it hit, ih _ _ hrest]

/-! ### (B) slicing the rendered text -/

theorem renderToks_append (names : Nat → List Char) : ∀ (a b : List Tok) (ls : List TokLay),
    renderToks names ls (a ++ b) = renderToks names ls a ++ renderToks names (ls.drop a.length) b := by
  intro a
  induction a with
  | nil => intro b ls; rfl
  | cons t ts ih =>
    intro b ls
    simp only [List.cons_append, renderToks, ih, List.length_cons, List.append_assoc]
    congr 3
    cases ls <;> simp

/-- the piece `mid` of `pre ++ (mid ++ post)` -/
theorem sliceBytes_mid (pre mid post : List Char) :
    sliceBytes (pre ++ (mid ++ post)) (utf8Len pre) (utf8Len mid) = some mid := by
  unfold sliceBytes
  rw [dropBytes_prefix]
  simp only []
  exact takeBytes_prefix mid post

/-- **one statement**: the slice of the text at the statement's span is the statement's text -/
theorem slice_stmt (names : Nat → List Char) (ls : List TokLay) (toks : List Tok) (hne : toks ≠ [])
    (pre post : List Char) :
    sliceBytes (pre ++ (renderToks names ls toks ++ post))
      (stmtSpanAt names (utf8Len pre) ls toks).offs (stmtSpanAt names (utf8Len pre) ls toks).len =
      some (stmtText names ls toks) := by
  cases toks with
  | nil => exact (hne rfl).elim
  | cons t ts =>
    have e1 : pre ++ (renderToks names ls (t :: ts) ++ post) =
        (pre ++ (ls.headD {}).sep) ++ (stmtText names ls (t :: ts) ++ post) := by
      simp only [renderToks, stmtText, List.append_assoc]
    have e2 : (stmtSpanAt names (utf8Len pre) ls (t :: ts)).offs = utf8Len (pre ++ (ls.headD {}).sep) := by
      simp only [stmtSpanAt, utf8Len_append]
    have e3 : (stmtSpanAt names (utf8Len pre) ls (t :: ts)).len = utf8Len (stmtText names ls (t :: ts)) := by
      simp only [stmtSpanAt, endPos_eq, renderToks, stmtText, utf8Len_append]
      omega
    rw [e1, e2, e3]
    exact sliceBytes_mid _ _ _

theorem slice_item (names : Nat → List Char) (ls : List TokLay) (it : Item) (pre post : List Char) :
    (itemStmtSpans names (utf8Len pre) ls it).map
        (fun p => sliceBytes (pre ++ (renderToks names ls it.toks ++ post)) p.1 p.2) =
      (itemTexts names ls it).map some := by
  cases it with
  | orig w => rfl
  | brk => rfl
  | stmt l s =>
    cases l with
    | none =>
      simp only [itemStmtSpans, itemTexts, Item.toks, List.map_replicate, spanPair]
      rw [slice_stmt names ls s.toks (stmt_toks_ne s)]
    | some id =>
      simp only [itemStmtSpans, itemTexts, Item.toks, List.map_replicate, spanPair]
      have e1 : pre ++ (renderToks names ls (Tok.label id :: s.toks) ++ post) =
          (pre ++ renderToks names ls [Tok.label id]) ++ (renderToks names ls.tail s.toks ++ post) := by
        simp only [renderToks, List.append_assoc, List.append_nil]
      have e2 : endPos names (utf8Len pre) ls [Tok.label id] = utf8Len (pre ++ renderToks names ls [Tok.label id]) := by
        rw [endPos_eq, utf8Len_append]
      rw [e1, e2, slice_stmt names ls.tail s.toks (stmt_toks_ne s)]

/-- **(B)** slicing the rendered text at the statements' spans gives the statements' texts -/
theorem slice_itemsStmtSpans (names : Nat → List Char) (trail : List Char) :
    ∀ (its : List Item) (ls : List TokLay) (pre : List Char),
      (itemsStmtSpans names (utf8Len pre) ls its).map
          (fun p => sliceBytes (pre ++ (renderToks names ls (itemsToks its) ++ trail)) p.1 p.2) =
        (itemsTexts names ls its).map some := by
  intro its
  induction its with
  | nil => intro _ _; rfl
  | cons it rest ih =>
    intro ls pre
    simp only [itemsStmtSpans, itemsTexts, itemsToks, List.map_append]
    have e1 : pre ++ (renderToks names ls (it.toks ++ itemsToks rest) ++ trail) =
        pre ++ (renderToks names ls it.toks ++ (renderToks names (ls.drop it.toks.length) (itemsToks rest) ++ trail)) := by
      rw [renderToks_append, List.append_assoc]
    have e2 : pre ++ (renderToks names ls (it.toks ++ itemsToks rest) ++ trail) =
        (pre ++ renderToks names ls it.toks) ++
          (renderToks names (ls.drop it.toks.length) (itemsToks rest) ++ trail) := by
      rw [e1, List.append_assoc]
    have e3 : endPos names (utf8Len pre) ls it.toks = utf8Len (pre ++ renderToks names ls it.toks) := by
      rw [endPos_eq, utf8Len_append]
    congr 1
    · rw [e1]; exact slice_item names ls it pre _
    · rw [e2, e3]; exact ih _ _

end Lace.C01
