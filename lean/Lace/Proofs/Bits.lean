/-
  Bridging lemmas between the shift-and-mask style of `runtime.rs` (model) and the bit-field
  style of the ISA specification.
-/
import Lace.Spec.ISA
import Lace.Model.VM
import Lace.Proofs.SExt5
import Lace.Proofs.SExt6
import Lace.Proofs.SExt9
import Lace.Proofs.SExt10
import Lace.Proofs.SExt11
namespace Lace
open ISA

theorem seven_bit (i : Nat) (hi : i < 16) : (7#16)[i] = decide (i < 3) := by
  rw [BitVec.getElem_eq_testBit_toNat]
  have : (7#16).toNat = 2^3 - 1 := by decide
  rw [this, Nat.testBit_two_pow_sub_one]

/-- `(instr >> k) & 0b111` is the 3-bit field at position `k`, zero-extended. -/
theorem field3 (w : Word) (k : Nat) : (w >>> k) &&& 7#16 = (w.extractLsb' k 3).setWidth 16 := by
  ext i hi
  simp [BitVec.getElem_setWidth, BitVec.getLsbD_extractLsb', seven_bit i hi, Bool.and_comm]

theorem field3_0 (w : Word) : w &&& 7#16 = (w.extractLsb' 0 3).setWidth 16 := by
  simpa using field3 w 0

/-- The `debug_assert!(reg < 8)` in `RunState::reg` can never fire on a masked field. -/
theorem regfield_lt (w : Word) (k : Nat) : ((w >>> k) &&& 7#16).toNat < 8 := by
  rw [field3]; simp; omega

@[simp] theorem reg_field (m : Machine) (w : Word) (k : Nat) :
    VM.reg m ((w >>> k) &&& 7#16) = m.getReg (w.extractLsb' k 3) := by
  simp [VM.reg, field3]

@[simp] theorem reg_field0 (m : Machine) (w : Word) :
    VM.reg m (w &&& 7#16) = m.getReg (w.extractLsb' 0 3) := by
  simp [VM.reg, field3_0]

@[simp] theorem setReg_field (m : Machine) (w : Word) (k : Nat) (v : Word) :
    VM.setReg m ((w >>> k) &&& 7#16) v = m.setReg (w.extractLsb' k 3) v := by
  simp [VM.setReg, field3]

@[simp] theorem reg_7 (m : Machine) : VM.reg m 7#16 = m.getReg 7#3 := rfl
@[simp] theorem reg_0 (m : Machine) : VM.reg m 0#16 = m.getReg 0#3 := rfl
@[simp] theorem setReg_7 (m : Machine) (v : Word) : VM.setReg m 7#16 v = m.setReg 7#3 v := rfl
@[simp] theorem setReg_0 (m : Machine) (v : Word) : VM.setReg m 0#16 v = m.setReg 0#3 v := rfl

theorem bit_test (w : Word) (k : Nat) (hk : k < 16) :
    ((w &&& (1#16 <<< k)) == 0#16) = !w.getLsbD k := by
  have h1 : (1#16 <<< k) = BitVec.twoPow 16 k := by
    simp [BitVec.twoPow]
  rw [h1, BitVec.and_twoPow]
  split <;> rename_i h
  · simp [h]
    intro h0
    have := congrArg (fun x => x.getLsbD k) h0
    simp [hk] at this
  · simp at h; simp [h]

@[simp] theorem bit5_test (w : Word) : ((w &&& 0b100000#16) == 0#16) = !w.getLsbD 5 :=
  bit_test w 5 (by decide)
@[simp] theorem bit11_test (w : Word) : ((w &&& 0x800#16) == 0#16) = !w.getLsbD 11 :=
  bit_test w 11 (by decide)
@[simp] theorem bit11_test' (w : Word) : ((w &&& 0x800#16) != 0#16) = w.getLsbD 11 := by
  simp [bne, bit11_test]
@[simp] theorem bit10_test' (w : Word) : ((w &&& 0x400#16) != 0#16) = w.getLsbD 10 := by
  have := bit_test w 10 (by decide)
  simp only [bne]
  rw [show (0x400#16) = 1#16 <<< 10 by decide, this]; simp

theorem opcode_eq (w : Word) : (w >>> 12).toNat = (w.extractLsb' 12 4).toNat := by
  simp [BitVec.toNat_ushiftRight, BitVec.extractLsb'_toNat, Nat.shiftRight_eq_div_pow]
  omega

theorem trapvec_eq (w : Word) : (w &&& 0xFF#16).toNat = (w.extractLsb' 0 8).toNat := by
  simp [BitVec.toNat_and, BitVec.extractLsb'_toNat]
  have : (255:Nat) = 2^8 - 1 := by decide
  rw [this, Nat.and_two_pow_sub_one_eq_mod]

@[simp] theorem setFlags_eq (m : Machine) (v : Word) : VM.setFlags m v = ISA.setcc m v := by
  unfold VM.setFlags ISA.setcc CC.ofWord
  congr 1
  by_cases h1 : v.toInt < 0
  · simp [h1, compare, compareOfLessAndEq]
  · by_cases h2 : v = 0
    · subst h2; simp [compare, compareOfLessAndEq]
    · have : v.toInt ≠ 0 := by
        intro h; apply h2; exact BitVec.eq_of_toInt_eq (by simpa using h)
      have h2' : ¬ v = 0#16 := h2
      simp [h1, h2', compare, compareOfLessAndEq, this]

/-- The BR condition: `self.flag as u16 & flag != 0`. -/
theorem br_test (cc : CC) (f : BitVec 3) :
    (VM.flagBits cc &&& f.setWidth 16 != 0#16) = decide (f &&& cc.bits ≠ 0) := by
  cases cc <;> revert f <;> decide

end Lace
