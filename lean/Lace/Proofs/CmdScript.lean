/-
  C14: a session is the grammar's reading of the script, whatever the transport.
-/
import Lace.Proofs.CmdNoPanic
namespace Lace.C14
open Lace.Cmd Lace.CmdGrammar

/-- Trim every line and drop the blank ones. -/
def nonBlank (L : List (List Char)) : List (List Char) := (L.map trim).filter (· ≠ [])

theorem nonBlank_cons (l : List Char) (L : List (List Char)) :
    nonBlank (l :: L) = (if trim l ≠ [] then [trim l] else []) ++ nonBlank L := by
  unfold nonBlank
  by_cases h : trim l = [] <;> simp [List.filter, h]

/-- Put `cur` in front of the first line. -/
def prependFirst (cur : List Char) : List (List Char) → List (List Char)
  | l :: ls => (cur ++ l) :: ls
  | [] => [cur]

theorem splitLines_ne_nil (t : List Char) : splitLines t ≠ [] := by
  cases t with
  | nil => simp [splitLines]
  | cons c cs =>
    simp only [splitLines]
    split
    · simp
    · split <;> simp

theorem prependFirst_nil {L : List (List Char)} (h : L ≠ []) : prependFirst [] L = L := by
  cases L with
  | nil => exact absurd rfl h
  | cons l ls => rfl

theorem isSeparator_eq (c : Char) : isSeparator c = isDelimiter c := rfl

theorem trim_nil : trim [] = [] := rfl

theorem nonBlank_split (t cur : List Char) :
    nonBlank (prependFirst cur (splitLines t)) = nonBlank (linesAux t cur) := by
  induction t generalizing cur with
  | nil =>
    simp only [splitLines, prependFirst, List.append_nil, linesAux]
    by_cases hc : cur = []
    · subst hc; simp [nonBlank, trim_nil]
    · simp [hc]
  | cons c cs ih =>
    simp only [splitLines, linesAux, isSeparator_eq]
    by_cases hd : isDelimiter c = true
    · simp only [hd, if_true, prependFirst, List.append_nil]
      rw [nonBlank_cons, nonBlank_cons, ← ih [], prependFirst_nil (splitLines_ne_nil cs)]
    · simp only [hd, if_false, Bool.false_eq_true]
      rw [← ih (cur ++ [c])]
      cases hs : splitLines cs with
      | nil => exact absurd hs (splitLines_ne_nil cs)
      | cons l ls => simp [prependFirst]

theorem mem_split_of_mem_lines (t cur l : List Char) (h : l ∈ linesAux t cur) :
    l ∈ prependFirst cur (splitLines t) := by
  induction t generalizing cur with
  | nil =>
    simp only [linesAux] at h
    split at h
    · simp at h
    · simp at h; subst h; simp [splitLines, prependFirst]
  | cons c cs ih =>
    simp only [splitLines, linesAux, isSeparator_eq] at h ⊢
    by_cases hd : isDelimiter c = true
    · simp only [hd, if_true, prependFirst, List.append_nil, List.mem_cons] at h ⊢
      rcases h with h | h
      · exact .inl h
      · right
        have := ih [] h
        rwa [prependFirst_nil (splitLines_ne_nil cs)] at this
    · simp only [hd, if_false, Bool.false_eq_true] at h ⊢
      have := ih (cur ++ [c]) h
      cases hs : splitLines cs with
      | nil => exact absurd hs (splitLines_ne_nil cs)
      | cons l' ls => rw [hs] at this; simpa [prependFirst] using this

theorem nonBlank_textLines (t : List Char) : nonBlank (splitLines t) = nonBlank (textLines t) := by
  have := nonBlank_split t []
  rwa [prependFirst_nil (splitLines_ne_nil t)] at this

theorem mem_splitLines_of_mem_textLines {t l : List Char} (h : l ∈ textLines t) :
    l ∈ splitLines t := by
  have := mem_split_of_mem_lines t [] l h
  rwa [prependFirst_nil (splitLines_ne_nil t)] at this

theorem done_noExit (c : Command) (rest : List Char) (k : Nat) : done c rest ≠ .exit k := by
  unfold done; split <;> simp

theorem oneMemLoc_noExit (mk : MemLoc → Command) (rest : List Char) (k : Nat) :
    oneMemLoc mk rest ≠ .exit k := by
  unfold oneMemLoc; split
  · exact done_noExit _ _ k
  · simp

/-- The grammar never says "exit". -/
theorem grammar_parseLine_noExit (line : List Char) (k : Nat) :
    CmdGrammar.parseLine line ≠ .exit k := by
  unfold CmdGrammar.parseLine
  split
  · rename_i name rest _
    cases name <;> simp only [arguments] <;>
      first
      | exact done_noExit _ _ k
      | exact oneMemLoc_noExit _ _ k
      | (repeat' split) <;> first | exact done_noExit _ _ k | exact oneMemLoc_noExit _ _ k | simp
  · simp

/-- The grammar's reading of one (trimmed, non-blank) line as a session event. -/
def specEvent (line : List Char) : Option Command :=
  match CmdGrammar.parseLine line with
  | .ok c => some c
  | _ => none

theorem script_eq (s : List Char) : script s = (nonBlank (splitLines s)).map specEvent := rfl

theorem sessionL_spec (L : List (List Char))
    (h : ∀ l ∈ L, trim l ≠ [] → ValidLine (trim l) ∧ firstWord (trim l) ≠ "sudo".toList) :
    sessionL L = { events := (nonBlank L).map specEvent, ending := .eof } := by
  induction L with
  | nil => rfl
  | cons l L ih =>
    have ih' := ih (fun l' hl' => h l' (List.mem_cons_of_mem _ hl'))
    simp only [sessionL, nonBlank_cons]
    by_cases he : trim l = []
    · simp [he, ih']
    · have hemp : ¬ (trim l).isEmpty = true := by simpa using he
      obtain ⟨hv, hns⟩ := h l (List.mem_cons_self ..) he
      have hp := parseLine_eq (trim l) hv.1 hv.2
      simp only [hns, if_false] at hp
      simp only [hemp, if_false, Bool.false_eq_true, he, ne_eq, not_false_eq_true, if_true,
        List.cons_append, List.nil_append, List.map_cons, hp, specEvent]
      cases hg : CmdGrammar.parseLine (trim l) with
      | ok c => simp [ih']
      | err => simp [ih']
      | exit k => exact absurd hg (grammar_parseLine_noExit _ k)
      | panic s => exact absurd hg (grammar_parseLine_noPanic _ s)

end Lace.C14
