/-
  Statement spans of a whole program, token level (C17, parser side of the text level).

  `parse_items_spans` / `parse_tokens_spans`: whenever the parser accepts a token list that matches
  the expected token stream of a program (`progETok`, any program) and whose tokens stand in reading
  order (`PosOk`, `Proofs/TokPos.lean`), the spans of the statements it produced are determined by
  the spans of the tokens alone (`itemsSpansOf`):

    * an instruction / trap statement: from the first byte of its mnemonic token to the end of its
      last operand token — or just the mnemonic token when it has no operand;
    * a data word: the span of its token (the preprocessor gave every word of one `.fill` / `.blkw` /
      `.stringz` the directive's span);
    * labels, `.orig` with its operand, `.break`: no statement.

  First part (`Lace.Asm`): what `parse_instr` / `parse_trap` consume — when they succeed they take a
  prefix of the tokens and report the end of the last token taken as the new `tok_end` (`none` when
  they take nothing): `parseHead_te`.
-/
import Lace.Proofs.ParseReject
import Lace.Proofs.AsmSpan
import Lace.Proofs.TokPos
namespace Lace.Asm

/-! ### what the `expect_*` functions consume -/

/-- a successful `expect_*` takes exactly the next token and reports its end -/
def Exp1 {α : Type} (toks : List Token) : Res (α × List Token × Nat) → Prop
  | .ok (_, ts, te) => ∃ t, toks = t :: ts ∧ te = endOf t
  | _ => True

theorem expectWhere_one (srcLen : Nat) (check : TokenKind → Bool) (toks : List Token) :
    Exp1 toks (expectWhere srcLen check toks) := by
  unfold expectWhere
  split
  · trivial
  · rename_i t ts
    split
    · exact ⟨t, rfl, rfl⟩
    · unfold unexpectedDiag; split <;> trivial

theorem expectLit_one (srcLen : Nat) (bits : Bits) (toks : List Token) :
    Exp1 toks (expectLit srcLen bits toks) := by
  have hw := expectWhere_one srcLen isNumLit toks
  unfold expectLit
  spn_step hw
  split
  · split
    · trivial
    · exact hw
    · trivial
  · split
    · trivial
    · exact hw
    · trivial
  · trivial

theorem expectReg_one (srcLen : Nat) (toks : List Token) : Exp1 toks (expectReg srcLen toks) := by
  have hw := expectWhere_one srcLen isReg toks
  unfold expectReg
  spn_step hw
  split
  · exact hw
  · trivial

theorem expectLitOrReg_one (srcLen : Nat) (toks : List Token) : Exp1 toks (expectLitOrReg srcLen toks) := by
  unfold expectLitOrReg
  split
  · trivial
  · rename_i t ts
    split
    · have hw := expectReg_one srcLen (t :: ts)
      spn_step hw
    · have hw := expectLit_one srcLen (.signed 5) (t :: ts)
      spn_step hw
    · unfold unexpectedDiag; split <;> trivial

theorem expectLitOrLabel_one (srcLen : Nat) (tbl : SymTab) (line bits : Nat) (toks : List Token) :
    Exp1 toks (expectLitOrLabel srcLen tbl line bits toks) := by
  unfold expectLitOrLabel
  split
  · trivial
  · rename_i t ts
    split
    · have hw := expectWhere_one srcLen (fun k => k = .label) (t :: ts)
      spn_step hw
    · have hw := expectLit_one srcLen (.signed bits) (t :: ts)
      spn_step hw
    · unfold unexpectedDiag; split <;> trivial

/-! ### what `parse_instr` / `parse_trap` consume -/

/-- a successful statement parser that takes at least one operand: the tokens taken end with `l`,
whose end is the new `tok_end` -/
def ExpS (toks : List Token) : StmtRes → Prop
  | .ok (_, ts, some e) => ∃ c l, toks = c ++ l :: ts ∧ e = endOf l
  | .ok (_, _, none) => False
  | _ => True

/-- a successful statement parser: as `ExpS`, or nothing is taken and `tok_end` is left alone -/
def ExpC (toks : List Token) : StmtRes → Prop
  | .ok (_, ts, some e) => ∃ c l, toks = c ++ l :: ts ∧ e = endOf l
  | .ok (_, ts, none) => ts = toks
  | _ => True

theorem ExpS.toC {toks : List Token} {r : StmtRes} (h : ExpS toks r) : ExpC toks r := by
  cases r with
  | panic s => trivial
  | diag k s => trivial
  | ok p =>
    obtain ⟨a, ts, te⟩ := p
    cases te with
    | none => exact h.elim
    | some e => exact h

theorem ExpS.cons {ts : List Token} {r : StmtRes} (t : Token) (h : ExpS ts r) : ExpS (t :: ts) r := by
  cases r with
  | panic s => trivial
  | diag k s => trivial
  | ok p =>
    obtain ⟨a, ts', te⟩ := p
    cases te with
    | none => exact h.elim
    | some e =>
      obtain ⟨c, l, e1, e2⟩ := h
      exact ⟨t :: c, l, by rw [e1]; rfl, e2⟩

theorem Exp1.some {α : Type} {toks ts : List Token} {a : α} {a' : Stmt} {te : Nat}
    (h : Exp1 toks (.ok (a, ts, te))) : ExpS toks (.ok (a', ts, some te)) := by
  obtain ⟨t, e1, e2⟩ := h
  exact ⟨[], t, e1, e2⟩

theorem piReg1_cons (srcLen : Nat) (toks : List Token) (f : BitVec 3 → Stmt) :
    ExpS toks (piReg1 srcLen toks f) := by
  have hw := expectReg_one srcLen toks
  unfold piReg1
  spn_step hw
  exact hw.some

theorem piLbl_cons (srcLen : Nat) (tbl : SymTab) (line bits : Nat) (toks : List Token) (f : Label → Stmt) :
    ExpS toks (piLbl srcLen tbl line bits toks f) := by
  have hw := expectLitOrLabel_one srcLen tbl line bits toks
  unfold piLbl
  spn_step hw
  exact hw.some

theorem piRegLbl_cons (srcLen : Nat) (tbl : SymTab) (line : Nat) (toks : List Token)
    (f : BitVec 3 → Label → Stmt) : ExpS toks (piRegLbl srcLen tbl line toks f) := by
  have hw := expectReg_one srcLen toks
  unfold piRegLbl
  spn_step hw
  rename_i r ts te _
  obtain ⟨t, e1, _⟩ := hw
  rw [e1]
  exact (piLbl_cons srcLen tbl line 9 ts (f r)).cons t

theorem piReg2_cons (srcLen : Nat) (toks : List Token) (f : BitVec 3 → BitVec 3 → Stmt) :
    ExpS toks (piReg2 srcLen toks f) := by
  have hw := expectReg_one srcLen toks
  unfold piReg2
  spn_step hw
  rename_i a ts te _
  have hw2 := expectReg_one srcLen ts
  spn_step hw2
  obtain ⟨t, e1, _⟩ := hw
  rw [e1]
  exact (Exp1.some hw2).cons t

theorem piReg2Lit_cons (srcLen : Nat) (toks : List Token) (f : BitVec 3 → BitVec 3 → BitVec 8 → Stmt) :
    ExpS toks (piReg2Lit srcLen toks f) := by
  have hw := expectReg_one srcLen toks
  unfold piReg2Lit
  spn_step hw
  rename_i a ts te _
  have hw2 := expectReg_one srcLen ts
  spn_step hw2
  rename_i b ts' te' _
  have hw3 := expectLit_one srcLen (.signed 6) ts'
  spn_step hw3
  obtain ⟨t, e1, _⟩ := hw
  obtain ⟨t2, e2, _⟩ := hw2
  rw [e1, e2]
  exact ((Exp1.some hw3).cons t2).cons t

theorem piReg2Imm_cons (srcLen : Nat) (toks : List Token) (f : BitVec 3 → BitVec 3 → ImmOrReg → Stmt) :
    ExpS toks (piReg2Imm srcLen toks f) := by
  have hw := expectReg_one srcLen toks
  unfold piReg2Imm
  spn_step hw
  rename_i a ts te _
  have hw2 := expectReg_one srcLen ts
  spn_step hw2
  rename_i b ts' te' _
  have hw3 := expectLitOrReg_one srcLen ts'
  spn_step hw3
  obtain ⟨t, e1, _⟩ := hw
  obtain ⟨t2, e2, _⟩ := hw2
  rw [e1, e2]
  exact ((Exp1.some hw3).cons t2).cons t

theorem parseInstr_consumed (srcLen : Nat) (tbl : SymTab) (line : Nat) (kind : InstrKind) (toks : List Token) :
    ExpC toks (parseInstr srcLen tbl line kind toks) := by
  cases kind <;> simp only [parseInstr]
  case call =>
    have hw := expectWhere_one srcLen (fun k => k = .label) toks
    spn_step hw
    exact (Exp1.some hw).toC
  all_goals first
    | exact (piReg1_cons srcLen toks _).toC
    | exact (piReg2_cons srcLen toks _).toC
    | exact (piReg2Imm_cons srcLen toks _).toC
    | exact (piReg2Lit_cons srcLen toks _).toC
    | exact (piRegLbl_cons srcLen tbl line toks _).toC
    | exact (piLbl_cons srcLen tbl line _ toks _).toC
    | rfl

theorem parseTrap_consumed (srcLen : Nat) (kind : TrapKind) (toks : List Token) :
    ExpC toks (parseTrap srcLen kind toks) := by
  cases kind <;> simp only [parseTrap]
  case generic =>
    have hw := expectLit_one srcLen (.unsigned 8) toks
    spn_step hw
    exact (Exp1.some hw).toC
  all_goals rfl

end Lace.Asm

namespace Lace.C01
open Lace.Asm Lace.Spec Lace.C04

/-- **The `tok_end` of a statement.**  When `parse_instr` / `parse_trap`, given the operand tokens
`ots` followed by `rest`, answers with `rest` left over, the `tok_end` it reports is the end of the
last operand token — `none` when there is no operand. -/
theorem parseHead_te {srcLen : Nat} {tbl : SymTab} {line : Nat} {hd : Head} {ots rest : List Token}
    {stmt : Stmt} {te : Option Nat}
    (h : parseHead srcLen tbl line hd (ots ++ rest) = .ok (stmt, rest, te)) :
    te = ots.getLast?.map endOf := by
  have hc : ExpC (ots ++ rest) (parseHead srcLen tbl line hd (ots ++ rest)) := by
    cases hd with
    | instr k => exact parseInstr_consumed srcLen tbl line k _
    | trap k => exact parseTrap_consumed srcLen k _
  rw [h] at hc
  cases te with
  | none =>
    have hc : rest = ots ++ rest := hc
    have hl := congrArg List.length hc
    simp only [List.length_append] at hl
    have : ots = [] := List.eq_nil_of_length_eq_zero (by omega)
    rw [this]; rfl
  | some e =>
    obtain ⟨c, l, e1, e2⟩ := hc
    have e1' : ots ++ rest = (c ++ [l]) ++ rest := by rw [e1]; simp
    have := List.append_cancel_right e1'
    rw [this, e2]
    simp

/-! ### statement spans from token spans -/

def spanPair (s : Span) : Nat × Nat := (s.offs, s.len)

/-- the span of an instruction statement: first byte of the mnemonic token (span `sp0`) to the end
of the last operand token (spans `osps`) -/
def stmtSpanOf (sp0 : Span) (osps : List Span) : Nat × Nat :=
  (sp0.offs, match osps.getLast? with
    | none => sp0.len
    | some l => l.offs + l.len - sp0.offs)

/-- the spans of the words of one statement, given the spans of its tokens -/
def stmtSpansOf (names : Nat → List Char) (s : SrcStmt) (sps : List Span) : List (Nat × Nat) :=
  match stmtSyntax names s with
  | none => sps.map spanPair
  | some _ =>
    match sps with
    | [] => []
    | sp0 :: osps => [stmtSpanOf sp0 osps]

def itemSpansOf (names : Nat → List Char) : Item → List Span → List (Nat × Nat)
  | .stmt (some _) s, sps => stmtSpansOf names s sps.tail
  | .stmt none s, sps => stmtSpansOf names s sps
  | _, _ => []

/-- the spans of the words of a program, given the spans of the tokens of its expected stream -/
def itemsSpansOf (names : Nat → List Char) : List Item → List Span → List (Nat × Nat)
  | [], _ => []
  | it :: rest, sps =>
    itemSpansOf names it (sps.take (itemETok names it).length) ++
      itemsSpansOf names rest (sps.drop (itemETok names it).length)

theorem stmtSpansOf_nil (names : Nat → List Char) (s : SrcStmt) : stmtSpansOf names s [] = [] := by
  unfold stmtSpansOf
  split <;> rfl

theorem itemsSpansOf_nil (names : Nat → List Char) : ∀ its : List Item, itemsSpansOf names its [] = [] := by
  intro its
  induction its with
  | nil => rfl
  | cons it rest ih =>
    simp only [itemsSpansOf, List.take_nil, List.drop_nil, ih, List.append_nil]
    cases it with
    | orig w => rfl
    | brk => rfl
    | stmt l s => cases l <;> exact stmtSpansOf_nil names s

theorem itemsSpansOf_cons (names : Nat → List Char) (it : Item) (rest : List Item) (a b : List Span)
    (h : a.length = (itemETok names it).length) :
    itemsSpansOf names (it :: rest) (a ++ b) = itemSpansOf names it a ++ itemsSpansOf names rest b := by
  simp only [itemsSpansOf, List.take_left' h, List.drop_left' h]

/-! ### token kinds -/

theorem head_isByte (hd : Head) (t : Token) (h : hd.etok.Matches t) : t.isByte = false := by
  apply not_isByte_of_kind
  intro w hk
  cases hd with
  | instr k => have h' : t.kind = .instr k := h; rw [h'] at hk; cases hk
  | trap k => have h' : t.kind = .trap k := h; rw [h'] at hk; cases hk

theorem opnd_isByte {o : Opnd} {t : Token} (h : o.Matches t) : t.isByte = false := by
  apply not_isByte_of_kind
  intro w hk
  cases o with
  | reg r => have h' : t.kind = .reg r := h; rw [h'] at hk; cases hk
  | lit v =>
    have h' : litWord t.kind = some v := h
    rw [hk] at h'; cases h'
  | label n => have h' := h.1; rw [h'] at hk; cases hk

theorem opnds_isByte : ∀ {ops : List Opnd} {ots : List Token},
    List.Forall₂ ETok.Matches (ops.map .opnd) ots → ∀ t ∈ ots, t.isByte = false := by
  intro ops
  induction ops with
  | nil => intro ots h t ht; rw [forall₂_nil_left h] at ht; cases ht
  | cons o ops ih =>
    intro ots h t ht
    obtain ⟨b, bs, rfl, h1, h2⟩ := forall₂_cons_left h
    rcases List.mem_cons.mp ht with rfl | ht
    · exact opnd_isByte h1
    · exact ih h2 t ht

theorem bytes_isByte : ∀ {bs : List Word} {btoks : List Token},
    List.Forall₂ ETok.Matches (bs.map .byte) btoks → ∀ t ∈ btoks, t.isByte = true := by
  intro bs
  induction bs with
  | nil => intro btoks h t ht; rw [forall₂_nil_left h] at ht; cases ht
  | cons b bs ih =>
    intro btoks h t ht
    obtain ⟨x, xs, rfl, h1, h2⟩ := forall₂_cons_left h
    rcases List.mem_cons.mp ht with rfl | ht
    · exact isByte_of_kind (w := b) h1
    · exact ih h2 t ht

/-! ### one instruction statement -/

/-- **The span `add_stmt` computes for an instruction statement** whose mnemonic token `t` and
operand tokens `ots` stand in reading order behind the current `tok_end`: from the first byte of `t`
to the end of the last operand (`stmtSpanOf`); the new `tok_end` lies in front of what follows. -/
theorem addStmt_span_eq {st : PState} {t : Token} {ots rest : List Token} {stmt : Stmt} {te : Option Nat}
    (hpos : PosOk st.tokEnd (t :: ots ++ rest)) (ht : t.isByte = false) (hots : ∀ x ∈ ots, x.isByte = false)
    (hte : te = ots.getLast?.map endOf) :
    ∃ a, (st.addStmt t stmt te).stmts = a :: st.stmts ∧
      spanPair a.span = stmtSpanOf t.span (ots.map (·.span)) ∧
      PosOk (st.addStmt t stmt te).tokEnd rest := by
  rw [List.cons_append] at hpos
  obtain ⟨h1, h2, h3⟩ := PosOk.tail hpos ht
  have hrun := PosOk.run h3 hots
  cases hl : ots.getLast? with
  | none =>
    rw [hl] at hrun hte
    subst hte
    refine ⟨_, rfl, ?_, ?_⟩
    · simp only [stmtSpanOf, List.getLast?_map, hl, spanPair, Option.map, h1, if_true]
    · exact PosOk.mono hrun (by show st.tokEnd ≤ endOf t; unfold endOf; omega)
  | some l =>
    rw [hl] at hrun hte
    subst hte
    obtain ⟨r1, r2⟩ := hrun
    refine ⟨_, rfl, ?_, r2⟩
    have hn : ¬ endOf l ≤ t.span.offs := by unfold endOf at r1 ⊢; omega
    simp only [stmtSpanOf, List.getLast?_map, hl, Option.map_some, spanPair, hn, if_false]
    rfl

/-! ### the induction over the items -/

/-- **Statement spans of a whole program, token level.**  If the parser loop, run over tokens that
match the expected token stream of `its` and stand in reading order behind the current `tok_end`,
answers `.ok air`, the spans of the statements it added are those `itemsSpansOf` reads off the spans
of the tokens. -/
theorem parse_items_spans (names : Nat → List Char) (srcLen : Nat) :
    ∀ (its : List Item) (fuel : Nat) (toks : List Token) (st : PState) (tbl : SymTab) (k : Nat)
      (air : Air) (tblF : SymTab),
      st.line = k + 1 → st.n = k → k < 65535 → fullOk its k = true →
      toks.length < fuel →
      List.Forall₂ ETok.Matches (itemsETok names its) toks →
      (∀ ls ∈ itemsStmts its, ls.2.renderable = true ∧ (ls.1.isSome = true → 1 ≤ ls.2.size)) →
      PosOk st.tokEnd toks →
      parseLoop srcLen fuel toks st tbl = (.ok air, tblF) →
      air.stmts.map (fun a => spanPair a.span) =
        st.stmts.reverse.map (fun a => spanPair a.span) ++ itemsSpansOf names its (toks.map (·.span)) := by
  intro its
  induction its with
  | nil =>
    intro fuel toks st tbl k air tblF hline hn hk65 hfull hfuel hm hrs hpos h
    rw [forall₂_nil_left hm] at hfuel h ⊢
    obtain ⟨fuel', rfl⟩ : ∃ f, fuel = f + 1 := ⟨fuel - 1, by omega⟩
    rw [parseLoop_nil] at h
    simp only [Prod.mk.injEq, Res.ok.injEq] at h
    obtain ⟨rfl, rfl⟩ := h
    simp only [itemsSpansOf, List.append_nil]
    rfl
  | cons it rest ih =>
    intro fuel toks st tbl k air tblF hline hn hk65 hfull hfuel hm hrs hpos h
    cases it with
    | orig w =>
      simp only [itemsETok, itemETok, List.cons_append, List.nil_append] at hm
      obtain ⟨ot, ts1, rfl, hot, hm⟩ := forall₂_cons_left hm
      obtain ⟨lt, rtoks, rfl, hlt, hm⟩ := forall₂_cons_left hm
      have hot : ot.kind = .dir .orig := hot
      have hlt : litWord lt.kind = some w := hlt
      simp only [List.length_cons] at hfuel
      obtain ⟨fuel', rfl⟩ : ∃ f, fuel = f + 1 := ⟨fuel - 1, by omega⟩
      have hnl := parseStep_nolabel srcLen ot (lt :: rtoks) st tbl (by rw [hot]; exact fun h => by cases h)
      have hob : ot.isByte = false := not_isByte_of_kind (by intro x hx; rw [hot] at hx; cases hx)
      have hlb : lt.isByte = false := opnd_isByte (o := .lit w) hlt
      cases hso : st.orig with
      | some w0 =>
        rw [parseLine_second_orig srcLen false ot lt rtoks st tbl hot w w0 hlt hso] at hnl
        simp only [parseLoop, hnl, Prod.mk.injEq, reduceCtorEq, false_and] at h
      | none =>
        rw [parseLine_first_orig srcLen false ot lt rtoks st tbl hot w hlt hso] at hnl
        simp only [parseLoop, hnl] at h
        have hI := ih fuel' rtoks { st with orig := some w, tokEnd := lt.span.offs + lt.span.len } tbl k air tblF
          hline hn hk65
          (by simp only [fullOk, Item.size, Bool.and_eq_true, Nat.add_zero] at hfull; exact hfull.2)
          (by omega) hm hrs ((PosOk.tail (PosOk.tail hpos hob).2.2 hlb).2.2) h
        rw [hI]
        have := itemsSpansOf_cons names (.orig w) rest [ot.span, lt.span] (rtoks.map (·.span)) rfl
        simp only [List.map_cons]
        rw [show ot.span :: lt.span :: rtoks.map (·.span) = [ot.span, lt.span] ++ rtoks.map (·.span) from rfl, this]
        rfl
    | brk =>
      simp only [itemsETok, itemETok, List.cons_append, List.nil_append] at hm
      obtain ⟨bt, rtoks, rfl, hbt, hm⟩ := forall₂_cons_left hm
      have hbt : bt.kind = .breakpoint := hbt
      simp only [List.length_cons] at hfuel
      obtain ⟨fuel', rfl⟩ : ∃ f, fuel = f + 1 := ⟨fuel - 1, by omega⟩
      have hstep : parseStep srcLen (bt :: rtoks) st tbl =
          (.more rtoks { st with bps := bpInsert st.bps (st.n % 65536) }, tbl) := by
        rw [parseStep_nolabel srcLen bt _ st tbl (by rw [hbt]; exact fun h => by cases h)]
        simp only [parseLine, hbt]
      simp only [parseLoop, hstep] at h
      have hI := ih fuel' rtoks { st with bps := bpInsert st.bps (st.n % 65536) } tbl k air tblF hline hn hk65
        (by simp only [fullOk, Item.size, Bool.and_eq_true, Nat.add_zero] at hfull; exact hfull.2)
        (by omega) hm hrs (PosOk.tail' hpos) h
      rw [hI]
      have := itemsSpansOf_cons names .brk rest [bt.span] (rtoks.map (·.span)) rfl
      simp only [List.map_cons]
      rw [show bt.span :: rtoks.map (·.span) = [bt.span] ++ rtoks.map (·.span) from rfl, this]
      rfl
    | stmt l s =>
      simp only [itemsStmts] at hrs
      simp only [fullOk, Item.size, Bool.and_eq_true] at hfull
      have hfull' := hfull.2
      obtain ⟨hren, hlsz⟩ := hrs (l, s) List.mem_cons_self
      have hrs' : ∀ ls ∈ itemsStmts rest, ls.2.renderable = true ∧ (ls.1.isSome = true → 1 ≤ ls.2.size) :=
        fun ls h => hrs ls (List.mem_cons_of_mem _ h)
      -- the statement and everything after it, from any table
      have core : ∀ (stoks rtoks : List Token) (tblX : SymTab) (fuelX : Nat),
          stoks.length + rtoks.length < fuelX →
          List.Forall₂ ETok.Matches (stmtETok names s) stoks →
          List.Forall₂ ETok.Matches (itemsETok names rest) rtoks →
          PosOk st.tokEnd (stoks ++ rtoks) →
          parseLoop srcLen fuelX (stoks ++ rtoks) st tblX = (.ok air, tblF) →
          air.stmts.map (fun a => spanPair a.span) =
            st.stmts.reverse.map (fun a => spanPair a.span) ++
              (stmtSpansOf names s (stoks.map (·.span)) ++ itemsSpansOf names rest (rtoks.map (·.span))) := by
        intro stoks rtoks tblX fuelX hfX hms hmr hposX hX
        have hlast : k + s.size = 65535 → rtoks = [] := by
          intro heq
          obtain ⟨s1, _, _, _⟩ := silent_rest names (fun _ => none) 0#16 rest (k + s.size) (by omega) hfull'
          rw [s1] at hmr
          exact forall₂_nil_left hmr
        cases hs : stmtSyntax names s with
        | none =>
          obtain ⟨h1, _, h3, _⟩ := data_stmt hs hren (fun _ => none) 0#16
          rw [h1] at hms
          have hlen : stoks.length = (dataWords s).length := by
            rw [forall₂_length hms, List.length_map]
          obtain ⟨hb1, hb2⟩ := PosOk.bytes hposX (bytes_isByte hms)
          have hsp : stmtSpansOf names s (stoks.map (·.span)) = (stoks.map (·.span)).map spanPair := by
            simp only [stmtSpansOf, hs]
          rw [hsp]
          rcases Nat.lt_trichotomy (k + s.size) 65535 with hlt | heq | hgt
          · obtain ⟨st', hr, a1, a2, a3, lines, a4, a5, a6, a7⟩ :=
              bytes_reaches srcLen (dataWords s) stoks rtoks st tblX hms (by rw [hline, ← h3]; omega)
            have hf : fuelX = (fuelX - (dataWords s).length) + (dataWords s).length := by omega
            rw [hf, hr (fuelX - (dataWords s).length)] at hX
            have hI := ih (fuelX - (dataWords s).length) rtoks st' tblX (k + s.size) air tblF
              (by rw [a1, hline, h3]; omega) (by rw [a2, hn, h3]) hlt hfull' (by omega) hmr hrs'
              (by rw [a6]; exact hb2) hX
            rw [hI, a4, List.reverse_append, List.reverse_reverse, List.map_append, List.append_assoc,
              ← a7 hb1, List.map_map]
            rfl
          · have hnil := hlast heq
            subst hnil
            rw [List.append_nil] at hX hposX
            simp only [List.length_nil, Nat.add_zero] at hfX
            cases hd : dataWords s with
            | nil => rw [hd] at h3; simp only [List.length_nil] at h3; omega
            | cons b bs =>
              rw [hd] at hms h3
              simp only [List.length_cons] at h3
              obtain ⟨air', e1, e2, lines, e3, e4, e5⟩ :=
                bytes_final srcLen bs b stoks st tblX fuelX hms (by omega) hfX
              rw [e1] at hX
              simp only [Prod.mk.injEq, Res.ok.injEq] at hX
              obtain ⟨rfl, rfl⟩ := hX
              rw [e3, List.map_append, ← e5 hb1, List.map_map, List.map_nil, itemsSpansOf_nil, List.append_nil]
              rfl
          · exact absurd hX (bytes_overflow srcLen (dataWords s) stoks rtoks st tblX fuelX hms
              (by omega) (by rw [hline, ← h3]; omega) air tblF)
        | some p =>
          obtain ⟨hd, ops⟩ := p
          rw [stmtETok_syntax hs] at hms
          obtain ⟨t, ots, rfl, ht, hops⟩ := forall₂_cons_left hms
          have hsz : s.size = 1 := by
            cases s <;> first | rfl | (cases hs; done)
          simp only [List.length_cons] at hfX
          obtain ⟨fuel', rfl⟩ : ∃ f, fuelX = f + 1 := ⟨fuelX - 1, by omega⟩
          have hsp : stmtSpansOf names s ((t :: ots).map (·.span)) = [stmtSpanOf t.span (ots.map (·.span))] := by
            simp only [stmtSpansOf, hs, List.map_cons]
          rw [hsp]
          cases ha : airOf names tblX st.line s with
          | none =>
            obtain ⟨sp, hstep⟩ := instr_step_none names srcLen s hd ops hs t ots rtoks ht hops st tblX ha
            simp only [parseLoop, hstep, Prod.mk.injEq, reduceCtorEq, false_and] at hX
          | some stmt =>
            have hp := parse_stmt_tokens names srcLen tblX st.line s hd ops hs ots rtoks (matchAll_of_forall₂ hops)
            rw [ha] at hp
            obtain ⟨te, hp⟩ := hp
            have hte := parseHead_te hp
            have hstep : parseStep srcLen (t :: ots ++ rtoks) st tblX =
                (finishStmt st t (.ok (stmt, rtoks, te)), tblX) := by
              rw [List.cons_append, parseStep_nolabel srcLen t _ st tblX (head_not_label hd t ht),
                parseLine_head srcLen hd t _ st tblX ht, hp]
            obtain ⟨a, hsa, hspan, hpos'⟩ := addStmt_span_eq (stmt := stmt) hposX (head_isByte hd t ht)
              (opnds_isByte hops) hte
            by_cases hgt : st.line + 1 > 65535
            · have heq : k + s.size = 65535 := by omega
              have hnil := hlast heq
              subst hnil
              have hfs : finishStmt st t (.ok (stmt, [], te)) = .done (.ok (st.addStmt t stmt te).air) := by
                simp only [finishStmt, hgt, if_true]
              rw [hfs] at hstep
              simp only [parseLoop, hstep, Prod.mk.injEq, Res.ok.injEq] at hX
              obtain ⟨rfl, rfl⟩ := hX
              show (st.addStmt t stmt te).stmts.reverse.map _ = _
              rw [hsa, List.reverse_cons, List.map_append, List.map_nil, itemsSpansOf_nil, List.append_nil,
                List.map_cons, List.map_nil, hspan]
            · have hfs : finishStmt st t (.ok (stmt, rtoks, te)) =
                  .more rtoks { st.addStmt t stmt te with line := st.line + 1 } := by
                simp only [finishStmt, hgt, if_false]
              rw [hfs] at hstep
              simp only [parseLoop, hstep] at hX
              have hI := ih fuel' rtoks { st.addStmt t stmt te with line := st.line + 1 } tblX (k + s.size)
                air tblF (by show st.line + 1 = _; omega) (by show st.n + 1 = _; omega) (by omega) hfull'
                (by omega) hmr hrs' hpos' hX
              rw [hI]
              show (st.addStmt t stmt te).stmts.reverse.map _ ++ _ = _
              rw [hsa, List.reverse_cons, List.map_append, List.map_cons, List.map_nil, hspan, List.append_assoc]
      cases l with
      | none =>
        simp only [itemsETok, itemETok] at hm
        obtain ⟨stoks, rtoks, rfl, hms, hmr⟩ := forall₂_append_left hm
        simp only [List.length_append] at hfuel
        rw [core stoks rtoks tbl fuel hfuel hms hmr hpos h, List.map_append,
          itemsSpansOf_cons names (.stmt none s) rest _ _
            (by rw [List.length_map, forall₂_length hms]; rfl)]
        rfl
      | some id =>
        simp only [itemsETok, itemETok, List.cons_append] at hm
        obtain ⟨lt, ts1, rfl, hlt, hm⟩ := forall₂_cons_left hm
        obtain ⟨hltk, hltt⟩ : lt.kind = .label ∧ lt.text = names id := hlt
        obtain ⟨stoks, rtoks, rfl, hms, hmr⟩ := forall₂_append_left hm
        have hsz : 1 ≤ s.size := hlsz rfl
        obtain ⟨t, ts, rfl, htk⟩ := stmt_first names s stoks hms hren hsz
        simp only [List.length_cons, List.length_append] at hfuel
        obtain ⟨fuel', rfl⟩ : ∃ f, fuel = f + 1 := ⟨fuel - 1, by omega⟩
        cases hget : tbl.get? (names id) with
        | some v =>
          have hdup := parseStep_dup_label srcLen lt (t :: ts ++ rtoks) st tbl hltk v (by rw [hltt]; exact hget)
          exfalso
          revert h
          simp only [parseLoop]
          generalize parseStep srcLen (lt :: (t :: ts ++ rtoks)) st tbl = r at hdup
          obtain ⟨r1, r2⟩ := r
          simp only at hdup
          subst hdup
          simp only [Prod.mk.injEq, reduceCtorEq, false_and]
          exact fun h => h
        | none =>
          rw [List.cons_append, parseLoop_label srcLen fuel' lt t (ts ++ rtoks) st tbl hltk
            (by rw [hltt]; exact hget) htk, hltt, hline, ← List.cons_append] at h
          rw [core (t :: ts) rtoks _ (fuel' + 1) (by simp only [List.length_cons]; omega) hms hmr
            (PosOk.tail' hpos) h]
          have := itemsSpansOf_cons names (.stmt (some id) s) rest (lt.span :: (t :: ts).map (·.span))
            (rtoks.map (·.span))
            (by simp only [List.length_cons, List.length_map, itemETok, forall₂_length hms])
          have e : (lt :: (t :: ts ++ rtoks)).map (·.span) =
              (lt.span :: (t :: ts).map (·.span)) ++ rtoks.map (·.span) := by
            simp only [List.map_cons, List.map_append, List.cons_append]
          rw [e, this]
          rfl

/-- **… from the start of the parser.** -/
theorem parse_tokens_spans (names : Nat → List Char) (P : Prog) (srcLen : Nat) (toks : List Token)
    (hm : List.Forall₂ ETok.Matches (progETok names P) toks)
    (hren : P.renderable = true) (hsyn : P.syntaxOk = true) (hpos : PosOk 0 toks)
    (air : Air) (tbl' : SymTab)
    (hp : parseLoop srcLen (toks.length + 1) toks
        { orig := none, stmts := [], n := 0, bps := [], line := 1, tokEnd := 0 } [] = (.ok air, tbl')) :
    air.stmts.map (fun a => spanPair a.span) = itemsSpansOf names P.items (toks.map (·.span)) := by
  unfold Prog.renderable at hren
  rw [Bool.and_eq_true, List.all_eq_true] at hren
  unfold Prog.syntaxOk at hsyn
  rw [List.all_eq_true] at hsyn
  rw [stmts_eq] at hren hsyn
  have := parse_items_spans names srcLen P.items (toks.length + 1) toks
    { orig := none, stmts := [], n := 0, bps := [], line := 1, tokEnd := 0 } [] 0 air tbl'
    rfl rfl (by decide) hren.2 (Nat.lt_succ_self _) hm
    (fun ls hls => ⟨hren.1 ls hls, fun hsome => by
      have := hsyn ls hls
      obtain ⟨l, s⟩ := ls
      cases l with
      | none => cases hsome
      | some id => simpa using this⟩)
    hpos hp
  rw [this]
  rfl

/-- hypotheses satisfiable, and what `itemsSpansOf` computes: the token stream of
`.orig x3000 / L brnzp L / .fill x0005 / .blkw 0 / .break` (the example of `Proofs/ParseProg.lean`)
stands in reading order, and the two words of the image get the spans `brnzp L` (bytes 14 … 20) and
`.fill x0005` (the data word's own span) -/
example : PosOk 0
    [⟨.dir .orig, ⟨0, 5⟩, []⟩, ⟨.lit (.hex 0x3000#16), ⟨6, 5⟩, []⟩, ⟨.label, ⟨12, 1⟩, ['L']⟩,
     ⟨.instr (.br .nzp), ⟨14, 5⟩, []⟩, ⟨.label, ⟨20, 1⟩, ['L']⟩, ⟨.byte 5#16, ⟨22, 8⟩, []⟩,
     ⟨.breakpoint, ⟨40, 6⟩, []⟩] := by
  simp [PosOk, Token.isByte, endOf]

example : itemsSpansOf (fun _ => ['L'])
    [.orig 0x3000#16, .stmt (some 0) (.br 7#3 (.label 0)), .stmt none (.fill 5#16), .stmt none (.blkw 0#16), .brk]
    [⟨0, 5⟩, ⟨6, 5⟩, ⟨12, 1⟩, ⟨14, 5⟩, ⟨20, 1⟩, ⟨22, 8⟩, ⟨40, 6⟩] = [(14, 7), (22, 8)] := by
  decide

end Lace.C01
