/-
  C14: both command readers split their text in the same way.
-/
import Lace.Proofs.CmdText
import Lace.Proofs.CmdUtf8
namespace Lace.C14
open Lace.Cmd

/-- One read on the remaining text `t`, with `cur` the characters of the current line so far:
the line and the text after its separator; `none` at the end of the input. -/
def readAux : List Char → List Char → Option (List Char × List Char)
  | [], cur => if cur = [] then none else some (cur, [])
  | c :: cs, cur => if isDelimiter c then some (cur, cs) else readAux cs (cur ++ [c])

/-- One read on the remaining text. -/
def nextLine (t : List Char) : Option (List Char × List Char) := readAux t []

/-- All the lines a reader yields on the text `t` (`cur`: current line so far). -/
def linesAux : List Char → List Char → List (List Char)
  | [], cur => if cur = [] then [] else [cur]
  | c :: cs, cur => if isDelimiter c then cur :: linesAux cs [] else linesAux cs (cur ++ [c])

/-- The sequence of lines on the text `t`: the maximal runs of non-separator characters, except
that nothing follows the last separator when the text ends with one. -/
def textLines (t : List Char) : List (List Char) := linesAux t []

theorem linesAux_eq (t cur : List Char) :
    linesAux t cur = match readAux t cur with
      | none => []
      | some (l, rest) => l :: linesAux rest [] := by
  induction t generalizing cur with
  | nil => simp only [linesAux, readAux]; split <;> simp_all [linesAux]
  | cons c cs ih =>
    simp only [linesAux, readAux]
    split
    · rfl
    · exact ih _

theorem textLines_eq (t : List Char) :
    textLines t = match nextLine t with
      | none => []
      | some (l, rest) => l :: textLines rest := linesAux_eq t []

theorem readAux_rest_length {t cur l rest : List Char} (h : readAux t cur = some (l, rest)) :
    rest.length ≤ t.length ∧ (t ≠ [] → rest.length < t.length) := by
  induction t generalizing cur with
  | nil => simp only [readAux] at h; split at h <;> simp_all
  | cons c cs ih =>
    simp only [readAux] at h
    split at h
    · simp at h; simp [← h.2]
    · have := ih h
      simp; omega

theorem readAux_takeWhile (t cur : List Char) :
    readAux t cur = if t = [] ∧ cur = [] then none
      else some (cur ++ t.takeWhile (fun ch => !isDelimiter ch),
                (t.dropWhile (fun ch => !isDelimiter ch)).drop 1) := by
  induction t generalizing cur with
  | nil => simp only [readAux]; split <;> simp_all
  | cons c cs ih =>
    simp only [readAux]
    by_cases hd : isDelimiter c = true
    · simp [hd]
    · simp only [hd, Bool.false_eq_true, if_false, reduceCtorEq, false_and]
      rw [ih]
      have : ¬ (cs = [] ∧ cur ++ [c] = []) := by simp
      simp [this, List.takeWhile, List.dropWhile, hd]

/-! ### `Stdin::read` -/

theorem stdinLoop_encode (t : List Char) (buf : List Char) :
    stdinLoop (encode t) buf = match readAux t buf with
      | none => .eof
      | some (l, rest) => .line l (encode rest) := by
  induction t generalizing buf with
  | nil =>
    rw [stdinLoop]
    simp only [encode_nil, readCharFromBytes, readAux]
    split <;> simp_all
  | cons c cs ih =>
    rw [stdinLoop]
    simp only [encode_cons, readAux]
    split
    · rename_i heq; rw [encode_cons, readChar_encode] at heq; simp at heq
    · rename_i heq; rw [encode_cons, readChar_encode] at heq; simp at heq
    · rename_i ch rest heq
      rw [encode_cons, readChar_encode] at heq
      simp only [ReadChar.char.injEq] at heq
      obtain ⟨h1, h2⟩ := heq
      subst h1 h2
      by_cases hd : isDelimiter c = true
      · have : c = '\n' ∨ c = ';' := by simpa [isDelimiter] using hd
        simp [hd, this]
      · have : ¬ (c = '\n' ∨ c = ';') := by simpa [isDelimiter] using hd
        simp only [hd, this, if_false, Bool.false_eq_true]
        exact ih _

/-- `Stdin::read` on the UTF-8 bytes of a text never panics and yields `nextLine`. -/
theorem stdinRead_encode (t : List Char) :
    stdinRead (encode t) = match nextLine t with
      | none => .eof
      | some (l, rest) => .line l (encode rest) := stdinLoop_encode t []

/-! ### `Argument::read` -/

/-- The text an `Argument` has still to deliver: its cursor is a character boundary and `rest`
is what follows it, or the cursor is at/after the end of the buffer and nothing is left. -/
def ArgView (a : Argument) (rest : List Char) : Prop :=
  (rest = [] ∧ a.cursor ≥ utf8Len a.buffer) ∨
  (∃ pre, a.buffer = pre ++ rest ∧ a.cursor = utf8Len pre)

theorem argView_from (s : List Char) : ArgView (Argument.from s) s :=
  .inr ⟨[], rfl, rfl⟩

theorem isDelimiter_utf8Size {c : Char} (h : isDelimiter c = true) : c.utf8Size = 1 := by
  have : c = '\n' ∨ c = ';' := by simpa [isDelimiter] using h
  rcases this with h | h <;> subst h <;> decide

/-- `Argument::read` never panics and yields `nextLine` of the remaining text. -/
theorem argRead_view {a : Argument} {rest : List Char} (hv : ArgView a rest) :
    match nextLine rest with
    | none => a.read = .eof
    | some (l, rest') => ∃ a', a.read = .line l a' ∧ ArgView a' rest' := by
  unfold nextLine
  rw [readAux_takeWhile]
  rcases hv with ⟨h1, h2⟩ | ⟨pre, hb, hc⟩
  · subst h1
    simp [Argument.read, h2]
  · by_cases hr : rest = []
    · subst hr
      have : a.cursor ≥ utf8Len a.buffer := by simp [hb, hc]
      simp [Argument.read, this]
    · simp only [hr, false_and, if_false, List.nil_append]
      have hlen : utf8Len a.buffer = utf8Len pre + utf8Len rest := by rw [hb, utf8Len_append]
      have hpos : 0 < utf8Len rest := by
        cases rest with
        | nil => exact absurd rfl hr
        | cons c cs => have := utf8Size_pos' c; simp; omega
      have hlt : ¬ a.cursor ≥ utf8Len a.buffer := by omega
      have hdrop : dropBytes a.buffer a.cursor = some rest := by rw [hb, hc, dropBytes_append]
      generalize hseg : rest.takeWhile (fun ch => !isDelimiter ch) = seg
      generalize htail : rest.dropWhile (fun ch => !isDelimiter ch) = tail
      have hsplit : rest = seg ++ tail := by
        rw [← hseg, ← htail, List.takeWhile_append_dropWhile]
      have hslice : slice a.buffer a.cursor (a.cursor + utf8Len seg) = some seg := by
        rw [hb, hc, hsplit, ← List.append_assoc]
        exact slice_append pre seg tail
      refine ⟨{ a with cursor := a.cursor + utf8Len seg + 1 }, ?_, ?_⟩
      · simp only [Argument.read, hlt, if_false, hdrop, hseg, hslice]
      · cases tail with
        | nil =>
          left
          refine ⟨rfl, ?_⟩
          simp only
          have : utf8Len rest = utf8Len seg := by rw [hsplit]; simp
          omega
        | cons d tl =>
          right
          have hdel : isDelimiter d = true := by
            have h := List.head?_dropWhile_not (fun ch => !isDelimiter ch) rest
            rw [htail] at h
            simpa using h
          refine ⟨pre ++ seg ++ [d], ?_, ?_⟩
          · simp [hb, hsplit]
          · simp only [utf8Len_append, utf8Len_cons, utf8Len_nil, isDelimiter_utf8Size hdel, hc]

end Lace.C14
