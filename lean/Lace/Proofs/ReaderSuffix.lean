/-
  The command readers consume a PREFIX of standard input, whatever bytes it holds (valid UTF-8
  or not): what `Stdin::read`, `CommandReader::read` and `Command::read_from` return as unread is
  a suffix of what they were given.  This is what makes `DbgIO.keepLast` the right way to hand
  the remainder back to the program: `fetch_rest_suffix`.
-/
import Lace.Model.DebuggerIO
namespace Lace.C09IO
open Lace Lace.Cmd Lace.DbgIO

theorem takeContinuation_suffix {n : Nat} {bytes conts rest : List UInt8}
    (h : takeContinuation n bytes = some (conts, rest)) : bytes = conts ++ rest := by
  induction n generalizing bytes conts rest with
  | zero => simp [takeContinuation] at h; simp [← h.1, h.2]
  | succ n ih =>
    cases bytes with
    | nil => simp [takeContinuation] at h
    | cons b bs =>
      simp only [takeContinuation] at h
      split at h
      · simp at h
      · split at h
        · rename_i c r hh
          simp at h
          rw [← h.1, ← h.2, ih hh]
          rfl
        · simp at h

theorem readCharFromBytes_suffix {bytes rest : List UInt8} {c : Char}
    (h : readCharFromBytes bytes = .char c rest) : ∃ pre, bytes = pre ++ rest := by
  unfold readCharFromBytes at h
  split at h
  · simp at h
  · split at h
    · simp at h
    · split at h
      · simp at h
      · rename_i byte rest0 _ _ _ _ conts rest' hh
        split at h
        · simp at h
          refine ⟨byte :: conts, ?_⟩
          rw [takeContinuation_suffix hh, ← h.2]
          rfl
        · simp at h

theorem stdinLoop_suffix {bytes rest : List UInt8} {buffer l : List Char}
    (h : stdinLoop bytes buffer = .line l rest) : ∃ pre, bytes = pre ++ rest := by
  induction hn : bytes.length using Nat.strongRecOn generalizing bytes buffer with
  | _ n ih =>
    subst hn
    rw [stdinLoop] at h
    split at h
    · simp at h
    · split at h
      · simp at h
      · simp at h; exact ⟨bytes, by rw [h.2]; simp⟩
    · rename_i ch rest' heq
      obtain ⟨pre, hpre⟩ := readCharFromBytes_suffix heq
      split at h
      · simp at h; exact ⟨pre, by rw [← h.2]; exact hpre⟩
      · obtain ⟨pre2, hpre2⟩ := ih _ (readCharFromBytes_length heq) h rfl
        exact ⟨pre ++ pre2, by rw [hpre, hpre2, List.append_assoc]⟩

theorem read_suffix {r r' : Reader} {l : List Char} (h : r.read = .line l r') :
    ∃ pre, r.stdin = pre ++ r'.stdin := by
  have stream : ∀ {r r' : Reader} {l}, r.readStream = .line l r' → ∃ pre, r.stdin = pre ++ r'.stdin := by
    intro r r' l h
    unfold Reader.readStream stdinRead at h
    split at h
    · rename_i l' rest heq
      simp at h
      obtain ⟨pre, hp⟩ := stdinLoop_suffix heq
      exact ⟨pre, by rw [← h.2]; exact hp⟩
    · simp at h
    · simp at h
  unfold Reader.read at h
  split at h
  · split at h
    · simp at h; exact ⟨[], by rw [← h.2]; rfl⟩
    · simp at h
    · exact stream h
  · exact stream h

theorem read_eof_stdin {r r' : Reader} (h : r.read = .eof r') : r'.stdin = [] := by
  have stream : ∀ {r r' : Reader}, r.readStream = .eof r' → r'.stdin = [] := by
    intro r r' h
    unfold Reader.readStream at h
    split at h
    · simp at h
    · simp at h; rw [← h]
    · simp at h
  unfold Reader.read at h
  split at h
  · split at h
    · simp at h
    · simp at h
    · exact stream h
  · exact stream h

theorem readFromLoop_suffix {r r' : Reader} {n k : Nat} {c : Command}
    (h : readFromLoop r n = .command c k r') : ∃ pre, r.stdin = pre ++ r'.stdin := by
  induction hs : r.size using Nat.strongRecOn generalizing r n with
  | _ sz ih =>
    subst hs
    rw [readFromLoop] at h
    split at h
    · simp at h
    · simp at h
    · rename_i l r1 hread
      have hlt := Reader.read_size hread
      obtain ⟨pre, hpre⟩ := read_suffix hread
      simp only at h
      split at h
      · obtain ⟨pre2, hp2⟩ := ih _ hlt h rfl
        exact ⟨pre ++ pre2, by rw [hpre, hp2, List.append_assoc]⟩
      · split at h
        · simp at h; exact ⟨pre, by rw [← h.2.2]; exact hpre⟩
        · obtain ⟨pre2, hp2⟩ := ih _ hlt h rfl
          exact ⟨pre ++ pre2, by rw [hpre, hp2, List.append_assoc]⟩
        · simp at h
        · simp at h

theorem readFromLoop_eof_stdin {r r' : Reader} {n k : Nat}
    (h : readFromLoop r n = .eof k r') : r'.stdin = [] := by
  induction hs : r.size using Nat.strongRecOn generalizing r n with
  | _ sz ih =>
    subst hs
    rw [readFromLoop] at h
    split at h
    · simp at h
    · rename_i r1 hread
      simp at h
      rw [← h.2]; exact read_eof_stdin hread
    · rename_i l r1 hread
      have hlt := Reader.read_size hread
      simp only at h
      split at h
      · exact ih _ hlt h rfl
      · split at h
        · simp at h
        · exact ih _ hlt h rfl
        · simp at h
        · simp at h

theorem bytesOf_drop (k : Nat) (inp : List Nat) : bytesOf (inp.drop k) = (bytesOf inp).drop k := by
  simp [bytesOf, List.map_drop]

/-- **`keepLast` hands back exactly what the reader left.**  For every input (any bytes): when
`fetch` returns a command, the world's new input is a suffix of the old one, and its bytes are
precisely the bytes the `CommandReader` reports as not yet read. -/
theorem fetch_rest_suffix {s s' : Src} {w w' : World} {c : Command}
    (h : fetch s w = .command c s' w') :
    ∃ pre n r', w.inp = pre ++ w'.inp ∧ w'.outRev = w.outRev ∧
      readFrom (readerOf s w) = .command c n r' ∧ r'.stdin = bytesOf w'.inp ∧
      s'.arg = r'.argument ∧ s'.nerr = s.nerr + n := by
  unfold fetch at h
  split at h
  · rename_i c0 n r hrf
    simp only [Fetch.command.injEq] at h
    obtain ⟨h1, h2, h3⟩ := h
    subst h1 h2 h3
    obtain ⟨pre, hpre⟩ := readFromLoop_suffix hrf
    simp only [readerOf] at hpre
    have hlen : (bytesOf w.inp).length = pre.length + r.stdin.length := by rw [hpre]; simp
    have hlen' : w.inp.length = pre.length + r.stdin.length := by
      rw [← hlen]; simp [bytesOf]
    have hk : keepLast w.inp r.stdin.length = w.inp.drop pre.length := by
      unfold keepLast; congr 1; omega
    refine ⟨w.inp.take pre.length, n, r, ?_, rfl, hrf, ?_, rfl, rfl⟩
    · simp only [hk]; exact (List.take_append_drop _ _).symm
    · simp only [hk, bytesOf_drop, hpre, List.drop_left]
  · simp at h
  · simp at h
  · simp at h

/-- At end of input nothing is left. -/
theorem fetch_eof_empty {s s' : Src} {w w' : World} (h : fetch s w = .eof s' w') :
    w'.inp = [] ∧ w'.outRev = w.outRev := by
  unfold fetch at h
  split at h
  · simp at h
  · rename_i n r hrf
    simp only [Fetch.eof.injEq] at h
    obtain ⟨_, h2⟩ := h
    subst h2
    have := readFromLoop_eof_stdin hrf
    simp [this, keepLast]
  · simp at h
  · simp at h

end Lace.C09IO
