/-
  The PC-relative field computed by `AsmLine::bit_offs`, as a function of the wrapped line
  difference `d = label_line − asm_line` (C15 helper).
-/
import Lace.Model.Air
namespace Lace.Asm

/-- the body of `bitOffs` for a resolved label, in terms of `d = label_pos − line` (mod 2^16) -/
def offsField (bits : Nat) (d : Word) : Option Word :=
  let offset : Int := d.toInt - 1
  let lim : Int := (2 : Int) ^ (bits - 1) - (if offset > 0 then 1 else 0)
  if offset.natAbs > lim then none
  else some (BitVec.ofInt 16 offset &&& BitVec.ofNat 16 (2 ^ bits - 1))

theorem bitOffs_ref_eq (line t bits : Nat) :
    bitOffs line (.ref t) bits =
      match offsField bits (BitVec.ofNat 16 t - BitVec.ofNat 16 line) with
      | some f => .ok f
      | none => .diag .offsetTooLarge none := by
  unfold bitOffs offsField
  simp only []
  split <;> split <;> simp_all

/-- What the specification wants of an `n`-bit PC-relative field holding the distance `e`
(`= d − 1`): it exists exactly when `e` fits, it is `e` truncated, and sign-extending it gives
`e` back.  As a Boolean, for exhaustive evaluation. -/
def fieldAgrees (n : Nat) (d : Word) : Bool :=
  let e : Word := d - 1
  let fits : Bool := decide (-(2 : Int) ^ (n - 1) ≤ e.toInt ∧ e.toInt < (2 : Int) ^ (n - 1))
  match offsField n d with
  | some f =>
    fits && f == (BitVec.ofInt n e.toInt).setWidth 16 && (BitVec.ofInt n e.toInt).signExtend 16 == e
  | none => !fits

theorem fieldAgrees_spec {n : Nat} {d : Word} (h : fieldAgrees n d = true) :
    let e : Word := d - 1
    (-(2 : Int) ^ (n - 1) ≤ e.toInt ∧ e.toInt < (2 : Int) ^ (n - 1) →
        offsField n d = some ((BitVec.ofInt n e.toInt).setWidth 16) ∧
        (BitVec.ofInt n e.toInt).signExtend 16 = e) ∧
    (¬ (-(2 : Int) ^ (n - 1) ≤ e.toInt ∧ e.toInt < (2 : Int) ^ (n - 1)) → offsField n d = none) := by
  intro e
  unfold fieldAgrees at h
  simp only [] at h
  split at h
  · rename_i f hf
    simp only [Bool.and_eq_true, decide_eq_true_eq, beq_iff_eq] at h
    obtain ⟨⟨h1, h2⟩, h3⟩ := h
    exact ⟨fun _ => ⟨by rw [hf, h2], h3⟩, fun hn => absurd h1 hn⟩
  · rename_i hf
    simp only [Bool.not_eq_true', decide_eq_false_iff_not] at h
    exact ⟨fun hy => absurd hy h, fun _ => hf⟩

end Lace.Asm
