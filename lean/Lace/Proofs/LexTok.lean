/-
  Lexer lemmas, text → token (C01 stage 2): one lemma per token class stating that
  `advance_token` on `spelling ++ rest`, where `rest` is empty or begins with a separator
  character (`Delim`), yields exactly the expected token with text `spelling` and continues at
  `rest` (`Lexes`).  Covered: registers in either case, every mnemonic and directive in every
  mixture of letter cases, every literal spelling the specification reads (`Spec.readLit`: `#d #+d
  #-d xH XH 0xH 0XH x-H x+H`, leading zeros, hex digits of either case), string literals, and
  every valid label name (`Spec.validLabel`, DESIGN.md I13).
-/
import Lace.Proofs.AsmLex
import Lace.Proofs.AsmRange
import Lace.Spec.Render
set_option linter.unusedSimpArgs false
namespace Lace.C01
open Lace.Asm Lace.Spec Lace.C04

/-! ### the specification's character classes are the lexer's -/

theorem isSepChar_eq (c : Char) : isSepChar c = isWs c := by
  simp only [isSepChar, isWs, isAsciiWs, Bool.or_assoc]

theorem isIdChar_eq (c : Char) : isIdChar c = isId c := rfl

theorem lowerChar_eq (c : Char) : lowerChar c = asciiLower c := rfl

/-- `rest` is empty or begins with a separator character: a token may end here. -/
def Delim : List Char → Prop
  | [] => True
  | c :: _ => isWs c = true

/-- a separator character is one of seven -/
theorem isWs_cases {c : Char} (h : isWs c = true) :
    c = ' ' ∨ c = '\t' ∨ c = '\n' ∨ c = Char.ofNat 12 ∨ c = '\r' ∨ c = ',' ∨ c = ':' := by
  simp only [isWs, isAsciiWs, Bool.or_eq_true, beq_iff_eq] at h
  rcases h with (((((h | h) | h) | h) | h) | h) | h
  · exact Or.inl h
  · exact Or.inr (Or.inl h)
  · exact Or.inr (Or.inr (Or.inl h))
  · exact Or.inr (Or.inr (Or.inr (Or.inl h)))
  · exact Or.inr (Or.inr (Or.inr (Or.inr (Or.inl h))))
  · exact Or.inr (Or.inr (Or.inr (Or.inr (Or.inr (Or.inl h)))))
  · exact Or.inr (Or.inr (Or.inr (Or.inr (Or.inr (Or.inr h)))))

theorem isWs_not_isId {c : Char} (h : isWs c = true) : isId c = false := by
  rcases isWs_cases h with rfl | rfl | rfl | rfl | rfl | rfl | rfl <;> decide

theorem isWs_not_isRegNum {c : Char} (h : isWs c = true) : isRegNum c = false := by
  rcases isWs_cases h with rfl | rfl | rfl | rfl | rfl | rfl | rfl <;> decide

theorem isWs_notWs {c : Char} (h : isWs c = true) : notWs c = false := by
  simp [notWs, h]

theorem isWs_ne_semi {c : Char} (h : isWs c = true) : c ≠ ';' := by
  rcases isWs_cases h with rfl | rfl | rfl | rfl | rfl | rfl | rfl <;> decide

/-- `take_while(p)` over a run of `p`-characters followed by a delimiter takes exactly the run -/
theorem takeWhile_run (p : Char → Bool) (s rest : List Char) (hs : ∀ c ∈ s, p c = true)
    (hr : ∀ c r, rest = c :: r → p c = false) :
    (s ++ rest).takeWhile p = s ∧ (s ++ rest).dropWhile p = rest := by
  induction s with
  | nil =>
    cases rest with
    | nil => exact ⟨rfl, rfl⟩
    | cons c r =>
      have := hr c r rfl
      simp [this]
  | cons c cs ih =>
    have hc := hs c List.mem_cons_self
    obtain ⟨i1, i2⟩ := ih (fun x hx => hs x (List.mem_cons_of_mem _ hx))
    simp only [List.cons_append, List.takeWhile_cons, List.dropWhile_cons, hc, if_true, i1, i2]
    exact ⟨trivial, trivial⟩

theorem Delim.not_isId {rest : List Char} (h : Delim rest) : ∀ c r, rest = c :: r → isId c = false := by
  intro c r e; subst e; exact isWs_not_isId h

theorem Delim.not_notWs {rest : List Char} (h : Delim rest) : ∀ c r, rest = c :: r → notWs c = false := by
  intro c r e; subst e; exact isWs_notWs h

theorem Delim.not_isRegNum {rest : List Char} (h : Delim rest) : ∀ c r, rest = c :: r → isRegNum c = false := by
  intro c r e; subst e; exact isWs_not_isRegNum h

/-- `advance_token` on `s ++ rest` yields the token of kind `k` with text `s` and continues at
`rest`, whenever a token may end at `rest`. -/
def Lexes (feat : Option Bool) (s : List Char) (k : TokenKind) : Prop :=
  ∀ pos rest, Delim rest → advanceToken feat pos (s ++ rest) = mkTok k pos s rest


/-! ### registers -/

theorem lexes_reg_chars (feat : Option Bool) (c d : Char) (hc : c = 'r' ∨ c = 'R') (hd : isRegNum d = true) :
    Lexes feat [c, d] (.reg (regOfChar d)) := by
  intro pos rest hdel
  obtain ⟨t1, t2⟩ := takeWhile_run isRegNum [] rest (by simp) hdel.not_isRegNum
  simp only [List.nil_append] at t1 t2
  have hd1 := isRegNum_size hd
  have hr1 : ('r' : Char).utf8Size = 1 := by decide
  have hR1 : ('R' : Char).utf8Size = 1 := by decide
  have wr : isWs 'r' = false := by decide
  have wR : isWs 'R' = false := by decide
  cases rest with
  | nil =>
    rcases hc with rfl | rfl <;>
      simp [advanceToken, List.takeWhile_cons, List.dropWhile_cons, hd, utf8Len, hd1, hr1, hR1, wr, wR]
  | cons e r =>
    simp only [Delim] at hdel
    rcases hc with rfl | rfl <;>
      simp [advanceToken, List.takeWhile_cons, List.dropWhile_cons, hd, utf8Len, hd1, hr1, hR1, wr, wR, hdel,
        isWs_not_isRegNum hdel]


/-! ### identifiers: mnemonics and labels -/

theorem isId_not_isWs {c : Char} (h : isId c = true) : isWs c = false := by
  cases hw : isWs c with
  | false => rfl
  | true => rw [isWs_not_isId hw] at h; cases h

/-- a character of an identifier that is not `x`, `X`, and is followed neither by `x` (after `0`)
nor by a register digit (after `r`) starts the identifier path -/
theorem advanceToken_isId (feat : Option Bool) (pos : Nat) (c : Char) (tail : List Char)
    (hid : isId c = true) (hx : c ≠ 'x' ∧ c ≠ 'X')
    (h0 : c = '0' → ∀ d t, tail = d :: t → d ≠ 'x' ∧ d ≠ 'X')
    (hr : (c = 'r' ∨ c = 'R') → ∀ d t, tail = d :: t → isRegNum d = false) :
    advanceToken feat pos (c :: tail) = ident feat pos [c] tail := by
  have hws := isId_not_isWs hid
  have hsemi : c ≠ ';' := by intro h; subst h; revert hid; decide
  have hhash : c ≠ '#' := by intro h; subst h; revert hid; decide
  unfold advanceToken
  simp only [beq_iff_eq, hsemi, if_false, hws, Bool.false_eq_true, hx.1, hx.2, Bool.or_self, Bool.or_eq_true]
  by_cases c0 : c = '0'
  · simp only [c0, if_true]
    cases tail with
    | nil => rfl
    | cons d t =>
      obtain ⟨a, b⟩ := h0 c0 d t rfl
      simp only [a, b, or_self, if_false]
  · simp only [c0, if_false]
    by_cases cr : c = 'r' ∨ c = 'R'
    · simp only [cr, if_true]
      cases tail with
      | nil => rfl
      | cons d t =>
        have := hr cr d t rfl
        simp only [this, Bool.false_eq_true, if_false, or_self]
    · simp only [cr, if_false, hid, if_true, or_self]

/-- the identifier path over a run of identifier characters -/
theorem identFrom_run (feat : Option Bool) (pos : Nat) (consumed pre : List Char) (identStart : Nat)
    (s' rest : List Char) (hs : ∀ c ∈ s', isId c = true) (hdel : Delim rest) :
    identFrom feat pos consumed pre identStart (s' ++ rest) =
      if isStackMnemonic (String.ofList (lowerAll (pre ++ s'))) then
        match feat with
        | none => .panic "features::stack before init"
        | some false => .diag .lexStack identStart (utf8Len (consumed ++ s'))
        | some true => mkTok (identKind (String.ofList (lowerAll (pre ++ s')))) pos (consumed ++ s') rest
      else mkTok (identKind (String.ofList (lowerAll (pre ++ s')))) pos (consumed ++ s') rest := by
  obtain ⟨t1, t2⟩ := takeWhile_run isId s' rest hs hdel.not_isId
  unfold identFrom
  simp only [t1, t2]
  split
  · cases feat with
    | none => rfl
    | some b => cases b <;> rfl
  · rfl

theorem delim_head_of_nil {rest : List Char} (hdel : Delim rest) (p : Char → Prop)
    (hp : ∀ c, isWs c = true → p c) : ∀ d t, [] ++ rest = d :: t → p d := by
  intro d t e
  simp only [List.nil_append] at e
  subst e
  exact hp d hdel

/-- **An identifier-shaped token** `c :: s'` (not beginning `x`, `0x`, `r<digit>`) is read by the
identifier path with the whole token as the identifier. -/
theorem advanceToken_ident (feat : Option Bool) (pos : Nat) (c : Char) (s' rest : List Char)
    (hid : ∀ x ∈ c :: s', isId x = true) (hx : c ≠ 'x' ∧ c ≠ 'X')
    (h0 : c = '0' → ∀ d t, s' = d :: t → d ≠ 'x' ∧ d ≠ 'X')
    (hr : (c = 'r' ∨ c = 'R') → ∀ d t, s' = d :: t → isRegNum d = false)
    (hdel : Delim rest) :
    advanceToken feat pos ((c :: s') ++ rest) =
      identFrom feat pos [c] [c] pos (s' ++ rest) := by
  have hc := hid c List.mem_cons_self
  rw [List.cons_append, advanceToken_isId feat pos c (s' ++ rest) hc hx]
  · unfold ident
    simp only [List.getLast?_singleton, isId_size hc, if_true, utf8Len]
    rfl
  · intro c0
    cases s' with
    | nil => exact delim_head_of_nil hdel _ (fun e he => by
        rcases isWs_cases he with rfl | rfl | rfl | rfl | rfl | rfl | rfl <;> decide)
    | cons d t => intro d' t' e; cases e; exact h0 c0 d t rfl
  · intro cr
    cases s' with
    | nil => exact delim_head_of_nil hdel _ (fun e he => isWs_not_isRegNum he)
    | cons d t => intro d' t' e; cases e; exact hr cr d t rfl


/-! ### letter case -/

/-- the letters mnemonics and directives are made of (no `x`) -/
def kwAlpha : List Char :=
  ['a','b','c','d','e','f','g','h','i','j','k','l','m','n','o','p','q','r','s','t','u','v','w','y','z']

/-- what the lexer needs to know about a keyword character written in either case -/
def KwChar (c c' : Char) : Prop :=
  asciiLower c' = c ∧ isId c' = true ∧ c' ≠ 'x' ∧ c' ≠ 'X' ∧ c' ≠ '0' ∧ isRegNum c' = false

theorem kwAlpha_spec : ∀ c ∈ kwAlpha, ∀ b : Bool, KwChar c (if b then upperChar c else c) := by
  unfold KwChar; decide

theorem applyCaps_kw (kw : List Char) (h : ∀ c ∈ kw, c ∈ kwAlpha) : ∀ caps : List Bool,
    lowerAll (applyCaps caps kw) = kw ∧ (applyCaps caps kw).length = kw.length ∧
    ∀ c' ∈ applyCaps caps kw, ∃ c, KwChar c c' := by
  induction kw with
  | nil => intro caps; cases caps <;> simp [applyCaps, lowerAll]
  | cons c cs ih =>
    intro caps
    have hc := h c List.mem_cons_self
    have hcs : ∀ x ∈ cs, x ∈ kwAlpha := fun x hx => h x (List.mem_cons_of_mem _ hx)
    cases caps with
    | nil =>
      have k := kwAlpha_spec c hc false
      simp only [Bool.false_eq_true, if_false] at k
      obtain ⟨i1, i2, i3⟩ := ih hcs []
      have e : applyCaps [] (c :: cs) = c :: applyCaps [] cs := by cases cs <;> rfl
      rw [e]
      refine ⟨?_, by simp [i2], ?_⟩
      · simp only [lowerAll, List.map_cons] at i1 ⊢; rw [i1, k.1]
      · intro c' hc'
        rcases List.mem_cons.mp hc' with rfl | hc'
        · exact ⟨_, k⟩
        · exact i3 c' hc'
    | cons b bs =>
      have k := kwAlpha_spec c hc b
      obtain ⟨i1, i2, i3⟩ := ih hcs bs
      simp only [applyCaps]
      refine ⟨?_, by simp [i2], ?_⟩
      · simp only [lowerAll, List.map_cons] at i1 ⊢; rw [i1, k.1]
      · intro c' hc'
        rcases List.mem_cons.mp hc' with rfl | hc'
        · exact ⟨_, k⟩
        · exact i3 c' hc'

/-- **A mnemonic in any mixture of letter cases** lexes to the token kind of its lower-case form. -/
theorem lexes_kw (feat : Option Bool) (caps : List Bool) (kw : List Char) (k : TokenKind)
    (hne : kw ≠ []) (ha : ∀ c ∈ kw, c ∈ kwAlpha)
    (hstack : isStackMnemonic (String.ofList kw) = false ∨ feat = some true)
    (hkind : identKind (String.ofList kw) = k) : Lexes feat (applyCaps caps kw) k := by
  intro pos rest hdel
  obtain ⟨l1, l2, l3⟩ := applyCaps_kw kw ha caps
  generalize hs : applyCaps caps kw = s at l1 l2 l3
  cases s with
  | nil => cases kw with
    | nil => exact (hne rfl).elim
    | cons _ _ => simp at l2
  | cons c s' =>
    obtain ⟨c0, k0⟩ := l3 c List.mem_cons_self
    have hid : ∀ x ∈ c :: s', isId x = true := fun x hx => by
      obtain ⟨_, kx⟩ := l3 x hx; exact kx.2.1
    rw [advanceToken_ident feat pos c s' rest hid ⟨k0.2.2.1, k0.2.2.2.1⟩
      (fun h => (k0.2.2.2.2.1 h).elim)
      (fun _ d t e => by
        obtain ⟨_, kd⟩ := l3 d (by rw [e]; simp); exact kd.2.2.2.2.2) hdel]
    rw [identFrom_run feat pos [c] [c] pos s' rest (fun x hx => hid x (List.mem_cons_of_mem _ hx)) hdel]
    simp only [List.singleton_append, l1, hkind]
    rcases hstack with h | h
    · simp only [h, Bool.false_eq_true, if_false]
    · subst h; split <;> rfl

/-- **A directive in any mixture of letter cases.** -/
theorem lexes_dir (feat : Option Bool) (caps : List Bool) (name : List Char) (d : DirKind)
    (ha : ∀ c ∈ name, c ∈ kwAlpha) (hd : checkDirective (String.ofList ('.' :: name)) = some d) :
    Lexes feat (applyCaps caps ('.' :: name)) (.dir d) := by
  intro pos rest hdel
  have e : applyCaps caps ('.' :: name) = '.' :: applyCaps caps.tail name := by
    cases caps with
    | nil => cases name <;> rfl
    | cons b bs => cases b <;> rfl
  obtain ⟨l1, _, l3⟩ := applyCaps_kw name ha caps.tail
  obtain ⟨t1, t2⟩ := takeWhile_run isId (applyCaps caps.tail name) rest
    (fun x hx => by obtain ⟨_, kx⟩ := l3 x hx; exact kx.2.1) hdel.not_isId
  rw [e, List.cons_append]
  have hl : lowerAll ('.' :: applyCaps caps.tail name) = '.' :: name := by
    simp only [lowerAll, List.map_cons] at l1 ⊢
    rw [l1]; rfl
  have w1 : isWs '.' = false := by decide
  have w2 : isId '.' = false := by decide
  simp only [advanceToken, dir, t1, t2, hl, hd]
  simp [w1, w2]


/-! ### numeric literals: the specification's reading vs `from_str_radix` -/

theorem toDigit_eq (radix : Nat) (c : Char) :
    toDigit radix c = match digitVal c with
      | some d => if d < radix then some d else none
      | none => none := rfl

theorem digitVal_notWs {c : Char} {d : Nat} (h : digitVal c = some d) : notWs c = true := by
  cases hw : isWs c with
  | false => simp [notWs, hw]
  | true =>
    exfalso
    have hn : digitVal c = none := by
      rcases isWs_cases hw with rfl | rfl | rfl | rfl | rfl | rfl | rfl <;> decide
    rw [hn] at h; cases h

theorem readNat_mono (radix : Nat) (hr : 1 ≤ radix) : ∀ (ds : List Char) (acc n : Nat),
    readNat radix ds acc = some n → acc ≤ n := by
  intro ds
  induction ds with
  | nil => intro acc n h; simp only [readNat, Option.some.injEq] at h; omega
  | cons c cs ih =>
    intro acc n h
    simp only [readNat] at h
    split at h
    · rename_i d hd
      split at h
      · have := ih _ _ h
        have : acc ≤ acc * radix := Nat.le_mul_of_pos_right acc hr
        omega
      · cases h
    · cases h

theorem readNat_notWs (radix : Nat) : ∀ (ds : List Char) (acc n : Nat),
    readNat radix ds acc = some n → ∀ c ∈ ds, notWs c = true := by
  intro ds
  induction ds with
  | nil => intro _ _ _ c hc; simp at hc
  | cons c cs ih =>
    intro acc n h x hx
    simp only [readNat] at h
    split at h
    · rename_i d hd
      split at h
      · rcases List.mem_cons.mp hx with rfl | hx
        · exact digitVal_notWs hd
        · exact ih _ _ h x hx
      · cases h
    · cases h

/-- the digit loop without sign: the value, when it does not exceed `hi` -/
theorem digitsLoop_ok (radix : Nat) (hr : 1 ≤ radix) (lo hi : Int) (hlo : lo ≤ 0) :
    ∀ (ds : List Char) (acc n : Nat), readNat radix ds acc = some n → (n : Int) ≤ hi →
      digitsLoop radix lo hi false ds (acc : Int) = .ok (n : Int) := by
  intro ds
  induction ds with
  | nil =>
    intro acc n h _
    simp only [readNat, Option.some.injEq] at h
    subst h; rfl
  | cons c cs ih =>
    intro acc n h hn
    simp only [readNat] at h
    split at h
    · rename_i d hd
      split at h
      · rename_i hdr
        have hm := readNat_mono radix hr _ _ _ h
        have i := ih _ _ h hn
        have e1 : ((acc * radix + d : Nat) : Int) = (acc : Int) * (radix : Int) + (d : Int) := by
          rw [Int.natCast_add, Int.natCast_mul]
        have hm' : ((acc * radix + d : Nat) : Int) ≤ (n : Int) := Int.ofNat_le.mpr hm
        have hnn : (0 : Int) ≤ (acc : Int) * (radix : Int) := by
          rw [← Int.natCast_mul]; exact Int.natCast_nonneg _
        have hdn : (0 : Int) ≤ (d : Int) := Int.natCast_nonneg _
        rw [e1] at hm' i
        simp only [digitsLoop, toDigit_eq, hd, hdr, if_true, Bool.false_eq_true, if_false]
        rw [if_neg (by omega), if_neg (by omega)]
        exact i
      · cases h
    · cases h

/-- … and an error when it does -/
theorem digitsLoop_overflow (radix : Nat) (lo hi : Int) :
    ∀ (ds : List Char) (acc n : Nat), readNat radix ds acc = some n → (acc : Int) ≤ hi → hi < (n : Int) →
      ∃ e, digitsLoop radix lo hi false ds (acc : Int) = .error e := by
  intro ds
  induction ds with
  | nil =>
    intro acc n h h1 h2
    simp only [readNat, Option.some.injEq] at h
    subst h; omega
  | cons c cs ih =>
    intro acc n h h1 h2
    simp only [readNat] at h
    split at h
    · rename_i d hd
      split at h
      · rename_i hdr
        have e1 : ((acc * radix + d : Nat) : Int) = (acc : Int) * (radix : Int) + (d : Int) := by
          rw [Int.natCast_add, Int.natCast_mul]
        simp only [digitsLoop, toDigit_eq, hd, hdr, if_true, Bool.false_eq_true, if_false]
        split
        · exact ⟨_, rfl⟩
        · split
          · exact ⟨_, rfl⟩
          · rename_i hh
            have := ih _ _ h (by rw [e1]; omega) h2
            rw [e1] at this
            exact this
      · cases h
    · cases h

/-- the digit loop after a minus sign: minus the value, when it is not below `lo` -/
theorem digitsLoop_neg (radix : Nat) (hr : 1 ≤ radix) (lo hi : Int) (hhi : 0 ≤ hi) :
    ∀ (ds : List Char) (acc n : Nat), readNat radix ds acc = some n → lo ≤ -(n : Int) →
      digitsLoop radix lo hi true ds (-(acc : Int)) = .ok (-(n : Int)) := by
  intro ds
  induction ds with
  | nil =>
    intro acc n h _
    simp only [readNat, Option.some.injEq] at h
    subst h; rfl
  | cons c cs ih =>
    intro acc n h hn
    simp only [readNat] at h
    split at h
    · rename_i d hd
      split at h
      · rename_i hdr
        have hm := readNat_mono radix hr _ _ _ h
        have i := ih _ _ h hn
        have e1 : ((acc * radix + d : Nat) : Int) = (acc : Int) * (radix : Int) + (d : Int) := by
          rw [Int.natCast_add, Int.natCast_mul]
        have hm' : ((acc * radix + d : Nat) : Int) ≤ (n : Int) := Int.ofNat_le.mpr hm
        have hnn : (0 : Int) ≤ (acc : Int) * (radix : Int) := by
          rw [← Int.natCast_mul]; exact Int.natCast_nonneg _
        have hdn : (0 : Int) ≤ (d : Int) := Int.natCast_nonneg _
        have e2 : -(acc : Int) * (radix : Int) = -((acc : Int) * (radix : Int)) := Int.neg_mul _ _
        rw [e1] at hm' i
        simp only [digitsLoop, toDigit_eq, hd, hdr, if_true, e2]
        rw [if_neg (by omega), if_neg (by omega)]
        have e3 : -((acc : Int) * (radix : Int)) - (d : Int) = -((acc : Int) * (radix : Int) + (d : Int)) := by omega
        rw [e3]
        exact i
      · cases h
    · cases h


theorem fromStrRadix_digits (signed : Bool) (radix : Nat) (c : Char) (ds : List Char)
    (hc : c ≠ '+' ∧ c ≠ '-') :
    fromStrRadix signed radix (c :: ds) =
      digitsLoop radix (if signed then -32768 else 0) (if signed then 32767 else 65535) false (c :: ds) 0 := by
  cases ds with
  | nil => simp [fromStrRadix, hc.1, hc.2]
  | cons d t => simp [fromStrRadix, hc.1, hc.2]

theorem fromStrRadix_plus (signed : Bool) (radix : Nat) (c : Char) (ds : List Char) :
    fromStrRadix signed radix ('+' :: c :: ds) =
      digitsLoop radix (if signed then -32768 else 0) (if signed then 32767 else 65535) false (c :: ds) 0 := by
  simp [fromStrRadix]

theorem fromStrRadix_minus_signed (radix : Nat) (c : Char) (ds : List Char) :
    fromStrRadix true radix ('-' :: c :: ds) = digitsLoop radix (-32768) 32767 true (c :: ds) 0 := by
  simp [fromStrRadix]

theorem digitVal_not_sign {c : Char} {d : Nat} (h : digitVal c = some d) : c ≠ '+' ∧ c ≠ '-' := by
  have h1 : digitVal '+' = none := by decide
  have h2 : digitVal '-' = none := by decide
  constructor <;> (intro e; subst e; simp_all)

/-- What the two-stage parse of the lexer (`i16::from_str_radix`, then `u16::from_str_radix`)
makes of a spelling the specification reads as `w`. -/
theorem readSigned_parse (radix : Nat) (hr : 1 ≤ radix) (body : List Char) (w : Word)
    (h : readSigned radix body = some w) :
    (∃ v, fromStrRadix true radix body = .ok v ∧ BitVec.ofInt 16 v = w) ∨
    (∃ e v, fromStrRadix true radix body = .error e ∧ fromStrRadix false radix body = .ok v ∧
      BitVec.ofInt 16 v = w) := by
  unfold readSigned at h
  cases body with
  | nil => cases h
  | cons c ds =>
    simp only [] at h
    have key : ∀ (c' : Char) (ds' : List Char) (n : Nat), readNat radix (c' :: ds') 0 = some n → n ≤ 65535 →
        (∃ v, digitsLoop radix (-32768) 32767 false (c' :: ds') 0 = .ok v ∧ BitVec.ofInt 16 v = BitVec.ofNat 16 n) ∨
        (∃ e v, digitsLoop radix (-32768) 32767 false (c' :: ds') 0 = .error e ∧
          digitsLoop radix 0 65535 false (c' :: ds') 0 = .ok v ∧ BitVec.ofInt 16 v = BitVec.ofNat 16 n) := by
      intro c' ds' n hn hle
      by_cases h15 : n ≤ 32767
      · left
        exact ⟨n, digitsLoop_ok radix hr (-32768) 32767 (by decide) _ 0 n hn (by omega), BitVec.ofInt_natCast ..⟩
      · right
        obtain ⟨e, he⟩ := digitsLoop_overflow radix (-32768) 32767 _ 0 n hn (by decide) (by omega)
        exact ⟨e, n, he, digitsLoop_ok radix hr 0 65535 (by decide) _ 0 n hn (by omega), BitVec.ofInt_natCast ..⟩
    by_cases hm : c = '-'
    · subst hm
      simp only [if_true] at h
      cases ds with
      | nil => simp at h
      | cons d t =>
        simp only [reduceCtorEq, if_false] at h
        split at h
        · rename_i n hn
          split at h
          · rename_i hle
            simp only [Option.some.injEq] at h
            left
            refine ⟨-(n : Int), ?_, h⟩
            rw [fromStrRadix_minus_signed]
            exact digitsLoop_neg radix hr (-32768) 32767 (by decide) _ 0 n hn (by omega)
          · cases h
        · cases h
    · simp only [hm, if_false] at h
      by_cases hp : c = '+'
      · subst hp
        simp only [if_true] at h
        cases ds with
        | nil => simp at h
        | cons d t =>
          simp only [reduceCtorEq, if_false] at h
          split at h
          · rename_i n hn
            split at h
            · rename_i hle
              simp only [Option.some.injEq] at h
              subst h
              rw [fromStrRadix_plus, fromStrRadix_plus]
              exact key d t n hn hle
            · cases h
          · cases h
      · simp only [hp, if_false] at h
        split at h
        · rename_i n hn
          split at h
          · rename_i hle
            simp only [Option.some.injEq] at h
            subst h
            rw [fromStrRadix_digits true radix c ds ⟨hp, hm⟩, fromStrRadix_digits false radix c ds ⟨hp, hm⟩]
            exact key c ds n hn hle
          · cases h
        · cases h

theorem readSigned_notWs (radix : Nat) (body : List Char) (w : Word) (h : readSigned radix body = some w) :
    ∀ c ∈ body, notWs c = true := by
  unfold readSigned at h
  cases body with
  | nil => cases h
  | cons c ds =>
    simp only [] at h
    have hs1 : notWs '-' = true := by decide
    have hs2 : notWs '+' = true := by decide
    by_cases hm : c = '-'
    · subst hm
      simp only [if_true] at h
      split at h
      · cases h
      · split at h
        · rename_i n hn
          intro x hx
          rcases List.mem_cons.mp hx with rfl | hx
          · exact hs1
          · exact readNat_notWs radix _ _ _ hn x hx
        · cases h
    · simp only [hm, if_false] at h
      by_cases hp : c = '+'
      · subst hp
        simp only [if_true] at h
        split at h
        · cases h
        · split at h
          · rename_i n hn
            intro x hx
            rcases List.mem_cons.mp hx with rfl | hx
            · exact hs2
            · exact readNat_notWs radix _ _ _ hn x hx
          · cases h
      · simp only [hp, if_false] at h
        split at h
        · rename_i n hn
          exact readNat_notWs radix _ _ _ hn
        · cases h


theorem dec_run (pos : Nat) (body rest : List Char) (w : Word) (h : readSigned 10 body = some w)
    (hdel : Delim rest) :
    dec pos ['#'] (body ++ rest) = mkTok (.lit (.dec w)) pos ('#' :: body) rest := by
  obtain ⟨t1, t2⟩ := takeWhile_run notWs body rest (readSigned_notWs 10 body w h) hdel.not_notWs
  unfold dec
  simp only [t1, t2, List.singleton_append]
  rcases readSigned_parse 10 (by decide) body w h with ⟨v, h1, h2⟩ | ⟨e, v, h1, h2, h3⟩
  · rw [h1]; simp only [h2]
  · rw [h1]; simp only [h2, h3]

theorem hex_run (feat : Option Bool) (pos : Nat) (pre body rest : List Char) (w : Word)
    (h : readSigned 16 body = some w) (hdel : Delim rest) :
    hex feat pos pre (body ++ rest) = mkTok (.lit (.hex w)) pos (pre ++ body) rest := by
  obtain ⟨t1, t2⟩ := takeWhile_run notWs body rest (readSigned_notWs 16 body w h) hdel.not_notWs
  unfold hex
  simp only [t1, t2]
  rcases readSigned_parse 16 (by decide) body w h with ⟨v, h1, h2⟩ | ⟨e, v, h1, h2, h3⟩
  · rw [h1]; simp only [h2]
  · rw [h1]; simp only [h2, h3]

/-- **Every literal spelling the specification reads** lexes to a literal token of that word
(decimal for `#…`, hexadecimal for `x… X… 0x… 0X…`). -/
theorem lexes_lit (feat : Option Bool) (sp : List Char) (w : Word) (h : readLit sp = some w) :
    ∃ k, litWord k = some w ∧ Lexes feat sp k := by
  unfold readLit at h
  split at h
  · rename_i body
    refine ⟨.lit (.dec w), rfl, ?_⟩
    intro pos rest hdel
    have := dec_run pos body rest w h hdel
    have w1 : isWs '#' = false := by decide
    have w2 : isId '#' = false := by decide
    simp only [List.cons_append, advanceToken]
    simp [w1, w2, this]
  · rename_i body
    refine ⟨.lit (.hex w), rfl, ?_⟩
    intro pos rest hdel
    have := hex_run feat pos ['x'] body rest w h hdel
    have w1 : isWs 'x' = false := by decide
    simp only [List.cons_append, advanceToken]
    simp [w1, this]
  · rename_i body
    refine ⟨.lit (.hex w), rfl, ?_⟩
    intro pos rest hdel
    have := hex_run feat pos ['X'] body rest w h hdel
    have w1 : isWs 'X' = false := by decide
    simp only [List.cons_append, advanceToken]
    simp [w1, this]
  · rename_i body
    refine ⟨.lit (.hex w), rfl, ?_⟩
    intro pos rest hdel
    have := hex_run feat pos ['0', 'x'] body rest w h hdel
    have w1 : isWs '0' = false := by decide
    simp only [List.cons_append, advanceToken]
    simp [w1, this]
  · rename_i body
    refine ⟨.lit (.hex w), rfl, ?_⟩
    intro pos rest hdel
    have := hex_run feat pos ['0', 'X'] body rest w h hdel
    have w1 : isWs '0' = false := by decide
    simp only [List.cons_append, advanceToken]
    simp [w1, this]
  · cases h


/-! ### string literals -/

theorem strLoop_body (body : List Char) (h : strBodyOk body = true) : ∀ (rest acc : List Char),
    strLoop (body ++ '"' :: rest) acc = (true, '"' :: (body.reverse ++ acc), rest) := by
  fun_induction strBodyOk body with
  | case1 =>
    intro rest acc
    rw [List.nil_append, strLoop.eq_def]
    simp
  | case2 c cs hc => simp at h
  | case3 c hc hb => simp at h
  | case4 c hc hb d ds ih =>
    intro rest acc
    have h' : strBodyOk ds = true := by simpa [strBodyOk, hc, hb] using h
    simp only [Bool.or_eq_true, beq_iff_eq, not_or] at hc
    simp only [beq_iff_eq] at hb
    subst hb
    rw [List.cons_append, List.cons_append, strLoop.eq_def]
    simp only [ih h', List.reverse_cons, List.append_assoc, List.cons_append, List.nil_append]
    simp
  | case5 c cs hc hb ih =>
    intro rest acc
    have h' : strBodyOk cs = true := by simpa [strBodyOk, hc, hb] using h
    simp only [Bool.or_eq_true, beq_iff_eq, not_or] at hc
    simp only [beq_iff_eq] at hb
    rw [List.cons_append, strLoop.eq_def]
    simp only [beq_iff_eq, hc.1, hc.2, hb, if_false]
    simp only [ih h', List.reverse_cons, List.append_assoc, List.cons_append, List.nil_append]

/-- **A string literal** `"body"` (whatever follows the closing quote). -/
theorem lexes_str (feat : Option Bool) (body : List Char) (h : strBodyOk body = true) :
    Lexes feat ('"' :: (body ++ ['"'])) (.lit .str) := by
  intro pos rest _
  have w1 : isWs '"' = false := by decide
  have w2 : isId '"' = false := by decide
  have e : ('"' :: (body ++ ['"'])) ++ rest = '"' :: (body ++ '"' :: rest) := by simp
  rw [e]
  simp only [advanceToken, str, strLoop_body body h]
  simp [w1, w2]


/-! ### labels (DESIGN.md I13) -/

theorem keywords_key {cs : List Char} (h : keywords.contains cs = false) :
    ∀ s : String, String.ofList cs = s → keywords.contains s.toList = false := by
  intro s e; rw [← e, String.toList_ofList]; exact h

theorem instr_none (cs : List Char) (h : keywords.contains cs = false) :
    instrOfIdent (String.ofList cs) = none := by
  have key := keywords_key h
  unfold instrOfIdent
  split <;> first | rfl | (exfalso; rename_i heq; have := key _ heq; revert this; decide)

theorem trap_none (cs : List Char) (h : keywords.contains cs = false) :
    trapOfIdent (String.ofList cs) = none := by
  have key := keywords_key h
  unfold trapOfIdent
  split <;> first | rfl | (exfalso; rename_i heq; have := key _ heq; revert this; decide)

/-- a name that is no mnemonic is a label for `check_instruction` / `check_trap` … -/
theorem identKind_label (cs : List Char) (h : keywords.contains cs = false) :
    identKind (String.ofList cs) = .label := by
  simp only [identKind, instr_none cs h, trap_none cs h]

/-- … and is not gated by the stack feature -/
theorem isStack_false (cs : List Char) (h : keywords.contains cs = false) :
    isStackMnemonic (String.ofList cs) = false := by
  have key := keywords_key h
  simp only [isStackMnemonic, Bool.or_eq_false_iff, beq_eq_false_iff_ne]
  refine ⟨⟨⟨?_, ?_⟩, ?_⟩, ?_⟩ <;> (intro e; have := key _ e; revert this; decide)

/-- the identifier path on a whole name that is no mnemonic -/
theorem identFrom_label (feat : Option Bool) (pos : Nat) (consumed pre : List Char) (identStart : Nat)
    (s' rest : List Char) (hs : ∀ c ∈ s', isId c = true) (hdel : Delim rest)
    (hk : keywords.contains (lowerAll (pre ++ s')) = false) :
    identFrom feat pos consumed pre identStart (s' ++ rest) = mkTok .label pos (consumed ++ s') rest := by
  rw [identFrom_run feat pos consumed pre identStart s' rest hs hdel, isStack_false _ hk, identKind_label _ hk]
  simp

theorem hexScan_error (lo hi : Int) : ∀ (ds : List Char) (acc : Int) (n : Nat), hexScan ds n = true →
    ∃ e, digitsLoop 16 lo hi false ds acc = .error e := by
  intro ds
  induction ds with
  | nil => intro _ _ h; simp [hexScan] at h
  | cons c cs ih =>
    intro acc n h
    simp only [hexScan] at h
    simp only [digitsLoop, toDigit_eq]
    split at h
    · rename_i d hd
      simp only [hd]
      split at h
      · rename_i hlt
        simp only [hlt, if_true, Bool.false_eq_true, if_false]
        split at h
        · split
          · exact ⟨_, rfl⟩
          · split
            · exact ⟨_, rfl⟩
            · exact ih _ _ h
        · cases h
      · rename_i hlt
        simp only [hlt, if_false]
        exact ⟨_, rfl⟩
    · rename_i hd
      simp only [hd]
      exact ⟨_, rfl⟩

theorem hexScan_invalid : ∀ (ds : List Char) (acc : Nat), hexScan ds acc = true →
    digitsLoop 16 0 65535 false ds (acc : Int) = .error .invalidDigit := by
  intro ds
  induction ds with
  | nil => intro _ h; simp [hexScan] at h
  | cons c cs ih =>
    intro acc h
    simp only [hexScan] at h
    simp only [digitsLoop, toDigit_eq]
    split at h
    · rename_i d hd
      simp only [hd]
      split at h
      · rename_i hlt
        simp only [hlt, if_true, Bool.false_eq_true, if_false]
        split at h
        · rename_i hle
          have e1 : ((acc * 16 + d : Nat) : Int) = (acc : Int) * ((16 : Nat) : Int) + (d : Int) := by
            rw [Int.natCast_add, Int.natCast_mul]
          have hle' : ((acc * 16 + d : Nat) : Int) ≤ 65535 := by omega
          have hnn : (0 : Int) ≤ (acc : Int) * ((16 : Nat) : Int) := by
            rw [← Int.natCast_mul]; exact Int.natCast_nonneg _
          have hdn : (0 : Int) ≤ (d : Int) := Int.natCast_nonneg _
          rw [e1] at hle'
          rw [if_neg (by omega), if_neg (by omega), ← e1]
          exact ih _ h
        · cases h
      · rename_i hlt
        simp only [hlt, if_false]
    · rename_i hd
      simp only [hd]

theorem isId_not_sign {c : Char} (h : isId c = true) : c ≠ '+' ∧ c ≠ '-' := by
  constructor <;> (intro e; subst e; revert h; decide)

/-- after an `x` / `0x` prefix, text that is not a hexadecimal number sends the whole token down
the identifier path -/
theorem hex_label (feat : Option Bool) (pos : Nat) (pre t rest : List Char)
    (hid : ∀ c ∈ t, isId c = true) (hl : hexLabel t = true) (hdel : Delim rest) :
    hex feat pos pre (t ++ rest) = identFrom feat pos (pre ++ t) (pre ++ t) pos rest := by
  obtain ⟨t1, t2⟩ := takeWhile_run notWs t rest
    (fun c hc => by simp [notWs, isId_not_isWs (hid c hc)]) hdel.not_notWs
  unfold hex
  simp only [t1, t2]
  cases t with
  | nil => rfl
  | cons c ds =>
    have hs := isId_not_sign (hid c List.mem_cons_self)
    simp only [hexLabel, List.isEmpty_cons, Bool.false_or] at hl
    obtain ⟨e, he⟩ := hexScan_error (-32768) 32767 (c :: ds) 0 0 hl
    have hu := hexScan_invalid (c :: ds) 0 hl
    rw [fromStrRadix_digits true 16 c ds hs, fromStrRadix_digits false 16 c ds hs]
    simp only [if_true, Bool.false_eq_true, if_false]
    rw [he]
    simp only []
    have : ((0 : Nat) : Int) = 0 := rfl
    rw [this] at hu
    rw [hu]


theorem keywords_head_alpha' : ∀ kw ∈ keywords,
    (match kw with | h :: _ => decide (h ∈ kwAlpha) | [] => false) = true := by decide

theorem keywords_head_alpha : ∀ kw ∈ keywords, ∃ h t, kw = h :: t ∧ h ∈ kwAlpha := by
  intro kw hk
  have := keywords_head_alpha' kw hk
  cases kw with
  | nil => simp at this
  | cons h t => exact ⟨h, t, rfl, by simpa using this⟩

theorem kwAlpha_not_regnum : ∀ a ∈ kwAlpha, isRegNum a = false := by decide

theorem regnum_lower {l : Char} (h : isRegNum l = true) : asciiLower l = l := by
  simp only [isRegNum, Bool.and_eq_true, decide_eq_true_eq] at h
  have h7 : l.val.toNat ≤ 55 := UInt32.le_iff_toNat_le.mp h.2
  have hA : ¬ ('A' ≤ l) := by
    intro hA
    have : (65:Nat) ≤ l.val.toNat := UInt32.le_iff_toNat_le.mp hA
    omega
  simp only [asciiLower, hA, false_and, if_false]

/-- no mnemonic begins with a register digit -/
theorem keywords_not_digit (l : Char) (t : List Char) (h : isRegNum l = true) :
    keywords.contains (lowerAll (l :: t)) = false := by
  cases hc : keywords.contains (lowerAll (l :: t)) with
  | false => rfl
  | true =>
    exfalso
    have hm : lowerAll (l :: t) ∈ keywords := List.contains_iff_mem.mp hc
    obtain ⟨a, b, e, ha⟩ := keywords_head_alpha _ hm
    simp only [lowerAll, List.map_cons, regnum_lower h, List.cons.injEq] at e
    rw [← e.1] at ha
    rw [kwAlpha_not_regnum l ha] at h
    cases h

theorem isId_ne_nul {c : Char} (h : isId c = true) : (c == Char.ofNat 0) = false := by
  cases hc : c == Char.ofNat 0 with
  | false => rfl
  | true =>
    have : c = Char.ofNat 0 := by simpa using hc
    subst this; revert h; decide

/-- `r` / `R`, a register digit and at least one more identifier character: a label (the
identifier is re-read from the last digit, which no mnemonic begins with) -/
theorem rdigit_label (feat : Option Bool) (c d : Char) (t : List Char) (hc : c = 'r' ∨ c = 'R')
    (hd : isRegNum d = true) (ht : t ≠ []) (hid : ∀ x ∈ t, isId x = true) :
    Lexes feat (c :: d :: t) .label := by
  intro pos rest hdel
  have hsplit := List.takeWhile_append_dropWhile (p := isRegNum) (l := t)
  generalize h1 : t.takeWhile isRegNum = t1 at hsplit
  generalize h2 : t.dropWhile isRegNum = t2 at hsplit
  have ht1 : ∀ x ∈ t1, isRegNum x = true := by
    intro x hx; rw [← h1] at hx; exact mem_takeWhile_imp' hx
  have ht2id : ∀ x ∈ t2, isId x = true := by
    intro x hx; apply hid; rw [← hsplit]; exact List.mem_append_right _ hx
  have hhead : ∀ e r, t2 ++ rest = e :: r → isRegNum e = false := by
    intro e r he
    cases t2 with
    | nil => exact hdel.not_isRegNum e r he
    | cons a b =>
      simp only [List.cons_append, List.cons.injEq] at he
      rw [← he.1]
      have hne : t.dropWhile isRegNum ≠ [] := by rw [h2]; simp
      have := List.head_dropWhile_not isRegNum hne
      simp only [h2, List.head_cons] at this
      simpa using this
  obtain ⟨r1, r2⟩ := takeWhile_run isRegNum (d :: t1) (t2 ++ rest)
    (fun x hx => by rcases List.mem_cons.mp hx with rfl | hx; exact hd; exact ht1 x hx) hhead
  have etext : (c :: d :: t) ++ rest = c :: ((d :: t1) ++ (t2 ++ rest)) := by
    rw [← hsplit]; simp
  have wc : isWs c = false := by rcases hc with rfl | rfl <;> decide
  have c1 : c.utf8Size = 1 := by rcases hc with rfl | rfl <;> decide
  have d1 := isRegNum_size hd
  have hlast : (c :: d :: t1).getLast? = some ((d :: t1).getLast (by simp)) := by
    rw [List.getLast?_cons_of_ne_nil (by simp)]; exact List.getLast?_eq_some_getLast _
  have hreg : isRegNum ((d :: t1).getLast (by simp)) = true := by
    have := List.getLast_mem (l := d :: t1) (by simp)
    rcases List.mem_cons.mp this with e | hx
    · rw [e]; exact hd
    · exact ht1 _ hx
  have hsemi : (c == ';') = false := by rcases hc with rfl | rfl <;> decide
  have hxx : (c == 'x' || c == 'X') = false := by rcases hc with rfl | rfl <;> decide
  have h00 : (c == '0') = false := by rcases hc with rfl | rfl <;> decide
  have hrr : (c == 'r' || c == 'R') = true := by rcases hc with rfl | rfl <;> decide
  rw [etext]
  unfold advanceToken
  simp only [hsemi, wc, hxx, h00, hrr, Bool.false_eq_true, if_false, if_true, List.cons_append, hd]
  simp only [← List.cons_append, r1, r2]
  have hfin : ident feat pos (c :: d :: t1) (t2 ++ rest) = mkTok .label pos (c :: d :: t) rest := by
    unfold ident
    simp only [hlast, isRegNum_size hreg, if_true]
    rw [identFrom_label feat pos _ _ _ t2 rest ht2id hdel (keywords_not_digit _ _ hreg)]
    rw [← hsplit]
    simp
  cases t1 with
  | cons a b =>
    have a1 : 1 ≤ a.utf8Size := utf8Size_pos' a
    have hne : (utf8Len (c :: d :: a :: b) == 2) = false := by
      simp only [utf8Len, c1, d1]
      cases hb : (1 + (1 + (a.utf8Size + utf8Len b)) == 2) with
      | false => rfl
      | true => have := eq_of_beq hb; omega
    simp only [hne, Bool.false_and, Bool.false_eq_true, if_false]
    exact hfin
  | nil =>
    simp only [List.nil_append] at hsplit
    subst hsplit
    cases t2 with
    | nil => exact (ht rfl).elim
    | cons a b =>
      have ha' := hid a List.mem_cons_self
      simp only [List.cons_append, isId_not_isWs ha', isId_ne_nul ha', Bool.or_self, Bool.and_false,
        Bool.false_eq_true, if_false]
      exact hfin

theorem hexprefix_label (feat : Option Bool) (pos : Nat) (pre t rest : List Char)
    (hid : ∀ c ∈ t, isId c = true) (hl : hexLabel t = true) (hdel : Delim rest)
    (hk : keywords.contains (lowerAll (pre ++ t)) = false) :
    hex feat pos pre (t ++ rest) = mkTok .label pos (pre ++ t) rest := by
  rw [hex_label feat pos pre t rest hid hl hdel]
  have := identFrom_label feat pos (pre ++ t) (pre ++ t) pos [] rest (by simp) hdel (by simpa using hk)
  simpa using this

/-- **Every valid label name lexes to a label token** (DESIGN.md I13), also those that begin like
a hexadecimal literal (`x1g`, `0xZ`) or like a register (`r1x`, `R23`). -/
theorem lexes_label (feat : Option Bool) (name : List Char) (h : validLabel name = true) :
    Lexes feat name .label := by
  unfold validLabel at h
  simp only [Bool.and_eq_true, Bool.not_eq_true', List.all_eq_true] at h
  obtain ⟨⟨⟨⟨hne, hall⟩, hkw⟩, hreg⟩, hhex⟩ := h
  have hid : ∀ x ∈ name, isId x = true := hall
  have hk : keywords.contains (lowerAll name) = false := hkw
  cases name with
  | nil => simp at hne
  | cons c s' =>
    have hs' : ∀ x ∈ s', isId x = true := fun x hx => hid x (List.mem_cons_of_mem _ hx)
    by_cases cx : c = 'x'
    · subst cx
      have hh : hexLabel s' = true := hhex
      intro pos rest hdel
      have w1 : isWs 'x' = false := by decide
      have := hexprefix_label feat pos ['x'] s' rest hs' hh hdel hk
      simp only [List.cons_append, advanceToken]
      simpa [w1] using this
    by_cases cX : c = 'X'
    · subst cX
      have hh : hexLabel s' = true := hhex
      intro pos rest hdel
      have w1 : isWs 'X' = false := by decide
      have := hexprefix_label feat pos ['X'] s' rest hs' hh hdel hk
      simp only [List.cons_append, advanceToken]
      simpa [w1] using this
    by_cases c0 : c = '0'
    · subst c0
      have w1 : isWs '0' = false := by decide
      cases s' with
      | nil =>
        intro pos rest hdel
        rw [advanceToken_ident feat pos '0' [] rest hid (by decide) (fun _ d t e => by cases e)
          (fun h => by rcases h with h | h <;> cases h) hdel]
        exact identFrom_label feat pos ['0'] ['0'] pos [] rest (by simp) hdel hk
      | cons d t =>
        have ht : ∀ x ∈ t, isId x = true := fun x hx => hs' x (List.mem_cons_of_mem _ hx)
        by_cases dx : d = 'x'
        · subst dx
          have hh : hexLabel t = true := hhex
          intro pos rest hdel
          have := hexprefix_label feat pos ['0', 'x'] t rest ht hh hdel hk
          simp only [List.cons_append, advanceToken]
          simpa [w1] using this
        by_cases dX : d = 'X'
        · subst dX
          have hh : hexLabel t = true := hhex
          intro pos rest hdel
          have := hexprefix_label feat pos ['0', 'X'] t rest ht hh hdel hk
          simp only [List.cons_append, advanceToken]
          simpa [w1] using this
        intro pos rest hdel
        rw [advanceToken_ident feat pos '0' (d :: t) rest hid (by decide)
          (fun _ d' t' e => by cases e; exact ⟨dx, dX⟩)
          (fun h => by rcases h with h | h <;> cases h) hdel]
        exact identFrom_label feat pos ['0'] ['0'] pos (d :: t) rest hs' hdel hk
    by_cases cr : c = 'r' ∨ c = 'R'
    · cases s' with
      | nil =>
        intro pos rest hdel
        rw [advanceToken_ident feat pos c [] rest hid ⟨cx, cX⟩ (fun h => (c0 h).elim)
          (fun _ d t e => by cases e) hdel]
        exact identFrom_label feat pos [c] [c] pos [] rest (by simp) hdel hk
      | cons d t =>
        by_cases hd : isRegNum d = true
        · have ht : t ≠ [] := by
            intro e; subst e
            simp only [isRegName, Bool.and_eq_false_iff] at hreg
            rcases hreg with h | h
            · rcases cr with rfl | rfl <;> simp at h
            · simp only [isRegNum, Bool.and_eq_true] at hd; rcases h with h | h <;> simp [hd.1, hd.2] at h
          exact rdigit_label feat c d t cr hd ht (fun x hx => hs' x (List.mem_cons_of_mem _ hx))
        · intro pos rest hdel
          rw [advanceToken_ident feat pos c (d :: t) rest hid ⟨cx, cX⟩ (fun h => (c0 h).elim)
            (fun _ d' t' e => by cases e; simpa using hd) hdel]
          exact identFrom_label feat pos [c] [c] pos (d :: t) rest hs' hdel hk
    · intro pos rest hdel
      rw [advanceToken_ident feat pos c s' rest hid ⟨cx, cX⟩ (fun h => (c0 h).elim)
        (fun h => (cr h).elim) hdel]
      exact identFrom_label feat pos [c] [c] pos s' rest hs' hdel hk

end Lace.C01
