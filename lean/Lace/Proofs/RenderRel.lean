/-
  `render L P` is a text the preprocessor lemma applies to (C01 stage 3, first half): for a
  well-formed layout, `TextRel (some flag) L.trail 0 (render L P) (progETok L.names P) (progESpans L P)`
  — every token of the rendered program is a separator-and-token piece the lexer lemmas cover, grouped
  as the preprocessor consumes them, the expected parser tokens are the program's, and their spans are
  where `render` put them (`Proofs/TextSpans.lean`; C17).
-/
import Lace.Proofs.PreRender
import Lace.Proofs.ParseProg
import Lace.Proofs.TextSpans
set_option linter.unusedSimpArgs false
namespace Lace.C01
open Lace.Asm Lace.Spec Lace.C04

/-! ### separators of a well-formed layout -/

theorem sepOk_gap {g : List Char} (h : sepOk g = true) : gapAux false false g = true := by
  simp only [sepOk, Bool.and_eq_true] at h; exact h.2

theorem sepOk_delim {g : List Char} (h : sepOk g = true) (rest : List Char) : Delim (g ++ rest) := by
  cases g with
  | nil => simp [sepOk] at h
  | cons c cs =>
    simp only [sepOk, Bool.and_eq_true, isSepChar_eq] at h
    exact h.1

theorem trailOk_delim {g : List Char} (h : trailOk g = true) : Delim g := by
  cases g with
  | nil => trivial
  | cons c cs =>
    simp only [trailOk, Bool.and_eq_true, isSepChar_eq] at h
    exact h.1

theorem endAt_spec {g : List Char} (h : endAt g = true) :
    ∃ s junk, g = s ++ junk ∧ EndSpelled s ∧ ∀ c r, junk = c :: r → isId c = false := by
  unfold endAt at h
  split at h
  · rename_i e n d rest
    simp only [Bool.and_eq_true, Bool.or_eq_true, beq_iff_eq] at h
    refine ⟨['.', e, n, d], rest, rfl, ⟨e, n, d, rfl, h.1.1.1, h.1.1.2, h.1.2⟩, ?_⟩
    intro c r hr
    subst hr
    simpa [isIdChar_eq] using h.2
  · cases h

/-- a trail is a gap up to the end of the text, or a closed gap, `.end` and ignored text -/
theorem trailAux_split : ∀ (g : List Char) (st : Bool), trailAux st g = true →
    gapAux true st g = true ∨
    ∃ g0 s junk, g = g0 ++ (s ++ junk) ∧ gapAux false st g0 = true ∧ EndSpelled s ∧
      ∀ c r, junk = c :: r → isId c = false := by
  intro g
  induction g with
  | nil => intro st _; left; cases st <;> rfl
  | cons c cs ih =>
    intro st h
    cases st with
    | true =>
      simp only [trailAux] at h
      cases hc : (c == '\n') with
      | true =>
        simp only [hc, if_true] at h
        rcases ih false h with h1 | ⟨g0, s, junk, e, hg, hs, hj⟩
        · left; simp only [gapAux, hc, if_true, h1]
        · right; exact ⟨c :: g0, s, junk, by rw [e]; rfl, by simp only [gapAux, hc, if_true, hg], hs, hj⟩
      | false =>
        simp only [hc, Bool.false_eq_true, if_false] at h
        rcases ih true h with h1 | ⟨g0, s, junk, e, hg, hs, hj⟩
        · left; simp only [gapAux, hc, Bool.false_eq_true, if_false, h1]
        · right
          exact ⟨c :: g0, s, junk, by rw [e]; rfl,
            by simp only [gapAux, hc, Bool.false_eq_true, if_false, hg], hs, hj⟩
    | false =>
      simp only [trailAux] at h
      cases hc : (c == ';') with
      | true =>
        simp only [hc, if_true] at h
        rcases ih true h with h1 | ⟨g0, s, junk, e, hg, hs, hj⟩
        · left; simp only [gapAux, hc, if_true, h1]
        · right; exact ⟨c :: g0, s, junk, by rw [e]; rfl, by simp only [gapAux, hc, if_true, hg], hs, hj⟩
      | false =>
        simp only [hc, Bool.false_eq_true, if_false] at h
        cases he : endAt (c :: cs) with
        | true =>
          obtain ⟨s, junk, e, hs, hj⟩ := endAt_spec he
          right; exact ⟨[], s, junk, e, rfl, hs, hj⟩
        | false =>
          simp only [he, Bool.false_eq_true, if_false, Bool.and_eq_true] at h
          rcases ih false h.2 with h1 | ⟨g0, s, junk, e, hg, hs, hj⟩
          · left; simp only [gapAux, hc, Bool.false_eq_true, if_false, h.1, h1, Bool.and_self]
          · right
            exact ⟨c :: g0, s, junk, by rw [e]; rfl,
              by simp only [gapAux, hc, Bool.false_eq_true, if_false, h.1, hg, Bool.and_self], hs, hj⟩

/-- after a well-formed trail the preprocessor stops -/
theorem trailOk_ends (feat : Option Bool) {g : List Char} (h : trailOk g = true) : TrailEnds feat g := by
  simp only [trailOk, Bool.and_eq_true] at h
  rcases trailAux_split g false h.2 with h1 | ⟨g0, s, junk, e, hg, hs, hj⟩
  · exact trailEnds_eof feat g h1
  · rw [e]; exact trailEnds_end feat g0 s junk hg hs hj

theorem okToks_cons {names : Nat → List Char} {first : Bool} {ls : List TokLay} {t : Tok} {ts : List Tok}
    (h : okToks names first ls (t :: ts) = true) :
    gapAux false false (ls.headD {}).sep = true ∧ t.ok names (ls.headD {}) = true ∧
    okToks names false ls.tail ts = true := by
  simp only [okToks, Bool.and_eq_true] at h
  refine ⟨?_, h.1.2, h.2⟩
  cases first with
  | true => simpa [leadOk] using h.1.1
  | false => exact sepOk_gap (by simpa using h.1.1)

theorem renderToks_cons (names : Nat → List Char) (ls : List TokLay) (t : Tok) (ts : List Tok) :
    renderToks names ls (t :: ts) =
      (ls.headD {}).sep ++ (t.spell names (ls.headD {}) ++ renderToks names ls.tail ts) := rfl

/-- what follows a token of a well-formed layout is a delimiter -/
theorem delim_render {names : Nat → List Char} {ls : List TokLay} {ts : List Tok} {trail : List Char}
    (h : okToks names false ls ts = true) (htr : trailOk trail = true) :
    Delim (renderToks names ls ts ++ trail) := by
  cases ts with
  | nil => exact trailOk_delim htr
  | cons t ts =>
    simp only [okToks, Bool.and_eq_true, Bool.false_eq_true, if_false] at h
    rw [renderToks_cons, List.append_assoc]
    exact sepOk_delim h.1.1 _

/-! ### operands -/

/-- the operand a token spells -/
def _root_.Lace.Spec.Tok.opnd (names : Nat → List Char) : Tok → Option Opnd
  | .reg r => some (.reg r)
  | .lit w => some (.lit w)
  | .label id => some (.label (names id))
  | _ => none

theorem reg_caps : ∀ (r : BitVec 3) (b1 b2 : Bool),
    applyCaps [b1, b2] (regText r) = [if b1 then 'R' else 'r', Char.ofNat (48 + r.toNat)] ∧
    isRegNum (Char.ofNat (48 + r.toNat)) = true ∧ regOfChar (Char.ofNat (48 + r.toNat)) = r := by
  decide

theorem applyCaps_two (caps : List Bool) (a b : Char) :
    applyCaps caps [a, b] = applyCaps [caps.getD 0 false, caps.getD 1 false] [a, b] := by
  cases caps with
  | nil => rfl
  | cons b1 r =>
    cases r with
    | nil => rfl
    | cons b2 r' => cases r' <;> rfl

theorem lexes_reg (feat : Option Bool) (caps : List Bool) (r : BitVec 3) :
    Lexes feat (applyCaps caps (regText r)) (.reg r) ∧ applyCaps caps (regText r) ≠ [] := by
  have e : applyCaps caps (regText r) = applyCaps [caps.getD 0 false, caps.getD 1 false] (regText r) :=
    applyCaps_two caps _ _
  obtain ⟨h1, h2, h3⟩ := reg_caps r (caps.getD 0 false) (caps.getD 1 false)
  rw [e, h1]
  refine ⟨?_, by simp⟩
  have := lexes_reg_chars feat (if caps.getD 0 false then 'R' else 'r') _
    (by cases caps.getD 0 false <;> simp) h2
  rw [h3] at this
  exact this

/-- an operand token of a well-formed layout: lexed to a plain token that matches the operand -/
theorem opnd_piece (feat : Option Bool) (names : Nat → List Char) (l : TokLay) (t : Tok) (o : Opnd)
    (ho : t.opnd names = some o) (hok : t.ok names l = true) :
    ∃ k, Lexes feat (t.spell names l) k ∧ t.spell names l ≠ [] ∧ isPlain k = true ∧
      ∀ sp, (ETok.opnd o).Matches ⟨k, sp, t.spell names l⟩ := by
  cases t with
  | kw s alt => cases ho
  | str b => cases ho
  | reg r =>
    cases ho
    obtain ⟨h1, h2⟩ := lexes_reg feat l.caps r
    exact ⟨.reg r, h1, h2, rfl, fun _ => rfl⟩
  | lit w =>
    cases ho
    have hr : readLit l.lit = some w := by simpa [Tok.ok] using hok
    obtain ⟨k, hk, hl⟩ := lexes_lit feat l.lit w hr
    refine ⟨k, hl, ?_, ?_, fun _ => hk⟩
    · intro e
      simp only [Tok.spell] at e
      rw [e] at hr
      cases hr
    · cases k <;> first | rfl | cases hk
  | label id =>
    cases ho
    have hv : validLabel (names id) = true := hok
    refine ⟨.label, lexes_label feat _ hv, ?_, rfl, fun _ => ⟨rfl, rfl⟩⟩
    intro e
    simp only [Tok.spell] at e
    rw [e] at hv
    cases hv

/-! ### mnemonics -/

/-- `name` is a mnemonic of kind `k` that the lexer accepts under `flag` -/
structure KwFor (flag : Bool) (name : List Char) (k : TokenKind) : Prop where
  ne : name ≠ []
  alpha : ∀ c ∈ name, c ∈ kwAlpha
  kind : identKind (String.ofList name) = k
  stack : isStackMnemonic (String.ofList name) = false ∨ flag = true

def Head.kind : Head → TokenKind
  | .instr k => .instr k
  | .trap k => .trap k

theorem loc_opnd (names : Nat → List Char) (l : Loc) : l.tok.opnd names = some (locOpnd names l) := by
  cases l <;> rfl

theorem bv3_cases (x : BitVec 3) :
    x = 0#3 ∨ x = 1#3 ∨ x = 2#3 ∨ x = 3#3 ∨ x = 4#3 ∨ x = 5#3 ∨ x = 6#3 ∨ x = 7#3 := by
  revert x; decide

macro "kw_plain" : tactic =>
  `(tactic| exact ⟨_, _, _, rfl, ⟨by decide, by decide, by decide, Or.inl (by decide)⟩,
      ⟨by decide, by decide, by decide, Or.inl (by decide)⟩, by first | rfl | (simp only [List.map_cons, List.map_nil, loc_opnd] <;> rfl)⟩)

/-- the tokens of an instruction statement: a mnemonic of the right kind, then its operands -/
theorem stmt_kw (flag : Bool) (names : Nat → List Char) (s : SrcStmt) (hd : Head) (ops : List Opnd)
    (h : stmtSyntax names s = some (hd, ops)) (hst : flag = true ∨ s.isStack = false) :
    ∃ name alt opToks, s.toks = .kw name alt :: opToks ∧ KwFor flag name hd.kind ∧ KwFor flag alt hd.kind ∧
      opToks.map (Tok.opnd names) = ops.map some := by
  cases s with
  | addReg d a r => cases h; kw_plain
  | addImm d a w => cases h; kw_plain
  | andReg d a r => cases h; kw_plain
  | andImm d a w => cases h; kw_plain
  | br nzp l =>
    rcases bv3_cases nzp with rfl | rfl | rfl | rfl | rfl | rfl | rfl | rfl
    · simp [stmtSyntax, flagOf] at h
    all_goals (simp only [stmtSyntax] at h; cases h; kw_plain)
  | jmp b => cases h; kw_plain
  | jsr l => cases h; kw_plain
  | jsrr b => cases h; kw_plain
  | ld d l => cases h; kw_plain
  | ldi d l => cases h; kw_plain
  | ldr d b w => cases h; kw_plain
  | lea d l => cases h; kw_plain
  | not d a => cases h; kw_plain
  | ret => cases h; kw_plain
  | rti => cases h; kw_plain
  | st d l => cases h; kw_plain
  | sti d l => cases h; kw_plain
  | str d b w => cases h; kw_plain
  | trap v => cases h; kw_plain
  | namedTrap k =>
    rcases bv3_cases k with rfl | rfl | rfl | rfl | rfl | rfl | rfl | rfl <;> (cases h; kw_plain)
  | push r =>
    have hf : flag = true := by rcases hst with h | h; exact h; cases h
    cases h
    exact ⟨_, _, _, rfl, ⟨by decide, by decide, by decide, Or.inr hf⟩,
      ⟨by decide, by decide, by decide, Or.inr hf⟩, rfl⟩
  | pop r =>
    have hf : flag = true := by rcases hst with h | h; exact h; cases h
    cases h
    exact ⟨_, _, _, rfl, ⟨by decide, by decide, by decide, Or.inr hf⟩,
      ⟨by decide, by decide, by decide, Or.inr hf⟩, rfl⟩
  | call id =>
    have hf : flag = true := by rcases hst with h | h; exact h; cases h
    cases h
    exact ⟨_, _, _, rfl, ⟨by decide, by decide, by decide, Or.inr hf⟩,
      ⟨by decide, by decide, by decide, Or.inr hf⟩, rfl⟩
  | rets =>
    have hf : flag = true := by rcases hst with h | h; exact h; cases h
    cases h
    exact ⟨_, _, _, rfl, ⟨by decide, by decide, by decide, Or.inr hf⟩,
      ⟨by decide, by decide, by decide, Or.inr hf⟩, rfl⟩
  | fill w => cases h
  | blkw n => cases h
  | stringz b => cases h

/-! ### pieces -/

theorem kw_piece {flag : Bool} {names : Nat → List Char} {l : TokLay} {name alt : List Char}
    {k : TokenKind} {tail : List Char} (h1 : KwFor flag name k) (h2 : KwFor flag alt k) (hk : RealKind k)
    (hgap : gapAux false false l.sep = true) (hdel : Delim tail) :
    Piece (some flag) l.sep ((Tok.kw name alt).spell names l) k tail := by
  have key : ∀ nm, KwFor flag nm k → Lexes (some flag) (applyCaps l.caps nm) k ∧ applyCaps l.caps nm ≠ [] := by
    intro nm h
    refine ⟨lexes_kw (some flag) l.caps nm k h.ne h.alpha ?_ h.kind, ?_⟩
    · rcases h.stack with h | h
      · exact Or.inl h
      · right; rw [h]
    · intro e
      have := (applyCaps_kw nm h.alpha l.caps).2.1
      rw [e] at this
      exact h.ne (List.eq_nil_of_length_eq_zero this.symm)
  simp only [Tok.spell]
  cases l.alt with
  | true => exact ⟨hgap, (key alt h2).1, hk, (key alt h2).2, hdel⟩
  | false => exact ⟨hgap, (key name h1).1, hk, (key name h1).2, hdel⟩

theorem dir_piece {feat : Option Bool} {names : Nat → List Char} {l : TokLay} {name : List Char}
    {d : DirKind} {tail : List Char} (ha : ∀ c ∈ name, c ∈ kwAlpha)
    (hd : checkDirective (String.ofList ('.' :: name)) = some d)
    (hgap : gapAux false false l.sep = true) (hdel : Delim tail) :
    Piece feat l.sep ((Tok.k ('.' :: name)).spell names l) (.dir d) tail := by
  have hl := lexes_dir feat l.caps name d ha hd
  have hne : applyCaps l.caps ('.' :: name) ≠ [] := by
    cases l.caps with
    | nil => cases name <;> simp [applyCaps]
    | cons b bs => simp [applyCaps]
  simp only [Tok.k, Tok.spell, ite_self]
  exact ⟨hgap, hl, ⟨by simp, by simp⟩, hne, hdel⟩

theorem drop_succ_tail {α : Type} (ls : List α) (n : Nat) : ls.drop (n + 1) = ls.tail.drop n := by
  cases ls <;> simp

/-- a run of operand tokens -/
theorem textRel_opnds (flag : Bool) (names : Nat → List Char) (trail : List Char)
    (htr : trailOk trail = true) (restToks : List Tok) (es : List ETok) (sps : List Span) :
    ∀ (opToks : List Tok) (ops : List Opnd) (first : Bool) (ls : List TokLay) (pos : Nat),
      opToks.map (Tok.opnd names) = ops.map some →
      okToks names first ls (opToks ++ restToks) = true →
      TextRel (some flag) trail (endPos names pos ls opToks)
        (renderToks names (ls.drop opToks.length) restToks ++ trail) es sps →
      TextRel (some flag) trail pos (renderToks names ls (opToks ++ restToks) ++ trail) (ops.map .opnd ++ es)
        (tokSpans names pos ls opToks ++ sps) := by
  intro opToks
  induction opToks with
  | nil =>
    intro ops first ls pos hmap _ hrest
    cases ops with
    | nil => simpa [endPos, tokSpans] using hrest
    | cons _ _ => simp at hmap
  | cons t ts ih =>
    intro ops first ls pos hmap hok hrest
    cases ops with
    | nil => simp at hmap
    | cons o os =>
      simp only [List.map_cons, List.cons.injEq] at hmap
      rw [List.cons_append] at hok
      obtain ⟨hgap, htok, hok'⟩ := okToks_cons hok
      obtain ⟨k, hlex, hne, hplain, hmatch⟩ := opnd_piece (some flag) names (ls.headD {}) t o hmap.1 htok
      rw [List.cons_append, renderToks_cons, List.append_assoc, List.append_assoc]
      simp only [tokSpans, List.map_cons, List.cons_append]
      refine TextRel.plain ⟨hgap, hlex, isPlain_real hplain, hne, delim_render hok' htr⟩ hplain hmatch ?_
      apply ih os false ls.tail _ hmap.2 hok'
      rw [← drop_succ_tail]
      exact hrest

theorem flagOf_none {nzp : BitVec 3} (h : flagOf nzp = none) : nzp = 0#3 := by
  revert nzp; decide

/-- **one statement** (mnemonic and operands, or a data directive with its operand) -/
theorem textRel_stmt (flag : Bool) (names : Nat → List Char) (trail : List Char)
    (htr : trailOk trail = true) (s : SrcStmt) (hst : flag = true ∨ s.isStack = false)
    (hren : s.renderable = true) (first : Bool) (ls : List TokLay) (pos : Nat) (restToks : List Tok)
    (es : List ETok) (sps : List Span)
    (hok : okToks names first ls (s.toks ++ restToks) = true)
    (hrest : TextRel (some flag) trail (endPos names pos ls s.toks)
      (renderToks names (ls.drop s.toks.length) restToks ++ trail) es sps) :
    TextRel (some flag) trail pos (renderToks names ls (s.toks ++ restToks) ++ trail) (stmtETok names s ++ es)
      (stmtESpans names pos ls s ++ sps) := by
  cases hs : stmtSyntax names s with
  | some p =>
    obtain ⟨hd, ops⟩ := p
    obtain ⟨name, alt, opToks, e1, k1, k2, hmap⟩ := stmt_kw flag names s hd ops hs hst
    rw [stmtETok_syntax hs, stmtESpans_syntax hs]
    rw [e1, List.cons_append] at hok ⊢
    rw [e1] at hrest
    obtain ⟨hgap, _, hok'⟩ := okToks_cons hok
    have hplain : isPlain hd.kind = true := by cases hd <;> rfl
    rw [renderToks_cons, List.append_assoc, List.append_assoc, List.cons_append]
    simp only [tokSpans, List.cons_append]
    refine TextRel.plain (kw_piece k1 k2 (isPlain_real hplain) hgap (delim_render hok' htr)) hplain
      (by intro sp; cases hd <;> rfl) ?_
    apply textRel_opnds flag names trail htr restToks es sps opToks ops false ls.tail _ hmap hok'
    rw [← drop_succ_tail]
    exact hrest
  | none =>
    have two : ∀ (nm : List Char) (x : Tok), okToks names first ls (Tok.k nm :: x :: restToks) = true →
        gapAux false false (ls.headD {}).sep = true ∧ gapAux false false (ls.tail.headD {}).sep = true ∧
        x.ok names (ls.tail.headD {}) = true ∧
        Delim ((ls.tail.headD {}).sep ++ (x.spell names (ls.tail.headD {}) ++
          (renderToks names ls.tail.tail restToks ++ trail))) ∧
        Delim (renderToks names ls.tail.tail restToks ++ trail) := by
      intro nm x h
      obtain ⟨g1, _, h'⟩ := okToks_cons h
      have hd1 := delim_render h' htr
      obtain ⟨g2, o2, h''⟩ := okToks_cons h'
      rw [renderToks_cons, List.append_assoc, List.append_assoc] at hd1
      exact ⟨g1, g2, o2, hd1, delim_render h'' htr⟩
    have hdrop : ls.drop 2 = ls.tail.tail := by
      cases ls with
      | nil => rfl
      | cons a r => cases r <;> rfl
    cases s with
    | fill w =>
      simp only [SrcStmt.toks, List.cons_append, List.nil_append, List.length_cons, List.length_nil] at hok hrest ⊢
      obtain ⟨g1, g2, o2, d1, d2⟩ := two _ _ hok
      have hr : readLit (ls.tail.headD {}).lit = some w := by simpa [Tok.ok] using o2
      obtain ⟨k, hk, hl⟩ := lexes_lit (some flag) _ w hr
      have hne : (Tok.lit w).spell names (ls.tail.headD {}) ≠ [] := by
        intro e; simp only [Tok.spell] at e; rw [e] at hr; cases hr
      have hkr : RealKind k := by constructor <;> (intro e; subst e; cases hk)
      rw [renderToks_cons, renderToks_cons]
      simp only [List.append_assoc]
      rw [hdrop] at hrest
      simp only [stmtESpans, SrcStmt.toks, stmtSpanAt_two, List.cons_append, List.nil_append]
      exact TextRel.fill (dir_piece (by decide) (by decide) g1 d1) ⟨g2, hl, hkr, hne, d2⟩ hk hrest
    | blkw n =>
      simp only [SrcStmt.toks, List.cons_append, List.nil_append, List.length_cons, List.length_nil] at hok hrest ⊢
      obtain ⟨g1, g2, o2, d1, d2⟩ := two _ _ hok
      have hr : readLit (ls.tail.headD {}).lit = some n := by simpa [Tok.ok] using o2
      obtain ⟨k, hk, hl⟩ := lexes_lit (some flag) _ n hr
      have hne : (Tok.lit n).spell names (ls.tail.headD {}) ≠ [] := by
        intro e; simp only [Tok.spell] at e; rw [e] at hr; cases hr
      have hkr : RealKind k := by constructor <;> (intro e; subst e; cases hk)
      rw [renderToks_cons, renderToks_cons]
      simp only [List.append_assoc]
      rw [hdrop] at hrest
      simp only [stmtESpans, SrcStmt.toks, stmtSpanAt_two]
      exact TextRel.blkw (dir_piece (by decide) (by decide) g1 d1) ⟨g2, hl, hkr, hne, d2⟩ hk hrest
    | stringz b =>
      simp only [SrcStmt.toks, List.cons_append, List.nil_append, List.length_cons, List.length_nil] at hok hrest ⊢
      obtain ⟨g1, g2, o2, d1, d2⟩ := two _ _ hok
      have hb : strBodyOk b = true := o2
      rw [renderToks_cons, renderToks_cons]
      simp only [List.append_assoc]
      rw [hdrop] at hrest
      have hlen : (Spec.unescape b).length.succ = (strETok b).length := by
        simp only [strETok, List.length_append, List.length_map, List.length_cons, List.length_nil]
      simp only [stmtESpans, SrcStmt.toks, stmtSpanAt_two, hlen]
      exact TextRel.stringz (dir_piece (by decide) (by decide) g1 (by simpa [Tok.spell] using d1))
        ⟨g2, lexes_str (some flag) b hb, ⟨by simp, by simp⟩, by simp, d2⟩ hrest
    | br nzp l =>
      exfalso
      simp only [stmtSyntax, Option.map_eq_none_iff] at hs
      have := flagOf_none hs
      subst this
      simp [SrcStmt.renderable] at hren
    | _ => simp [stmtSyntax] at hs

/-! ### a whole program -/

theorem okToks_drop (names : Nat → List Char) (b : List Tok) : ∀ (a : List Tok) (first : Bool) (ls : List TokLay),
    okToks names first ls (a ++ b) = true → a ≠ [] → okToks names false (ls.drop a.length) b = true := by
  intro a
  induction a with
  | nil => intro _ _ _ h; exact (h rfl).elim
  | cons t r ih =>
    intro first ls h _
    rw [List.cons_append] at h
    obtain ⟨_, _, h'⟩ := okToks_cons h
    rw [List.length_cons, drop_succ_tail]
    cases r with
    | nil => simpa using h'
    | cons t' r' => exact ih false ls.tail h' (by simp)

theorem stmt_toks_ne (s : SrcStmt) : s.toks ≠ [] := by
  cases s <;> simp [SrcStmt.toks]

/-- what the rendering lemma needs of an item -/
def ItemOk (flag : Bool) : Item → Prop
  | .stmt _ s => (flag = true ∨ s.isStack = false) ∧ s.renderable = true
  | _ => True

theorem textRel_items (flag : Bool) (names : Nat → List Char) (trail : List Char)
    (htr : trailOk trail = true) : ∀ (items : List Item) (first : Bool) (ls : List TokLay) (pos : Nat),
    okToks names first ls (itemsToks items) = true → (∀ it ∈ items, ItemOk flag it) →
    TextRel (some flag) trail pos (renderToks names ls (itemsToks items) ++ trail) (itemsETok names items)
      (itemsESpans names pos ls items) := by
  intro items
  induction items with
  | nil => intro _ _ _ _ _; exact TextRel.nil
  | cons it rest ih =>
    intro first ls pos hok hall
    have hrest : ∀ (n : Nat) (a : List Tok), a ≠ [] → a.length = n →
        okToks names first ls (a ++ itemsToks rest) = true →
        TextRel (some flag) trail (endPos names pos ls a) (renderToks names (ls.drop n) (itemsToks rest) ++ trail)
          (itemsETok names rest) (itemsESpans names (endPos names pos ls a) (ls.drop n) rest) := by
      intro n a ha hn h
      subst hn
      exact ih false _ _ (okToks_drop names _ a first ls h ha)
        (fun x hx => hall x (List.mem_cons_of_mem _ hx))
    have hit := hall it List.mem_cons_self
    simp only [itemsToks, itemsETok, itemsESpans] at hok ⊢
    cases it with
    | orig w =>
      simp only [Item.toks, itemETok, itemESpans, List.cons_append, List.nil_append] at hok ⊢
      have hr := hrest 2 [Tok.k ['.','o','r','i','g'], Tok.lit w] (by simp) rfl hok
      obtain ⟨hgap, _, hok'⟩ := okToks_cons hok
      rw [renderToks_cons, List.append_assoc, List.append_assoc]
      simp only [tokSpans, List.cons_append, List.nil_append]
      refine TextRel.plain (dir_piece (by decide) (by decide) hgap (delim_render hok' htr)) rfl
        (fun _ => rfl) ?_
      have := textRel_opnds flag names trail htr (itemsToks rest) (itemsETok names rest)
        (itemsESpans names (endPos names pos ls [Tok.k ['.','o','r','i','g'], Tok.lit w]) (ls.drop 2) rest)
        [Tok.lit w] [Opnd.lit w] false ls.tail
        (pos + utf8Len (ls.headD {}).sep + utf8Len ((Tok.k ['.','o','r','i','g']).spell names (ls.headD {})))
        rfl hok'
      simp only [tokSpans, List.cons_append, List.nil_append, List.map_cons, List.map_nil] at this
      apply this
      have e : ls.tail.drop 1 = ls.drop 2 := by rw [← drop_succ_tail]
      simp only [List.length_cons, List.length_nil]
      rw [e]
      exact hr
    | brk =>
      simp only [Item.toks, itemETok, itemESpans, List.cons_append, List.nil_append] at hok ⊢
      have hr := hrest 1 [Tok.k ['.','b','r','e','a','k']] (by simp) rfl hok
      obtain ⟨hgap, _, hok'⟩ := okToks_cons hok
      rw [renderToks_cons, List.append_assoc, List.append_assoc]
      simp only [tokSpans, List.cons_append, List.nil_append]
      refine TextRel.brk (dir_piece (by decide) (by decide) hgap (delim_render hok' htr)) ?_
      have e : ls.drop 1 = ls.tail := by cases ls <;> rfl
      simp only [List.length_cons, List.length_nil]
      rw [e] at hr ⊢
      exact hr
    | stmt lbl s =>
      obtain ⟨hst, hren⟩ := hit
      cases lbl with
      | none =>
        simp only [Item.toks, itemETok, itemESpans] at hok ⊢
        exact textRel_stmt flag names trail htr s hst hren first ls pos _ _ _ hok
          (hrest _ s.toks (stmt_toks_ne s) rfl hok)
      | some id =>
        simp only [Item.toks, itemETok, itemESpans, List.cons_append] at hok ⊢
        have hr := hrest (s.toks.length + 1) (Tok.label id :: s.toks) (by simp) rfl hok
        obtain ⟨_, _, hok'⟩ := okToks_cons hok
        have := textRel_opnds flag names trail htr (s.toks ++ itemsToks rest)
          (stmtETok names s ++ itemsETok names rest)
          (stmtESpans names (endPos names pos ls [Tok.label id]) ls.tail s ++
            itemsESpans names (endPos names pos ls (Tok.label id :: s.toks)) (ls.drop (s.toks.length + 1)) rest)
          [Tok.label id] [Opnd.label (names id)] first ls pos rfl hok
        simp only [List.length_cons, List.length_nil, List.append_assoc, List.map_cons, List.map_nil,
          List.cons_append, List.nil_append] at this ⊢
        apply this
        have e : ls.drop (0 + 1) = ls.tail := by cases ls <;> rfl
        rw [e]
        apply textRel_stmt flag names trail htr s hst hren false _ _ _ _ _ hok'
        rw [← drop_succ_tail]
        exact hr

theorem mem_stmts_of_item {P : Prog} {l : Option Nat} {s : SrcStmt} (h : Item.stmt l s ∈ P.items) :
    (l, s) ∈ P.stmts := by
  unfold Prog.stmts
  exact List.mem_filterMap.mpr ⟨_, h, rfl⟩

/-- **`render L P` is a text the preprocessor lemma applies to**; the tokens' spans are where `render`
put them. -/
theorem textRel_render (flag : Bool) (L : Layout) (P : Prog) (hok : L.ok P = true)
    (hst : flag = true ∨ P.stmts.all (fun ls => !ls.2.isStack) = true) :
    TextRel (some flag) L.trail 0 (render L P) (progETok L.names P) (progESpans L P) := by
  simp only [Layout.ok, Bool.and_eq_true] at hok
  obtain ⟨⟨⟨hren, htoks⟩, htr⟩, _⟩ := hok
  simp only [Prog.renderable, Bool.and_eq_true, List.all_eq_true] at hren
  unfold render progETok progESpans Prog.toks
  apply textRel_items flag L.names L.trail htr P.items true L.toks 0 htoks
  intro it hit
  cases it with
  | orig w => trivial
  | brk => trivial
  | stmt l s =>
    have hm := mem_stmts_of_item hit
    refine ⟨?_, hren.1 _ hm⟩
    rcases hst with h | h
    · exact Or.inl h
    · right
      have := List.all_eq_true.mp h _ hm
      simpa using this

end Lace.C01
