/-
  The token stream a program must reach the parser as (C01, text level): the interface between the
  lexer / preprocessor side (`Proofs/LexRender*.lean`: `preprocess (render L P)` yields tokens that
  match `progETok`) and the parser side (`Proofs/ParseProg.lean`: every token list that matches
  `progETok` parses, resolves and emits to `Prog.image`).

  Spans, the spelling of keywords / registers / literals and the literal base are irrelevant: a
  token *matches* an expected token when kind (and value) agree, and for a label also the text.
-/
import Lace.Proofs.AsmStmtTokens
import Lace.Spec.Render
/-- two lists related element by element (same length); as in Mathlib, not in core -/
inductive List.Forall₂ {α β : Type _} (R : α → β → Prop) : List α → List β → Prop
  | nil : List.Forall₂ R [] []
  | cons {a b l₁ l₂} : R a b → List.Forall₂ R l₁ l₂ → List.Forall₂ R (a :: l₁) (b :: l₂)

namespace Lace.C01
open Lace.Asm Lace.Spec

/-- expected token, as the parser sees it -/
inductive ETok where
  | instr (k : InstrKind)
  | trap (k : TrapKind)
  | opnd (o : Opnd)
  /-- the `.orig` directive (its operand follows as a literal operand) -/
  | orig
  /-- one data word (`.fill`, `.blkw`, `.stringz` expanded by the preprocessor) -/
  | byte (w : Word)
  /-- `.break` -/
  | brk

def ETok.Matches : ETok → Token → Prop
  | .instr k, t => t.kind = .instr k
  | .trap k, t => t.kind = .trap k
  | .opnd o, t => o.Matches t
  | .orig, t => t.kind = .dir .orig
  | .byte w, t => t.kind = .byte w
  | .brk, t => t.kind = .breakpoint

def Head.etok : Head → ETok
  | .instr k => .instr k
  | .trap k => .trap k

/-- the tokens of a statement: mnemonic and operands, or the data words of a data directive -/
def stmtETok (names : Nat → List Char) (s : SrcStmt) : List ETok :=
  match s with
  | .fill w => [.byte w]
  | .blkw n => List.replicate n.toNat (.byte 0#16)
  | .stringz b => (Spec.unescape b).map (fun c => ETok.byte (BitVec.ofNat 16 c.toNat)) ++ [.byte 0#16]
  | s =>
    match stmtSyntax names s with
    | some (hd, ops) => hd.etok :: ops.map .opnd
    | none => []

def itemETok (names : Nat → List Char) : Item → List ETok
  | .orig w => [.orig, .opnd (.lit w)]
  | .brk => [.brk]
  | .stmt (some id) s => .opnd (.label (names id)) :: stmtETok names s
  | .stmt none s => stmtETok names s

def itemsETok (names : Nat → List Char) : List Item → List ETok
  | [] => []
  | it :: rest => itemETok names it ++ itemsETok names rest

/-- the token stream of a program -/
def progETok (names : Nat → List Char) (P : Prog) : List ETok := itemsETok names P.items

end Lace.C01
