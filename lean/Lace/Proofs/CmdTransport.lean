/-
  C14: line sequences of the two readers, and independence of a session from how the script is
  split between `--command` and standard input and from the separator used.
-/
import Lace.Proofs.CmdSession
namespace Lace.C14
open Lace.Cmd

/-! ### reading `n` times -/

inductive Status where
  | more | eof | panic
  deriving DecidableEq, Repr

inductive StepR (σ : Type) where
  | line (l : List Char) (s : σ)
  | eof
  | panic

/-- Read up to `n` lines: the lines, and whether the source then has more, is exhausted, or
panicked. -/
def readN {σ : Type} (step : σ → StepR σ) : Nat → σ → List (List Char) × Status
  | 0, _ => ([], .more)
  | n + 1, s =>
    match step s with
    | .line l s' => (l :: (readN step n s').1, (readN step n s').2)
    | .eof => ([], .eof)
    | .panic => ([], .panic)

def argStep (a : Argument) : StepR Argument :=
  match a.read with
  | .line l a' => .line l a'
  | .eof => .eof
  | .panic _ => .panic

def stdinStep (b : List UInt8) : StepR (List UInt8) :=
  match stdinRead b with
  | .line l rest => .line l rest
  | .eof => .eof
  | .panic _ => .panic

def textStep (t : List Char) : StepR (List Char) :=
  match nextLine t with
  | some (l, rest) => .line l rest
  | none => .eof

theorem readN_arg {a : Argument} {t : List Char} (hv : ArgView a t) (n : Nat) :
    readN argStep n a = readN textStep n t := by
  induction n generalizing a t with
  | zero => rfl
  | succ n ih =>
    have h := argRead_view hv
    simp only [readN, argStep, textStep]
    cases hn : nextLine t with
    | none => rw [hn] at h; simp [h]
    | some p =>
      obtain ⟨l, rest⟩ := p
      rw [hn] at h
      obtain ⟨a', h1, h2⟩ := h
      simp only [h1]
      rw [ih h2]

theorem readN_stdin (t : List Char) (n : Nat) :
    readN stdinStep n (encode t) = readN textStep n t := by
  induction n generalizing t with
  | zero => rfl
  | succ n ih =>
    simp only [readN, stdinStep, textStep, stdinRead_encode]
    cases hn : nextLine t with
    | none => simp
    | some p =>
      obtain ⟨l, rest⟩ := p
      simp only
      rw [ih rest]

theorem readN_text (t : List Char) (n : Nat) :
    readN textStep n t =
      ((textLines t).take n, if (textLines t).length < n then .eof else .more) := by
  induction n generalizing t with
  | zero => simp [readN]
  | succ n ih =>
    simp only [readN, textStep]
    rw [textLines_eq]
    cases hn : nextLine t with
    | none => simp
    | some p =>
      obtain ⟨l, rest⟩ := p
      simp only [ih rest, List.take_succ_cons, List.length_cons, Nat.add_lt_add_iff_right]

/-! ### sessions ignore blank lines, so the place of the split does not matter -/

theorem sessionL_cons_congr (x : List Char) {L1 L2 : List (List Char)}
    (h : sessionL L1 = sessionL L2) : sessionL (x :: L1) = sessionL (x :: L2) := by
  simp only [sessionL, h]

theorem sessionL_nil_cons (L : List (List Char)) : sessionL ([] :: L) = sessionL L := by
  simp [sessionL, trim, trimEnd, trimStart]

theorem sessionL_join (a b cur : List Char) (d : Char) (hd : isDelimiter d = true) :
    sessionL (linesAux (a ++ d :: b) cur) = sessionL (linesAux a cur ++ textLines b) := by
  induction a generalizing cur with
  | nil =>
    simp only [List.nil_append, linesAux, hd, if_true]
    by_cases hc : cur = []
    · subst hc
      simp only [if_true, List.nil_append]
      exact sessionL_nil_cons _
    · simp only [hc, if_false, List.cons_append, List.nil_append]
      rfl
  | cons c cs ih =>
    simp only [List.cons_append, linesAux]
    by_cases hc : isDelimiter c = true
    · simp only [hc, if_true, List.cons_append]
      exact sessionL_cons_congr cur (ih [])
    · simp only [hc, if_false, Bool.false_eq_true]
      exact ih _

theorem linesAux_map (f : Char → Char) (hf1 : ∀ c, isDelimiter (f c) = isDelimiter c)
    (hf2 : ∀ c, isDelimiter c = false → f c = c) (t cur : List Char) :
    linesAux (t.map f) cur = linesAux t cur := by
  induction t generalizing cur with
  | nil => rfl
  | cons c cs ih =>
    simp only [List.map_cons, linesAux, hf1]
    by_cases hc : isDelimiter c = true
    · simp only [hc, if_true, ih]
    · have : isDelimiter c = false := by simpa using hc
      simp only [hc, if_false, Bool.false_eq_true, hf2 c this, ih]

/-- No line of a text contains a separator. -/
theorem linesAux_no_delim (t cur : List Char) (hcur : ∀ c ∈ cur, isDelimiter c = false) :
    ∀ l ∈ linesAux t cur, ∀ c ∈ l, isDelimiter c = false := by
  induction t generalizing cur with
  | nil =>
    intro l hl
    simp only [linesAux] at hl
    split at hl
    · simp at hl
    · simp at hl; subst hl; exact hcur
  | cons c cs ih =>
    intro l hl
    simp only [linesAux] at hl
    split at hl
    · simp only [List.mem_cons] at hl
      rcases hl with h | h
      · subst h; exact hcur
      · exact ih [] (by simp) l h
    · rename_i hc
      refine ih (cur ++ [c]) ?_ l hl
      intro x hx
      simp only [List.mem_append, List.mem_singleton] at hx
      rcases hx with h | h
      · exact hcur x h
      · subst h; simpa using hc

end Lace.C14
