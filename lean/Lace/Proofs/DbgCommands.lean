/-
  Lemmas about `run_command`, the status loop and `next_action` of the debugger model:
  what a command can change, that reading is monotone, and that returning without reading a
  command means `proceed` on an untouched machine at an executable PC.
-/
import Lace.Proofs.DbgBasics
namespace Lace.DbgProofs
open Lace Lace.Dbg Lace.Cmd

/-- Commands that neither change the program's machine state nor end the program
(C09's alphabet, plus `quit`). `step into 0` does not exist: the parser yields counts ≥ 1. -/
def NonMutating : Command → Bool
  | .help | .stepOver | .stepOut | .continue_ | .registers | .print _ | .assembly _ | .echo _
  | .quit | .breakList | .breakAdd _ | .breakRemove _ => true
  | .stepInto c => c != 0#16
  | _ => false

/-- The bookkeeping every `run_command` starts with. -/
def base (d : Dbg) : Dbg := { d with icount := 0, ncmds := d.ncmds + 1, cmdAt := d.nexec :: d.cmdAt }

/-- `d'` is `d` up to status, breakpoint list and log. -/
def Upd (d d' : Dbg) : Prop :=
  d'.initial = d.initial ∧ d'.cmds = d.cmds ∧ d'.ncmds = d.ncmds ∧ d'.nexec = d.nexec ∧
  d'.cmdAt = d.cmdAt ∧ d'.icount = d.icount ∧ d'.curBp = d.curBp

theorem Upd.refl (d : Dbg) : Upd d d := ⟨rfl, rfl, rfl, rfl, rfl, rfl, rfl⟩
theorem Upd.of_same {d d' : Dbg} (h : SameButLog d d') : Upd d d' :=
  ⟨h.1, h.2.2.2.2.2.1, h.2.2.2.2.2.2.1, h.2.2.2.2.2.2.2.1, h.2.2.2.2.2.2.2.2, h.2.2.2.2.1, h.2.2.2.1⟩
theorem Upd.status (d : Dbg) (s : Status) : Upd d { d with status := s } := ⟨rfl, rfl, rfl, rfl, rfl, rfl, rfl⟩
theorem Upd.bps (d : Dbg) (b : Breakpoints) : Upd d { d with bps := b } := ⟨rfl, rfl, rfl, rfl, rfl, rfl, rfl⟩
theorem Upd.say (d : Dbg) (s : String) : Upd d (say d s) := Upd.refl d
theorem Upd.sayL (d : Dbg) (s : List Char) : Upd d (sayL d s) := Upd.refl d

/-- A non-mutating command leaves machine and world exactly as they were, never exits the
process and never panics; only `quit` raises an action. -/
theorem runCommand_nonmut (env : Env) (d : Dbg) (m : Machine) (w : World) (c : Command)
    (h : NonMutating c = true) :
    (∃ d', runCommand env d m w c = .next d' m w ∧ Upd (base d) d') ∨
    (∃ d', runCommand env d m w c = .action .stopDebugger d' m w ∧ Upd (base d) d') := by
  cases c <;> simp only [NonMutating] at h
  case quit => right; exact ⟨_, rfl, Upd.refl _⟩
  case help => left; exact ⟨_, rfl, Upd.say _ _⟩
  case stepOver =>
    left; simp only [runCommand]
    split
    · exact ⟨_, rfl, Upd.say _ _⟩
    · split <;> exact ⟨_, rfl, Upd.status _ _⟩
  case stepInto cnt =>
    left; simp only [runCommand]
    split
    · exact ⟨_, rfl, Upd.say _ _⟩
    · have : (cnt == 0#16) = false := by simpa using h
      simp only [this]
      exact ⟨_, rfl, Upd.status _ _⟩
  case stepOut =>
    left; simp only [runCommand]
    split
    · exact ⟨_, rfl, Upd.say _ _⟩
    · split
      · exact ⟨_, rfl, Upd.say _ _⟩
      · exact ⟨_, rfl, Upd.status _ _⟩
  case continue_ =>
    left; simp only [runCommand]
    split
    · exact ⟨_, rfl, Upd.say _ _⟩
    · exact ⟨_, rfl, Upd.status _ _⟩
  case registers => left; exact ⟨_, rfl, Upd.of_same (printRegisters_same _ _)⟩
  case print l =>
    left
    cases l with
    | reg r => exact ⟨_, rfl, Upd.of_same (printInteger_same _ _)⟩
    | mem l =>
      simp only [runCommand]
      split
      · exact ⟨_, rfl, Upd.say _ _⟩
      · exact ⟨_, rfl, Upd.of_same (printInteger_same _ _)⟩
  case assembly l =>
    left; simp only [runCommand]
    split
    · exact ⟨_, rfl, Upd.say _ _⟩
    · split
      · exact ⟨_, rfl, Upd.refl _⟩
      · split
        · split
          · exact ⟨_, rfl, Upd.refl _⟩
          · exact ⟨_, rfl, Upd.sayL _ _⟩
        · exact ⟨_, rfl, Upd.refl _⟩
  case echo s => left; exact ⟨_, rfl, Upd.sayL _ _⟩
  case breakList =>
    left; simp only [runCommand]
    split
    · exact ⟨_, rfl, Upd.say _ _⟩
    · exact ⟨_, rfl, Upd.of_same (foldl_same _ (fun d _ => sayL_same d _) _ _)⟩
  case breakAdd l =>
    left; simp only [runCommand]
    split
    · exact ⟨_, rfl, Upd.say _ _⟩
    · split
      · exact ⟨_, rfl, Upd.say _ _⟩
      · exact ⟨_, rfl, Upd.bps _ _⟩
  case breakRemove l =>
    left; simp only [runCommand]
    split
    · exact ⟨_, rfl, Upd.say _ _⟩
    · split
      · exact ⟨_, rfl, Upd.bps _ _⟩
      · exact ⟨_, rfl, Upd.say _ _⟩
  all_goals simp at h

end Lace.DbgProofs

namespace Lace.DbgProofs
open Lace Lace.Dbg Lace.Cmd

/-- Whatever the command, the debugger record afterwards is the base record up to status,
breakpoints and log. -/
theorem runCommand_upd (env : Env) (d : Dbg) (m : Machine) (w : World) (c : Command) :
    ∀ d', (runCommand env d m w c).dbg? = some d' → Upd (base d) d' := by
  intro d' hd
  by_cases hnm : NonMutating c = true
  · rcases runCommand_nonmut env d m w c hnm with ⟨d1, h1, hu⟩ | ⟨d1, h1, hu⟩ <;>
      (rw [h1] at hd; simp [CmdResult.dbg?] at hd; subst hd; exact hu)
  · cases c <;> simp [NonMutating] at hnm <;> simp only [runCommand] at hd
    case stepInto cnt =>
      subst hnm
      split at hd
      · simp [CmdResult.dbg?] at hd; subst hd; exact Upd.say _ _
      · simp [CmdResult.dbg?] at hd
    case move l v =>
      cases l with
      | reg r => simp [CmdResult.dbg?] at hd; subst hd; exact Upd.refl _
      | mem l =>
        simp only at hd
        split at hd <;> (simp [CmdResult.dbg?] at hd; subst hd)
        · exact Upd.say _ _
        · exact Upd.refl _
    case goto l =>
      split at hd <;> (simp [CmdResult.dbg?] at hd; subst hd)
      · exact Upd.say _ _
      · exact Upd.refl _
    case eval t =>
      split at hd <;> simp [CmdResult.dbg?] at hd
      · subst hd; exact Upd.refl _
      · subst hd; exact Upd.of_same (foldl_same _ (fun d _ => sayL_same d _) _ _)
      · subst hd; exact Upd.refl _
    case reset => simp [CmdResult.dbg?] at hd; subst hd; exact Upd.refl _
    case exit => simp [CmdResult.dbg?] at hd; subst hd; exact Upd.refl _

end Lace.DbgProofs

namespace Lace.DbgProofs
open Lace Lace.Dbg Lace.Cmd

/-- `d'` was reached from `d` by reading zero or more commands (no instruction executed). -/
structure Adv (d d' : Dbg) : Prop where
  initial : d'.initial = d.initial
  ncmds : d.ncmds ≤ d'.ncmds
  nexec : d'.nexec = d.nexec
  suffix : ∃ pre, d.cmds = pre ++ d'.cmds

theorem Adv.refl (d : Dbg) : Adv d d := ⟨rfl, Nat.le_refl _, rfl, [], rfl⟩
theorem Adv.trans {a b c : Dbg} (h1 : Adv a b) (h2 : Adv b c) : Adv a c := by
  obtain ⟨p1, hp1⟩ := h1.suffix
  obtain ⟨p2, hp2⟩ := h2.suffix
  exact ⟨h2.initial.trans h1.initial, Nat.le_trans h1.ncmds h2.ncmds, h2.nexec.trans h1.nexec,
    p1 ++ p2, by rw [hp1, hp2, List.append_assoc]⟩

def NextResult.dbg? : NextResult → Option Dbg
  | .action _ d _ _ => some d
  | .exit _ d _ _ => some d
  | .panic _ => none

theorem Adv.of_same {d d' : Dbg} (h : SameButLog d d') : Adv d d' :=
  ⟨h.1, Nat.le_of_eq h.2.2.2.2.2.2.1.symm, h.2.2.2.2.2.2.2.1, [], by simp [h.2.2.2.2.2.1]⟩

/-- Reading one command: strictly more commands read, the rest of the script is the tail. -/
theorem Adv.of_cmd {d d1 : Dbg} {c : Command} {rest : List Command} (hc : d.cmds = c :: rest)
    (hu : Upd (base { d with cmds := rest }) d1) : Adv d d1 ∧ d.ncmds < d1.ncmds := by
  obtain ⟨h1, h2, h3, h4, _, _, _⟩ := hu
  refine ⟨⟨h1, ?_, h4, [c], ?_⟩, ?_⟩
  · rw [h3]; simp [base]
  · rw [h2, hc]; simp [base]
  · rw [h3]; simp [base]

theorem actionLoop_adv (env : Env) : ∀ (n : Nat) (d : Dbg) (m : Machine) (w : World) (instr : Option Sig),
    ∀ d', NextResult.dbg? (actionLoop env n d m w instr) = some d' → Adv d d'
  | 0, d, m, w, instr => by simp [actionLoop, NextResult.dbg?]
  | n + 1, d, m, w, instr => by
    intro d' hd
    unfold actionLoop at hd
    split at hd
    · -- wait
      split at hd
      · simp [NextResult.dbg?] at hd; subst hd
        exact ⟨rfl, Nat.le_succ _, rfl, [], by simp⟩
      · rename_i c rest hc
        split at hd
        · rename_i d1 m1 w1 hr
          have hu := runCommand_upd env _ m w c d1 (by rw [hr]; rfl)
          exact (Adv.of_cmd hc hu).1.trans (actionLoop_adv env n d1 m1 w1 instr d' hd)
        · rename_i a d1 m1 w1 hr
          have hu := runCommand_upd env _ m w c d1 (by rw [hr]; rfl)
          simp [NextResult.dbg?] at hd; subst hd
          exact (Adv.of_cmd hc hu).1
        · rename_i cde d1 m1 w1 hr
          have hu := runCommand_upd env _ m w c d1 (by rw [hr]; rfl)
          simp [NextResult.dbg?] at hd; subst hd
          exact (Adv.of_cmd hc hu).1
        · simp [NextResult.dbg?] at hd
    · -- stepOver
      split at hd
      · have h1 : Adv d { (if d.icount > 1 then say d "Reached::SubroutineEnd" else d) with status := .wait } := by
          split <;> exact ⟨rfl, Nat.le_refl _, rfl, [], rfl⟩
        exact h1.trans (actionLoop_adv env n _ m w instr d' hd)
      · simp [NextResult.dbg?] at hd; subst hd; exact Adv.refl d
    · split at hd <;> (simp [NextResult.dbg?] at hd; subst hd; exact ⟨rfl, Nat.le_refl _, rfl, [], rfl⟩)
    · simp [NextResult.dbg?] at hd; subst hd; exact Adv.refl d
    · split at hd <;> (simp [NextResult.dbg?] at hd; subst hd; exact ⟨rfl, Nat.le_refl _, rfl, [], rfl⟩)

end Lace.DbgProofs

namespace Lace.DbgProofs
open Lace Lace.Dbg Lace.Cmd

/-- If the status loop returns without having read a command, it returned `proceed` with the
machine and the world untouched, and it was not waiting for a command. -/
theorem actionLoop_no_cmd (env : Env) : ∀ (n : Nat) (d : Dbg) (m : Machine) (w : World) (instr : Option Sig)
    (a : Action) (d' : Dbg) (m' : Machine) (w' : World),
    actionLoop env n d m w instr = .action a d' m' w' → d'.ncmds = d.ncmds →
    a = .proceed ∧ m' = m ∧ w' = w ∧ d.status ≠ .wait
  | 0, d, m, w, instr, a, d', m', w' => by simp [actionLoop]
  | n + 1, d, m, w, instr, a, d', m', w' => by
    intro h hn
    unfold actionLoop at h
    split at h
    · -- wait: a command (or end of input) is always consumed
      exfalso
      split at h
      · simp at h; obtain ⟨_, h2, _, _⟩ := h; subst h2; simp at hn
      · rename_i c rest hc
        split at h
        · rename_i d1 m1 w1 hr
          have hu := runCommand_upd env _ m w c d1 (by rw [hr]; rfl)
          have h1 := (Adv.of_cmd hc hu).2
          have h2 := (actionLoop_adv env n d1 m1 w1 instr d' (by rw [h]; rfl)).ncmds
          omega
        · rename_i a1 d1 m1 w1 hr
          have hu := runCommand_upd env _ m w c d1 (by rw [hr]; rfl)
          have h1 := (Adv.of_cmd hc hu).2
          simp at h; obtain ⟨_, h2, _, _⟩ := h; subst h2; omega
        · simp at h
        · simp at h
    · rename_i ret hs
      split at h
      · -- becomes `wait`, then a command is consumed
        exfalso
        have h2 := actionLoop_no_cmd env n _ m w instr a d' m' w' h (by
          rw [hn]; split <;> rfl)
        exact h2.2.2.2 rfl
      · simp at h; obtain ⟨h1, h2, h3, h4⟩ := h
        subst h1 h3 h4
        exact ⟨rfl, rfl, rfl, by rw [hs]; simp⟩
    · rename_i cnt hs
      split at h <;> (simp at h; obtain ⟨h1, h2, h3, h4⟩ := h; subst h1 h3 h4;
                      exact ⟨rfl, rfl, rfl, by rw [hs]; simp⟩)
    · rename_i hs
      simp at h; obtain ⟨h1, h2, h3, h4⟩ := h; subst h1 h3 h4
      exact ⟨rfl, rfl, rfl, by rw [hs]; simp⟩
    · rename_i hs
      split at h <;> (simp at h; obtain ⟨h1, h2, h3, h4⟩ := h; subst h1 h3 h4;
                      exact ⟨rfl, rfl, rfl, by rw [hs]; simp⟩)

theorem checkInterrupts_ncmds (d : Dbg) (pc : Word) (i : Option Sig) :
    (checkInterrupts d pc i).ncmds = d.ncmds ∧ (checkInterrupts d pc i).initial = d.initial ∧
    (checkInterrupts d pc i).cmds = d.cmds ∧ (checkInterrupts d pc i).nexec = d.nexec := by
  unfold checkInterrupts
  split <;> (try split) <;> (try split) <;> simp [say]

theorem checkInterrupts_wait (d : Dbg) (pc : Word) (i : Option Sig) (h : d.status = .wait) :
    (checkInterrupts d pc i).status = .wait := by
  unfold checkInterrupts
  split <;> (try split) <;> (try split) <;> simp [say, h]

theorem checkInterrupts_halt (d : Dbg) (pc : Word) :
    (checkInterrupts d pc (some .halt)).status = .wait := by
  unfold checkInterrupts
  split <;> (try split) <;> simp_all [say]

/-- The record `next_action` works on after its preamble (bounds message, interrupts). -/
def preamble (d : Dbg) (m : Machine) : Dbg :=
  let d := match Run.checkPcBounds m with
    | .lt => { say d "OutOfBounds::ProgramCounter" with status := .wait }
    | .gt => { say d "OutOfBounds::ProgramCounter" with status := .wait }
    | .eq => d
  checkInterrupts d m.pc (sigOf (m.read m.pc))

theorem nextAction_eq (env : Env) (d : Dbg) (m : Machine) (w : World) :
    nextAction env d m w =
      actionLoop env (2 * (preamble d m).cmds.length + 3) (preamble d m) m w (sigOf (m.read m.pc)) := rfl

theorem preamble_facts (d : Dbg) (m : Machine) :
    (preamble d m).ncmds = d.ncmds ∧ (preamble d m).initial = d.initial ∧
    (preamble d m).cmds = d.cmds ∧ (preamble d m).nexec = d.nexec := by
  unfold preamble
  cases Run.checkPcBounds m <;> simp only <;>
    (have := checkInterrupts_ncmds; simp_all [say])

/-- **No spin (one call).** If `next_action` returns without having read a command, it said
`proceed`, left machine and world untouched, and the PC is inside user space and not on HALT —
so the run loop executes an instruction next. -/
theorem nextAction_no_cmd (env : Env) (d : Dbg) (m : Machine) (w : World)
    (a : Action) (d' : Dbg) (m' : Machine) (w' : World)
    (h : nextAction env d m w = .action a d' m' w') (hn : d'.ncmds = d.ncmds) :
    a = .proceed ∧ m' = m ∧ w' = w ∧ Run.checkPcBounds m = .eq ∧ sigOf (m.read m.pc) ≠ some .halt := by
  rw [nextAction_eq] at h
  have hp := preamble_facts d m
  obtain ⟨h1, h2, h3, h4⟩ := actionLoop_no_cmd env _ _ m w _ a d' m' w' h (by rw [hn, hp.1])
  refine ⟨h1, h2, h3, ?_, ?_⟩
  · cases hb : Run.checkPcBounds m with
    | eq => rfl
    | lt => exact absurd (by unfold preamble; rw [hb]; exact checkInterrupts_wait _ _ _ rfl) h4
    | gt => exact absurd (by unfold preamble; rw [hb]; exact checkInterrupts_wait _ _ _ rfl) h4
  · intro hh
    apply h4
    unfold preamble; rw [hh]; exact checkInterrupts_halt _ _

end Lace.DbgProofs
