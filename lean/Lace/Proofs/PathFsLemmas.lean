/-
  Lemmas about the path-level file system of `Model/PathFs.lean`: finite maps, fresh inodes,
  path resolution (extensionality, link-free prefixes, canonical locations, frame).
-/
import Lace.Model.PathFs
namespace Lace.PathFs
open Lace

/-! ### Finite maps -/

section maps
variable {α β : Type} [DecidableEq α]

theorem mget_merase (k k' : α) (m : List (α × β)) :
    mget k' (merase k m) = if k' = k then none else mget k' m := by
  induction m with
  | nil => simp [merase, mget]
  | cons p m ih =>
    obtain ⟨a, v⟩ := p
    by_cases ha : a = k
    · subst ha
      by_cases hk : k' = a
      · subst hk; simp [merase, ih]
      · have : ¬ a = k' := fun h => hk h.symm
        simp [merase, ih, hk, mget, this]
    · by_cases hk : k' = k
      · subst hk
        simp [merase, ha, mget, ih]
      · simp [merase, ha, mget, ih, hk]

theorem mget_mset (k k' : α) (v : β) (m : List (α × β)) :
    mget k' (mset k v m) = if k' = k then some v else mget k' m := by
  by_cases hk : k' = k
  · subst hk; simp [mset, mget]
  · have : ¬ k = k' := fun h => hk h.symm
    simp [mset, mget, this, mget_merase, hk]

end maps

theorem entryAt_mset (m : Ents) (K l : Loc) (v : Entry) (hK : K ≠ []) :
    entryAt (mset K v m) l = if l = K then some v else entryAt m l := by
  unfold entryAt
  by_cases hl : l = []
  · subst hl
    have : ¬ ([] : Loc) = K := fun h => hK h.symm
    simp [this]
  · simp [hl, mget_mset]

theorem entryAt_merase (m : Ents) (K l : Loc) (hK : K ≠ []) :
    entryAt (merase K m) l = if l = K then none else entryAt m l := by
  unfold entryAt
  by_cases hl : l = []
  · subst hl
    have : ¬ ([] : Loc) = K := fun h => hK h.symm
    simp [this]
  · simp [hl, mget_merase]

theorem le_maxIno (m : Ents) (k : Loc) (i : Nat) (h : mget k m = some (.file i)) : i ≤ maxIno m := by
  induction m with
  | nil => simp [mget] at h
  | cons p m ih =>
    obtain ⟨a, e⟩ := p
    by_cases ha : a = k
    · simp [mget, ha] at h
      subst h
      simp [maxIno]; omega
    · simp [mget, ha] at h
      have := ih h
      cases e <;> simp [maxIno] <;> omega

/-- No name refers to the inode a new file gets. -/
theorem lt_freshIno (fs : Fs) (k : Loc) (i : Nat) (h : entryAt fs.ents k = some (.file i)) :
    i < freshIno fs := by
  unfold entryAt at h
  by_cases hk : k = []
  · simp [hk] at h
  · simp [hk] at h
    have := le_maxIno _ _ _ h
    unfold freshIno; omega

theorem contents_mset (fs : Fs) (i j : Nat) (b : List Nat) (ents : Ents) (cwd : Loc) :
    contents { ents := ents, data := mset j b fs.data, cwd := cwd } i = if i = j then b else contents fs i := by
  simp only [contents, mget_mset]
  split <;> simp

/-! ### Resolution -/

/-- What `walk` hands to `walkWith` for links. -/
def cont (m : Ents) (fl : Bool) : Nat → Loc → List Name → Res
  | 0 => fun _ _ => .error .loop
  | f + 1 => walk m fl f

theorem walk_eq (m : Ents) (fl : Bool) (f : Nat) : walk m fl f = walkWith (cont m fl f) m fl := by
  cases f <;> rfl

/-- Resolution looks at the entry table only through `entryAt`. -/
theorem walkWith_ext {m1 m2 : Ents} (h : ∀ l, entryAt m1 l = entryAt m2 l)
    (k1 k2 : Loc → List Name → Res) (hk : ∀ c cs, k1 c cs = k2 c cs) (fl : Bool) :
    ∀ (comps : List Name) (cur : Loc), walkWith k1 m1 fl cur comps = walkWith k2 m2 fl cur comps
  | [], cur => by simp [walkWith]
  | n :: rest, cur => by
    simp only [walkWith, h]
    split
    · rfl
    · exact walkWith_ext h k1 k2 hk fl rest _
    · simp [hk]
    · rfl

theorem walk_ext {m1 m2 : Ents} (h : ∀ l, entryAt m1 l = entryAt m2 l) (fl : Bool) :
    ∀ (f : Nat) (cur : Loc) (comps : List Name), walk m1 fl f cur comps = walk m2 fl f cur comps
  | 0, cur, comps => by
    simp only [walk]; exact walkWith_ext h _ _ (fun _ _ => rfl) fl comps cur
  | f + 1, cur, comps => by
    simp only [walk]; exact walkWith_ext h _ _ (fun c cs => walk_ext h fl f c cs) fl comps cur

/-- `ds` is a chain of plain directories below `cur` (no links). -/
def dirsFrom (m : Ents) (cur : Loc) : List Name → Prop
  | [] => True
  | n :: ds => entryAt m (cur ++ [n]) = some .dir ∧ dirsFrom m (cur ++ [n]) ds

/-- Every prefix of `d` is a directory: `d` is the link-free location of a directory. -/
def CanonDir (m : Ents) (d : Loc) : Prop := dirsFrom m [] d

theorem dirsFrom_append (m : Ents) (cur a b : List Name) :
    dirsFrom m cur (a ++ b) ↔ dirsFrom m cur a ∧ dirsFrom m (cur ++ a) b := by
  induction a generalizing cur with
  | nil => simp [dirsFrom]
  | cons n a ih => simp [dirsFrom, ih, and_assoc]

theorem dirsFrom_mono {m1 m2 : Ents} (h : ∀ l, entryAt m1 l = some .dir → entryAt m2 l = some .dir)
    (cur ds : List Name) : dirsFrom m1 cur ds → dirsFrom m2 cur ds := by
  induction ds generalizing cur with
  | nil => simp [dirsFrom]
  | cons n ds ih => intro ⟨h1, h2⟩; exact ⟨h _ h1, ih _ h2⟩

theorem CanonDir_snoc {m : Ents} {d : Loc} {n : Name} (hd : CanonDir m d)
    (hn : entryAt m (d ++ [n]) = some .dir) : CanonDir m (d ++ [n]) := by
  unfold CanonDir at *
  rw [dirsFrom_append]
  exact ⟨hd, by simpa [dirsFrom] using hn⟩

theorem CanonDir_nil (m : Ents) : CanonDir m [] := by simp [CanonDir, dirsFrom]

/-- A directory's link-free location names a directory. -/
theorem entryAt_of_CanonDir {m : Ents} {d : Loc} (hd : CanonDir m d) : entryAt m d = some .dir := by
  rcases List.eq_nil_or_concat d with h | ⟨D, n, h⟩
  · simp [h, entryAt]
  · subst h
    unfold CanonDir at hd
    rw [List.concat_eq_append, dirsFrom_append] at hd
    simpa [dirsFrom, List.concat_eq_append] using hd.2

/-- Walking down a chain of plain directories. -/
theorem walkWith_plain (k : Loc → List Name → Res) (m : Ents) (fl : Bool) (ds rest : List Name) :
    ∀ cur, dirsFrom m cur ds → walkWith k m fl cur (ds ++ rest) = walkWith k m fl (cur ++ ds) rest := by
  induction ds with
  | nil => intro cur _; simp
  | cons n ds ih =>
    intro cur ⟨h1, h2⟩
    simp only [List.cons_append, walkWith, h1]
    rw [ih _ h2]; simp

theorem walk_plain (m : Ents) (fl : Bool) (f : Nat) (cur ds rest : List Name) (h : dirsFrom m cur ds) :
    walk m fl f cur (ds ++ rest) = walkWith (cont m fl f) m fl (cur ++ ds) rest := by
  rw [walk_eq, walkWith_plain _ _ _ _ _ _ h]

/-- The last step of a resolution: the name `n` looked up in directory `D`. -/
def lastStep (k : Loc → List Name → Res) (m : Ents) (fl : Bool) (D : Loc) (n : Name) : Res :=
  match entryAt m (D ++ [n]) with
  | none => .missing D n
  | some (.link t) => if fl then k (if t.abs then [] else D) t.comps else .found (D ++ [n]) (.link t)
  | some e => .found (D ++ [n]) e

theorem walkWith_last (k : Loc → List Name → Res) (m : Ents) (fl : Bool) (D : Loc) (n : Name) :
    walkWith k m fl D [n] = lastStep k m fl D n := by
  simp only [walkWith, lastStep]
  split <;> simp_all
  cases fl <;> simp

theorem lastStep_none {k m fl D n} (h : entryAt m (D ++ [n]) = none) :
    lastStep k m fl D n = .missing D n := by simp [lastStep, h]

theorem lastStep_link {k m fl D n t} (h : entryAt m (D ++ [n]) = some (.link t)) :
    lastStep k m fl D n = if fl then k (if t.abs then [] else D) t.comps else .found (D ++ [n]) (.link t) := by
  simp [lastStep, h]

theorem lastStep_other {k m fl D n e} (h : entryAt m (D ++ [n]) = some e) (he : ∀ t, e ≠ .link t) :
    lastStep k m fl D n = .found (D ++ [n]) e := by
  cases e with
  | link t => exact absurd rfl (he t)
  | _ => simp [lastStep, h]

/-- With the final link followed, a resolution never ends on a link. -/
theorem walkWith_follow_not_link (k : Loc → List Name → Res) (m : Ents)
    (hk : ∀ c cs l t, k c cs ≠ .found l (.link t)) :
    ∀ (comps : List Name) (cur l : Loc) (t : Path), walkWith k m true cur comps ≠ .found l (.link t)
  | [], cur, l, t => by simp [walkWith]
  | n :: rest, cur, l, t => by
    rcases h : entryAt m (cur ++ [n]) with _ | e
    · simp only [walkWith, h]; split <;> simp
    · cases e with
      | dir => simp only [walkWith, h]; exact walkWith_follow_not_link k m hk rest _ l t
      | link t' => simp [walkWith, h, hk]
      | file i => simp only [walkWith, h]; split <;> simp
      | dev => simp only [walkWith, h]; split <;> simp

theorem walk_follow_not_link (m : Ents) :
    ∀ (f : Nat) (cur : Loc) (comps : List Name) (l : Loc) (t : Path),
      walk m true f cur comps ≠ .found l (.link t)
  | 0, cur, comps, l, t => by
    simp only [walk]; exact walkWith_follow_not_link _ m (by simp) comps cur l t
  | f + 1, cur, comps, l, t => by
    simp only [walk]
    exact walkWith_follow_not_link _ m (fun c cs l t => walk_follow_not_link m f c cs l t) comps cur l t

/-- What a resolution that starts in a directory's link-free location can end in. -/
def ResOk (m : Ents) : Res → Prop
  | .found loc e => (e = .dir ∧ CanonDir m loc) ∨
      (∃ D n, loc = D ++ [n] ∧ CanonDir m D ∧ entryAt m loc = some e ∧ e ≠ .dir)
  | .missing D n => CanonDir m D ∧ entryAt m (D ++ [n]) = none
  | .error _ => True

theorem walkWith_canon (k : Loc → List Name → Res) (m : Ents) (fl : Bool)
    (hk : ∀ c cs, CanonDir m c → ResOk m (k c cs)) :
    ∀ (comps : List Name) (cur : Loc), CanonDir m cur → ResOk m (walkWith k m fl cur comps)
  | [], cur, hc => by simp [walkWith, ResOk, hc]
  | n :: rest, cur, hc => by
    rcases h : entryAt m (cur ++ [n]) with _ | e
    · simp only [walkWith, h]
      split
      · exact ⟨hc, h⟩
      · trivial
    · cases e with
      | dir => simp only [walkWith, h]; exact walkWith_canon k m fl hk rest _ (CanonDir_snoc hc h)
      | link t =>
        simp only [walkWith, h]
        split
        · exact Or.inr ⟨cur, n, rfl, hc, h, by simp⟩
        · apply hk
          split
          · exact CanonDir_nil m
          · exact hc
      | file i =>
        simp only [walkWith, h]
        split
        · exact Or.inr ⟨cur, n, rfl, hc, h, by simp⟩
        · trivial
      | dev =>
        simp only [walkWith, h]
        split
        · exact Or.inr ⟨cur, n, rfl, hc, h, by simp⟩
        · trivial

theorem walk_canon (m : Ents) (fl : Bool) :
    ∀ (f : Nat) (cur : Loc) (comps : List Name), CanonDir m cur → ResOk m (walk m fl f cur comps)
  | 0, cur, comps, hc => by
    simp only [walk]; exact walkWith_canon _ m fl (fun _ _ _ => by simp [ResOk]) comps cur hc
  | f + 1, cur, comps, hc => by
    simp only [walk]
    exact walkWith_canon _ m fl (fun c cs h => walk_canon m fl f c cs h) comps cur hc

/-- Frame: replacing one regular-file name by another regular-file name changes no resolution,
except that a resolution ending on that name now finds the new file. -/
def relabel (K : Loc) (i j : Nat) : Res → Res
  | .found loc e => .found loc (if loc = K ∧ e = .file i then .file j else e)
  | r => r

theorem walkWith_relabel {m1 m2 : Ents} (K : Loc) (i j : Nat)
    (hne : ∀ l, l ≠ K → entryAt m2 l = entryAt m1 l)
    (h1 : entryAt m1 K = some (.file i)) (h2 : entryAt m2 K = some (.file j))
    (k1 k2 : Loc → List Name → Res) (hk : ∀ c cs, k2 c cs = relabel K i j (k1 c cs)) (fl : Bool) :
    ∀ (comps : List Name) (cur : Loc),
      walkWith k2 m2 fl cur comps = relabel K i j (walkWith k1 m1 fl cur comps)
  | [], cur => by simp [walkWith, relabel]
  | n :: rest, cur => by
    by_cases hK : cur ++ [n] = K
    · simp only [walkWith, hK, h1, h2]
      split <;> simp [relabel]
    · simp only [walkWith, hne _ hK]
      split
      · split <;> simp [relabel]
      · exact walkWith_relabel K i j hne h1 h2 k1 k2 hk fl rest _
      · split
        · simp [relabel]
        · exact hk _ _
      · split
        · simp [relabel, hK]
        · simp [relabel]

theorem walk_relabel {m1 m2 : Ents} (K : Loc) (i j : Nat)
    (hne : ∀ l, l ≠ K → entryAt m2 l = entryAt m1 l)
    (h1 : entryAt m1 K = some (.file i)) (h2 : entryAt m2 K = some (.file j)) (fl : Bool) :
    ∀ (f : Nat) (cur : Loc) (comps : List Name),
      walk m2 fl f cur comps = relabel K i j (walk m1 fl f cur comps)
  | 0, cur, comps => by
    simp only [walk]
    exact walkWith_relabel K i j hne h1 h2 _ _ (by simp [relabel]) fl comps cur
  | f + 1, cur, comps => by
    simp only [walk]
    exact walkWith_relabel K i j hne h1 h2 _ _ (fun c cs => walk_relabel K i j hne h1 h2 fl f c cs) fl comps cur

/-- Frame: binding names that were not bound changes no resolution that found something. -/
theorem walkWith_extend {m1 m2 : Ents} (h : ∀ l, entryAt m1 l ≠ none → entryAt m2 l = entryAt m1 l)
    (k1 k2 : Loc → List Name → Res) (hk : ∀ c cs loc e, k1 c cs = .found loc e → k2 c cs = .found loc e)
    (fl : Bool) :
    ∀ (comps : List Name) (cur loc : Loc) (e : Entry),
      walkWith k1 m1 fl cur comps = .found loc e → walkWith k2 m2 fl cur comps = .found loc e
  | [], cur, loc, e => by simp [walkWith]
  | n :: rest, cur, loc, e => by
    rcases h1 : entryAt m1 (cur ++ [n]) with _ | e1
    · simp only [walkWith, h1]; split <;> simp
    · have h2 : entryAt m2 (cur ++ [n]) = some e1 := by rw [h _ (by rw [h1]; simp), h1]
      cases e1 with
      | dir => simp only [walkWith, h1, h2]; exact walkWith_extend h k1 k2 hk fl rest _ loc e
      | link t =>
        simp only [walkWith, h1, h2]
        split
        · exact id
        · exact hk _ _ _ _
      | file i => simp only [walkWith, h1, h2]; exact id
      | dev => simp only [walkWith, h1, h2]; exact id

theorem walk_extend {m1 m2 : Ents} (h : ∀ l, entryAt m1 l ≠ none → entryAt m2 l = entryAt m1 l) (fl : Bool) :
    ∀ (f : Nat) (cur : Loc) (comps : List Name) (loc : Loc) (e : Entry),
      walk m1 fl f cur comps = .found loc e → walk m2 fl f cur comps = .found loc e
  | 0, cur, comps, loc, e => by
    simp only [walk]; exact walkWith_extend h _ _ (by simp) fl comps cur loc e
  | f + 1, cur, comps, loc, e => by
    simp only [walk]
    exact walkWith_extend h _ _ (fun c cs loc e => walk_extend h fl f c cs loc e) fl comps cur loc e

/-- How the resolution of `init ++ [x]` follows from the resolution of the directory part `init`
(last component followed): -/
def SnocSpec (m : Ents) (fl : Bool) (r : Res) (w : Name → Res) : Prop :=
  match r with
  | .found D .dir => ∃ k, ∀ x, w x = lastStep k m fl D x
  | .found _ (.link _) => True
  | .found _ _ => ∀ x, w x = .error .notdir
  | .missing _ _ => ∀ x, w x = .error .noent
  | .error e => ∀ x, w x = .error e

theorem walkWith_snoc (m : Ents) (fl : Bool) (k1 k2 : Loc → List Name → Res)
    (hk : ∀ c cs, SnocSpec m fl (k1 c cs) (fun x => k2 c (cs ++ [x]))) :
    ∀ (init : List Name) (cur : Loc),
      SnocSpec m fl (walkWith k1 m true cur init) (fun x => walkWith k2 m fl cur (init ++ [x]))
  | [], cur => by
    simp only [walkWith, SnocSpec, List.nil_append]
    exact ⟨k2, fun x => walkWith_last k2 m fl cur x⟩
  | a :: rest, cur => by
    rcases h : entryAt m (cur ++ [a]) with _ | e
    · simp only [walkWith, h, List.cons_append]
      split <;> simp [SnocSpec]
    · cases e with
      | dir =>
        simp only [walkWith, h, List.cons_append]
        exact walkWith_snoc m fl k1 k2 hk rest _
      | link t =>
        have := hk (if t.abs then [] else cur) (t.comps ++ rest)
        simpa [walkWith, h, List.append_assoc] using this
      | file i =>
        simp only [walkWith, h, List.cons_append]
        split <;> simp [SnocSpec]
      | dev =>
        simp only [walkWith, h, List.cons_append]
        split <;> simp [SnocSpec]

theorem walk_snoc (m : Ents) (fl : Bool) :
    ∀ (f : Nat) (cur : Loc) (init : List Name),
      SnocSpec m fl (walk m true f cur init) (fun x => walk m fl f cur (init ++ [x]))
  | 0, cur, init => by
    simp only [walk]; exact walkWith_snoc m fl _ _ (by simp [SnocSpec]) init cur
  | f + 1, cur, init => by
    simp only [walk]
    exact walkWith_snoc m fl _ _ (fun c cs => walk_snoc m fl f c cs) init cur

/-- Chains of plain directories depend only on entries at most as long as the chain's end. -/
theorem dirsFrom_of_agree_short {m m' : Ents} (ds : List Name) :
    ∀ (S : Loc), (∀ l : Loc, l.length ≤ (S ++ ds).length → entryAt m' l = entryAt m l) →
      dirsFrom m S ds → dirsFrom m' S ds := by
  induction ds with
  | nil => intro S _ _; trivial
  | cons a ds ih =>
    intro S h ⟨h1, h2⟩
    refine ⟨by rw [h _ (by simp)]; exact h1, ih (S ++ [a]) (fun l hl => h l (by simpa using hl)) h2⟩

/-- A chain of plain directories resolves to its end. -/
theorem walk_dirs (m : Ents) (fl : Bool) (f : Nat) (S ds : List Name) (h : dirsFrom m S ds) :
    walk m fl f S ds = .found (S ++ ds) .dir := by
  have := walk_plain m fl f S ds [] h
  simpa [walkWith] using this

end Lace.PathFs
