/-
  Tokens → image, whole program (C01, parser side of the text level).

  `parse_tokens_image`: every token list that matches the expected token stream of a program
  (`progETok`, `Proofs/TextTokens.lean`) is parsed by `parseLoop` from the empty symbol table, and
  resolving (`backpatchAll`) and emitting (`emitAll`) the result gives exactly `Prog.image`.

  Structure:
  * `List.Forall₂` (not in core), inversion lemmas;
  * symbol-table lemmas (`get?` after `insert`);
  * `finishAll` — `finish` (resolve + specification word) over a list of parsed lines, and its link
    to `backpatchAll` / `specWords`;
  * `Reaches` — `parseLoop` runs `c` iterations from one configuration to another;
  * `stmt_reaches` — one statement (instruction, trap, or the byte tokens of a data directive);
    `stmt_final` — the statement whose last word is word 65,535: the loop ends there, provided no
    token follows (`Prog.renderable`'s `fullOk`: only unlabelled `.blkw 0` items follow, `silent_rest`);
  * `parse_items` — the induction over the items of a program, with the symbol-table invariant
    "label ↦ 1 + number of words before it" expressed through the final lookup function `G`;
  * `parse_tokens_image`.
-/
import Lace.Proofs.TextTokens
import Lace.Props.C01Core

namespace Lace.C01
open Lace.Asm Lace.Spec Lace.C04

/-! ### `Forall₂` -/

theorem forall₂_nil_left {α β : Type _} {R : α → β → Prop} {l : List β} (h : List.Forall₂ R [] l) : l = [] := by
  cases h; rfl

theorem forall₂_cons_left {α β : Type _} {R : α → β → Prop} {a : α} {as : List α} {l : List β}
    (h : List.Forall₂ R (a :: as) l) : ∃ b bs, l = b :: bs ∧ R a b ∧ List.Forall₂ R as bs := by
  cases h with
  | cons h1 h2 => exact ⟨_, _, rfl, h1, h2⟩

theorem forall₂_append_left {α β : Type _} {R : α → β → Prop} : ∀ {as as' : List α} {l : List β},
    List.Forall₂ R (as ++ as') l → ∃ l1 l2, l = l1 ++ l2 ∧ List.Forall₂ R as l1 ∧ List.Forall₂ R as' l2 := by
  intro as
  induction as with
  | nil => intro as' l h; exact ⟨[], l, rfl, .nil, h⟩
  | cons a as ih =>
    intro as' l h
    obtain ⟨b, bs, rfl, h1, h2⟩ := forall₂_cons_left h
    obtain ⟨l1, l2, rfl, h3, h4⟩ := ih h2
    exact ⟨b :: l1, l2, rfl, .cons h1 h3, h4⟩

theorem forall₂_length {α β : Type _} {R : α → β → Prop} : ∀ {as : List α} {l : List β},
    List.Forall₂ R as l → l.length = as.length := by
  intro as
  induction as with
  | nil => intro l h; cases h; rfl
  | cons a as ih =>
    intro l h
    obtain ⟨b, bs, rfl, _, h2⟩ := forall₂_cons_left h
    simp only [List.length_cons, ih h2]

theorem matchAll_of_forall₂ : ∀ {ops : List Opnd} {l : List Token},
    List.Forall₂ ETok.Matches (ops.map .opnd) l → MatchAll ops l := by
  intro ops
  induction ops with
  | nil => intro l h; rw [forall₂_nil_left h]; trivial
  | cons o ops ih =>
    intro l h
    obtain ⟨b, bs, rfl, h1, h2⟩ := forall₂_cons_left h
    exact ⟨h1, ih h2⟩

/-! ### the symbol table -/

theorem insert_get? (tbl : SymTab) (k : List Char) (v : Nat) (k' : List Char) :
    (tbl.insert k v).1.get? k' = if k = k' then some v else tbl.get? k' := by
  induction tbl with
  | nil => simp only [SymTab.insert, SymTab.get?]
  | cons p rest ih =>
    obtain ⟨a, old⟩ := p
    unfold SymTab.insert
    by_cases ha : a = k
    · subst ha
      simp only [if_true, SymTab.get?]
      by_cases hk : a = k'
      · simp only [hk, if_true]
      · simp only [hk, if_false]
    · simp only [ha, if_false, SymTab.get?]
      rw [ih]
      by_cases hk : a = k'
      · have : ¬ k = k' := fun h => ha (hk.trans h.symm)
        simp only [hk, if_true, this, if_false]
      · simp only [hk, if_false]

/-! ### resolving and reading off the specification's words, a list of lines -/

/-- `finish` for every line, concatenated -/
def finishAll (tbl' : SymTab) (o : Word) : List AsmLine → Option (List Word)
  | [] => some []
  | a :: rest =>
    match finish tbl' o a.line a.span a.stmt, finishAll tbl' o rest with
    | some w, some ws => some (w ++ ws)
    | _, _ => none

theorem finishAll_append (tbl' : SymTab) (o : Word) : ∀ (l1 l2 : List AsmLine) (w1 w2 : List Word),
    finishAll tbl' o l1 = some w1 → finishAll tbl' o l2 = some w2 →
    finishAll tbl' o (l1 ++ l2) = some (w1 ++ w2) := by
  intro l1
  induction l1 with
  | nil => intro l2 w1 w2 h1 h2; cases h1; exact h2
  | cons a rest ih =>
    intro l2 w1 w2 h1 h2
    simp only [finishAll] at h1
    split at h1
    · rename_i w ws hw hws
      cases h1
      simp only [List.cons_append, finishAll, hw, ih l2 ws w2 hws h2, List.append_assoc]
    · cases h1

theorem finishAll_spec (tbl' : SymTab) (o : Word) : ∀ (l : List AsmLine) (ws : List Word),
    finishAll tbl' o l = some ws →
    ∃ stmts, backpatchAll tbl' l = some stmts ∧ specWords o stmts = some ws := by
  intro l
  induction l with
  | nil => intro ws h; cases h; exact ⟨[], rfl, rfl⟩
  | cons a rest ih =>
    intro ws h
    simp only [finishAll] at h
    split at h
    · rename_i w ws' hw hws
      cases h
      obtain ⟨stmts, hb, hs⟩ := ih ws' hws
      simp only [finish] at hw
      cases ha : AsmLine.backpatch tbl' a with
      | none =>
        have : AsmLine.backpatch tbl' { line := a.line, stmt := a.stmt, span := a.span } = none := ha
        rw [this] at hw; cases hw
      | some a' =>
        have : AsmLine.backpatch tbl' { line := a.line, stmt := a.stmt, span := a.span } = some a' := ha
        rw [this] at hw
        simp only [Option.bind_some] at hw
        cases hsw : specWord o a' with
        | none => rw [hsw] at hw; cases hw
        | some x =>
          rw [hsw] at hw
          simp only [Option.map_some, Option.some.injEq] at hw
          subst hw
          refine ⟨a' :: stmts, ?_, ?_⟩
          · simp only [backpatchAll, ha, hb]
          · simp only [specWords, hsw, hs, List.cons_append, List.nil_append]
    · cases h

theorem finish_raw (tbl' : SymTab) (o : Word) (line : Nat) (sp : Span) (v : Word) :
    finish tbl' o line sp (.rawWord v) = some [v] := by
  have h1 : (AsmLine.mk line (.rawWord v) sp).backpatch tbl' = some (AsmLine.mk line (.rawWord v) sp) := rfl
  have h2 : specWord o (AsmLine.mk line (.rawWord v) sp) = some v := rfl
  simp only [finish, h1, Option.bind_some, h2, Option.map_some]

theorem finishAll_raw (tbl' : SymTab) (o : Word) : ∀ (lines : List AsmLine) (bs : List Word),
    lines.map (·.stmt) = bs.map .rawWord → finishAll tbl' o lines = some bs := by
  intro lines
  induction lines with
  | nil =>
    intro bs h
    cases bs with
    | nil => rfl
    | cons _ _ => simp at h
  | cons a rest ih =>
    intro bs h
    cases bs with
    | nil => simp at h
    | cons b bs =>
      simp only [List.map_cons, List.cons.injEq] at h
      simp only [finishAll, h.1, finish_raw, ih bs h.2, List.cons_append, List.nil_append]

/-! ### running the parser loop -/

/-- `c` iterations of the parser loop lead from one configuration to another -/
def Reaches (srcLen c : Nat) (toks : List Token) (st : PState) (tbl : SymTab)
    (toks' : List Token) (st' : PState) (tbl' : SymTab) : Prop :=
  ∀ fuel, parseLoop srcLen (fuel + c) toks st tbl = parseLoop srcLen fuel toks' st' tbl'

theorem Reaches.refl (srcLen : Nat) (toks : List Token) (st : PState) (tbl : SymTab) :
    Reaches srcLen 0 toks st tbl toks st tbl := fun _ => rfl

theorem Reaches.step {srcLen : Nat} {toks : List Token} {st : PState} {tbl : SymTab}
    {toks' : List Token} {st' : PState} {tbl' : SymTab}
    (h : parseStep srcLen toks st tbl = (.more toks' st', tbl')) :
    Reaches srcLen 1 toks st tbl toks' st' tbl' := by
  intro fuel
  simp only [parseLoop, h]

theorem Reaches.trans {srcLen c1 c2 : Nat} {t1 t2 t3 : List Token} {s1 s2 s3 : PState} {b1 b2 b3 : SymTab}
    (h1 : Reaches srcLen c1 t1 s1 b1 t2 s2 b2) (h2 : Reaches srcLen c2 t2 s2 b2 t3 s3 b3) :
    Reaches srcLen (c2 + c1) t1 s1 b1 t3 s3 b3 := by
  intro fuel
  rw [← Nat.add_assoc, h1, h2]

theorem parseStep_nolabel (srcLen : Nat) (t : Token) (ts : List Token) (st : PState) (tbl : SymTab)
    (h : t.kind ≠ .label) :
    parseStep srcLen (t :: ts) st tbl = (parseLine srcLen false (t :: ts) st tbl, tbl) := by
  unfold parseStep
  simp only [h, if_false]

/-- a prefix label that is not yet in the table is entered with the current statement number; the
statement that follows is then parsed with the new table (no iteration of its own) -/
theorem parseLoop_label (srcLen fuel : Nat) (lt t : Token) (ts : List Token) (st : PState) (tbl : SymTab)
    (hk : lt.kind = .label) (hnew : tbl.get? lt.text = none) (ht : t.kind ≠ .label) :
    parseLoop srcLen (fuel + 1) (lt :: t :: ts) st tbl =
      parseLoop srcLen (fuel + 1) (t :: ts) st (tbl.insert lt.text st.line).1 := by
  have h1 := parseStep_new_label srcLen lt (t :: ts) st tbl hk hnew
  have h2 := parseStep_nolabel srcLen t ts st (tbl.insert lt.text st.line).1 ht
  have h3 : parseLine srcLen true (t :: ts) st (tbl.insert lt.text st.line).1 =
      parseLine srcLen false (t :: ts) st (tbl.insert lt.text st.line).1 := rfl
  simp only [parseLoop, h1, h2, h3]

theorem parseLoop_nil (srcLen fuel : Nat) (st : PState) (tbl : SymTab) :
    parseLoop srcLen (fuel + 1) [] st tbl = (.ok st.air, tbl) := by
  simp only [parseLoop, parseStep, parseLine, Bool.false_eq_true, if_false]

theorem addStmt_stmts (st : PState) (tok : Token) (stmt : Stmt) (te : Option Nat) :
    ∃ sp, (st.addStmt tok stmt te).stmts = { line := (st.n + 1) % 65536, stmt := stmt, span := sp } :: st.stmts :=
  ⟨_, rfl⟩

/-- the byte tokens of a data directive: one `rawWord` statement each -/
theorem bytes_reaches (srcLen : Nat) : ∀ (bs : List Word) (btoks rest : List Token) (st : PState) (tbl : SymTab),
    List.Forall₂ ETok.Matches (bs.map .byte) btoks → st.line + bs.length ≤ 65535 →
    ∃ st', Reaches srcLen bs.length (btoks ++ rest) st tbl rest st' tbl ∧
      st'.line = st.line + bs.length ∧ st'.n = st.n + bs.length ∧ st'.orig = st.orig ∧
      ∃ lines : List AsmLine, st'.stmts = lines.reverse ++ st.stmts ∧ lines.map (·.stmt) = bs.map Stmt.rawWord ∧
        st'.tokEnd = st.tokEnd ∧
        ((∀ t ∈ btoks, st.tokEnd ≤ t.span.offs) → lines.map (·.span) = btoks.map (·.span)) := by
  intro bs
  induction bs with
  | nil =>
    intro btoks rest st tbl hm _
    rw [forall₂_nil_left hm]
    exact ⟨st, Reaches.refl _ _ _ _, rfl, rfl, rfl, [], rfl, rfl, rfl, fun _ => rfl⟩
  | cons b bs ih =>
    intro btoks rest st tbl hm hle
    obtain ⟨t, ts, rfl, hk, hm'⟩ := forall₂_cons_left hm
    have hk : t.kind = .byte b := hk
    simp only [List.length_cons] at hle
    have hstep : parseStep srcLen (t :: ts ++ rest) st tbl =
        (.more (ts ++ rest) { st.addStmt t (.rawWord b) none with line := st.line + 1 }, tbl) := by
      rw [List.cons_append, parseStep_nolabel srcLen t _ st tbl (by rw [hk]; exact fun h => by cases h)]
      have : ¬ st.line + 1 > 65535 := by omega
      simp only [parseLine, hk, finishStmt, this, if_false]
    obtain ⟨st', hr, h1, h2, h3, lines, h4, h5, h6, h7⟩ :=
      ih ts rest { st.addStmt t (.rawWord b) none with line := st.line + 1 } tbl hm'
        (by show st.line + 1 + bs.length ≤ 65535; omega)
    refine ⟨st', (Reaches.step hstep).trans hr, ?_, ?_, h3, ?_⟩
    · rw [h1]; show st.line + 1 + bs.length = _; simp only [List.length_cons]; omega
    · rw [h2]; show st.n + 1 + bs.length = _; simp only [List.length_cons]; omega
    · refine ⟨{ line := (st.n + 1) % 65536, stmt := .rawWord b, span := ⟨t.span.offs,
          if st.tokEnd ≤ t.span.offs then t.span.len else st.tokEnd - t.span.offs⟩ } :: lines, ?_, ?_, h6, ?_⟩
      · rw [h4]
        show lines.reverse ++ (st.addStmt t (.rawWord b) none).stmts = _
        simp only [PState.addStmt, List.reverse_cons, List.append_assoc, List.cons_append, List.nil_append]
      · simp only [List.map_cons, h5]
      · intro hpos
        have h0 : st.tokEnd ≤ t.span.offs := hpos t List.mem_cons_self
        simp only [List.map_cons, h0, if_true]
        rw [h7 (fun x hx => hpos x (List.mem_cons_of_mem _ hx))]

/-- the byte tokens of a data directive whose last word is word 65,535, with nothing after them:
the statement counter is full, the loop ends with the statements parsed so far -/
theorem bytes_final (srcLen : Nat) : ∀ (bs : List Word) (b : Word) (btoks : List Token) (st : PState)
    (tbl : SymTab) (fuel : Nat),
    List.Forall₂ ETok.Matches ((b :: bs).map .byte) btoks → st.line + bs.length = 65535 →
    btoks.length < fuel →
    ∃ air, parseLoop srcLen fuel btoks st tbl = (.ok air, tbl) ∧ air.orig = st.orig ∧
      ∃ lines : List AsmLine, air.stmts = st.stmts.reverse ++ lines ∧
        lines.map (·.stmt) = (b :: bs).map Stmt.rawWord ∧
        ((∀ t ∈ btoks, st.tokEnd ≤ t.span.offs) → lines.map (·.span) = btoks.map (·.span)) := by
  intro bs
  induction bs with
  | nil =>
    intro b btoks st tbl fuel hm hle hfuel
    obtain ⟨t, ts, rfl, hk, hm'⟩ := forall₂_cons_left hm
    rw [forall₂_nil_left hm'] at hfuel ⊢
    have hk : t.kind = .byte b := hk
    simp only [List.length_nil, Nat.add_zero] at hle
    obtain ⟨fuel', rfl⟩ : ∃ f, fuel = f + 1 := ⟨fuel - 1, by omega⟩
    have hstep : parseStep srcLen [t] st tbl = (.done (.ok (st.addStmt t (.rawWord b) none).air), tbl) := by
      rw [parseStep_nolabel srcLen t _ st tbl (by rw [hk]; exact fun h => by cases h)]
      have : st.line + 1 > 65535 := by omega
      simp only [parseLine, hk, finishStmt, this, if_true]
    refine ⟨(st.addStmt t (.rawWord b) none).air, by simp only [parseLoop, hstep], rfl,
      [{ line := (st.n + 1) % 65536, stmt := .rawWord b, span := ⟨t.span.offs,
          if st.tokEnd ≤ t.span.offs then t.span.len else st.tokEnd - t.span.offs⟩ }], ?_, rfl, ?_⟩
    · show (st.addStmt t (.rawWord b) none).stmts.reverse = _
      simp only [PState.addStmt, List.reverse_cons]
    · intro hpos
      have h0 : st.tokEnd ≤ t.span.offs := hpos t List.mem_cons_self
      simp only [List.map_cons, List.map_nil, h0, if_true]
  | cons b' bs ih =>
    intro b btoks st tbl fuel hm hle hfuel
    obtain ⟨t, ts, rfl, hk, hm'⟩ := forall₂_cons_left hm
    have hk : t.kind = .byte b := hk
    simp only [List.length_cons] at hle hfuel
    obtain ⟨fuel', rfl⟩ : ∃ f, fuel = f + 1 := ⟨fuel - 1, by omega⟩
    have hstep : parseStep srcLen (t :: ts) st tbl =
        (.more ts { st.addStmt t (.rawWord b) none with line := st.line + 1 }, tbl) := by
      rw [parseStep_nolabel srcLen t _ st tbl (by rw [hk]; exact fun h => by cases h)]
      have : ¬ st.line + 1 > 65535 := by omega
      simp only [parseLine, hk, finishStmt, this, if_false]
    obtain ⟨air, e1, e2, lines, e3, e4, e5⟩ :=
      ih b' ts { st.addStmt t (.rawWord b) none with line := st.line + 1 } tbl fuel' hm'
        (by show st.line + 1 + bs.length = 65535; omega) (by omega)
    refine ⟨air, by simp only [parseLoop, hstep]; exact e1, e2,
      { line := (st.n + 1) % 65536, stmt := .rawWord b, span := ⟨t.span.offs,
          if st.tokEnd ≤ t.span.offs then t.span.len else st.tokEnd - t.span.offs⟩ } :: lines, ?_, ?_, ?_⟩
    · rw [e3]
      show (st.addStmt t (.rawWord b) none).stmts.reverse ++ lines = _
      simp only [PState.addStmt, List.reverse_cons, List.append_assoc]; rfl
    · rw [List.map_cons, e4]; rfl
    · intro hpos
      have h0 : st.tokEnd ≤ t.span.offs := hpos t List.mem_cons_self
      simp only [List.map_cons, h0, if_true]
      rw [e5 (fun x hx => hpos x (List.mem_cons_of_mem _ hx))]

/-! ### one statement -/

theorem target_congr {lab lab' : Nat → Option Word} {l : Loc} (h : ∀ id ∈ l.ids, lab id = lab' id) (a : Word) :
    l.target lab a = l.target lab' a := by
  cases l with
  | label id => exact h id (by simp [Loc.ids])
  | lit w => rfl

/-- the words of a statement depend on the label addresses of the labels it mentions only -/
theorem words_congr {lab lab' : Nat → Option Word} {s : SrcStmt} (h : ∀ id ∈ s.ids, lab id = lab' id) (a : Word) :
    s.words lab a = s.words lab' a := by
  cases s with
  | br nzp l => simp only [SrcStmt.words, target_congr (l := l) h]
  | jsr l => simp only [SrcStmt.words, target_congr (l := l) h]
  | ld d l => simp only [SrcStmt.words, target_congr (l := l) h]
  | ldi d l => simp only [SrcStmt.words, target_congr (l := l) h]
  | lea d l => simp only [SrcStmt.words, target_congr (l := l) h]
  | st d l => simp only [SrcStmt.words, target_congr (l := l) h]
  | sti d l => simp only [SrcStmt.words, target_congr (l := l) h]
  | call id => simp only [SrcStmt.words, h id (by simp [SrcStmt.ids])]
  | _ => rfl

theorem flagOf_isSome {nzp : BitVec 3} (h : (nzp != 0#3) = true) : (flagOf nzp).isSome = true := by
  revert nzp; decide

theorem stmtETok_syntax {names : Nat → List Char} {s : SrcStmt} {hd : Head} {ops : List Opnd}
    (h : stmtSyntax names s = some (hd, ops)) : stmtETok names s = hd.etok :: ops.map .opnd := by
  cases s <;> first | (cases h; done) | simp only [stmtETok, h]

/-- the data words of a data directive -/
def dataWords : SrcStmt → List Word
  | .fill w => [w]
  | .blkw n => List.replicate n.toNat 0#16
  | .stringz b => stringWords b
  | _ => []

theorem data_stmt {names : Nat → List Char} {s : SrcStmt} (h : stmtSyntax names s = none)
    (hr : s.renderable = true) (lab : Nat → Option Word) (a : Word) :
    stmtETok names s = (dataWords s).map .byte ∧ s.words lab a = some (dataWords s) ∧
      s.size = (dataWords s).length ∧ s.ids = [] := by
  cases s with
  | fill w => exact ⟨rfl, rfl, rfl, rfl⟩
  | blkw n =>
    refine ⟨?_, rfl, ?_, rfl⟩
    · simp only [stmtETok, dataWords, List.map_replicate]
    · simp only [SrcStmt.size, dataWords, List.length_replicate]
  | stringz b =>
    refine ⟨?_, rfl, ?_, rfl⟩
    · simp only [stmtETok, dataWords, stringWords, List.map_append, List.map_map, List.map_cons, List.map_nil]
      rfl
    · simp only [SrcStmt.size, dataWords, stringWords, List.length_append, List.length_map, List.length_cons,
        List.length_nil]
  | br nzp l =>
    simp only [SrcStmt.renderable] at hr
    have := flagOf_isSome hr
    simp only [stmtSyntax] at h
    cases hf : flagOf nzp with
    | none => rw [hf] at this; cases this
    | some f => rw [hf] at h; cases h
  | _ => cases h

theorem locLabel_isSome (names : Nat → List Char) (tbl : SymTab) (line bits : Nat) (lab : Nat → Option Word)
    (g : Word → Instr) (hfit : ∀ a w, (encode (g (a + 1 + w)) a).isSome = fitsSigned bits w)
    (l : Loc) (a : Word) (x : List Word) (h : one ((l.target lab a).map g) a = some x) :
    (locLabel names tbl line bits l).isSome = true := by
  cases l with
  | label id => rfl
  | lit w =>
    simp only [Loc.target, Option.map_some, one] at h
    have hf : fitsSigned bits w = true := by
      rw [← hfit a w]
      cases he : encode (g (a + 1 + w)) a with
      | none => rw [he] at h; cases h
      | some _ => rfl
    simp only [locLabel, hf, if_true, Option.isSome_some]

/-- a statement that has words is parsed to an AIR statement (every literal operand fits) -/
theorem airOf_isSome (names : Nat → List Char) (tbl : SymTab) (line : Nat) (lab : Nat → Option Word) (a : Word)
    (s : SrcStmt) (x : List Word) (h : s.words lab a = some x) (hsyn : (stmtSyntax names s).isSome = true) :
    (airOf names tbl line s).isSome = true := by
  have L := fun bits g hfit l => locLabel_isSome names tbl line bits lab g hfit l a x
  cases s with
  | addImm d r w =>
    simp only [SrcStmt.words] at h
    by_cases hf : fitsSigned 5 w = true
    · simp only [airOf, hf, if_true, Option.isSome_some]
    · simp only [hf, Bool.false_eq_true, if_false] at h; cases h
  | andImm d r w =>
    simp only [SrcStmt.words] at h
    by_cases hf : fitsSigned 5 w = true
    · simp only [airOf, hf, if_true, Option.isSome_some]
    · simp only [hf, Bool.false_eq_true, if_false] at h; cases h
  | ldr d r w =>
    simp only [SrcStmt.words] at h
    by_cases hf : fitsSigned 6 w = true
    · simp only [airOf, hf, if_true, Option.isSome_some]
    · simp only [hf, Bool.false_eq_true, if_false] at h; cases h
  | str d r w =>
    simp only [SrcStmt.words] at h
    by_cases hf : fitsSigned 6 w = true
    · simp only [airOf, hf, if_true, Option.isSome_some]
    · simp only [hf, Bool.false_eq_true, if_false] at h; cases h
  | trap w =>
    simp only [SrcStmt.words] at h
    by_cases hf : fitsUnsigned 8 w = true
    · simp only [airOf, hf, if_true, Option.isSome_some]
    · simp only [hf, Bool.false_eq_true, if_false] at h; cases h
  | br nzp l =>
    simp only [stmtSyntax] at hsyn
    cases hf : flagOf nzp with
    | none => rw [hf] at hsyn; cases hsyn
    | some f =>
      simp only [airOf, hf, Option.isSome_map]
      exact L 9 (.br nzp) (by intro a w; simp only [encode, Option.isSome_map, pcField_lit_isSome]) l h
  | jsr l =>
    simp only [airOf, Option.isSome_map]
    exact L 11 .jsr (by intro a w; simp only [encode, Option.isSome_map, pcField_lit_isSome]) l h
  | ld d l =>
    simp only [airOf, Option.isSome_map]
    exact L 9 (.ld d) (by intro a w; simp only [encode, Option.isSome_map, pcField_lit_isSome]) l h
  | ldi d l =>
    simp only [airOf, Option.isSome_map]
    exact L 9 (.ldi d) (by intro a w; simp only [encode, Option.isSome_map, pcField_lit_isSome]) l h
  | lea d l =>
    simp only [airOf, Option.isSome_map]
    exact L 9 (.lea d) (by intro a w; simp only [encode, Option.isSome_map, pcField_lit_isSome]) l h
  | st d l =>
    simp only [airOf, Option.isSome_map]
    exact L 9 (.st d) (by intro a w; simp only [encode, Option.isSome_map, pcField_lit_isSome]) l h
  | sti d l =>
    simp only [airOf, Option.isSome_map]
    exact L 9 (.sti d) (by intro a w; simp only [encode, Option.isSome_map, pcField_lit_isSome]) l h
  | fill w => cases hsyn
  | blkw n => cases hsyn
  | stringz b => cases hsyn
  | _ => rfl

theorem parseLine_head (srcLen : Nat) (hd : Head) (t : Token) (ts : List Token) (st : PState) (tbl : SymTab)
    (h : hd.etok.Matches t) :
    parseLine srcLen false (t :: ts) st tbl = finishStmt st t (parseHead srcLen tbl st.line hd ts) := by
  cases hd with
  | instr k =>
    have hk : t.kind = .instr k := h
    simp only [parseLine, hk, parseHead]
  | trap k =>
    have hk : t.kind = .trap k := h
    simp only [parseLine, hk, parseHead]

theorem head_not_label (hd : Head) (t : Token) (h : hd.etok.Matches t) : t.kind ≠ .label := by
  cases hd with
  | instr k => have hk : t.kind = .instr k := h; rw [hk]; exact fun h => by cases h
  | trap k => have hk : t.kind = .trap k := h; rw [hk]; exact fun h => by cases h

/-- **One statement.**  From a state with `k` words so far, the tokens of statement `s` (mnemonic
and operands, or the byte tokens of a data directive) are consumed in at most as many iterations as
there are tokens, and add lines which — resolved against any later table that extends the current one
and agrees with `lab` on the labels `s` mentions — have exactly the words of `s`. -/
theorem stmt_reaches (names : Nat → List Char) (srcLen : Nat) (ow : Word) (lab : Nat → Option Word)
    (s : SrcStmt) (stoks rest : List Token)
    (hm : List.Forall₂ ETok.Matches (stmtETok names s) stoks) (st : PState) (tbl : SymTab) (k : Nat)
    (hline : st.line = k + 1) (hn : st.n = k) (hk : k + s.size < 65535) (hren : s.renderable = true)
    (w : List Word) (hw : s.words lab (addrOf ow (k + 1)) = some w) :
    ∃ c st', c ≤ stoks.length ∧ Reaches srcLen c (stoks ++ rest) st tbl rest st' tbl ∧
      st'.line = k + s.size + 1 ∧ st'.n = k + s.size ∧ st'.orig = st.orig ∧
      ∃ lines : List AsmLine, st'.stmts = lines.reverse ++ st.stmts ∧
        ∀ tblF : SymTab, (∀ n v, tbl.get? n = some v → tblF.get? n = some v) →
          (∀ id ∈ s.ids, lab id = (tblF.get? (names id)).map (addrOf ow)) →
          finishAll tblF ow lines = some w := by
  cases hs : stmtSyntax names s with
  | none =>
    obtain ⟨h1, h2, h3, _⟩ := data_stmt hs hren lab (addrOf ow (k + 1))
    rw [h2] at hw; cases hw
    rw [h1] at hm
    obtain ⟨st', hr, a1, a2, a3, lines, a4, a5, _, _⟩ :=
      bytes_reaches srcLen (dataWords s) stoks rest st tbl hm (by rw [hline, ← h3]; omega)
    refine ⟨(dataWords s).length, st', ?_, hr, ?_, ?_, a3, lines, a4, ?_⟩
    · rw [forall₂_length hm, List.length_map]; exact Nat.le_refl _
    · rw [a1, hline, h3]; omega
    · rw [a2, hn, h3]
    · intro tblF _ _
      exact finishAll_raw tblF ow lines _ a5
  | some p =>
    obtain ⟨hd, ops⟩ := p
    rw [stmtETok_syntax hs] at hm
    obtain ⟨t, ots, rfl, ht, hops⟩ := forall₂_cons_left hm
    have hsz : s.size = 1 := by
      cases s <;> first | rfl | (cases hs; done)
    have hair := airOf_isSome names tbl st.line lab (addrOf ow (k + 1)) s w hw (by rw [hs]; rfl)
    cases ha : airOf names tbl st.line s with
    | none => rw [ha] at hair; cases hair
    | some stmt =>
      have hp := parse_stmt_tokens names srcLen tbl st.line s hd ops hs ots rest (matchAll_of_forall₂ hops)
      rw [ha] at hp
      obtain ⟨te, hp⟩ := hp
      have hlt : ¬ st.line + 1 > 65535 := by omega
      have hstep : parseStep srcLen (t :: ots ++ rest) st tbl =
          (.more rest { st.addStmt t stmt te with line := st.line + 1 }, tbl) := by
        rw [List.cons_append, parseStep_nolabel srcLen t _ st tbl (head_not_label hd t ht),
          parseLine_head srcLen hd t _ st tbl ht, hp]
        simp only [finishStmt, hlt, if_false]
      obtain ⟨sp, hsp⟩ := addStmt_stmts st t stmt te
      refine ⟨1, _, by simp only [List.length_cons]; omega, Reaches.step hstep, ?_, ?_, rfl,
        [{ line := (st.n + 1) % 65536, stmt := stmt, span := sp }], ?_, ?_⟩
      · show st.line + 1 = _; omega
      · show st.n + 1 = _; omega
      · show (st.addStmt t stmt te).stmts = _
        rw [hsp]; rfl
      · intro tblF hmono hids
        have hmod : (st.n + 1) % 65536 = k + 1 := by rw [hn]; exact Nat.mod_eq_of_lt (by omega)
        have h1 := airOf_words names tbl tblF (k + 1) ow sp hmono
          (fun id => (tblF.get? (names id)).map (addrOf ow)) (fun _ => rfl) s (by rw [hs]; rfl)
        rw [hline] at ha
        rw [ha, Option.bind_some, ← words_congr hids, hw] at h1
        simp only [finishAll, hmod, ← h1, List.append_nil]

/-- **The statement that fills the image.**  When the last word of `s` is word 65,535 and no token
follows, the loop ends (successfully) with the lines of `s` appended. -/
theorem stmt_final (names : Nat → List Char) (srcLen : Nat) (ow : Word) (lab : Nat → Option Word)
    (s : SrcStmt) (stoks : List Token)
    (hm : List.Forall₂ ETok.Matches (stmtETok names s) stoks) (st : PState) (tbl : SymTab) (k : Nat)
    (hline : st.line = k + 1) (hn : st.n = k) (hk : k + s.size = 65535) (hsz : 1 ≤ s.size)
    (hren : s.renderable = true)
    (w : List Word) (hw : s.words lab (addrOf ow (k + 1)) = some w) (fuel : Nat) (hfuel : stoks.length < fuel) :
    ∃ air, parseLoop srcLen fuel stoks st tbl = (.ok air, tbl) ∧ air.orig = st.orig ∧
      ∃ lines : List AsmLine, air.stmts = st.stmts.reverse ++ lines ∧
        ∀ tblF : SymTab, (∀ n v, tbl.get? n = some v → tblF.get? n = some v) →
          (∀ id ∈ s.ids, lab id = (tblF.get? (names id)).map (addrOf ow)) →
          finishAll tblF ow lines = some w := by
  cases hs : stmtSyntax names s with
  | none =>
    obtain ⟨h1, h2, h3, _⟩ := data_stmt hs hren lab (addrOf ow (k + 1))
    rw [h2] at hw; cases hw
    rw [h1] at hm
    cases hd : dataWords s with
    | nil => rw [hd] at h3; simp only [List.length_nil] at h3; omega
    | cons b bs =>
      rw [hd] at hm h3
      simp only [List.length_cons] at h3
      obtain ⟨air, e1, e2, lines, e3, e4, _⟩ :=
        bytes_final srcLen bs b stoks st tbl fuel hm (by omega) hfuel
      exact ⟨air, e1, e2, lines, e3, fun tblF _ _ => finishAll_raw tblF ow lines _ e4⟩
  | some p =>
    obtain ⟨hd, ops⟩ := p
    rw [stmtETok_syntax hs] at hm
    obtain ⟨t, ots, rfl, ht, hops⟩ := forall₂_cons_left hm
    have hsz1 : s.size = 1 := by
      cases s <;> first | rfl | (cases hs; done)
    have hair := airOf_isSome names tbl st.line lab (addrOf ow (k + 1)) s w hw (by rw [hs]; rfl)
    cases ha : airOf names tbl st.line s with
    | none => rw [ha] at hair; cases hair
    | some stmt =>
      have hp := parse_stmt_tokens names srcLen tbl st.line s hd ops hs ots [] (matchAll_of_forall₂ hops)
      rw [ha, List.append_nil] at hp
      obtain ⟨te, hp⟩ := hp
      have hgt : st.line + 1 > 65535 := by omega
      have hstep : parseStep srcLen (t :: ots) st tbl = (.done (.ok (st.addStmt t stmt te).air), tbl) := by
        rw [parseStep_nolabel srcLen t _ st tbl (head_not_label hd t ht),
          parseLine_head srcLen hd t _ st tbl ht, hp]
        simp only [finishStmt, hgt, if_true]
      obtain ⟨sp, hsp⟩ := addStmt_stmts st t stmt te
      simp only [List.length_cons] at hfuel
      obtain ⟨fuel', rfl⟩ : ∃ f, fuel = f + 1 := ⟨fuel - 1, by omega⟩
      refine ⟨(st.addStmt t stmt te).air, by simp only [parseLoop, hstep], rfl,
        [{ line := (st.n + 1) % 65536, stmt := stmt, span := sp }], ?_, ?_⟩
      · show (st.addStmt t stmt te).stmts.reverse = _
        rw [hsp, List.reverse_cons]
      · intro tblF hmono hids
        have hmod : (st.n + 1) % 65536 = k + 1 := by rw [hn]; exact Nat.mod_eq_of_lt (by omega)
        have h1 := airOf_words names tbl tblF (k + 1) ow sp hmono
          (fun id => (tblF.get? (names id)).map (addrOf ow)) (fun _ => rfl) s (by rw [hs]; rfl)
        rw [hline] at ha
        rw [ha, Option.bind_some, ← words_congr hids, hw] at h1
        simp only [finishAll, hmod, ← h1, List.append_nil]

/-! ### the items of a program -/

/-- the statements among the items (`Prog.stmts`, recursively) -/
def itemsStmts : List Item → List LStmt
  | [] => []
  | .stmt l s :: rest => (l, s) :: itemsStmts rest
  | .orig _ :: rest => itemsStmts rest
  | .brk :: rest => itemsStmts rest

/-- the `.orig` operands among the items (`Prog.origs`, recursively) -/
def itemsOrigs : List Item → List Word
  | [] => []
  | .orig w :: rest => w :: itemsOrigs rest
  | .stmt _ _ :: rest => itemsOrigs rest
  | .brk :: rest => itemsOrigs rest

theorem stmts_eq (P : Prog) : P.stmts = itemsStmts P.items := by
  unfold Prog.stmts
  induction P.items with
  | nil => rfl
  | cons it rest ih => cases it <;> simp only [List.filterMap_cons, itemsStmts, ih]

theorem origs_eq (P : Prog) : P.origs = itemsOrigs P.items := by
  unfold Prog.origs
  induction P.items with
  | nil => rfl
  | cons it rest ih => cases it <;> simp only [List.filterMap_cons, itemsOrigs, ih]

/-- a statement of at least one word has a first token, which is not a label -/
theorem stmt_first (names : Nat → List Char) (s : SrcStmt) (stoks : List Token)
    (hm : List.Forall₂ ETok.Matches (stmtETok names s) stoks) (hren : s.renderable = true)
    (hsz : 1 ≤ s.size) : ∃ t ts, stoks = t :: ts ∧ t.kind ≠ .label := by
  cases hs : stmtSyntax names s with
  | none =>
    obtain ⟨h1, _, h3, _⟩ := data_stmt hs hren (fun _ => none) 0#16
    rw [h1] at hm
    cases hd : dataWords s with
    | nil => rw [hd] at h3; simp only [List.length_nil] at h3; omega
    | cons b bs =>
      rw [hd] at hm
      obtain ⟨t, ts, rfl, ht, _⟩ := forall₂_cons_left hm
      have hk : t.kind = .byte b := ht
      exact ⟨t, ts, rfl, by rw [hk]; exact fun h => by cases h⟩
  | some p =>
    obtain ⟨hd, ops⟩ := p
    rw [stmtETok_syntax hs] at hm
    obtain ⟨t, ts, rfl, ht, _⟩ := forall₂_cons_left hm
    exact ⟨t, ts, rfl, head_not_label hd t ht⟩

theorem silent_eq {it : Item} (h : it.silent = true) : it = .stmt none (.blkw 0#16) := by
  cases it with
  | orig w => cases h
  | brk => cases h
  | stmt l s =>
    cases l with
    | some id => cases h
    | none =>
      cases s <;> first | (cases h; done) | (simp only [Item.silent, beq_iff_eq] at h; rw [h])

/-- once the image is full, the items that may still follow contribute nothing: no token, no label,
no `.orig`, no word -/
theorem silent_rest (names : Nat → List Char) (lab : Nat → Option Word) (ow : Word) :
    ∀ (its : List Item) (k : Nat), 65535 ≤ k → fullOk its k = true →
      itemsETok names its = [] ∧ labelDefs (itemsStmts its) k = [] ∧ itemsOrigs its = [] ∧
      wordsFrom lab ow (itemsStmts its) k = some [] := by
  intro its
  induction its with
  | nil => intro k _ _; exact ⟨rfl, rfl, rfl, rfl⟩
  | cons it rest ih =>
    intro k hk h
    simp only [fullOk, Bool.and_eq_true, Bool.or_eq_true, decide_eq_true_eq] at h
    obtain ⟨h1, h2⟩ := h
    have hs : it.silent = true := by
      rcases h1 with h1 | h1
      · omega
      · exact h1
    rw [silent_eq hs] at h2 ⊢
    have hz : (SrcStmt.blkw 0#16).size = 0 := rfl
    simp only [Item.size, hz, Nat.add_zero] at h2
    obtain ⟨a1, a2, a3, a4⟩ := ih k hk h2
    refine ⟨?_, ?_, a3, ?_⟩
    · simp only [itemsETok, a1, List.append_nil]; rfl
    · simp only [itemsStmts, labelDefs, hz, Nat.add_zero, a2]
    · simp only [itemsStmts, wordsFrom, hz, Nat.add_zero, a4]; rfl

/-- **The induction over the items.**  `G` is the lookup function of the final symbol table, `lab`
the label addresses the specification uses, `k` the number of words so far. -/
theorem parse_items (names : Nat → List Char) (srcLen : Nat) (ow : Word) (lab : Nat → Option Word)
    (G : List Char → Option Nat) :
    ∀ (its : List Item) (fuel : Nat) (toks : List Token) (st : PState) (tbl : SymTab) (k : Nat) (ws : List Word),
      st.line = k + 1 → st.n = k →
      k < 65535 → k + totalSize (itemsStmts its) ≤ 65535 → fullOk its k = true →
      toks.length < fuel →
      List.Forall₂ ETok.Matches (itemsETok names its) toks →
      (st.orig = none ∨ itemsOrigs its = []) → (itemsOrigs its).length ≤ 1 →
      (∀ n v, tbl.get? n = some v → G n = some v ∧ v ≤ k) →
      (∀ d ∈ labelDefs (itemsStmts its) k, G (names d.1) = some (d.2 + 1)) →
      (∀ n v, G n = some v → tbl.get? n = some v ∨ ∃ d ∈ labelDefs (itemsStmts its) k, names d.1 = n) →
      (∀ id ∈ stmtsIds (itemsStmts its), lab id = (G (names id)).map (addrOf ow)) →
      (∀ ls ∈ itemsStmts its, ls.2.renderable = true ∧ (ls.1.isSome = true → 1 ≤ ls.2.size)) →
      wordsFrom lab ow (itemsStmts its) k = some ws →
      ∃ air tblF, parseLoop srcLen fuel toks st tbl = (.ok air, tblF) ∧
        air.orig = st.orig.or (itemsOrigs its).head? ∧ (∀ n, tblF.get? n = G n) ∧
        ∃ lines, air.stmts = st.stmts.reverse ++ lines ∧ finishAll tblF ow lines = some ws := by
  intro its
  induction its with
  | nil =>
    intro fuel toks st tbl k ws hline hn hk65 hk hfull hfuel hm horig horigs hT1 hT2 hT3 hlab hrs hw
    rw [forall₂_nil_left hm] at hfuel ⊢
    obtain ⟨fuel', rfl⟩ : ∃ f, fuel = f + 1 := ⟨fuel - 1, by omega⟩
    cases hw
    refine ⟨st.air, tbl, parseLoop_nil _ _ _ _, ?_, ?_, [], ?_, rfl⟩
    · show st.orig = st.orig.or none
      cases st.orig <;> rfl
    · intro n
      cases hg : G n with
      | none =>
        cases ht : tbl.get? n with
        | none => rfl
        | some v => have := (hT1 n v ht).1; rw [hg] at this; cases this
      | some v =>
        rcases hT3 n v hg with h | ⟨d, hd, _⟩
        · exact h
        · cases hd
    · show st.stmts.reverse = _
      rw [List.append_nil]
  | cons it rest ih =>
    intro fuel toks st tbl k ws hline hn hk65 hk hfull hfuel hm horig horigs hT1 hT2 hT3 hlab hrs hw
    cases it with
    | orig w =>
      simp only [itemsETok, itemETok, List.cons_append, List.nil_append] at hm
      obtain ⟨ot, ts1, rfl, hot, hm⟩ := forall₂_cons_left hm
      obtain ⟨lt, rtoks, rfl, hlt, hm⟩ := forall₂_cons_left hm
      have hot : ot.kind = .dir .orig := hot
      have hlt : litWord lt.kind = some w := hlt
      simp only [itemsOrigs, List.length_cons] at horigs horig
      have hnone : st.orig = none := by
        rcases horig with h | h
        · exact h
        · cases h
      have hrest : itemsOrigs rest = [] := by
        cases hr : itemsOrigs rest with
        | nil => rfl
        | cons _ _ => rw [hr] at horigs; simp only [List.length_cons] at horigs; omega
      simp only [List.length_cons] at hfuel
      obtain ⟨fuel', rfl⟩ : ∃ f, fuel = f + 1 := ⟨fuel - 1, by omega⟩
      have hstep : parseStep srcLen (ot :: lt :: rtoks) st tbl =
          (.more rtoks { st with orig := some w, tokEnd := lt.span.offs + lt.span.len }, tbl) := by
        rw [parseStep_nolabel srcLen ot _ st tbl (by rw [hot]; exact fun h => by cases h),
          parseLine_first_orig srcLen false ot lt rtoks st tbl hot w hlt hnone]
      obtain ⟨air, tblF, e1, e2, e3, lines, e4, e5⟩ :=
        ih fuel' rtoks { st with orig := some w, tokEnd := lt.span.offs + lt.span.len } tbl k ws hline hn hk65 hk
          (by simp only [fullOk, Item.size, Bool.and_eq_true, Nat.add_zero] at hfull; exact hfull.2)
          (by omega) hm (Or.inr hrest) (by rw [hrest]; exact Nat.zero_le _) hT1 hT2 hT3 hlab hrs hw
      refine ⟨air, tblF, ?_, ?_, e3, lines, e4, e5⟩
      · simp only [parseLoop, hstep]; exact e1
      · rw [e2, hnone]; rfl
    | brk =>
      simp only [itemsETok, itemETok, List.cons_append, List.nil_append] at hm
      obtain ⟨bt, rtoks, rfl, hbt, hm⟩ := forall₂_cons_left hm
      have hbt : bt.kind = .breakpoint := hbt
      simp only [List.length_cons] at hfuel
      obtain ⟨fuel', rfl⟩ : ∃ f, fuel = f + 1 := ⟨fuel - 1, by omega⟩
      have hstep : parseStep srcLen (bt :: rtoks) st tbl =
          (.more rtoks { st with bps := bpInsert st.bps (st.n % 65536) }, tbl) := by
        rw [parseStep_nolabel srcLen bt _ st tbl (by rw [hbt]; exact fun h => by cases h)]
        simp only [parseLine, hbt]
      obtain ⟨air, tblF, e1, e2, e3, lines, e4, e5⟩ :=
        ih fuel' rtoks { st with bps := bpInsert st.bps (st.n % 65536) } tbl k ws hline hn hk65 hk
          (by simp only [fullOk, Item.size, Bool.and_eq_true, Nat.add_zero] at hfull; exact hfull.2)
          (by omega) hm horig horigs hT1 hT2 hT3 hlab hrs hw
      refine ⟨air, tblF, ?_, e2, e3, lines, e4, e5⟩
      simp only [parseLoop, hstep]; exact e1
    | stmt l s =>
      simp only [itemsStmts, totalSize] at hk hT2 hT3 hlab hrs hw
      simp only [itemsOrigs] at horig horigs
      simp only [fullOk, Item.size, Bool.and_eq_true] at hfull
      have hfull' := hfull.2
      obtain ⟨hren, hlsz⟩ := hrs (l, s) List.mem_cons_self
      have hrs' : ∀ ls ∈ itemsStmts rest, ls.2.renderable = true ∧ (ls.1.isSome = true → 1 ≤ ls.2.size) :=
        fun ls h => hrs ls (List.mem_cons_of_mem _ h)
      simp only [wordsFrom] at hw
      split at hw
      · rename_i w ws' hw1 hw2
        cases hw
        have hT2' : ∀ d ∈ labelDefs (itemsStmts rest) (k + s.size), G (names d.1) = some (d.2 + 1) := by
          intro d hd
          cases l with
          | none => exact hT2 d hd
          | some id => exact hT2 d (List.mem_cons_of_mem _ hd)
        have hlab_s : ∀ id ∈ s.ids, lab id = (G (names id)).map (addrOf ow) := by
          intro id hid
          cases l with
          | none => exact hlab id (List.mem_append_left _ hid)
          | some id' => exact hlab id (List.mem_cons_of_mem _ (List.mem_append_left _ hid))
        have hlab' : ∀ id ∈ stmtsIds (itemsStmts rest), lab id = (G (names id)).map (addrOf ow) := by
          intro id hid
          cases l with
          | none => exact hlab id (List.mem_append_right _ hid)
          | some id' => exact hlab id (List.mem_cons_of_mem _ (List.mem_append_right _ hid))
        -- the statement and everything after it, from any table that fits
        have core : ∀ (stoks rtoks : List Token) (tblX : SymTab) (fuelX : Nat),
            stoks.length + rtoks.length < fuelX →
            List.Forall₂ ETok.Matches (stmtETok names s) stoks →
            List.Forall₂ ETok.Matches (itemsETok names rest) rtoks →
            (∀ n v, tblX.get? n = some v → G n = some v ∧ v ≤ k + s.size) →
            (∀ n v, G n = some v → tblX.get? n = some v ∨
              ∃ d ∈ labelDefs (itemsStmts rest) (k + s.size), names d.1 = n) →
            ∃ air tblF, parseLoop srcLen fuelX (stoks ++ rtoks) st tblX = (.ok air, tblF) ∧
              air.orig = st.orig.or (itemsOrigs rest).head? ∧ (∀ n, tblF.get? n = G n) ∧
              ∃ lines, air.stmts = st.stmts.reverse ++ lines ∧ finishAll tblF ow lines = some (w ++ ws') := by
          intro stoks rtoks tblX fuelX hfX hms hmr hX1 hX3
          rcases Nat.lt_or_ge (k + s.size) 65535 with hlt | hge
          · obtain ⟨c, st', hc, hr, a1, a2, a3, lines, a4, a5⟩ :=
              stmt_reaches names srcLen ow lab s stoks rtoks hms st tblX k hline hn hlt hren w
                (by rw [addrOf_succ]; exact hw1)
            have hf : fuelX = (fuelX - c) + c := by omega
            rw [hf, hr (fuelX - c)]
            obtain ⟨air, tblF, e1, e2, e3, lines', e4, e5⟩ :=
              ih (fuelX - c) rtoks st' tblX (k + s.size) ws' a1 a2 hlt (by omega) hfull' (by omega) hmr
                (by rw [a3]; exact horig) horigs hX1 hT2' hX3 hlab' hrs' hw2
            refine ⟨air, tblF, e1, by rw [e2, a3], e3, lines ++ lines', ?_, ?_⟩
            · rw [e4, a4, List.reverse_append, List.reverse_reverse, List.append_assoc]
            · exact finishAll_append tblF ow lines lines' w ws'
                (a5 tblF (fun n v h => by rw [e3]; exact (hX1 n v h).1)
                  (fun id hid => by rw [e3]; exact hlab_s id hid)) e5
          · -- this statement fills the image: nothing but silent items follows, the loop ends here
            have heq : k + s.size = 65535 := by omega
            obtain ⟨s1, s2, s3, s4⟩ := silent_rest names lab ow rest (k + s.size) hge hfull'
            rw [s1] at hmr
            have hnil := forall₂_nil_left hmr
            subst hnil
            rw [List.append_nil]
            simp only [List.length_nil, Nat.add_zero] at hfX
            rw [s4] at hw2; cases hw2
            rw [s2] at hX3
            obtain ⟨air, e1, e2, lines, e3, e4⟩ :=
              stmt_final names srcLen ow lab s stoks hms st tblX k hline hn heq (by omega) hren w
                (by rw [addrOf_succ]; exact hw1) fuelX hfX
            have hG : ∀ n, tblX.get? n = G n := by
              intro n
              cases hg : G n with
              | none =>
                cases ht : tblX.get? n with
                | none => rfl
                | some v => have := (hX1 n v ht).1; rw [hg] at this; cases this
              | some v =>
                rcases hX3 n v hg with h | ⟨d, hd, _⟩
                · exact h
                · cases hd
            refine ⟨air, tblX, e1, by rw [e2, s3]; cases st.orig <;> rfl, hG, lines, e3, ?_⟩
            rw [List.append_nil]
            exact e4 tblX (fun _ _ h => h) (fun id hid => by rw [hG]; exact hlab_s id hid)
        cases l with
        | none =>
          simp only [itemsETok, itemETok] at hm
          obtain ⟨stoks, rtoks, rfl, hms, hmr⟩ := forall₂_append_left hm
          simp only [List.length_append] at hfuel
          exact core stoks rtoks tbl fuel hfuel hms hmr
            (fun n v h => ⟨(hT1 n v h).1, by have := (hT1 n v h).2; omega⟩) hT3
        | some id =>
          simp only [itemsETok, itemETok, List.cons_append] at hm
          obtain ⟨lt, ts1, rfl, hlt, hm⟩ := forall₂_cons_left hm
          obtain ⟨hltk, hltt⟩ : lt.kind = .label ∧ lt.text = names id := hlt
          obtain ⟨stoks, rtoks, rfl, hms, hmr⟩ := forall₂_append_left hm
          have hsz : 1 ≤ s.size := hlsz rfl
          obtain ⟨t, ts, rfl, htk⟩ := stmt_first names s stoks hms hren hsz
          have hG : G (names id) = some (k + 1) := hT2 (id, k) List.mem_cons_self
          have hfresh : tbl.get? (names id) = none := by
            cases h : tbl.get? (names id) with
            | none => rfl
            | some v =>
              obtain ⟨h1, h2⟩ := hT1 _ _ h
              rw [hG] at h1
              simp only [Option.some.injEq] at h1
              omega
          simp only [List.length_cons, List.length_append] at hfuel
          obtain ⟨fuel', rfl⟩ : ∃ f, fuel = f + 1 := ⟨fuel - 1, by omega⟩
          rw [List.cons_append, parseLoop_label srcLen fuel' lt t (ts ++ rtoks) st tbl hltk
            (by rw [hltt]; exact hfresh) htk, hltt, hline, ← List.cons_append]
          refine core (t :: ts) rtoks _ (fuel' + 1)
            (by simp only [List.length_cons]; omega) hms hmr ?_ ?_
          · intro n v h
            rw [insert_get?] at h
            by_cases hn' : names id = n
            · rw [if_pos hn'] at h
              simp only [Option.some.injEq] at h
              subst h
              exact ⟨by rw [← hn']; exact hG, by omega⟩
            · rw [if_neg hn'] at h
              exact ⟨(hT1 n v h).1, by have := (hT1 n v h).2; omega⟩
          · intro n v hg
            rw [insert_get?]
            rcases hT3 n v hg with h | ⟨d, hd, hdn⟩
            · left
              have hn' : ¬ names id = n := by
                intro hc; rw [← hc, hfresh] at h; cases h
              rw [if_neg hn']; exact h
            · rcases List.mem_cons.mp hd with rfl | hd
              · left
                have hn' : names id = n := hdn
                rw [if_pos hn']
                rw [← hn', hG] at hg
                exact hg
              · right; exact ⟨d, hd, hdn⟩
      · cases hw

/-! ### label definitions and names -/

theorem labelDefs_ids : ∀ (ss : List LStmt) (k : Nat) (d : Nat × Nat), d ∈ labelDefs ss k → d.1 ∈ stmtsIds ss := by
  intro ss
  induction ss with
  | nil => intro k d h; cases h
  | cons ls rest ih =>
    intro k d h
    obtain ⟨l, s⟩ := ls
    cases l with
    | none =>
      simp only [labelDefs] at h
      simp only [stmtsIds]
      exact List.mem_append_right _ (ih _ d h)
    | some id =>
      simp only [labelDefs] at h
      simp only [stmtsIds]
      rcases List.mem_cons.mp h with rfl | h
      · exact List.mem_cons_self
      · exact List.mem_cons_of_mem _ (List.mem_append_right _ (ih _ d h))

theorem namesInj {names : Nat → List Char} {ids : List Nat} (h : namesInjOn names ids = true)
    {i j : Nat} (hi : i ∈ ids) (hj : j ∈ ids) (hn : names i = names j) : i = j := by
  unfold namesInjOn at h
  rw [List.all_eq_true] at h
  have := h i hi
  rw [List.all_eq_true] at this
  have := this j hj
  simp only [Bool.or_eq_true, bne_iff_ne, ne_eq, beq_iff_eq] at this
  rcases this with h | h
  · exact absurd hn h
  · exact h

/-- the final table's lookup function: the first definition with that name, as a statement number -/
def defLookup (names : Nat → List Char) (defs : List (Nat × Nat)) (n : List Char) : Option Nat :=
  (defs.find? (fun d => decide (names d.1 = n))).map (·.2 + 1)

theorem defLookup_name {names : Nat → List Char} {ids : List Nat} (hinj : namesInjOn names ids = true) :
    ∀ (defs : List (Nat × Nat)), (∀ d ∈ defs, d.1 ∈ ids) → ∀ id ∈ ids,
      defLookup names defs (names id) = (defs.lookup id).map (· + 1) := by
  intro defs
  induction defs with
  | nil => intro _ id _; rfl
  | cons d rest ih =>
    intro hd id hid
    obtain ⟨i, k⟩ := d
    have hi : i ∈ ids := hd (i, k) List.mem_cons_self
    have ih' := ih (fun d h => hd d (List.mem_cons_of_mem _ h)) id hid
    unfold defLookup at ih' ⊢
    by_cases he : id = i
    · subst he
      simp only [List.find?_cons, decide_true, Option.map_some, List.lookup_cons, beq_self_eq_true]
    · have hne : ¬ names i = names id := fun h => he (namesInj hinj hid hi h.symm)
      have hb : (id == i) = false := by simp only [beq_eq_false_iff_ne, ne_eq]; exact he
      simp only [List.find?_cons, hne, decide_false, List.lookup_cons, hb]
      exact ih'

theorem lookup_of_nodup : ∀ (defs : List (Nat × Nat)), (defs.map (·.1)).Nodup → ∀ d ∈ defs,
    defs.lookup d.1 = some d.2 := by
  intro defs
  induction defs with
  | nil => intro _ d h; cases h
  | cons e rest ih =>
    intro hnd d hd
    obtain ⟨i, k⟩ := e
    simp only [List.map_cons, List.nodup_cons] at hnd
    rcases List.mem_cons.mp hd with rfl | hd
    · simp only [List.lookup_cons, beq_self_eq_true]
    · have hne : ¬ d.1 = i := by
        intro hc
        exact hnd.1 (hc ▸ List.mem_map_of_mem hd)
      have hb : (d.1 == i) = false := by simp only [beq_eq_false_iff_ne, ne_eq]; exact hne
      simp only [List.lookup_cons, hb]
      exact ih hnd.2 d hd

theorem defLookup_some {names : Nat → List Char} {defs : List (Nat × Nat)} {n : List Char} {v : Nat}
    (h : defLookup names defs n = some v) : ∃ d ∈ defs, names d.1 = n := by
  unfold defLookup at h
  cases hf : defs.find? (fun d => decide (names d.1 = n)) with
  | none => rw [hf] at h; cases h
  | some d =>
    have h1 := List.find?_some hf
    have h2 := List.mem_of_find?_eq_some hf
    exact ⟨d, h2, of_decide_eq_true h1⟩

/-- every program with fewer than 65,535 words passes the full-image condition of `Prog.renderable` -/
theorem fullOk_of_lt_aux : ∀ (its : List Item) (k : Nat), k + totalSize (itemsStmts its) < 65535 →
    fullOk its k = true := by
  intro its
  induction its with
  | nil => intro _ _; rfl
  | cons it rest ih =>
    intro k h
    have hk : k < 65535 := by omega
    simp only [fullOk, Bool.and_eq_true, Bool.or_eq_true, decide_eq_true_eq]
    refine ⟨Or.inl hk, ih _ ?_⟩
    cases it with
    | orig w => exact h
    | brk => exact h
    | stmt l s =>
      simp only [itemsStmts, totalSize] at h
      simp only [Item.size]
      omega

theorem fullOk_of_lt (P : Prog) (h : totalSize P.stmts < 65535) : fullOk P.items 0 = true :=
  fullOk_of_lt_aux P.items 0 (by rw [← stmts_eq]; omega)

/-- a full image: `.blkw xFFFF` may be followed by `.blkw 0` only (`.break` there is lace's `too many`) -/
example : fullOk [.stmt none (.blkw 0xFFFF#16), .stmt none (.blkw 0#16)] 0 = true ∧
    fullOk [.stmt none (.blkw 0xFFFF#16), .brk] 0 = false ∧
    fullOk [.brk, .stmt none (.blkw 0xFFFE#16), .orig 0x3000#16, .stmt (some 0) (.fill 1#16)] 0 = true := by decide

/-! ### the whole program -/

/-- **Tokens → image, whole program.**  Any token list matching the program's expected token stream
parses (from the empty symbol table), resolves and emits to the specification's image. -/
theorem parse_tokens_image (flag : Bool) (names : Nat → List Char) (P : Prog) (srcLen : Nat) (toks : List Token)
    (hm : List.Forall₂ ETok.Matches (progETok names P) toks)
    (hinj : namesInjOn names (stmtsIds P.stmts) = true)
    (hren : P.renderable = true) (hsyn : P.syntaxOk = true)
    (o : Option Word) (ws : List Word) (himg : P.image flag = some (o, ws)) :
    ∃ air tbl', parseLoop srcLen (toks.length + 1) toks
        { orig := none, stmts := [], n := 0, bps := [], line := 1, tokEnd := 0 } [] = (.ok air, tbl') ∧
      air.orig = o ∧ ∃ stmts, backpatchAll tbl' air.stmts = some stmts ∧ emitAll stmts [] = .ok ws := by
  unfold Prog.image at himg
  simp only [] at himg
  split at himg
  · rename_i hc
    obtain ⟨hlen, _, hnodup, htot⟩ := hc
    cases hwf : wordsFrom (fun id => ((labelDefs P.stmts 0).lookup id).map fun k =>
        P.origs.head?.getD 0x3000#16 + BitVec.ofNat 16 k) (P.origs.head?.getD 0x3000#16) P.stmts 0 with
    | none => rw [hwf] at himg; cases himg
    | some ws0 =>
      rw [hwf] at himg
      simp only [Option.map_some, Option.some.injEq, Prod.mk.injEq] at himg
      obtain ⟨ho, rfl⟩ := himg
      unfold Prog.renderable at hren
      rw [Bool.and_eq_true, List.all_eq_true] at hren
      unfold Prog.syntaxOk at hsyn
      rw [List.all_eq_true] at hsyn
      have hids := labelDefs_ids P.stmts 0
      have hG2 : ∀ d ∈ labelDefs P.stmts 0, defLookup names (labelDefs P.stmts 0) (names d.1) = some (d.2 + 1) := by
        intro d hd
        rw [defLookup_name hinj _ hids d.1 (hids d hd), lookup_of_nodup _ hnodup d hd]
        rfl
      rw [stmts_eq] at hwf hren hsyn hG2 hids hinj htot
      rw [origs_eq] at hlen ho hwf
      obtain ⟨air, tblF, e1, e2, e3, lines, e4, e5⟩ :=
        parse_items names srcLen ((itemsOrigs P.items).head?.getD 0x3000#16)
          (fun id => ((labelDefs (itemsStmts P.items) 0).lookup id).map fun k =>
            (itemsOrigs P.items).head?.getD 0x3000#16 + BitVec.ofNat 16 k)
          (defLookup names (labelDefs (itemsStmts P.items) 0))
          P.items (toks.length + 1) toks
          { orig := none, stmts := [], n := 0, bps := [], line := 1, tokEnd := 0 } [] 0 ws0
          rfl rfl (by decide) (by omega) hren.2 (Nat.lt_succ_self _) hm (Or.inl rfl) hlen
          (fun n v h => by cases h) hG2
          (fun n v h => Or.inr (defLookup_some h))
          (fun id hid => by
            rw [defLookup_name hinj _ hids id hid, Option.map_map]
            congr 1
            funext k
            exact (addrOf_succ _ k).symm)
          (fun ls hls => ⟨hren.1 ls hls, fun hsome => by
            have := hsyn ls hls
            obtain ⟨l, s⟩ := ls
            cases l with
            | none => cases hsome
            | some id => simpa using this⟩)
          hwf
      obtain ⟨stmts, hb, hs⟩ := finishAll_spec tblF _ lines ws0 e5
      have hl : air.stmts = lines := by rw [e4]; rfl
      refine ⟨air, tblF, e1, ?_, stmts, by rw [hl]; exact hb, ?_⟩
      · rw [e2, ← ho]; rfl
      · rw [emitAll_eq_specWords _ stmts (backpatchAll_resolved hb), hs]
  · cases himg

/-- hypotheses satisfiable: `.orig x3000 / L brnzp L / .fill x0005 / .blkw 0 / .break`, the label
written `L`, with arbitrary spans -/
example : ∃ (P : Prog) (toks : List Token),
    List.Forall₂ ETok.Matches (progETok (fun _ => ['L']) P) toks ∧
    namesInjOn (fun _ => ['L']) (stmtsIds P.stmts) = true ∧ P.renderable = true ∧ P.syntaxOk = true ∧
    P.image false = some (some 0x3000#16, [0x0FFF#16, 0x0005#16]) :=
  ⟨⟨[.orig 0x3000#16, .stmt (some 0) (.br 7#3 (.label 0)), .stmt none (.fill 5#16), .stmt none (.blkw 0#16), .brk]⟩,
    [⟨.dir .orig, ⟨0, 5⟩, []⟩, ⟨.lit (.hex 0x3000#16), ⟨6, 5⟩, []⟩, ⟨.label, ⟨12, 1⟩, ['L']⟩,
     ⟨.instr (.br .nzp), ⟨14, 5⟩, []⟩, ⟨.label, ⟨20, 1⟩, ['L']⟩, ⟨.byte 5#16, ⟨22, 8⟩, []⟩,
     ⟨.breakpoint, ⟨40, 6⟩, []⟩],
    .cons rfl (.cons rfl (.cons ⟨rfl, rfl⟩ (.cons rfl (.cons ⟨rfl, rfl⟩ (.cons rfl (.cons rfl .nil)))))),
    by decide, by decide, by decide, by decide⟩

end Lace.C01
