/-
  C18 at the command line: for a source without the four mnemonics whose run never fetches an
  opcode-0xD word, `lace check|compile|run` with `-f stack` and without the option are the same
  process (exit status, stdout, written image, what stderr names).
-/
import Lace.Model.CliFlag
import Lace.Proofs.AsmFlagTok
import Lace.Proofs.RunFlag
namespace Lace.Cli
open Lace Lace.Asm

theorem lastIsOpD_mem : ∀ (l : List Word), lastIsOpD l = true → ∃ x ∈ l, Run.isOpD x = true
  | [], h => by simp [lastIsOpD] at h
  | [x], h => ⟨x, by simp, h⟩
  | _ :: y :: ys, h => by
    obtain ⟨x, hx, hd⟩ := lastIsOpD_mem (y :: ys) h
    exact ⟨x, List.mem_cons_of_mem _ hx, hd⟩

theorem lastIsOpD_false {l : List Word} (h : Run.NoOpD l) : lastIsOpD l = false := by
  cases hl : lastIsOpD l
  · rfl
  · obtain ⟨x, hx, hd⟩ := lastIsOpD_mem l hl
    have := h x hx
    simp [Run.isOpD] at hd
    exact absurd hd this

theorem featuresOf_stack : featuresOf2 .absent (.given Features.stackWord) = .ok true := rfl
theorem featuresOf_absent : featuresOf2 .absent .absent = .ok false := rfl

/-- Before or after the subcommand: the same flag (or the same refusal). -/
theorem featuresOf2_comm (v : List Char) :
    (featuresOf2 (.given v) .absent = featuresOf2 .absent (.given v)) := by
  unfold featuresOf2
  have h : featuresOf .absent = .ok false := rfl
  rw [h]
  cases featuresOf (.given v) with
  | error e => rfl
  | ok b => simp

theorem runAssembled_eq (so mi : Bool) (fuel : Nat) (name : List Char) (orig : Option Word)
    (words : List Word) (inp : List Nat) (m : Machine)
    (hL : Run.fromRaw (orig.getD 0x3000#16 :: words) = .ok m) :
    runAssembled so mi fuel name orig words inp =
      (match Run.loop so mi fuel m (runWorld name inp) with
       | .done _ w => .finished { status := 0, out := (withOut w (message "Completed".toList ("target ".toList ++ name))).output }
       | .exit c _ w => .finished { status := c, out := w.output }
       | .panic s => .panic s
       | .fuel _ _ => .fuel) := by
  unfold runAssembled
  simp only [hL]
  rfl

end Lace.Cli
