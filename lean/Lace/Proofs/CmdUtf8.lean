/-
  C14: `read_char_from_bytes` (stdin.rs) decodes the UTF-8 encoding of any character, leaving
  the rest of the stream untouched.
-/
import Lace.Model.Cmd.Reader
namespace Lace.C14
open Lace.Cmd

/-- UTF-8 bytes of a text (what arrives on standard input). -/
def encode (t : List Char) : List UInt8 := t.flatMap String.utf8EncodeChar

@[simp] theorem encode_nil : encode [] = [] := rfl
@[simp] theorem encode_cons (c : Char) (cs : List Char) :
    encode (c :: cs) = String.utf8EncodeChar c ++ encode cs := by simp [encode]
theorem encode_append (a b : List Char) : encode (a ++ b) = encode a ++ encode b := by
  simp [encode]

theorem forall_uint8 (P : UInt8 → Prop) (h : ∀ n : Fin 256, P (UInt8.ofNat n.val)) :
    ∀ x, P x := by
  intro x
  have := h ⟨x.toNat, x.toNat_lt⟩
  simpa using this

theorem from_ascii : ∀ x : UInt8, x < 128 → Utf8Position.from x = .begin1 := by
  apply forall_uint8
  decide +kernel

theorem from_lead2 : ∀ x : UInt8, Utf8Position.from (x &&& 0x1f ||| 0xc0) = .begin2 := by
  apply forall_uint8
  decide +kernel

theorem from_lead3 : ∀ x : UInt8, Utf8Position.from (x &&& 0x0f ||| 0xe0) = .begin3 := by
  apply forall_uint8
  decide +kernel

theorem from_lead4 : ∀ x : UInt8, Utf8Position.from (x &&& 0x07 ||| 0xf0) = .begin4 := by
  apply forall_uint8
  decide +kernel

theorem from_cont : ∀ x : UInt8, Utf8Position.from (x &&& 0x3f ||| 0x80) = .continuation := by
  apply forall_uint8
  decide +kernel

theorem fromUtf8One_encode (c : Char) : fromUtf8One (String.utf8EncodeChar c) = some c := by
  unfold fromUtf8One
  have h := ByteArray.utf8DecodeChar?_utf8EncodeChar_append (b := ByteArray.empty) (c := c)
  rw [ByteArray.append_empty] at h
  rw [h]
  simp [String.length_utf8EncodeChar]

/-- Decoding one character from the front of a valid UTF-8 stream. -/
theorem readChar_encode (c : Char) (rest : List UInt8) :
    readCharFromBytes (String.utf8EncodeChar c ++ rest) = .char c rest := by
  have hdec := fromUtf8One_encode c
  rcases Char.utf8Size_eq c with h | h | h | h
  · have he := String.utf8EncodeChar_eq_singleton h
    rw [he] at hdec ⊢
    have hlt : c.val.toUInt8 < 128 := by
      have h1 := Char.utf8Size_eq_one_iff.1 h
      have h2 : c.val.toNat ≤ 127 := UInt32.le_iff_toNat_le.1 h1
      rw [UInt8.lt_iff_toNat_lt, UInt32.toNat_toUInt8]
      have h3 : (128 : UInt8).toNat = 128 := rfl
      rw [h3]
      omega
    simp only [List.cons_append, List.nil_append, readCharFromBytes, from_ascii _ hlt, Utf8Position.len,
      Nat.sub_self, takeContinuation, hdec]
  · have he := String.utf8EncodeChar_eq_cons_cons h
    rw [he] at hdec ⊢
    simp only [List.cons_append, List.nil_append, readCharFromBytes, from_lead2, from_cont,
      Utf8Position.len, takeContinuation, Utf8Position.isContinuation, hdec, Nat.add_one_sub_one,
      not_true_eq_false, if_false]
  · have he := String.utf8EncodeChar_eq_cons_cons_cons h
    rw [he] at hdec ⊢
    simp only [List.cons_append, List.nil_append, readCharFromBytes, from_lead3, from_cont,
      Utf8Position.len, takeContinuation, Utf8Position.isContinuation, hdec, Nat.add_one_sub_one,
      not_true_eq_false, if_false]
  · have he := String.utf8EncodeChar_eq_cons_cons_cons_cons h
    rw [he] at hdec ⊢
    simp only [List.cons_append, List.nil_append, readCharFromBytes, from_lead4, from_cont,
      Utf8Position.len, takeContinuation, Utf8Position.isContinuation, hdec, Nat.add_one_sub_one,
      not_true_eq_false, if_false]

end Lace.C14
