/-
  C15 helper: the word `AsmLine::emit` builds for each statement form decodes (ISA specification,
  `Lace.ISA.decode`) to that instruction with those fields.  One lemma per form, in exactly the shape
  `emit` produces; by exhaustive kernel evaluation over the operand fields.
-/
import Lace.Model.Air
import Lace.Spec.ISA
import Lace.Proofs.EncodeBits
namespace Lace.Asm
open Lace.ISA

theorem dec_add_reg (d s r : BitVec 3) :
    decode (0x1000#16 ||| regBits d 9 ||| regBits s 6 ||| r.setWidth 16) = .add d s r := by
  revert d s r; decide +kernel
theorem dec_add_imm (d s : BitVec 3) (i : BitVec 5) :
    decode (0x1000#16 ||| regBits d 9 ||| regBits s 6 ||| (i.setWidth 16 ||| 0b100000#16)) = .addi d s i := by
  revert d s i; decide +kernel
theorem dec_and_reg (d s r : BitVec 3) :
    decode (0x5000#16 ||| regBits d 9 ||| regBits s 6 ||| r.setWidth 16) = .and d s r := by
  revert d s r; decide +kernel
theorem dec_and_imm (d s : BitVec 3) (i : BitVec 5) :
    decode (0x5000#16 ||| regBits d 9 ||| regBits s 6 ||| (i.setWidth 16 ||| 0b100000#16)) = .andi d s i := by
  revert d s i; decide +kernel
theorem dec_not (d s : BitVec 3) :
    decode (0x9000#16 ||| regBits d 9 ||| regBits s 6 ||| 0b111111#16) = .not d s := by
  revert d s; decide +kernel
theorem dec_ldr (d s : BitVec 3) (o : BitVec 6) :
    decode (0x6000#16 ||| regBits d 9 ||| regBits s 6 ||| o.setWidth 16) = .ldr d s o := by
  revert d s o; decide +kernel
theorem dec_str (d s : BitVec 3) (o : BitVec 6) :
    decode (0x7000#16 ||| regBits d 9 ||| regBits s 6 ||| o.setWidth 16) = .str d s o := by
  revert d s o; decide +kernel
theorem dec_jmp (s : BitVec 3) : decode (0xC000#16 ||| regBits s 6) = .jmp s := by
  revert s; decide +kernel
theorem dec_ret : decode 0xC1C0#16 = .jmp 7#3 := by decide +kernel
theorem dec_jsrr (s : BitVec 3) : decode (0x4000#16 ||| regBits s 6) = .jsrr s := by
  revert s; decide +kernel
theorem dec_push (s : BitVec 3) : decode (0xD000#16 ||| 0x0400#16 ||| regBits s 6) = .push s := by
  revert s; decide +kernel
theorem dec_pop (s : BitVec 3) : decode (0xD000#16 ||| regBits s 6) = .pop s := by
  revert s; decide +kernel
theorem dec_rets : decode (0xD000#16 ||| 0x0800#16) = .rets := by decide +kernel
theorem dec_trap (v : BitVec 8) : decode (0xF000#16 ||| v.setWidth 16) = .trap v := by
  revert v; decide +kernel
theorem dec_ld (d : BitVec 3) (x : BitVec 9) :
    decode (0x2000#16 ||| regBits d 9 ||| x.setWidth 16) = .ld d x := by revert d x; decide +kernel
theorem dec_ldi (d : BitVec 3) (x : BitVec 9) :
    decode (0xA000#16 ||| regBits d 9 ||| x.setWidth 16) = .ldi d x := by revert d x; decide +kernel
theorem dec_lea (d : BitVec 3) (x : BitVec 9) :
    decode (0xE000#16 ||| regBits d 9 ||| x.setWidth 16) = .lea d x := by revert d x; decide +kernel
theorem dec_st (d : BitVec 3) (x : BitVec 9) :
    decode (0x3000#16 ||| regBits d 9 ||| x.setWidth 16) = .st d x := by revert d x; decide +kernel
theorem dec_sti (d : BitVec 3) (x : BitVec 9) :
    decode (0xB000#16 ||| regBits d 9 ||| x.setWidth 16) = .sti d x := by revert d x; decide +kernel
theorem dec_jsr (x : BitVec 11) : decode (0x4800#16 ||| x.setWidth 16) = .jsr x := by
  revert x; decide +kernel
theorem dec_call (x : BitVec 10) : decode (0xD000#16 ||| 0x0C00#16 ||| x.setWidth 16) = .call x := by
  revert x; decide +kernel

end Lace.Asm
