/- `s_ext(instr, 10)` (mask / `!sign + 1` trick) is sign extension of the low 10 bits:
   exhaustive kernel evaluation over all 65,536 words. -/
import Lace.Proofs.AllRange
import Lace.Spec.ISA
import Lace.Model.VM
namespace Lace
theorem sExt_10 (w : Word) : VM.sExt w 10 = ISA.sext (w.extractLsb' 0 10) := by
  have := forall_word_of_allRange (fun w => VM.sExt w 10 == ISA.sext (w.extractLsb' 0 10))
    (by decide +kernel) w
  simpa using this
end Lace
